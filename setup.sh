#!/bin/sh
# Offline setup: pre-build the harness of every check registered in MANIFEST.json so that the
# first check does not pay the cold build (go1.26.8, module cache only, no network).
cd "$(dirname "$0")" || exit 1
mkdir -p .scratch .bin .gocache evidence
ok=0
for id in $(python3 -c "import json;print(' '.join(c['property_id'] for c in json.load(open('MANIFEST.json'))['checks']))"); do
  ./check "$id" --build-only || ok=1
done
exit $ok

#!/bin/sh
# Offline setup: pre-build every harness so that the first check does not pay the cold build.
cd "$(dirname "$0")" || exit 1
mkdir -p .scratch .bin .gocache evidence
ok=0
for d in mc/h/*/; do
  id=$(basename "$d" | tr a-z A-Z)
  ./check "$id" --build-only || ok=1
done
exit $ok

package resources

import (
	"testing"

	"github.com/DistCompiler/pgo/distsys/tla"
)

// gcounter.tla's update is `assert $value > 0; yield [$variable EXCEPT ![self] = $variable[self] + $value]`.
// GCounter.Write has lost the assertion: a non-positive amount is accepted silently (the overflow case, by
// contrast, now fails loudly), the state goes DOWN the merge order, and the next merge with any peer that saw
// the earlier state silently undoes the update.
func TestHunt4GCounterNonPositiveUpdate(t *testing.T) {
	a := tla.MakeString("A")

	s0 := GCounter{}.Init().Write(a, tla.MakeNumber(5)) // A: +5
	peer := GCounter{}.Init().Merge(s0)                 // B has received A's state
	s1 := s0.Write(a, tla.MakeNumber(-2))               // A: local update of -2, accepted without any error

	if got := s0.Merge(s1).Read(); !got.Equal(s1.Read()) {
		t.Errorf("C12 violated (a local update never moves a state down the merge order): "+
			"state before the update reads %v, after it %v, yet merge(before, after) reads %v, not the state after",
			s0.Read(), s1.Read(), got)
	}
	if got := s1.Merge(peer).Read(); !got.Equal(tla.MakeNumber(3)) {
		t.Errorf("C12 violated (the counter reads the sum of all increments): updates +5 and -2 were both accepted, "+
			"sum 3, but after merging the echo of a peer the counter reads %v", got)
	}
}

package resources

import (
	"bytes"
	"encoding/gob"
	"testing"
	"time"

	"github.com/DistCompiler/pgo/distsys/tla"
)

func hunt4LWWReq(cmd int32, elem tla.Value) tla.Value {
	return tla.MakeRecord([]tla.RecordField{
		{Key: cmdKey, Value: tla.MakeNumber(cmd)},
		{Key: elemKey, Value: elem},
	})
}

// hunt4LWWFrom builds the state a peer broadcasts after ONE local update of elem, made when the peer's own
// clock read ts, and passes it through gob exactly as crdt.broadcast does (ReceiveValueArgs).
func hunt4LWWFrom(t *testing.T, cmd int32, elem tla.Value, ts time.Time) LWWSet {
	s := LWWSet{}.Init().(LWWSet)
	switch cmd {
	case addOp:
		s.addSet = s.addSet.Set(elem, ts) // what Write does, with the peer's time.Now() == ts
	case remOp:
		s.remSet = s.remSet.Set(elem, ts)
	}
	var buf bytes.Buffer
	if err := gob.NewEncoder(&buf).Encode(ReceiveValueArgs{Value: s}); err != nil {
		t.Fatal(err)
	}
	var out ReceiveValueArgs
	if err := gob.NewDecoder(&buf).Decode(&out); err != nil {
		t.Fatal(err)
	}
	return out.Value.(LWWSet)
}

func hunt4LWWEqual(a, b LWWSet) bool {
	same := func(m1, m2 interface {
		Len() int
	}) bool {
		return m1.Len() == m2.Len()
	}
	if !same(a.addSet, b.addSet) || !same(a.remSet, b.remSet) {
		return false
	}
	it := a.addSet.Iterator()
	for !it.Done() {
		k, v, _ := it.Next()
		if w, ok := b.addSet.Get(k); !ok || !w.Equal(v) {
			return false
		}
	}
	it = a.remSet.Iterator()
	for !it.Done() {
		k, v, _ := it.Next()
		if w, ok := b.remSet.Get(k); !ok || !w.Equal(v) {
			return false
		}
	}
	return true
}

// Replica B's clock is ahead of replica A's (here one hour; any skew larger than the delivery delay does).
// B adds x, A merges B's broadcast, then A adds x itself.
func TestHunt4LWWLocalUpdateMovesStateDown(t *testing.T) {
	x := tla.MakeString("x")
	idA := tla.MakeString("A")

	fromB := hunt4LWWFrom(t, addOp, x, time.Now().Add(time.Hour))

	before := LWWSet{}.Init().Merge(fromB).(LWWSet)
	after := before.Write(idA, hunt4LWWReq(addOp, x)).(LWWSet)

	// "a local update never moves a state down the merge order": after must be >= before, i.e.
	// before.Merge(after) == after
	if joined := before.Merge(after).(LWWSet); !hunt4LWWEqual(joined, after) {
		tb, _ := before.addSet.Get(x)
		ta, _ := after.addSet.Get(x)
		t.Fatalf("C12 violated (a local update never moves a state down the merge order): "+
			"before the local add addSet[x]=%v, after it addSet[x]=%v, which is %v EARLIER; "+
			"merge(before, after) != after", tb, ta, tb.Sub(ta))
	}
}

// Same history; afterwards a third replica C removes x at a time between A's and B's timestamps.
// Two copies of A that received exactly the same updates (B's add, A's own add, C's remove) differ only in
// that B's broadcast reached the second one twice.
func TestHunt4LWWDuplicateDeliveryChangesRead(t *testing.T) {
	x := tla.MakeString("x")
	idA := tla.MakeString("A")
	now := time.Now()

	fromB := hunt4LWWFrom(t, addOp, x, now.Add(time.Hour))
	fromC := hunt4LWWFrom(t, remOp, x, now.Add(30*time.Minute))

	a := LWWSet{}.Init().Merge(fromB).Write(idA, hunt4LWWReq(addOp, x))

	once := a.Merge(fromC)
	twice := a.Merge(fromB).Merge(fromC) // B's broadcast delivered a second time (broadcasts repeat every tick)

	if r1, r2 := once.Read(), twice.Read(); !r1.Equal(r2) {
		t.Fatalf("C12 violated (replicas that have received the same updates read the same value regardless of "+
			"delivery order or duplication): B's add delivered once -> %v, delivered twice -> %v", r1, r2)
	}
}

package resources

import (
	"os"
	"os/exec"
	"strings"
	"sync"
	"testing"
	"time"

	"github.com/DistCompiler/pgo/distsys"
	"github.com/DistCompiler/pgo/distsys/tla"
	"github.com/DistCompiler/pgo/distsys/trace"
)

// Vector clocks are only produced when PGO_TRACE_DIR is in the environment when the
// process starts (tla.vClocksEnabled is computed in an init function).  If it is not set,
// re-run this very test in a child process with tracing enabled and relay its verdict.
func huntC18WithTracing(t *testing.T) bool {
	t.Helper()
	if os.Getenv("PGO_TRACE_DIR") != "" {
		return true
	}
	cmd := exec.Command(os.Args[0], "-test.run=^"+t.Name()+"$", "-test.count=1", "-test.v")
	cmd.Env = append(os.Environ(), "PGO_TRACE_DIR="+t.TempDir())
	out, err := cmd.CombinedOutput()
	for _, line := range strings.Split(string(out), "\n") {
		if strings.Contains(line, "C18 violated") || strings.Contains(line, "panic:") {
			t.Log(strings.TrimSpace(line))
		}
	}
	if err != nil {
		t.Fatalf("with tracing enabled (PGO_TRACE_DIR set) the test fails: %v", err)
	}
	return false
}

type huntC18MemRecorder struct {
	lock   sync.Mutex
	events []trace.Event
}

func (rec *huntC18MemRecorder) RecordEvent(event trace.Event) {
	rec.lock.Lock()
	defer rec.lock.Unlock()
	// the Elements slice is reused by the caller: keep a private copy
	event.Elements = append([]trace.Element(nil), event.Elements...)
	rec.events = append(rec.events, event)
}

func (rec *huntC18MemRecorder) committed() []trace.Event {
	rec.lock.Lock()
	defer rec.lock.Unlock()
	var result []trace.Event
	for _, event := range rec.events {
		if !event.IsAbort {
			result = append(result, event)
		}
	}
	return result
}

// archetype ASender(ref out, ref in) { snd: out := 1; dummy := in; }   -- one critical section
// archetype ASource(ref out)        { src: out := 7; }
// archetype AReader(ref in)         { rd:  x := in; }
var huntC18JumpTable = distsys.MakeMPCalJumpTable(
	distsys.MPCalCriticalSection{
		Name: "ASource.src",
		Body: func(iface distsys.ArchetypeInterface) error {
			out, err := iface.RequireArchetypeResourceRef("ASource.out")
			if err != nil {
				return err
			}
			err = iface.Write(out, nil, tla.MakeNumber(7))
			if err != nil {
				return err
			}
			return iface.Goto("ASource.Done")
		},
	},
	distsys.MPCalCriticalSection{
		Name: "ASource.Done",
		Body: func(distsys.ArchetypeInterface) error { return distsys.ErrDone },
	},
	distsys.MPCalCriticalSection{
		Name: "ASender.snd",
		Body: func(iface distsys.ArchetypeInterface) error {
			out, err := iface.RequireArchetypeResourceRef("ASender.out")
			if err != nil {
				return err
			}
			in, err := iface.RequireArchetypeResourceRef("ASender.in")
			if err != nil {
				return err
			}
			// out := 1;
			err = iface.Write(out, nil, tla.MakeNumber(1))
			if err != nil {
				return err
			}
			// ... then, still in the same critical section, read what ASource sent
			_, err = iface.Read(in, nil)
			if err != nil {
				return err
			}
			return iface.Goto("ASender.Done")
		},
	},
	distsys.MPCalCriticalSection{
		Name: "ASender.Done",
		Body: func(distsys.ArchetypeInterface) error { return distsys.ErrDone },
	},
	distsys.MPCalCriticalSection{
		Name: "AReader.rd",
		Body: func(iface distsys.ArchetypeInterface) error {
			in, err := iface.RequireArchetypeResourceRef("AReader.in")
			if err != nil {
				return err
			}
			_, err = iface.Read(in, nil)
			if err != nil {
				return err
			}
			return iface.Goto("AReader.Done")
		},
	},
	distsys.MPCalCriticalSection{
		Name: "AReader.Done",
		Body: func(distsys.ArchetypeInterface) error { return distsys.ErrDone },
	},
)

func huntC18Archetype(name, label string, refs ...string) distsys.MPCalArchetype {
	var refParams []string
	for _, ref := range refs {
		refParams = append(refParams, name+"."+ref)
	}
	return distsys.MPCalArchetype{
		Name:              name,
		Label:             name + "." + label,
		RequiredRefParams: refParams,
		RequiredValParams: []string{},
		JumpTable:         huntC18JumpTable,
		ProcTable:         distsys.MakeMPCalProcTable(),
		PreAmble:          func(distsys.ArchetypeInterface) {},
	}
}

func huntC18Dominates(big, small tla.VClock, keys [][2]interface{}) (bool, string) {
	for _, key := range keys {
		name, self := key[0].(string), key[1].(tla.Value)
		if big.Get(name, self) < small.Get(name, self) {
			return false, name
		}
	}
	return true, ""
}

// Three archetypes connected by Go channels, run strictly one after the other (no concurrency at all):
//
//	ASource --OutputChan--> ASender --SingleOutputChan--> AReader
//
// ASender's only critical section first writes to AReader, then reads ASource's message.
func TestHuntC18_SingleOutputChanReceiverDominatesSender(t *testing.T) {
	if !huntC18WithTracing(t) {
		return
	}

	srcToSnd := make(chan tla.Value, 1)
	sndToRd := make(chan tla.Value, 1)

	recSource, recSender, recReader := &huntC18MemRecorder{}, &huntC18MemRecorder{}, &huntC18MemRecorder{}
	selfSource, selfSender, selfReader := tla.MakeNumber(1), tla.MakeNumber(2), tla.MakeNumber(3)

	ctxSource := distsys.NewMPCalContext(selfSource, huntC18Archetype("ASource", "src", "out"),
		distsys.EnsureArchetypeRefParam("out", NewOutputChan(srcToSnd)),
		distsys.SetTraceRecorder(recSource))
	ctxSender := distsys.NewMPCalContext(selfSender, huntC18Archetype("ASender", "snd", "out", "in"),
		distsys.EnsureArchetypeRefParam("out", NewSingleOutputChan(sndToRd)),
		distsys.EnsureArchetypeRefParam("in", NewInputChan(srcToSnd, WithInputChanReadTimeout(time.Minute))),
		distsys.SetTraceRecorder(recSender))
	ctxReader := distsys.NewMPCalContext(selfReader, huntC18Archetype("AReader", "rd", "in"),
		distsys.EnsureArchetypeRefParam("in", NewInputChan(sndToRd, WithInputChanReadTimeout(time.Minute))),
		distsys.SetTraceRecorder(recReader))

	for _, ctx := range []*distsys.MPCalContext{ctxSource, ctxSender, ctxReader} {
		if err := ctx.Run(); err != nil {
			t.Fatalf("run of %v failed: %v", ctx.IFace().Self(), err)
		}
	}

	senderEvents, readerEvents := recSender.committed(), recReader.committed()
	if len(senderEvents) != 1 || len(readerEvents) != 1 {
		t.Fatalf("expected exactly one committed attempt each, got sender=%d reader=%d", len(senderEvents), len(readerEvents))
	}
	sent, received := senderEvents[0], readerEvents[0]

	// sanity: the reader really read the value the sender wrote
	if w, ok := sent.Elements[1].(trace.WriteElement); !ok || !w.Value.Equal(tla.MakeNumber(1)) {
		t.Fatalf("unexpected sender log %v", sent.Elements)
	}
	if r, ok := received.Elements[1].(trace.ReadElement); !ok || !r.Value.Equal(tla.MakeNumber(1)) {
		t.Fatalf("unexpected reader log %v", received.Elements)
	}

	keys := [][2]interface{}{{"ASource", selfSource}, {"ASender", selfSender}, {"AReader", selfReader}}
	if ok, component := huntC18Dominates(received.Clock, sent.Clock, keys); !ok {
		t.Fatalf("C18 violated (an attempt that read a value sent by another attempt must carry a vector clock that dominates the writer's): "+
			"AReader's attempt read the value 1 that ASender's attempt wrote to a SingleOutputChan, "+
			"but the reader logged clock %v and the writer logged clock %v (component %s is smaller)",
			received.Clock, sent.Clock, component)
	}
}

package procedurespaghetti

import (
	"fmt"
	"sync"
	"testing"

	"github.com/DistCompiler/pgo/distsys"
	"github.com/DistCompiler/pgo/distsys/tla"
	"github.com/DistCompiler/pgo/distsys/trace"
)

type huntC18Recorder struct {
	lock   sync.Mutex
	events []trace.Event
}

func (rec *huntC18Recorder) RecordEvent(event trace.Event) {
	rec.lock.Lock()
	defer rec.lock.Unlock()
	// the Elements slice is reused by the caller: keep a private copy
	event.Elements = append([]trace.Element(nil), event.Elements...)
	rec.events = append(rec.events, event)
}

func huntC18ElemName(prefix, name string) string {
	if prefix == "" {
		return name
	}
	return prefix + "." + name
}

// TestHuntC18_RefParamTraceReplay runs the repository's own PGo-generated ProcedureSpaghetti program
// (archetype Arch1(ref e, f) { Arch1lbl: call Proc1(ref e, f); }, where Proc1(ref a, b) calls Proc2(ref a_))
// with tracing on, exactly like the existing TestArch1 does, and replays the log:
// every variable here is archetype-local state (e is a plain LocalArchetypeResource), nothing ever aborts,
// there is one archetype and no concurrency.
func TestHuntC18_RefParamTraceReplay(t *testing.T) {
	rec := &huntC18Recorder{}
	ctx := distsys.NewMPCalContext(tla.MakeString("self"), Arch1,
		distsys.EnsureArchetypeRefParam("e", distsys.NewLocalArchetypeResource(tla.MakeNumber(13))),
		distsys.EnsureArchetypeValueParam("f", tla.MakeNumber(21)),
		distsys.SetTraceRecorder(rec))
	if err := ctx.Run(); err != nil {
		t.Fatal(err)
	}

	// replay: last committed write per variable name
	state := make(map[string]tla.Value)
	var problems []string
	for evIdx, event := range rec.events {
		if event.IsAbort {
			t.Fatalf("unexpected abort in event %d", evIdx)
		}
		for elIdx, element := range event.Elements {
			switch element := element.(type) {
			case trace.ReadElement:
				name := huntC18ElemName(element.Prefix, element.Name)
				if len(element.Indices) != 0 {
					t.Fatalf("unexpected indices")
				}
				if replayed, written := state[name]; written && !replayed.Equal(element.Value.StripVClock()) {
					problems = append(problems, fmt.Sprintf(
						"attempt %d element %d: logged read of %s yields %v, but replaying the logged writes gives %s = %v",
						evIdx+1, elIdx+1, name, element.Value, name, replayed))
				}
			case trace.WriteElement:
				name := huntC18ElemName(element.Prefix, element.Name)
				if len(element.Indices) != 0 {
					t.Fatalf("unexpected indices")
				}
				if replayed, written := state[name]; written && element.OldValueHint != nil && !replayed.Equal(*element.OldValueHint) {
					problems = append(problems, fmt.Sprintf(
						"attempt %d element %d: logged write of %s := %v carries previous-value hint %v, but replaying the logged writes gives %s = %v",
						evIdx+1, elIdx+1, name, element.Value, *element.OldValueHint, name, replayed))
				}
				state[name] = element.Value
			}
		}
	}
	if len(problems) != 0 {
		msg := "C18 violated (replaying the committed writes must reproduce every logged read of archetype-local state, and the previous-value hints):"
		for _, problem := range problems {
			msg += "\n\t" + problem
		}
		t.Fatal(msg)
	}
}

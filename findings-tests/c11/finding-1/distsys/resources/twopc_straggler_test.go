package resources

// Hunt C11: a Commit or Abort that could not be delivered to a replica is given up for good as
// soon as the sender's own version moves on (broadcastAbortOrCommit: `for shouldRetry()`).
// For a Commit the sender's version moves on right after a majority answered, so a straggler
// is in practice never retried; for an Abort it moves on when another proposer's Commit reaches
// the aborting proposer.  The replica that missed the message keeps the accepted PreCommit for
// ever: it never installs the version, is never released, and every critical section of its
// own aborts locally, although every replica is reachable again.

import (
	"errors"
	"fmt"
	"runtime"
	"sync"
	"testing"
	"time"

	"github.com/DistCompiler/pgo/distsys"
	"github.com/DistCompiler/pgo/distsys/tla"
)

// flakyLink is a ReplicaHandle in front of a real handle (in-process or RPC). While `down`
// is set, every message is lost: the real handle is not invoked and the sender gets an error,
// as it does from a broken connection or an RPC timeout. Messages of one type can additionally
// be held back (pure delay) until the channel in `hold` is closed.
type flakyLink struct {
	inner ReplicaHandle

	mu      sync.Mutex
	down    bool
	lost    []TwoPCRequestType
	hold    map[TwoPCRequestType]chan struct{} // messages of that type wait for the channel to be closed
	arrived map[TwoPCRequestType]int           // Send calls, counted on entry
	count   map[TwoPCRequestType]int           // Send calls, counted when past the hold
}

func newFlakyLink(inner ReplicaHandle) *flakyLink {
	return &flakyLink{
		inner:   inner,
		hold:    make(map[TwoPCRequestType]chan struct{}),
		arrived: make(map[TwoPCRequestType]int),
		count:   make(map[TwoPCRequestType]int),
	}
}

func (l *flakyLink) Close() error { return l.inner.Close() }

func (l *flakyLink) Send(request TwoPCRequest, reply *TwoPCResponse) chan error {
	l.mu.Lock()
	l.arrived[request.RequestType]++
	hold := l.hold[request.RequestType]
	l.mu.Unlock()
	if hold != nil {
		<-hold
	}
	l.mu.Lock()
	l.count[request.RequestType]++
	if l.down {
		l.lost = append(l.lost, request.RequestType)
		l.mu.Unlock()
		ch := make(chan error, 1)
		ch <- errors.New("simulated message loss")
		return ch
	}
	l.mu.Unlock()
	return l.inner.Send(request, reply)
}

func (l *flakyLink) setDown(down bool) {
	l.mu.Lock()
	defer l.mu.Unlock()
	l.down = down
}

func (l *flakyLink) holdBack(typ TwoPCRequestType, until chan struct{}) {
	l.mu.Lock()
	defer l.mu.Unlock()
	l.hold[typ] = until
}

func (l *flakyLink) numArrived(typ TwoPCRequestType) int {
	l.mu.Lock()
	defer l.mu.Unlock()
	return l.arrived[typ]
}

func (l *flakyLink) numLost() int {
	l.mu.Lock()
	defer l.mu.Unlock()
	return len(l.lost)
}

func (l *flakyLink) attempts(typ TwoPCRequestType) int {
	l.mu.Lock()
	defer l.mu.Unlock()
	return l.count[typ]
}

type stragglerCluster struct {
	nodes   map[string]*TwoPCArchetypeResource
	links   map[string]*flakyLink // "A->C"
	cleanup []func()
}

// newStragglerCluster builds fully connected 2PC replicas with initial value 0. Every link goes
// through a flakyLink; transport is "local" (LocalReplicaHandle) or "rpc" (RPCReplicaHandle
// to a real TwoPCReceiver on an ephemeral localhost port).
func newStragglerCluster(t *testing.T, transport string, names ...string) *stragglerCluster {
	cl := &stragglerCluster{
		nodes: make(map[string]*TwoPCArchetypeResource),
		links: make(map[string]*flakyLink),
	}
	addrs := make(map[string]string)
	for _, name := range names {
		node := makeUnreplicatedTwoPCNamed(tla.MakeNumber(0), name)
		cl.nodes[name] = node
		if transport == "rpc" {
			rcvr := makeTwoPCReceiver(node, "127.0.0.1:0")
			node.receiver = &rcvr
			if err := rcvr.listenAndServe(); err != nil {
				t.Fatalf("listen: %v", err)
			}
			addrs[name] = rcvr.listener.Addr().String()
			listener := rcvr.listener
			cl.cleanup = append(cl.cleanup, func() { listener.Close() })
		}
	}
	for _, from := range names {
		var handles []ReplicaHandle
		for _, to := range names {
			if to == from {
				continue
			}
			var inner ReplicaHandle
			if transport == "rpc" {
				h := MakeRPCReplicaHandle(addrs[to], cl.nodes[from].archetypeID)
				inner = &h
				cl.cleanup = append(cl.cleanup, func() { h.Close() })
			} else {
				inner = makeLocalReplicaHandle(cl.nodes[to])
			}
			link := newFlakyLink(inner)
			cl.links[from+"->"+to] = link
			handles = append(handles, link)
		}
		cl.nodes[from].SetReplicas(handles)
	}
	return cl
}

func (cl *stragglerCluster) close() {
	for _, f := range cl.cleanup {
		f()
	}
}

type twoPCSnapshot struct {
	version    int
	value      tla.Value
	twoPCState TwoPCState
	acceptedOf string
	inFlight   int
}

func (s twoPCSnapshot) String() string {
	return fmt.Sprintf("{version %d, value %v, 2PC state %v, accepted from %q, requests in flight %d}",
		s.version, s.value, s.twoPCState, s.acceptedOf, s.inFlight)
}

func snapshotOf(node *TwoPCArchetypeResource) twoPCSnapshot {
	node.enterMutex("testSnapshot", read)
	defer node.leaveMutex("testSnapshot", read)
	s := twoPCSnapshot{
		version:    node.version,
		value:      node.oldValue,
		twoPCState: node.twoPCState,
		inFlight:   node.numInFlightRequests,
	}
	if node.twoPCState == acceptedPreCommit {
		s.acceptedOf = node.acceptedPreCommit.Sender.String()
	}
	return s
}

func waitFor(t *testing.T, what string, cond func() bool) {
	t.Helper()
	deadline := time.Now().Add(60 * time.Second)
	for !cond() {
		if time.Now().After(deadline) {
			t.Fatalf("test harness: timed out waiting for %s", what)
		}
		time.Sleep(5 * time.Millisecond)
	}
}

// settleThenHeal waits until `sender` has stopped trying to reach the replica behind `link`
// (no request of it in flight any more), or, for an implementation that keeps retrying, until 3
// further retransmissions were lost; only then the link comes back up, and we wait for the
// sender to become quiet. From that moment on nothing is lost or delayed any more.
func settleThenHeal(t *testing.T, sender *TwoPCArchetypeResource, link *flakyLink) {
	t.Helper()
	lostBefore := link.numLost()
	waitFor(t, "the sender to give up or to retransmit 3 more times", func() bool {
		return snapshotOf(sender).inFlight == 0 || link.numLost() >= lostBefore+3
	})
	link.setDown(false)
	waitFor(t, "the sender to become quiet after the link healed", func() bool {
		return snapshotOf(sender).inFlight == 0
	})
}

// runSections runs up to `max` critical sections "x := x + 100" on node the way MPCalContext
// does (read, write, PreCommit, then Commit or Abort) and reports how many were needed.
func runSections(node *TwoPCArchetypeResource, max int) (committedAfter int, lastErr error) {
	iface := distsys.ArchetypeInterface{}
	for i := 1; i <= max; i++ {
		v, err := node.ReadValue(iface)
		if err == nil {
			err = node.WriteValue(iface, tla.MakeNumber(v.AsNumber()+100))
		}
		if err == nil {
			err = <-node.PreCommit(iface)
		}
		if err != nil {
			lastErr = err
			node.Abort(iface)
			continue
		}
		node.Commit(iface)
		return i, nil
	}
	return 0, lastErr
}

// 3 replicas A, B, C. A pre-commits version 1 (B and C accept), then C is unreachable from A for
// a moment while A commits: B acknowledges, A's Commit to C is lost. The link heals. Every
// replica is reachable, nobody else is writing.
func testLostCommit(t *testing.T, transport string) {
	cl := newStragglerCluster(t, transport, "A", "B", "C")
	defer cl.close()
	a, c := cl.nodes["A"], cl.nodes["C"]
	iface := distsys.ArchetypeInterface{}

	if err := a.WriteValue(iface, tla.MakeNumber(1)); err != nil {
		t.Fatal(err)
	}
	if err := <-a.PreCommit(iface); err != nil {
		t.Fatalf("harness: A's PreCommit failed: %v", err)
	}
	waitFor(t, "B and C to have answered A's PreCommit", func() bool {
		return snapshotOf(a).inFlight == 0
	})
	if s := snapshotOf(c); s.twoPCState != acceptedPreCommit || s.acceptedOf != a.archetypeID.String() {
		t.Fatalf("harness: C did not accept A's PreCommit: %v", s)
	}

	cl.links["A->C"].setDown(true) // transient fault: messages A->C are lost
	a.Commit(iface)                // returns: B (a majority with A) acknowledged
	if s := snapshotOf(a); s.version != 1 {
		t.Fatalf("harness: A did not commit version 1: %v", s)
	}
	settleThenHeal(t, a, cl.links["A->C"])

	sc := snapshotOf(c)
	t.Logf("[%s] A sent Commit to C %d time(s), %d lost; C afterwards: version %d value %v, 2PC state %v (accepted from %q)",
		transport, cl.links["A->C"].attempts(Commit), cl.links["A->C"].numLost(), sc.version, sc.value, sc.twoPCState, sc.acceptedOf)
	if sc.version != 1 || !sc.value.Equal(tla.MakeNumber(1)) {
		t.Errorf("[%s] C11 'every replica installs the same value for each version' / 'behaves as a single copy': "+
			"A committed version 1 (value 1), the link A->C is up again and A is idle, but C is still at version %d with value %v: "+
			"A never re-sent the Commit that was lost (Commit attempts A->C: %d)",
			transport, sc.version, sc.value, cl.links["A->C"].attempts(Commit))
	}
	if sc.twoPCState != initial {
		t.Errorf("[%s] C11: C is still locked on the PreCommit of %s for version 1, a proposal that is long decided", transport, sc.acceptedOf)
	}

	n, err := runSections(c, 25)
	if n == 0 {
		t.Errorf("[%s] C11 'does not livelock ... contenders keep making progress' with all replicas reachable: "+
			"25 consecutive critical sections of C aborted (last error: %v); C state: %v", transport, err, snapshotOf(c))
	} else {
		t.Logf("[%s] C committed after %d section(s); C: %v", transport, n, snapshotOf(c))
	}
}

func TestTwoPCLostCommitIsResent(t *testing.T) {
	for _, transport := range []string{"local", "rpc"} {
		transport := transport
		t.Run(transport, func(t *testing.T) { testLostCommit(t, transport) })
	}
}

// 5 replicas. A and B both propose version 1. C accepts A; D and E accept B, so B wins and A's
// proposal is rejected. While A aborts and B commits, C is unreachable from A and B (their
// messages to C are lost): A's Abort and B's Commit do not get through. Then the links heal.
// The property demands that C, which accepted A's rejected proposal, is released.
func TestTwoPCLostAbortIsResent(t *testing.T) {
	cl := newStragglerCluster(t, "local", "A", "B", "C", "D", "E")
	defer cl.close()
	a, b, c := cl.nodes["A"], cl.nodes["B"], cl.nodes["C"]
	iface := distsys.ArchetypeInterface{}

	// A's PreCommit reaches C at once, and B, D, E only after B has gathered its majority.
	hold := make(chan struct{})
	for _, to := range []string{"B", "D", "E"} {
		cl.links["A->"+to].holdBack(PreCommit, hold)
	}
	if err := a.WriteValue(iface, tla.MakeNumber(10)); err != nil {
		t.Fatal(err)
	}
	aDone := a.PreCommit(iface)
	waitFor(t, "C to accept A's PreCommit", func() bool {
		s := snapshotOf(c)
		return s.twoPCState == acceptedPreCommit && s.acceptedOf == a.archetypeID.String()
	})

	// transient fault: C unreachable from A and from B
	cl.links["A->C"].setDown(true)
	cl.links["B->C"].setDown(true)

	if err := b.WriteValue(iface, tla.MakeNumber(20)); err != nil {
		t.Fatal(err)
	}
	if err := <-b.PreCommit(iface); err != nil {
		t.Fatalf("harness: B's PreCommit should win with D and E: %v", err)
	}
	close(hold)
	if err := <-aDone; err != distsys.ErrCriticalSectionAborted {
		t.Fatalf("harness: A's PreCommit should have been rejected, got %v", err)
	}
	a.Abort(iface) // what MPCalContext does with the aborted section

	// B commits. Its Commit reaches A first, D and E a little later (delay only, nothing is lost on
	// these links); the one to C is lost.
	holdCommit := make(chan struct{})
	cl.links["B->D"].holdBack(Commit, holdCommit)
	cl.links["B->E"].holdBack(Commit, holdCommit)
	bCommitted := make(chan struct{})
	go func() {
		b.Commit(iface)
		close(bCommitted)
	}()
	waitFor(t, "A to install B's version 1 and B's Commits to D and E to be under way", func() bool {
		return snapshotOf(a).version == 1 &&
			cl.links["B->D"].numArrived(Commit) == 1 && cl.links["B->E"].numArrived(Commit) == 1
	})
	close(holdCommit)
	<-bCommitted

	settleThenHeal(t, a, cl.links["A->C"])
	settleThenHeal(t, b, cl.links["B->C"])

	for _, name := range []string{"A", "B", "D", "E"} {
		if s := snapshotOf(cl.nodes[name]); s.version != 1 || !s.value.Equal(tla.MakeNumber(20)) {
			t.Fatalf("harness: %s should have version 1 value 20: %v", name, s)
		}
	}
	sc := snapshotOf(c)
	t.Logf("A->C: Abort attempts %d; B->C: Commit attempts %d; C afterwards: %s", cl.links["A->C"].attempts(Abort),
		cl.links["B->C"].attempts(Commit), sc)
	if sc.twoPCState != initial {
		t.Errorf("C11 'a rejected or aborted proposal is released by the replicas that accepted it': A's proposal for version 1 "+
			"was rejected (B won version 1) and A aborted it, all links are up again and A and B are idle, but C still holds "+
			"the accepted PreCommit of %s (Abort attempts A->C: %d, all while the link was down; none after A learnt version 1)",
			sc.acceptedOf, cl.links["A->C"].attempts(Abort))
	}
	if sc.version != 1 {
		t.Errorf("C11 'every replica installs the same value for each version': C never installed version 1 (C is at version %d); "+
			"B never re-sent its lost Commit (Commit attempts B->C: %d)", sc.version, cl.links["B->C"].attempts(Commit))
	}
	n, err := runSections(c, 25)
	if n == 0 {
		t.Errorf("C11 'so contenders keep making progress' with every replica reachable: 25 consecutive critical sections "+
			"of C aborted (last error: %v); C state: %v", err, snapshotOf(c))
	} else {
		t.Logf("C committed after %d section(s); C: %v", n, snapshotOf(c))
	}
}

// No fault at all: 5 in-process replicas, A pre-commits and commits version 1, nothing is lost,
// delayed or duplicated. broadcastAbortOrCommit starts one goroutine per replica, each of which
// first checks "is my version still the one I started with" before it sends for the first time.
// Commit() returns and bumps the version as soon as 2 of the 4 have answered, so a goroutine that
// gets to run only after that never sends its Commit. Which goroutines run late is up to the Go
// scheduler; with one P the order is fixed (the first two started goroutines finish their
// in-process Send before the other two are scheduled), so the test pins GOMAXPROCS to 1.
func TestTwoPCCommitIsSentToEveryReplica(t *testing.T) {
	defer runtime.GOMAXPROCS(runtime.GOMAXPROCS(1))
	cl := newStragglerCluster(t, "local", "A", "B", "C", "D", "E")
	defer cl.close()
	a := cl.nodes["A"]
	iface := distsys.ArchetypeInterface{}

	if err := a.WriteValue(iface, tla.MakeNumber(1)); err != nil {
		t.Fatal(err)
	}
	if err := <-a.PreCommit(iface); err != nil {
		t.Fatalf("harness: A's PreCommit failed: %v", err)
	}
	waitFor(t, "all replicas to have answered A's PreCommit", func() bool { return snapshotOf(a).inFlight == 0 })
	a.Commit(iface)
	waitFor(t, "A to become quiet", func() bool { return snapshotOf(a).inFlight == 0 })

	for _, name := range []string{"B", "C", "D", "E"} {
		s := snapshotOf(cl.nodes[name])
		sent := cl.links["A->"+name].attempts(Commit)
		t.Logf("%s: Commit messages sent by A: %d; state %v", name, sent, s)
		if s.version != 1 || s.twoPCState != initial {
			t.Errorf("C11 'every replica installs the same value for each version' (no message lost, delayed or duplicated): "+
				"A committed version 1 and is idle, but %s is at version %d and still holds the accepted PreCommit of %s; "+
				"A sent it %d Commit message(s)", name, s.version, s.acceptedOf, sent)
			if n, err := runSections(cl.nodes[name], 25); n == 0 {
				t.Errorf("C11 'does not livelock': 25 consecutive critical sections of %s aborted (%v)", name, err)
			}
		}
	}
}

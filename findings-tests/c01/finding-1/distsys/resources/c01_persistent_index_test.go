package resources

import (
	"bytes"
	"encoding/gob"
	"testing"

	"github.com/DistCompiler/pgo/distsys"
	"github.com/DistCompiler/pgo/distsys/tla"
	"github.com/dgraph-io/badger/v3"
)

// C01: "if it commits, all of its effects on all resources become visible", for every mix of
// reads/writes/indexed accesses and every resource kind, persistent wrappers included.
//
// The archetype below is what PGo generates for
//
//	archetype APersist(ref x) {
//	  l1: x := [a |-> 1, b |-> 1];
//	  l2: x["a"] := 2;          \* indexed write to the same persistent variable
//	  l3: x["b"] := 3;          \* a section that fails once (false await) and then commits
//	}
//
// Every section commits.  After each commit the value kept by the Persistent wrapper in its
// store must be the committed value of x.
func c01PersistArchetype(failOnce *bool) distsys.MPCalArchetype {
	str := tla.MakeString
	num := tla.MakeNumber
	var jt distsys.MPCalJumpTable
	jt = distsys.MakeMPCalJumpTable(
		distsys.MPCalCriticalSection{
			Name: "APersist.l1",
			Body: func(iface distsys.ArchetypeInterface) error {
				x, err := iface.RequireArchetypeResourceRef("APersist.x")
				if err != nil {
					return err
				}
				err = iface.Write(x, nil, tla.MakeRecord([]tla.RecordField{
					{Key: str("a"), Value: num(1)},
					{Key: str("b"), Value: num(1)},
				}))
				if err != nil {
					return err
				}
				return iface.Goto("APersist.l2")
			},
		},
		distsys.MPCalCriticalSection{
			Name: "APersist.l2",
			Body: func(iface distsys.ArchetypeInterface) error {
				x, err := iface.RequireArchetypeResourceRef("APersist.x")
				if err != nil {
					return err
				}
				err = iface.Write(x, []tla.Value{str("a")}, num(2))
				if err != nil {
					return err
				}
				return iface.Goto("APersist.l3")
			},
		},
		distsys.MPCalCriticalSection{
			Name: "APersist.l3",
			Body: func(iface distsys.ArchetypeInterface) error {
				x, err := iface.RequireArchetypeResourceRef("APersist.x")
				if err != nil {
					return err
				}
				err = iface.Write(x, []tla.Value{str("b")}, num(3))
				if err != nil {
					return err
				}
				if *failOnce {
					*failOnce = false
					return distsys.ErrCriticalSectionAborted // a false await
				}
				return iface.Goto("APersist.Done")
			},
		},
		distsys.MPCalCriticalSection{
			Name: "APersist.Done",
			Body: func(distsys.ArchetypeInterface) error { return distsys.ErrDone },
		},
	)
	return distsys.MPCalArchetype{
		Name:              "APersist",
		Label:             "APersist.l1",
		RequiredRefParams: []string{"APersist.x"},
		RequiredValParams: []string{},
		JumpTable:         jt,
		ProcTable:         distsys.MakeMPCalProcTable(),
		PreAmble:          func(distsys.ArchetypeInterface) {},
	}
}

func c01ReadPersisted(t *testing.T, db *badger.DB, name string) tla.Value {
	var stored tla.Value
	err := db.View(func(txn *badger.Txn) error {
		item, err := txn.Get([]byte("pres-" + name))
		if err != nil {
			return err
		}
		return item.Value(func(val []byte) error {
			return gob.NewDecoder(bytes.NewBuffer(val)).Decode(&stored)
		})
	})
	if err != nil {
		t.Fatalf("could not read the persisted state of %s: %v", name, err)
	}
	return stored
}

func c01RunPersist(t *testing.T, mk func() Persistable) {
	db, err := badger.Open(badger.DefaultOptions("").WithInMemory(true).WithLoggingLevel(badger.ERROR))
	if err != nil {
		t.Fatal(err)
	}
	defer db.Close()

	inner := mk()
	failOnce := true
	ctx := distsys.NewMPCalContext(tla.MakeString("self"), c01PersistArchetype(&failOnce),
		distsys.EnsureArchetypeRefParam("x", MakePersistent("x", db, inner)))
	if err := ctx.Run(); err != nil {
		t.Fatalf("Run: %v", err)
	}

	// what the archetype itself (and every later section) sees
	var inMemory tla.Value
	{
		raw, err := inner.GetState()
		if err != nil {
			t.Fatal(err)
		}
		if err := gob.NewDecoder(bytes.NewBuffer(raw)).Decode(&inMemory); err != nil {
			t.Fatal(err)
		}
	}
	want := tla.MakeRecord([]tla.RecordField{
		{Key: tla.MakeString("a"), Value: tla.MakeNumber(2)},
		{Key: tla.MakeString("b"), Value: tla.MakeNumber(3)},
	})
	if !inMemory.Equal(want) {
		t.Fatalf("sanity: committed in-memory value of x is %v, expected %v", inMemory, want)
	}

	stored := c01ReadPersisted(t, db, "x")
	if !stored.Equal(want) {
		t.Fatalf("C01 violated (\"if it commits, all of its effects on all resources become visible\"): "+
			"sections l2 (x[\"a\"] := 2) and l3 (x[\"b\"] := 3) committed and x is %v, "+
			"but the Persistent wrapper's store still holds %v: the indexed writes of committed sections never reached it",
			inMemory, stored)
	}
}

func TestC01PersistentIndexedWriteIsPersisted_Local(t *testing.T) {
	c01RunPersist(t, func() Persistable {
		return distsys.NewLocalArchetypeResource(tla.MakeRecord(nil))
	})
}

func TestC01PersistentIndexedWriteIsPersisted_LocalShared(t *testing.T) {
	c01RunPersist(t, func() Persistable {
		return NewLocalSharedManager(tla.MakeRecord(nil)).MakeLocalShared()
	})
}

package resources

import (
	"fmt"
	"os"
	"os/exec"
	"strings"
	"sync"
	"testing"
	"time"

	"github.com/DistCompiler/pgo/distsys"
	"github.com/DistCompiler/pgo/distsys/tla"
)

// C01: "if the section fails at any point (... an operation ... timed out by any resource) none of
// its reads, writes, sends or receives is observable afterwards and the retry starts from exactly
// the state of the last commit", for nested-archetype resources too.
//
// Schedule of one round:
//  1. the outer section reads the nested resource; the nested system takes the request but needs
//     longer than nestedArchetypeTimeout, so the read times out and the outer section fails;
//  2. before MPCalContext.Run gets to roll the section back, the nested system finishes: its
//     read_ack is now buffered in receiveCh and the nested archetype is back waiting for its next
//     request (the outer goroutine is simply a bit slow here - it is gated by the test);
//  3. Run rolls the section back: nestedArchetype.Abort.
//
// In step 3 Abort's first select has two ready cases (send abort_req / receive the late ack) and
// Go picks one at random.  If it sends first, the late read_ack is then taken for the answer to
// abort_req and the goroutine panics: the process dies instead of retrying.  The test repeats the
// round c01f3Rounds times, so the pristine tree survives with probability about 2^-c01f3Rounds.

const c01f3Rounds = 40

type c01f3Hooks struct {
	lock       sync.Mutex
	reads      int
	blocked    bool          // the nested section is inside its slow phase
	gate       chan struct{} // released by the outer body once its read has timed out
	iterations int           // number of times the nested section body was entered
	answeredIn int           // value of iterations when the slow answer was produced
	slowRounds int
	nested     *nestedArchetype
}

func c01f3NestedArchetype(h *c01f3Hooks) distsys.MPCalArchetype {
	rec := func(tpe tla.Value, fields ...tla.RecordField) tla.Value {
		return tla.MakeRecord(append(fields, tla.RecordField{Key: tla.MakeString("tpe"), Value: tpe}))
	}
	jt := distsys.MakeMPCalJumpTable(
		distsys.MPCalCriticalSection{
			Name: "ANestedRes.loop",
			Body: func(iface distsys.ArchetypeInterface) error {
				h.lock.Lock()
				h.iterations++
				myIteration := h.iterations
				h.lock.Unlock()

				in, err := iface.RequireArchetypeResourceRef("ANestedRes.in")
				if err != nil {
					return err
				}
				out, err := iface.RequireArchetypeResourceRef("ANestedRes.out")
				if err != nil {
					return err
				}
				req, err := iface.Read(in, nil)
				if err != nil {
					return err
				}
				tpe := req.ApplyFunction(tla.MakeString("tpe"))
				var resp tla.Value
				switch {
				case tpe.Equal(nestedArchetypeReadReq):
					h.lock.Lock()
					h.reads++
					slow := h.reads%2 == 1
					var gate chan struct{}
					if slow {
						gate = make(chan struct{})
						h.gate = gate
						h.blocked = true
					}
					h.lock.Unlock()
					if slow {
						<-gate // a slow nested system
						h.lock.Lock()
						h.blocked = false
						h.answeredIn = myIteration
						h.lock.Unlock()
					}
					resp = rec(nestedArchetypeReadAck, tla.RecordField{Key: tla.MakeString("value"), Value: tla.MakeNumber(42)})
				case tpe.Equal(nestedArchetypeWriteReq):
					resp = rec(nestedArchetypeWriteAck)
				case tpe.Equal(nestedArchetypeAbortReq):
					resp = rec(nestedArchetypeAbortAck)
				case tpe.Equal(nestedArchetypePreCommitReq):
					resp = rec(nestedArchetypePreCommitAck)
				case tpe.Equal(nestedArchetypeCommitReq):
					resp = rec(nestedArchetypeCommitAck)
				default:
					panic("unknown request " + req.String())
				}
				err = iface.Write(out, nil, resp)
				if err != nil {
					return err
				}
				return iface.Goto("ANestedRes.loop")
			},
		},
	)
	return distsys.MPCalArchetype{
		Name:              "ANestedRes",
		Label:             "ANestedRes.loop",
		RequiredRefParams: []string{"ANestedRes.in", "ANestedRes.out"},
		RequiredValParams: []string{},
		JumpTable:         jt,
		ProcTable:         distsys.MakeMPCalProcTable(),
		PreAmble:          func(distsys.ArchetypeInterface) {},
	}
}

// outer archetype:  l1: while (n < rounds) { result := r; n := n + 1 }   (one iteration per section)
func c01f3OuterArchetype(h *c01f3Hooks) distsys.MPCalArchetype {
	jt := distsys.MakeMPCalJumpTable(
		distsys.MPCalCriticalSection{
			Name: "AOuter.l1",
			Body: func(iface distsys.ArchetypeInterface) error {
				r, err := iface.RequireArchetypeResourceRef("AOuter.r")
				if err != nil {
					return err
				}
				result, err := iface.RequireArchetypeResourceRef("AOuter.result")
				if err != nil {
					return err
				}
				n := iface.RequireArchetypeResource("AOuter.n")
				nVal, err := iface.Read(n, nil)
				if err != nil {
					return err
				}
				if nVal.AsNumber() >= c01f3Rounds {
					return iface.Goto("AOuter.Done")
				}
				v, err := iface.Read(r, nil)
				if err != nil {
					// The read timed out and this section has failed.  If the nested system holds our
					// request (slow phase), let it finish now, and let it get back to waiting for its next
					// request, before Run rolls this section back.
					h.lock.Lock()
					blocked, gate := h.blocked, h.gate
					h.lock.Unlock()
					if blocked {
						close(gate)
						for {
							h.lock.Lock()
							looped := !h.blocked && h.iterations > h.answeredIn
							h.lock.Unlock()
							if looped && len(h.nested.receiveCh) == 1 {
								break
							}
							time.Sleep(time.Millisecond)
						}
						time.Sleep(30 * time.Millisecond) // let the nested archetype reach its receive
						h.lock.Lock()
						h.slowRounds++
						h.lock.Unlock()
					}
					return err
				}
				err = iface.Write(result, nil, v)
				if err != nil {
					return err
				}
				err = iface.Write(n, nil, tla.MakeNumber(nVal.AsNumber()+1))
				if err != nil {
					return err
				}
				return iface.Goto("AOuter.l1")
			},
		},
		distsys.MPCalCriticalSection{
			Name: "AOuter.Done",
			Body: func(distsys.ArchetypeInterface) error { return distsys.ErrDone },
		},
	)
	return distsys.MPCalArchetype{
		Name:              "AOuter",
		Label:             "AOuter.l1",
		RequiredRefParams: []string{"AOuter.r", "AOuter.result"},
		RequiredValParams: []string{},
		JumpTable:         jt,
		ProcTable:         distsys.MakeMPCalProcTable(),
		PreAmble: func(iface distsys.ArchetypeInterface) {
			iface.EnsureArchetypeResourceLocal("AOuter.n", tla.MakeNumber(0))
		},
	}
}

func c01f3Child() {
	h := &c01f3Hooks{}
	nested := NewNested(func(sendCh chan<- tla.Value, receiveCh <-chan tla.Value) []*distsys.MPCalContext {
		return []*distsys.MPCalContext{
			distsys.NewMPCalContext(tla.MakeString("nested"), c01f3NestedArchetype(h),
				distsys.EnsureArchetypeRefParam("in", NewInputChan(receiveCh)),
				distsys.EnsureArchetypeRefParam("out", NewOutputChan(sendCh)),
			),
		}
	})
	h.nested = nested.(*nestedArchetype)
	resultCh := make(chan tla.Value, c01f3Rounds+1)
	outer := distsys.NewMPCalContext(tla.MakeString("outer"), c01f3OuterArchetype(h),
		distsys.EnsureArchetypeRefParam("r", nested),
		distsys.EnsureArchetypeRefParam("result", NewOutputChan(resultCh)),
	)
	err := outer.Run()
	if err != nil {
		fmt.Println("CHILD-ERR", err)
		os.Exit(3)
	}
	fmt.Printf("CHILD-OK results = %d, rounds with a late buffered ack = %d\n", len(resultCh), h.slowRounds)
}

func TestC01NestedAbortWithBufferedLateAck(t *testing.T) {
	if os.Getenv("C01F3_CHILD") == "1" {
		c01f3Child()
		return
	}
	// the defect kills the process from a goroutine, so the schedule runs in a child process
	cmd := exec.Command(os.Args[0], "-test.run=^TestC01NestedAbortWithBufferedLateAck$", "-test.count=1")
	cmd.Env = append(os.Environ(), "C01F3_CHILD=1")
	outBytes, err := cmd.CombinedOutput()
	out := string(outBytes)
	if err != nil || !strings.Contains(out, fmt.Sprintf("CHILD-OK results = %d", c01f3Rounds)) {
		firstLines := out
		if idx := strings.Index(out, "goroutine "); idx > 0 {
			firstLines = out[:idx]
		}
		t.Fatalf("C01 violated (\"if the section fails at any point (... an operation ... timed out by any resource) ... the retry "+
			"starts from exactly the state of the last commit\"): the outer section's read of the nested resource timed out, the nested "+
			"system's late read_ack was already buffered when the section was rolled back, and the roll-back did not lead to a retry: "+
			"the process ended with %v. Child output (truncated at the stack dump):\n%s", err, firstLines)
	}
	t.Logf("child output:\n%s", out)
}

package resources

import (
	"encoding/gob"
	"fmt"
	"net"
	"os"
	"os/exec"
	"strings"
	"sync"
	"testing"
	"time"

	"github.com/DistCompiler/pgo/distsys"
	"github.com/DistCompiler/pgo/distsys/tla"
)

// C01: "if the section fails at any point (... any resource's pre-commit) none of its reads,
// writes, sends or receives is observable afterwards and the retry starts from exactly the state
// of the last commit", for incremental maps and mailboxes.
//
// One section sends to two TCP mailboxes, net[A] and net[B] (Mailboxes is an IncMap).
//  1. attempt 1 writes both; in the pre-commit phase peer A drops its connection (it crashed),
//     so A's pre-commit fails at once, while B's acknowledgement is still outstanding;
//  2. IncMap.PreCommit reports the failure WITHOUT waiting for B's pre-commit, so Run rolls the
//     section back and retries while attempt 1's pre-commit of B is still running;
//  3. attempt 2 writes to B over the established connection;
//  4. attempt 1's pre-commit of B now times out, closes that connection and forgets it;
//  5. attempt 2 reaches its own pre-commit.
//
// The retry does not run from the state of the last commit: the failed attempt pulls the
// connection from under it, and step 5 panics ("no connection available while doing pre-commit")
// in a goroutine, killing the process.  With an IncMap that collects all pre-commit answers the
// same schedule simply retries on a fresh connection and B receives the message exactly once.

// c01f4Peer is the remote end of a TCP mailbox, speaking the protocol of tcpMailboxesLocal.handleConn
type c01f4Peer struct {
	name     string
	listener net.Listener

	lock      sync.Mutex
	conns     int
	delivered []string
	events    []string

	// behaviour of the first connection only
	dropOnFirstPreCommit    bool // close the connection instead of acknowledging (peer crash)
	ignoreFirstPreCommit    bool // never acknowledge (slow peer)
	firstConnClosedBySender chan struct{}
}

func c01f4NewPeer(name string) *c01f4Peer {
	l, err := net.Listen("tcp", "127.0.0.1:0")
	if err != nil {
		panic(err)
	}
	p := &c01f4Peer{name: name, listener: l, firstConnClosedBySender: make(chan struct{})}
	go func() {
		for {
			conn, err := l.Accept()
			if err != nil {
				return
			}
			p.lock.Lock()
			p.conns++
			n := p.conns
			p.lock.Unlock()
			go p.serve(conn, n)
		}
	}()
	return p
}

func (p *c01f4Peer) note(format string, args ...interface{}) {
	p.lock.Lock()
	defer p.lock.Unlock()
	p.events = append(p.events, fmt.Sprintf("peer %s: ", p.name)+fmt.Sprintf(format, args...))
}

func (p *c01f4Peer) serve(conn net.Conn, connNo int) {
	defer conn.Close()
	enc := gob.NewEncoder(conn)
	dec := gob.NewDecoder(conn)
	var buffer []string
	preCommits := 0
	for {
		var tag int
		if err := dec.Decode(&tag); err != nil {
			p.note("connection %d ended: %v", connNo, err)
			if connNo == 1 {
				close(p.firstConnClosedBySender)
			}
			return
		}
		switch tag {
		case tcpNetworkBegin:
			p.note("connection %d: begin", connNo)
			buffer = nil
		case tcpNetworkValue:
			var v tla.Value
			if err := dec.Decode(&v); err != nil {
				p.note("connection %d ended: %v", connNo, err)
				return
			}
			p.note("connection %d: value %v", connNo, v.StripVClock())
			buffer = append(buffer, v.StripVClock().String())
		case tcpNetworkPreCommit:
			preCommits++
			if connNo == 1 && preCommits == 1 && p.dropOnFirstPreCommit {
				p.note("connection %d: pre-commit -> peer crashes (connection dropped)", connNo)
				return
			}
			if connNo == 1 && preCommits == 1 && p.ignoreFirstPreCommit {
				p.note("connection %d: pre-commit -> no answer yet (slow peer)", connNo)
				continue
			}
			p.note("connection %d: pre-commit -> ack", connNo)
			if err := enc.Encode(struct{}{}); err != nil {
				return
			}
		case tcpNetworkCommit:
			p.note("connection %d: commit -> delivering %v", connNo, buffer)
			if err := enc.Encode(false); err != nil {
				return
			}
			p.lock.Lock()
			p.delivered = append(p.delivered, buffer...)
			p.lock.Unlock()
			buffer = nil
		}
	}
}

// outer archetype:   l1: net[A] := "toA"; net[B] := "toB";   then Done
func c01f4Archetype(attempts *int, beforeReturn func(attempt int)) distsys.MPCalArchetype {
	jt := distsys.MakeMPCalJumpTable(
		distsys.MPCalCriticalSection{
			Name: "ASender.l1",
			Body: func(iface distsys.ArchetypeInterface) error {
				net, err := iface.RequireArchetypeResourceRef("ASender.net")
				if err != nil {
					return err
				}
				*attempts++
				err = iface.Write(net, []tla.Value{tla.MakeString("A")}, tla.MakeString("toA"))
				if err != nil {
					return err
				}
				err = iface.Write(net, []tla.Value{tla.MakeString("B")}, tla.MakeString("toB"))
				if err != nil {
					return err
				}
				beforeReturn(*attempts)
				return iface.Goto("ASender.Done")
			},
		},
		distsys.MPCalCriticalSection{
			Name: "ASender.Done",
			Body: func(distsys.ArchetypeInterface) error { return distsys.ErrDone },
		},
	)
	return distsys.MPCalArchetype{
		Name:              "ASender",
		Label:             "ASender.l1",
		RequiredRefParams: []string{"ASender.net"},
		RequiredValParams: []string{},
		JumpTable:         jt,
		ProcTable:         distsys.MakeMPCalProcTable(),
		PreAmble:          func(distsys.ArchetypeInterface) {},
	}
}

func c01f4Child() {
	peerA := c01f4NewPeer("A")
	peerA.dropOnFirstPreCommit = true
	peerB := c01f4NewPeer("B")
	peerB.ignoreFirstPreCommit = true

	network := NewTCPMailboxes(func(idx tla.Value) (MailboxKind, string) {
		switch idx.AsString() {
		case "A":
			return MailboxesRemote, peerA.listener.Addr().String()
		case "B":
			return MailboxesRemote, peerB.listener.Addr().String()
		}
		panic("unknown index")
	}, WithMailboxesWriteTimeout(2*time.Second))

	attempts := 0
	ctx := distsys.NewMPCalContext(tla.MakeString("sender"), c01f4Archetype(&attempts, func(attempt int) {
		if attempt >= 2 {
			// the retry is a bit slow between its last statement and its commit: meanwhile attempt 1's
			// pre-commit of B gives up (observed at the peer: the sender closes connection 1)
			<-peerB.firstConnClosedBySender
			time.Sleep(50 * time.Millisecond)
		}
	}), distsys.EnsureArchetypeRefParam("net", network))

	dump := func() {
		for _, p := range []*c01f4Peer{peerA, peerB} {
			p.lock.Lock()
			for _, e := range p.events {
				fmt.Println("CHILD-LOG", e)
			}
			p.lock.Unlock()
		}
	}
	go func() { // so that the log is there even if the process is about to die
		<-peerB.firstConnClosedBySender
		time.Sleep(20 * time.Millisecond)
		dump()
		fmt.Println("CHILD-LOG ---- (log so far was printed when the sender closed B's connection 1)")
	}()

	err := ctx.Run()
	if err != nil {
		fmt.Println("CHILD-ERR", err)
		os.Exit(3)
	}
	time.Sleep(50 * time.Millisecond)
	peerA.lock.Lock()
	peerB.lock.Lock()
	fmt.Printf("CHILD-OK attempts = %d, delivered to A = %v, delivered to B = %v\n", attempts, peerA.delivered, peerB.delivered)
	peerB.lock.Unlock()
	peerA.lock.Unlock()
}

func TestC01IncMapPreCommitFailureWhileSiblingPreCommitInFlight(t *testing.T) {
	if os.Getenv("C01F4_CHILD") == "1" {
		c01f4Child()
		return
	}
	// the defect kills the process from a goroutine, so the schedule runs in a child process
	cmd := exec.Command(os.Args[0], "-test.run=^TestC01IncMapPreCommitFailureWhileSiblingPreCommitInFlight$", "-test.count=1")
	cmd.Env = append(os.Environ(), "C01F4_CHILD=1")
	outBytes, err := cmd.CombinedOutput()
	out := string(outBytes)
	want := `delivered to A = ["toA"], delivered to B = ["toB"]`
	if err != nil || !strings.Contains(out, "CHILD-OK") || !strings.Contains(out, want) {
		firstLines := out
		if idx := strings.Index(out, "\ngoroutine "); idx > 0 {
			firstLines = out[:idx]
		}
		t.Fatalf("C01 violated (\"if the section fails at any point (... any resource's pre-commit) none of its ... sends ... is observable "+
			"afterwards and the retry starts from exactly the state of the last commit\"): A's pre-commit failed while B's was still in "+
			"flight; the section was rolled back and retried before B's pre-commit of the FAILED attempt had finished, and that left-over "+
			"pre-commit then tore down the connection the retry was using. Expected the retry to commit (%s); the process ended with %v. "+
			"Child output (truncated at the stack dump):\n%s", want, err, firstLines)
	}
	t.Logf("child output:\n%s", out)
}

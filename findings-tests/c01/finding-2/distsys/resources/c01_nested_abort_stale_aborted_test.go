package resources

import (
	"fmt"
	"os"
	"os/exec"
	"strings"
	"sync"
	"testing"
	"time"

	"github.com/DistCompiler/pgo/distsys"
	"github.com/DistCompiler/pgo/distsys/tla"
)

// C01: "if the section fails at any point (... an operation ... refused or timed out by any
// resource) none of its reads, writes, sends or receives is observable afterwards and the retry
// starts from exactly the state of the last commit", for nested-archetype resources too.
//
// Schedule (no luck involved, see WHY.md):
//  1. the outer section reads the nested resource; the nested system takes the read request
//     and is slow to answer (gate), so the read times out after nestedArchetypeTimeout and
//     the outer section fails;
//  2. MPCalContext.Run rolls the section back: nestedArchetype.Abort starts and waits;
//  3. the nested system now answers the old read request - with "aborted", an answer the
//     protocol allows for a read (ReadValue accepts it, allowAborted = true);
//  4. Abort must discard that late answer, send abort_req, and the retry must run.
//
// On the pristine tree step 4 panics in the goroutine started by Abort and the whole process
// dies: there is no retry at all.

type c01f2Hooks struct {
	lock  sync.Mutex
	reads int
	gate  chan struct{}
	once  sync.Once
	log   []string
}

func (h *c01f2Hooks) note(s string) {
	h.lock.Lock()
	defer h.lock.Unlock()
	h.log = append(h.log, s)
}

// the nested system: one archetype, one label, serving one request per critical section, exactly
// like systems/nestedcrdtimpl does (read request from `in`, write answer to `out`, same section)
func c01f2NestedArchetype(h *c01f2Hooks) distsys.MPCalArchetype {
	rec := func(tpe tla.Value, fields ...tla.RecordField) tla.Value {
		return tla.MakeRecord(append(fields, tla.RecordField{Key: tla.MakeString("tpe"), Value: tpe}))
	}
	jt := distsys.MakeMPCalJumpTable(
		distsys.MPCalCriticalSection{
			Name: "ANestedRes.loop",
			Body: func(iface distsys.ArchetypeInterface) error {
				in, err := iface.RequireArchetypeResourceRef("ANestedRes.in")
				if err != nil {
					return err
				}
				out, err := iface.RequireArchetypeResourceRef("ANestedRes.out")
				if err != nil {
					return err
				}
				req, err := iface.Read(in, nil)
				if err != nil {
					return err
				}
				tpe := req.ApplyFunction(tla.MakeString("tpe"))
				var resp tla.Value
				switch {
				case tpe.Equal(nestedArchetypeReadReq):
					h.lock.Lock()
					h.reads++
					n := h.reads
					h.lock.Unlock()
					if n == 1 {
						h.note("nested: got read_req #1, answering slowly")
						<-h.gate // a slow nested system
						h.note("nested: answers read_req #1 with \"aborted\"")
						resp = rec(nestedArchetypeAborted)
					} else {
						h.note(fmt.Sprintf("nested: got read_req #%d, answers read_ack 42", n))
						resp = rec(nestedArchetypeReadAck, tla.RecordField{Key: tla.MakeString("value"), Value: tla.MakeNumber(42)})
					}
				case tpe.Equal(nestedArchetypeWriteReq):
					resp = rec(nestedArchetypeWriteAck)
				case tpe.Equal(nestedArchetypeAbortReq):
					h.note("nested: got abort_req, answers abort_ack")
					resp = rec(nestedArchetypeAbortAck)
				case tpe.Equal(nestedArchetypePreCommitReq):
					resp = rec(nestedArchetypePreCommitAck)
				case tpe.Equal(nestedArchetypeCommitReq):
					resp = rec(nestedArchetypeCommitAck)
				default:
					panic("unknown request " + req.String())
				}
				err = iface.Write(out, nil, resp)
				if err != nil {
					return err
				}
				return iface.Goto("ANestedRes.loop")
			},
		},
	)
	return distsys.MPCalArchetype{
		Name:              "ANestedRes",
		Label:             "ANestedRes.loop",
		RequiredRefParams: []string{"ANestedRes.in", "ANestedRes.out"},
		RequiredValParams: []string{},
		JumpTable:         jt,
		ProcTable:         distsys.MakeMPCalProcTable(),
		PreAmble:          func(distsys.ArchetypeInterface) {},
	}
}

// the outer archetype:   l1: result := r;  (r is the nested resource)   then Done
func c01f2OuterArchetype(h *c01f2Hooks) distsys.MPCalArchetype {
	jt := distsys.MakeMPCalJumpTable(
		distsys.MPCalCriticalSection{
			Name: "AOuter.l1",
			Body: func(iface distsys.ArchetypeInterface) error {
				r, err := iface.RequireArchetypeResourceRef("AOuter.r")
				if err != nil {
					return err
				}
				result, err := iface.RequireArchetypeResourceRef("AOuter.result")
				if err != nil {
					return err
				}
				v, err := iface.Read(r, nil)
				if err != nil {
					h.lock.Lock()
					first := h.gate != nil && h.reads == 1
					h.lock.Unlock()
					h.note(fmt.Sprintf("outer: read of the nested resource failed: %v", err))
					if first {
						// the section has failed (read timed out); Run aborts it as soon as we return.
						// The nested system answers the old request only well after that.
						go func() {
							time.Sleep(300 * time.Millisecond)
							h.once.Do(func() { close(h.gate) })
						}()
					}
					return err
				}
				err = iface.Write(result, nil, v)
				if err != nil {
					return err
				}
				return iface.Goto("AOuter.Done")
			},
		},
		distsys.MPCalCriticalSection{
			Name: "AOuter.Done",
			Body: func(distsys.ArchetypeInterface) error { return distsys.ErrDone },
		},
	)
	return distsys.MPCalArchetype{
		Name:              "AOuter",
		Label:             "AOuter.l1",
		RequiredRefParams: []string{"AOuter.r", "AOuter.result"},
		RequiredValParams: []string{},
		JumpTable:         jt,
		ProcTable:         distsys.MakeMPCalProcTable(),
		PreAmble:          func(distsys.ArchetypeInterface) {},
	}
}

func c01f2Child() {
	h := &c01f2Hooks{gate: make(chan struct{})}
	nested := NewNested(func(sendCh chan<- tla.Value, receiveCh <-chan tla.Value) []*distsys.MPCalContext {
		return []*distsys.MPCalContext{
			distsys.NewMPCalContext(tla.MakeString("nested"), c01f2NestedArchetype(h),
				distsys.EnsureArchetypeRefParam("in", NewInputChan(receiveCh)),
				distsys.EnsureArchetypeRefParam("out", NewOutputChan(sendCh)),
			),
		}
	})
	resultCh := make(chan tla.Value, 4)
	outer := distsys.NewMPCalContext(tla.MakeString("outer"), c01f2OuterArchetype(h),
		distsys.EnsureArchetypeRefParam("r", nested),
		distsys.EnsureArchetypeRefParam("result", NewOutputChan(resultCh)),
	)
	err := outer.Run()
	h.lock.Lock()
	for _, l := range h.log {
		fmt.Println("CHILD-LOG", l)
	}
	h.lock.Unlock()
	if err != nil {
		fmt.Println("CHILD-ERR", err)
		os.Exit(3)
	}
	select {
	case v := <-resultCh:
		fmt.Println("CHILD-OK result =", v.StripVClock().String())
	default:
		fmt.Println("CHILD-ERR no result")
		os.Exit(3)
	}
}

func TestC01NestedAbortAfterLateAbortedAnswer(t *testing.T) {
	if os.Getenv("C01F2_CHILD") == "1" {
		c01f2Child()
		return
	}
	// the defect kills the process from a goroutine, so the schedule runs in a child process
	cmd := exec.Command(os.Args[0], "-test.run=^TestC01NestedAbortAfterLateAbortedAnswer$", "-test.count=1")
	cmd.Env = append(os.Environ(), "C01F2_CHILD=1")
	outBytes, err := cmd.CombinedOutput()
	out := string(outBytes)
	if err != nil || !strings.Contains(out, "CHILD-OK result = 42") {
		firstLines := out
		if idx := strings.Index(out, "goroutine "); idx > 0 {
			firstLines = out[:idx]
		}
		t.Fatalf("C01 violated (\"if the section fails at any point (... an operation ... timed out by any resource) ... the retry "+
			"starts from exactly the state of the last commit\"): the outer section's read of the nested resource timed out, the nested "+
			"system then answered the old request with \"aborted\", and rolling the section back did not lead to a retry: "+
			"the process ended with %v. Child output (truncated at the stack dump):\n%s", err, firstLines)
	}
	t.Logf("child output:\n%s", out)
}

package resources

import (
	"math"
	"testing"

	"github.com/DistCompiler/pgo/distsys/tla"
)

// C12: "The counter reads the sum of all increments" and "a local update never moves a state
// down the merge order".  GCounter keeps int32 partial counts and adds them with plain int32
// arithmetic, both in Write (own entry) and in Read (sum over the entries), so the value wraps
// around silently.  A repair may either widen the arithmetic or fail loudly (as the TLA+ builtins
// do since "fix: + - * and unary minus wrapped around silently at 32 bits"); both are accepted
// here, a silently wrong value is not.

// readOrPanic returns (value, false) or (_, true) if Read failed loudly.
func c12ReadOrPanic(c CRDTValue) (v int32, panicked bool) {
	defer func() {
		if r := recover(); r != nil {
			panicked = true
		}
	}()
	return c.Read().AsNumber(), false
}

func c12WriteOrPanic(c CRDTValue, id tla.Value, inc int32) (res CRDTValue, panicked bool) {
	defer func() {
		if r := recover(); r != nil {
			panicked = true
		}
	}()
	return c.Write(id, tla.MakeNumber(inc)), false
}

// Two replicas, one legal positive increment each; every partial count is representable,
// only the sum computed by Read is not.
func TestC12GCounterReadSumWraps(t *testing.T) {
	a, b := tla.MakeNumber(1), tla.MakeNumber(2)
	var ca CRDTValue = GCounter{}.Init()
	var cb CRDTValue = GCounter{}.Init()
	const inc = int32(1) << 30
	ca = ca.Write(a, tla.MakeNumber(inc))
	cb = cb.Write(b, tla.MakeNumber(inc))
	ca, cb = ca.Merge(cb), cb.Merge(ca)

	want := int64(inc) + int64(inc)
	for name, c := range map[string]CRDTValue{"replica 1": ca, "replica 2": cb} {
		got, panicked := c12ReadOrPanic(c)
		if panicked {
			continue // loud failure is acceptable
		}
		if int64(got) != want {
			t.Errorf("C12 violated (counter reads the sum of all increments): %s holds %v, "+
				"increments were %d and %d (sum %d), Read() = %d", name, c, inc, inc, want, got)
		}
	}
}

// One replica, two legal positive increments: the second local update moves the state DOWN the
// merge order (old ⊔ new = old, not new) and the read value decreases; any later merge with a
// peer that saw the old state silently discards the increment.
func TestC12GCounterLocalUpdateMovesDown(t *testing.T) {
	a := tla.MakeNumber(1)
	var old CRDTValue = GCounter{}.Init()
	old = old.Write(a, tla.MakeNumber(math.MaxInt32))
	next, panicked := c12WriteOrPanic(old, a, 1)
	if panicked {
		return // loud failure is acceptable
	}
	oldRead, _ := c12ReadOrPanic(old)
	newRead, p := c12ReadOrPanic(next)
	if p {
		return
	}
	if newRead < oldRead {
		t.Errorf("C12 violated (counter reads the sum of all increments / updates are inflationary): "+
			"read %d before the increment by 1 and %d after it", oldRead, newRead)
	}
	joined := old.Merge(next).(GCounter)
	if v, _ := joined.Get(a); v != func() int32 { v, _ := next.(GCounter).Get(a); return v }() {
		t.Errorf("C12 violated (a local update never moves a state down the merge order): "+
			"old = %v, new = Write(old, +1) = %v, old ⊔ new = %v (the update is below the state it was applied to)",
			old, next, joined)
	}
}

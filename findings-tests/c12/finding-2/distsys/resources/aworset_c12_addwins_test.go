package resources

import (
	"bytes"
	"encoding/gob"
	"testing"

	"github.com/DistCompiler/pgo/distsys/tla"
)

// c12Ship sends a state through gob exactly as crdt.broadcast does.
func c12Ship(t *testing.T, v CRDTValue) CRDTValue {
	t.Helper()
	var buf bytes.Buffer
	if err := gob.NewEncoder(&buf).Encode(ReceiveValueArgs{Value: v}); err != nil {
		t.Fatal(err)
	}
	var out ReceiveValueArgs
	if err := gob.NewDecoder(&buf).Decode(&out); err != nil {
		t.Fatal(err)
	}
	return out.Value
}

// C12: "the add-wins set contains exactly the elements having an add not observed by a remove".
//
// Two replicas, one element, five updates, three (pairwise, one-directional) state deliveries, one
// of them late.  The last update is an add performed by replica 1 that no remove has observed:
// replica 1's own remove happened BEFORE it, replica 2's remove was issued on a state that did
// not contain it.  After both replicas have received every update the element must be present;
// both read the empty set.
//
// Cause: Merge keeps, per element, only the clock of the winning side.  When replica 1 merges the
// concurrent add of replica 2, its own remove clock {1:2} is dropped, replica 1 forgets that it
// has already issued the dots 1:1 and 1:2 for this element and issues 1:1 AGAIN for the new add.
// The remove clock {1:2}, still travelling in a delayed message, then dominates the new add.
func TestC12AWORSetUnobservedAddIsLost(t *testing.T) {
	r1, r2 := tla.MakeNumber(1), tla.MakeNumber(2)
	e := tla.MakeString("e")
	add, rem := makeRequest(addOp, e), makeRequest(remOp, e)
	present, absent := tla.MakeSet(e), tla.MakeSet()
	expect := func(step string, s CRDTValue, want tla.Value) {
		t.Helper()
		if got := s.Read(); !got.Equal(want) {
			t.Fatalf("%s: read %v, expected %v (state %v)", step, got, want, s)
		}
	}

	var s1 CRDTValue = AWORSet{}.Init()
	var s2 CRDTValue = AWORSet{}.Init()

	s2 = s2.Write(r2, add) // u1: replica 2 adds e
	expect("u1", s2, present)
	s1 = s1.Write(r1, add) // u2: replica 1 adds e
	s1 = s1.Write(r1, rem) // u3: replica 1 removes e (observes u2 only)
	expect("u3", s1, absent)
	m1 := c12Ship(t, s1) // message M1 = state of replica 1 after u3, delayed in the network

	s1 = s1.Merge(c12Ship(t, s2)) // replica 1 receives u1: concurrent with u3, add wins
	expect("replica 1 after receiving u1", s1, present)

	s2 = s2.Write(r2, rem) // u4: replica 2 removes e (observes u1 only)
	expect("u4", s2, absent)

	s1 = s1.Write(r1, add) // u5: replica 1 adds e again; NO remove ever observes this add
	expect("u5", s1, present)

	s2 = s2.Merge(m1) // M1 finally arrives at replica 2
	expect("replica 2 after M1", s2, absent)

	// now exchange the current states: both replicas have received u1..u5
	s1, s2 = s1.Merge(c12Ship(t, s2)), s2.Merge(c12Ship(t, s1))

	for name, s := range map[string]CRDTValue{"replica 1": s1, "replica 2": s2} {
		if got := s.Read(); !got.Equal(present) {
			t.Errorf("C12 violated (the add-wins set contains exactly the elements having an add not observed "+
				"by a remove): %s has received all five updates; the last add of replica 1 (u5) was observed by "+
				"no remove (u3 precedes it, u4 was issued on a state without it), yet Read() = %v, state %v",
				name, got, s)
		}
	}
}

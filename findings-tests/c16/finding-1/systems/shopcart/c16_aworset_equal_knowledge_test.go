package shopcart

// C16 hunt, finding 1.
//
// Clause: "in the CRDT-based systems replicas with equal knowledge read equal values".
//
// The shopping cart's CRDT is the add-wins observed-remove set of shopcart.tla (mapping macro AWORSet
// plus macro Merge); its Go counterpart is resources.AWORSet.  Merge keeps, for an element, EITHER the
// merged add clock OR the merged remove clock and throws the other one away.  The clock that is thrown
// away is knowledge the replica has received but no longer represents, so the state of a replica depends
// on the ORDER in which it learnt the operations, not only on WHICH operations it learnt.
//
// TestC16_ShopcartEqualKnowledgeDifferentReads drives the real generated ANode archetypes (shopcart.go)
// over the real resources.AWORSet value.  Replication is done by hand (no sockets, no ticker): an
// exchange(x, y) is exactly one round of crdt.go's broadcast: y merges x's stable state (ReceiveValue)
// and x merges the stable state that y returns in the reply.
//
// TestC16_ShopcartSpecMergeEqualKnowledgeDifferentReads replays the algorithm of shopcart.tla itself
// (transcribed statement by statement, on top of the generated operators Null, MergeKeys,
// CompareVectorClock and Query of shopcart.go): the specification has the same defect, with an even
// shorter history.

import (
	"fmt"
	"sort"
	"strings"
	"sync"
	"testing"
	"time"

	"github.com/DistCompiler/pgo/distsys"
	"github.com/DistCompiler/pgo/distsys/resources"
	"github.com/DistCompiler/pgo/distsys/tla"
)

// handCRDT is crdt.go without the network: same value/oldValue/hasOldValue handling, the replication
// steps are taken by the test instead of by the ticker and the RPC server.
type handCRDT struct {
	distsys.ArchetypeResourceLeafMixin
	mu          sync.Mutex
	id          tla.Value
	value       resources.CRDTValue
	oldValue    resources.CRDTValue
	hasOldValue bool
	pendingOps  []string
	// known is the replica's knowledge: the operations whose effect has reached it, directly or
	// through merges (the causal history `c` of the specification).
	known map[string]bool
}

func newHandCRDT(id tla.Value) *handCRDT {
	return &handCRDT{id: id, value: resources.AWORSet{}.Init(), known: map[string]bool{}}
}

func (res *handCRDT) Abort(distsys.ArchetypeInterface) chan struct{} {
	res.mu.Lock()
	defer res.mu.Unlock()
	if res.hasOldValue {
		res.value = res.oldValue
		res.hasOldValue = false
	}
	res.pendingOps = nil
	return nil
}
func (res *handCRDT) PreCommit(distsys.ArchetypeInterface) chan error { return nil }
func (res *handCRDT) Commit(distsys.ArchetypeInterface) chan struct{} {
	res.mu.Lock()
	defer res.mu.Unlock()
	res.hasOldValue = false
	for _, op := range res.pendingOps {
		res.known[op] = true
	}
	res.pendingOps = nil
	return nil
}
func (res *handCRDT) ReadValue(distsys.ArchetypeInterface) (tla.Value, error) {
	res.mu.Lock()
	defer res.mu.Unlock()
	return res.value.Read(), nil
}
func (res *handCRDT) WriteValue(_ distsys.ArchetypeInterface, value tla.Value) error {
	res.mu.Lock()
	defer res.mu.Unlock()
	if !res.hasOldValue {
		res.oldValue = res.value
		res.hasOldValue = true
	}
	res.value = res.value.Write(res.id, value)
	cmd := value.ApplyFunction(tla.MakeString("cmd")).AsNumber()
	res.pendingOps = append(res.pendingOps, fmt.Sprintf("%s@node%v", map[int32]string{1: "add", 2: "remove"}[cmd], res.id))
	return nil
}
func (res *handCRDT) Close() error { return nil }

func (res *handCRDT) stable() (resources.CRDTValue, map[string]bool) {
	res.mu.Lock()
	defer res.mu.Unlock()
	k := map[string]bool{}
	for op := range res.known {
		k[op] = true
	}
	if res.hasOldValue {
		return res.oldValue, k
	}
	return res.value, k
}
func (res *handCRDT) merge(v resources.CRDTValue, k map[string]bool) {
	res.mu.Lock()
	defer res.mu.Unlock()
	res.value = res.value.Merge(v)
	if res.hasOldValue {
		res.oldValue = res.oldValue.Merge(v)
	}
	for op := range k {
		res.known[op] = true
	}
}
func (res *handCRDT) knowledge() string {
	res.mu.Lock()
	defer res.mu.Unlock()
	var ops []string
	for op := range res.known {
		ops = append(ops, op)
	}
	sort.Strings(ops)
	return "{" + strings.Join(ops, ", ") + "}"
}

// exchange is one broadcast round of crdt.go from x to y: y merges x's stable state, the reply carries
// y's stable state, which x merges.
func exchange(x, y *handCRDT) {
	xv, xk := x.stable()
	yv, yk := y.stable()
	y.merge(xv, xk)
	x.merge(yv, yk)
}

type cartNode struct {
	crdt *handCRDT
	in   chan tla.Value
	out  chan tla.Value
	ctx  *distsys.MPCalContext
	done chan error
}

const c16Patience = 60 * time.Second // only bounds a hang; the schedule does not depend on it

// request feeds one command to the node's ANode archetype and returns what the archetype then reports
// on `out` (label rcvResp: out := crdt[self]).  When it returns, both critical sections have committed.
func (n *cartNode) request(t *testing.T, cmd int32, elem tla.Value) tla.Value {
	t.Helper()
	n.in <- tla.MakeRecord([]tla.RecordField{
		{Key: tla.MakeString("cmd"), Value: tla.MakeNumber(cmd)},
		{Key: tla.MakeString("elem"), Value: elem},
	})
	select {
	case v := <-n.out:
		return v.StripVClock()
	case err := <-n.done:
		t.Fatalf("ANode stopped: %v", err)
	case <-time.After(c16Patience):
		t.Fatalf("no answer from ANode")
	}
	panic("unreachable")
}

func TestC16_ShopcartEqualKnowledgeDifferentReads(t *testing.T) {
	const numNodes = 5
	elem := tla.MakeString("1") // Elem1 of the specification
	nodes := make([]*cartNode, numNodes+1)
	for i := 1; i <= numNodes; i++ {
		self := tla.MakeNumber(int32(i))
		n := &cartNode{
			crdt: newHandCRDT(self),
			in:   make(chan tla.Value, 1),
			out:  make(chan tla.Value, 1),
			done: make(chan error, 1),
		}
		crdt := n.crdt
		n.ctx = distsys.NewMPCalContext(self, ANode,
			distsys.DefineConstantValue("NumNodes", tla.MakeNumber(numNodes)),
			distsys.DefineConstantValue("ElemSet", tla.MakeSet(elem)),
			distsys.DefineConstantValue("BenchNumRounds", tla.MakeNumber(0)),
			distsys.EnsureArchetypeRefParam("crdt", resources.NewIncMap(func(index tla.Value) distsys.ArchetypeResource {
				if !index.Equal(self) {
					panic("wrong index")
				}
				return crdt
			})),
			distsys.EnsureArchetypeRefParam("in", resources.NewInputChan(n.in)),
			distsys.EnsureArchetypeRefParam("out", resources.NewOutputChan(n.out)),
		)
		go func() { n.done <- n.ctx.Run() }()
		nodes[i] = n
	}
	defer func() {
		for i := 1; i <= numNodes; i++ {
			nodes[i].ctx.Stop()
		}
	}()
	iface := distsys.NewMPCalContextWithoutArchetype().IFace()
	add, remove, look := AddCmd(iface).AsNumber(), RemoveCmd(iface).AsNumber(), int32(0)

	// two customers put the same article into the cart on two replicas
	nodes[1].request(t, add, elem)
	nodes[3].request(t, add, elem)
	// each add reaches one more replica ...
	exchange(nodes[1].crdt, nodes[2].crdt)
	exchange(nodes[3].crdt, nodes[4].crdt)
	exchange(nodes[3].crdt, nodes[5].crdt)
	// ... where the article is taken out again (each remove has observed exactly one of the adds)
	nodes[2].request(t, remove, elem)
	nodes[4].request(t, remove, elem)
	// now everything is spread, in two different orders
	exchange(nodes[1].crdt, nodes[3].crdt) // 1 and 3: both adds
	exchange(nodes[2].crdt, nodes[5].crdt) // 2 and 5: add@1, remove@2, add@3
	exchange(nodes[4].crdt, nodes[5].crdt) // 4 and 5: everything
	exchange(nodes[2].crdt, nodes[1].crdt) // 1 and 2: add@1, add@3, remove@2
	exchange(nodes[1].crdt, nodes[4].crdt) // 1 and 4: everything

	// commit boundary: every node is idle in nodeLoop, waiting for input
	read1 := nodes[1].request(t, look, elem)
	read5 := nodes[5].request(t, look, elem)
	k1, k5 := nodes[1].crdt.knowledge(), nodes[5].crdt.knowledge()
	t.Logf("node 1 knows %s and reads %v (state %v)", k1, read1, nodes[1].crdt.value)
	t.Logf("node 5 knows %s and reads %v (state %v)", k5, read5, nodes[5].crdt.value)
	if k1 != k5 {
		t.Fatalf("test is broken: the two replicas were meant to have equal knowledge, got %s and %s", k1, k5)
	}
	if !read1.Equal(read5) {
		t.Fatalf("C16 violated (shopcart: replicas with equal knowledge read equal values): "+
			"nodes 1 and 5 both know exactly %s, but node 1 reads %v and node 5 reads %v", k1, read1, read5)
	}
}

// ---------------------------------------------------------------------------------------------------
// the specification's own algorithm

type specReplica struct {
	self   tla.Value
	addMap tla.Value // [ElemSet -> [NodeSet -> Nat]]
	remMap tla.Value
	known  map[string]bool
}

func setAt(f tla.Value, k tla.Value, v tla.Value) tla.Value {
	return tla.MakeFunction([]tla.Value{tla.ModuleDomainSymbol(f)}, func(args []tla.Value) tla.Value {
		if args[0].Equal(k) {
			return v
		}
		return f.ApplyFunction(args[0])
	})
}

// write is the write clause of mapping macro AWORSet in shopcart.tla, branch by branch.
func (r *specReplica) write(iface distsys.ArchetypeInterface, cmd tla.Value, elem tla.Value) {
	null := Null(iface)
	one := tla.MakeNumber(1)
	if cmd.Equal(AddCmd(iface)) {
		if !r.addMap.ApplyFunction(elem).Equal(null) {
			a := r.addMap.ApplyFunction(elem)
			r.addMap = setAt(r.addMap, elem, setAt(a, r.self, tla.ModulePlusSymbol(a.ApplyFunction(r.self), one)))
			r.remMap = setAt(r.remMap, elem, null)
		} else if !r.remMap.ApplyFunction(elem).Equal(null) {
			a := r.addMap.ApplyFunction(elem)
			r.addMap = setAt(r.addMap, elem, setAt(a, r.self, tla.ModulePlusSymbol(r.remMap.ApplyFunction(elem).ApplyFunction(r.self), one)))
			r.remMap = setAt(r.remMap, elem, null)
		} else {
			r.addMap = setAt(r.addMap, elem, setAt(r.addMap.ApplyFunction(elem), r.self, one))
		}
		r.known[fmt.Sprintf("add@node%v", r.self)] = true
	} else if cmd.Equal(RemoveCmd(iface)) {
		if !r.remMap.ApplyFunction(elem).Equal(null) {
			m := r.remMap.ApplyFunction(elem)
			r.remMap = setAt(r.remMap, elem, setAt(m, r.self, tla.ModulePlusSymbol(m.ApplyFunction(r.self), one)))
			r.addMap = setAt(r.addMap, elem, null)
		} else if !r.addMap.ApplyFunction(elem).Equal(null) {
			m := r.remMap.ApplyFunction(elem)
			r.remMap = setAt(r.remMap, elem, setAt(m, r.self, tla.ModulePlusSymbol(r.addMap.ApplyFunction(elem).ApplyFunction(r.self), one)))
			r.addMap = setAt(r.addMap, elem, null)
		} else {
			r.remMap = setAt(r.remMap, elem, setAt(r.remMap.ApplyFunction(elem), r.self, one))
		}
		r.known[fmt.Sprintf("remove@node%v", r.self)] = true
	}
}

// read is the read clause: yield Query($variable).
func (r *specReplica) read(iface distsys.ArchetypeInterface) tla.Value {
	return Query(iface, tla.MakeRecord([]tla.RecordField{
		{Key: tla.MakeString("addMap"), Value: r.addMap},
		{Key: tla.MakeString("remMap"), Value: r.remMap},
	}))
}

// specMerge is macro Merge(crdt, i1, i2) of shopcart.tla (process UpdateCRDT), including its update of c.
func specMerge(iface distsys.ArchetypeInterface, r1, r2 *specReplica) {
	null := Null(iface)
	addk := MergeKeys(iface, r1.addMap, r2.addMap)
	remk := MergeKeys(iface, r1.remMap, r2.remMap)
	add := tla.MakeFunction([]tla.Value{tla.ModuleDomainSymbol(addk)}, func(args []tla.Value) tla.Value {
		if CompareVectorClock(iface, addk.ApplyFunction(args[0]), remk.ApplyFunction(args[0])).AsBool() {
			return null
		}
		return addk.ApplyFunction(args[0])
	})
	rem := tla.MakeFunction([]tla.Value{tla.ModuleDomainSymbol(remk)}, func(args []tla.Value) tla.Value {
		if CompareVectorClock(iface, addk.ApplyFunction(args[0]), remk.ApplyFunction(args[0])).AsBool() {
			return remk.ApplyFunction(args[0])
		}
		return null
	})
	r1.addMap, r2.addMap, r1.remMap, r2.remMap = add, add, rem, rem
	for op := range r1.known {
		r2.known[op] = true
	}
	for op := range r2.known {
		r1.known[op] = true
	}
}

func (r *specReplica) knowledge() string {
	var ops []string
	for op := range r.known {
		ops = append(ops, op)
	}
	sort.Strings(ops)
	return "{" + strings.Join(ops, ", ") + "}"
}

func TestC16_ShopcartSpecMergeEqualKnowledgeDifferentReads(t *testing.T) {
	elem := tla.MakeString("1")
	iface := distsys.NewMPCalContextWithoutArchetype(
		distsys.DefineConstantValue("NumNodes", tla.MakeNumber(3)),
		distsys.DefineConstantValue("ElemSet", tla.MakeSet(elem)),
		distsys.DefineConstantValue("BenchNumRounds", tla.MakeNumber(0)),
	).IFace()
	mk := func(i int32) *specReplica {
		empty := tla.MakeFunction([]tla.Value{iface.GetConstant("ElemSet")()}, func([]tla.Value) tla.Value { return Null(iface) })
		return &specReplica{self: tla.MakeNumber(i), addMap: empty, remMap: empty, known: map[string]bool{}}
	}
	n1, n2, n3 := mk(1), mk(2), mk(3)

	n1.write(iface, AddCmd(iface), elem)    // node 1 adds the article
	specMerge(iface, n1, n2)                // node 2 learns it
	n2.write(iface, RemoveCmd(iface), elem) // node 2 removes the article it has seen
	specMerge(iface, n2, n3)                // node 3 learns add and remove
	specMerge(iface, n1, n2)                // node 1 learns the remove

	r1, r3 := n1.read(iface), n3.read(iface)
	t.Logf("node 1 knows %s and reads %v (addMap %v remMap %v)", n1.knowledge(), r1, n1.addMap, n1.remMap)
	t.Logf("node 3 knows %s and reads %v (addMap %v remMap %v)", n3.knowledge(), r3, n3.addMap, n3.remMap)
	if n1.knowledge() != n3.knowledge() {
		t.Fatalf("test is broken: equal knowledge intended, got %s and %s", n1.knowledge(), n3.knowledge())
	}
	if !r1.Equal(r3) {
		t.Fatalf("C16 violated (shopcart.tla, StrongConvergence / equal knowledge => equal reads): "+
			"nodes 1 and 3 both know exactly %s, but Query gives %v at node 1 and %v at node 3", n1.knowledge(), r1, r3)
	}
}

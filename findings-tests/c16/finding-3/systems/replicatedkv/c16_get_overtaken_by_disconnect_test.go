package replicatedkv

// C16 hunt, finding 3.
//
// Clause: "At every commit boundary of every execution no assertion written in the specification fails".
//
// replicated_kv.tla, AReplica.replicaGetRequest:   assert(msg.client \in liveClients);
//
// The assertion holds in the specification because Get.getRequest is ONE atomic step: it checks
// clock[clientId] # -1, ticks the clock and appends the GET to the replica's queue; Disconnect can set
// clock[clientId] := -1 (and afterwards broadcast DISCONNECT) only before or after that step, so on the
// replica's FIFO queue a client's GET always precedes its DISCONNECT.
//
// In the Go system the step is not atomic.  The clock is shared between a client's archetypes with the
// runtime's resource for that purpose (resources.LocalSharedManager), the network is
// resources.NewTCPMailboxes.  MPCalContext.commit() calls Commit on every resource of the section:
// localShared.Commit releases the clock's lock at once, while the mailbox's Commit is still waiting for
// the network to carry its commit record to the replica.  In that window the Disconnect archetype of the
// same client acquires the clock, sets it to -1, and delivers DISCONNECT over its own connection.  The
// replica then reads DISCONNECT *before* the GET and the specification's assertion fails.
//
// Everything here is the real code: generated AReplica / Get / Disconnect, LocalSharedManager,
// TCPMailboxes.  The only test device is a byte-forwarding TCP relay between the Get client and the
// replica that holds back what the client sends after the replica's pre-commit acknowledgement (i.e. the
// commit record) until the test opens a gate - a slow network link, nothing more.  The mailbox write
// timeout of the Get client is raised so that no timer interferes.

import (
	"errors"
	"net"
	"sync"
	"testing"
	"time"

	"github.com/DistCompiler/pgo/distsys"
	"github.com/DistCompiler/pgo/distsys/resources"
	"github.com/DistCompiler/pgo/distsys/tla"
)

// spyMap wraps the replica's own mailbox and reports, after each commit, the messages the replica read
// in that critical section.  It changes nothing.
type spyMap struct {
	inner   distsys.ArchetypeResource
	pending []tla.Value
	seen    chan tla.Value
}
type spyLeaf struct {
	distsys.ArchetypeResourceLeafMixin
	parent *spyMap
	inner  distsys.ArchetypeResource
}

func (s *spyMap) Index(iface distsys.ArchetypeInterface, index tla.Value) (distsys.ArchetypeResource, error) {
	sub, err := s.inner.Index(iface, index)
	if err != nil {
		return nil, err
	}
	return &spyLeaf{parent: s, inner: sub}, nil
}
func (s *spyMap) ReadValue(iface distsys.ArchetypeInterface) (tla.Value, error) {
	return s.inner.ReadValue(iface)
}
func (s *spyMap) WriteValue(iface distsys.ArchetypeInterface, v tla.Value) error {
	return s.inner.WriteValue(iface, v)
}
func (s *spyMap) PreCommit(iface distsys.ArchetypeInterface) chan error { return s.inner.PreCommit(iface) }
func (s *spyMap) Abort(iface distsys.ArchetypeInterface) chan struct{} {
	s.pending = nil
	return s.inner.Abort(iface)
}
func (s *spyMap) Commit(iface distsys.ArchetypeInterface) chan struct{} {
	ch := s.inner.Commit(iface)
	if ch != nil {
		<-ch
	}
	for _, v := range s.pending {
		s.seen <- v
	}
	s.pending = nil
	return nil
}
func (s *spyMap) Close() error { return s.inner.Close() }

func (l *spyLeaf) ReadValue(iface distsys.ArchetypeInterface) (tla.Value, error) {
	v, err := l.inner.ReadValue(iface)
	if err == nil {
		l.parent.pending = append(l.parent.pending, v.StripVClock())
	}
	return v, err
}
func (l *spyLeaf) WriteValue(iface distsys.ArchetypeInterface, v tla.Value) error {
	return l.inner.WriteValue(iface, v)
}
func (l *spyLeaf) PreCommit(iface distsys.ArchetypeInterface) chan error { return l.inner.PreCommit(iface) }
func (l *spyLeaf) Commit(iface distsys.ArchetypeInterface) chan struct{} { return l.inner.Commit(iface) }
func (l *spyLeaf) Abort(iface distsys.ArchetypeInterface) chan struct{}  { return l.inner.Abort(iface) }
func (l *spyLeaf) Close() error                                          { return l.inner.Close() }

// slowLink forwards bytes between the Get client and the replica.  Once the replica has answered
// anything (its only answer before the commit is the pre-commit acknowledgement), whatever the client
// sends next (the commit record) waits for the gate.
type slowLink struct {
	ln       net.Listener
	target   string
	ackOnce  sync.Once
	ackSeen  chan struct{}
	gateOnce sync.Once
	gate     chan struct{}
}

func newSlowLink(t *testing.T, target string) *slowLink {
	ln, err := net.Listen("tcp", "127.0.0.1:0")
	if err != nil {
		t.Fatal(err)
	}
	l := &slowLink{ln: ln, target: target, ackSeen: make(chan struct{}), gate: make(chan struct{})}
	go func() {
		for {
			c, err := ln.Accept()
			if err != nil {
				return
			}
			s, err := net.Dial("tcp", target)
			if err != nil {
				c.Close()
				continue
			}
			go func() { // replica -> client
				buf := make([]byte, 4096)
				for {
					n, err := s.Read(buf)
					if n > 0 {
						l.ackOnce.Do(func() { close(l.ackSeen) }) // before the client can see the ack
						c.Write(buf[:n])
					}
					if err != nil {
						c.Close()
						return
					}
				}
			}()
			go func() { // client -> replica
				buf := make([]byte, 4096)
				for {
					n, err := c.Read(buf)
					if n > 0 {
						select {
						case <-l.ackSeen:
							<-l.gate // the commit record crawls along the wire
						default:
						}
						s.Write(buf[:n])
					}
					if err != nil {
						s.Close()
						return
					}
				}
			}()
		}
	}()
	return l
}
func (l *slowLink) open()  { l.gateOnce.Do(func() { close(l.gate) }) }
func (l *slowLink) close() { l.open(); l.ln.Close() }

func freeAddr(t *testing.T) string {
	ln, err := net.Listen("tcp", "127.0.0.1:0")
	if err != nil {
		t.Fatal(err)
	}
	defer ln.Close()
	return ln.Addr().String()
}

func TestC16_ReplicatedKV_GetOvertakenByDisconnect(t *testing.T) {
	const patience = 60 * time.Second // bounds hangs only
	s := tla.MakeString
	consts := []distsys.MPCalContextConfigFn{
		distsys.DefineConstantValue("BUFFER_SIZE", tla.MakeNumber(10)),
		distsys.DefineConstantValue("NUM_REPLICAS", tla.MakeNumber(1)),
		distsys.DefineConstantValue("NUM_CLIENTS", tla.MakeNumber(1)),
		distsys.DefineConstantValue("DISCONNECT_MSG", s("disconnect")),
		distsys.DefineConstantValue("GET_MSG", s("get")),
		distsys.DefineConstantValue("PUT_MSG", s("put")),
		distsys.DefineConstantValue("NULL_MSG", s("clock_update")),
		distsys.DefineConstantValue("GET_RESPONSE", s("get_response")),
		distsys.DefineConstantValue("PUT_RESPONSE", s("put_response")),
		distsys.DefineConstantValue("NULL", s("null")),
		distsys.DefineConstantValue("GET_KEY", s("k1")),
		distsys.DefineConstantValue("PUT_KEY", s("k2")),
		distsys.DefineConstantValue("PUT_VALUE", s("v")),
	}
	with := func(fns ...distsys.MPCalContextConfigFn) []distsys.MPCalContextConfigFn {
		return append(append([]distsys.MPCalContextConfigFn{}, consts...), fns...)
	}
	iface := distsys.NewMPCalContextWithoutArchetype(consts...).IFace()

	// instance NUM_REPLICAS = 1, NUM_CLIENTS = 1: replica 0; client 1 with its Get process (self = 1,
	// GetSet) and its Disconnect process (self = 3, DisconnectSet); both map to clientId = 1.
	replicaSelf, getSelf, disconnectSelf, clientID := tla.MakeNumber(0), tla.MakeNumber(1), tla.MakeNumber(3), tla.MakeNumber(1)

	replicaAddr, getMailboxAddr := freeAddr(t), freeAddr(t)
	link := newSlowLink(t, replicaAddr)
	defer link.close()

	// clocks = [c \in ClientSet |-> 0], shared by the archetypes of the client process
	clocks := resources.NewLocalSharedManager(tla.MakeFunction([]tla.Value{ClientSet(iface)}, func([]tla.Value) tla.Value {
		return tla.MakeNumber(0)
	}))

	mailboxes := func(self tla.Value, replicaVia string, opts ...resources.MailboxesOption) *resources.Mailboxes {
		return resources.NewTCPMailboxes(func(idx tla.Value) (resources.MailboxKind, string) {
			kind := resources.MailboxesRemote
			if idx.Equal(self) {
				kind = resources.MailboxesLocal
			}
			switch {
			case idx.Equal(replicaSelf):
				if kind == resources.MailboxesLocal {
					return kind, replicaAddr
				}
				return kind, replicaVia
			case idx.Equal(getSelf):
				return kind, getMailboxAddr
			}
			panic("unexpected mailbox " + idx.String())
		}, opts...)
	}

	spy := &spyMap{inner: mailboxes(replicaSelf, replicaAddr), seen: make(chan tla.Value, 16)}
	replicaCtx := distsys.NewMPCalContext(replicaSelf, AReplica, with(
		distsys.EnsureArchetypeRefParam("clients", mailboxes(tla.MakeNumber(-1), replicaAddr)),
		distsys.EnsureArchetypeRefParam("replicas", spy),
		distsys.EnsureArchetypeRefParam("kv", distsys.NewLocalArchetypeResource(
			tla.MakeFunction([]tla.Value{KeySpace(iface)}, func([]tla.Value) tla.Value { return iface.GetConstant("NULL")() }))),
	)...)
	getOut := make(chan tla.Value, 4)
	getCtx := distsys.NewMPCalContext(getSelf, Get, with(
		distsys.EnsureArchetypeRefParam("clientId", distsys.NewLocalArchetypeResource(clientID)),
		// the Get client reaches the replica through the slow link; no timer may give up on it
		distsys.EnsureArchetypeRefParam("replicas", mailboxes(tla.MakeNumber(-1), link.ln.Addr().String(),
			resources.WithMailboxesWriteTimeout(time.Hour))),
		distsys.EnsureArchetypeRefParam("clients", mailboxes(getSelf, replicaAddr)),
		distsys.EnsureArchetypeValueParam("key", iface.GetConstant("GET_KEY")()),
		distsys.EnsureArchetypeRefParam("clock", clocks.MakeLocalShared()),
		distsys.EnsureArchetypeValueParam("spin", tla.ModuleFALSE),
		distsys.EnsureArchetypeRefParam("outside", resources.NewOutputChan(getOut)),
	)...)
	disconnectCtx := distsys.NewMPCalContext(disconnectSelf, Disconnect, with(
		distsys.EnsureArchetypeRefParam("clientId", distsys.NewLocalArchetypeResource(clientID)),
		distsys.EnsureArchetypeRefParam("replicas", mailboxes(tla.MakeNumber(-1), replicaAddr)),
		distsys.EnsureArchetypeRefParam("clock", clocks.MakeLocalShared()),
	)...)

	replicaDone, getDone, disconnectDone := make(chan error, 1), make(chan error, 1), make(chan error, 1)
	go func() { replicaDone <- replicaCtx.Run() }()
	defer func() {
		link.open()
		getCtx.Stop()
		disconnectCtx.Stop()
		replicaCtx.Stop()
	}()

	// 1. the client issues a Get.  Get.getRequest runs and pre-commits; its commit record is on the slow link.
	go func() { getDone <- getCtx.Run() }()
	select {
	case <-link.ackSeen:
	case err := <-getDone:
		t.Fatalf("Get stopped early: %v", err)
	case <-time.After(patience):
		t.Fatalf("Get.getRequest never reached its commit")
	}

	// 2. the same client disconnects.  In the specification this step cannot happen now: the Get step is
	//    still in progress.  (If the runtime held the clock until the whole section is committed,
	//    Disconnect would wait here; we then let the Get through and expect a clean run.)
	go func() { disconnectDone <- disconnectCtx.Run() }()
	disconnectedFirst := false
	select {
	case err := <-disconnectDone:
		if err != nil {
			t.Fatalf("Disconnect failed: %v", err)
		}
		disconnectedFirst = true
	case <-time.After(patience / 2):
		t.Logf("Disconnect is waiting for the Get section to finish committing (atomic commit)")
	}
	if disconnectedFirst {
		// 3. the replica takes DISCONNECT from its queue
		select {
		case m := <-spy.seen:
			t.Logf("replica read and committed %v", m)
		case err := <-replicaDone:
			t.Fatalf("replica stopped early: %v", err)
		case <-time.After(patience):
			t.Fatalf("replica never read the DISCONNECT")
		}
	}

	// 4. the Get's commit record finally arrives
	link.open()
	select {
	case m := <-spy.seen:
		t.Logf("replica read and committed %v", m)
	case <-time.After(patience):
		t.Fatalf("replica never read the GET")
	}

	// 5. the replica handles the GET: clientDisconnected, replicaGetRequest (assert msg.client \in liveClients), ...
	//    A replica that survives the GET goes back to waiting for messages and never returns; give it
	//    ample time to fail (it needs two critical sections, no I/O).
	select {
	case err := <-replicaDone:
		if errors.Is(err, distsys.ErrAssertionFailed) {
			t.Fatalf("C16 violated (no assertion written in the specification fails): AReplica stopped with %q - "+
				"the GET that client %v sent in Get.getRequest (where clock[%v] was still # -1) reached the replica "+
				"after the DISCONNECT that the same client sent later", err, clientID, clientID)
		}
		t.Fatalf("replica stopped: %v", err)
	case <-time.After(patience / 3):
		// still running: the GET was handled without an assertion failure
	}
}

package proxy

// C16 hunt, finding 2.
//
// Clause: "with a perfect failure detector the proxy reports failure only when every backend has
// failed", quantified over every instance size.
//
// proxy.tla reports failure to the client in-band: FAIL == 100 is put in the `body` field of the
// response.  A live server answers with body |-> self.  Server identifiers are 1..NUM_SERVERS, so in
// every instance with NUM_SERVERS >= 100 the healthy answer of server 100 IS the failure report.
//
// The test runs the real generated AProxy, AServer and AClient archetypes over a hand-made in-memory
// network (mapping macro ReliableFIFOLink: FIFO, reliable, writing to a disabled link blocks) and a
// hand-made PERFECT failure detector (fd[i] is TRUE iff server i has crashed).  Servers 1..99 have
// crashed, server 100 is alive and answers.  No timing is involved.

import (
	"sync"
	"testing"
	"time"

	"github.com/DistCompiler/pgo/distsys"
	"github.com/DistCompiler/pgo/distsys/resources"
	"github.com/DistCompiler/pgo/distsys/tla"
)

// c16Fabric is the global state of the specification: network (queue + enabled flag per <<id, typ>>)
// and fd.
type c16Fabric struct {
	mu       sync.Mutex
	queues   map[string][]tla.Value
	disabled map[string]bool
	crashed  map[int32]bool
}

// c16Net is one archetype's view of `network`, with critical-section semantics: reads are taken from
// the shared queue on commit only, writes are appended on commit only.
type c16Net struct {
	distsys.ArchetypeResourceMapMixin
	fab      *c16Fabric
	consumed map[string]int
	written  []c16Write
}
type c16Write struct {
	key string
	val tla.Value
}
type c16Link struct {
	distsys.ArchetypeResourceLeafMixin
	net *c16Net
	key string
}

func (n *c16Net) Index(_ distsys.ArchetypeInterface, index tla.Value) (distsys.ArchetypeResource, error) {
	return &c16Link{net: n, key: index.String()}, nil
}
func (n *c16Net) Abort(distsys.ArchetypeInterface) chan struct{} {
	n.consumed, n.written = map[string]int{}, nil
	return nil
}
func (n *c16Net) PreCommit(distsys.ArchetypeInterface) chan error { return nil }
func (n *c16Net) Commit(distsys.ArchetypeInterface) chan struct{} {
	n.fab.mu.Lock()
	defer n.fab.mu.Unlock()
	for key, cnt := range n.consumed {
		n.fab.queues[key] = n.fab.queues[key][cnt:]
	}
	for _, w := range n.written {
		n.fab.queues[w.key] = append(n.fab.queues[w.key], w.val)
	}
	n.consumed, n.written = map[string]int{}, nil
	return nil
}
func (n *c16Net) Close() error { return nil }

func (l *c16Link) Abort(distsys.ArchetypeInterface) chan struct{}  { return nil }
func (l *c16Link) PreCommit(distsys.ArchetypeInterface) chan error { return nil }
func (l *c16Link) Commit(distsys.ArchetypeInterface) chan struct{} { return nil }
func (l *c16Link) Close() error                                    { return nil }
func (l *c16Link) ReadValue(distsys.ArchetypeInterface) (tla.Value, error) {
	l.net.fab.mu.Lock()
	q := l.net.fab.queues[l.key]
	pos := l.net.consumed[l.key]
	if pos < len(q) {
		l.net.consumed[l.key] = pos + 1
		l.net.fab.mu.Unlock()
		return q[pos], nil
	}
	l.net.fab.mu.Unlock()
	time.Sleep(time.Millisecond) // await Len(queue) > 0: not enabled yet, be polite while retrying
	return tla.Value{}, distsys.ErrCriticalSectionAborted
}
func (l *c16Link) WriteValue(_ distsys.ArchetypeInterface, value tla.Value) error {
	l.net.fab.mu.Lock()
	defer l.net.fab.mu.Unlock()
	if l.net.fab.disabled[l.key] {
		return distsys.ErrCriticalSectionAborted // await $variable.enabled
	}
	l.net.written = append(l.net.written, c16Write{l.key, value.StripVClock()})
	return nil
}

// c16FD is mapping macro PerfectFD over the fabric: reading fd[i] yields TRUE iff server i has crashed.
type c16FD struct {
	distsys.ArchetypeResourceMapMixin
	fab *c16Fabric
}
type c16FDCell struct {
	distsys.ArchetypeResourceLeafMixin
	fab *c16Fabric
	id  int32
}

func (f *c16FD) Index(_ distsys.ArchetypeInterface, index tla.Value) (distsys.ArchetypeResource, error) {
	return &c16FDCell{fab: f.fab, id: index.AsNumber()}, nil
}
func (f *c16FD) Abort(distsys.ArchetypeInterface) chan struct{}      { return nil }
func (f *c16FD) PreCommit(distsys.ArchetypeInterface) chan error     { return nil }
func (f *c16FD) Commit(distsys.ArchetypeInterface) chan struct{}     { return nil }
func (f *c16FD) Close() error                                        { return nil }
func (c *c16FDCell) Abort(distsys.ArchetypeInterface) chan struct{}  { return nil }
func (c *c16FDCell) PreCommit(distsys.ArchetypeInterface) chan error { return nil }
func (c *c16FDCell) Commit(distsys.ArchetypeInterface) chan struct{} { return nil }
func (c *c16FDCell) Close() error                                    { return nil }
func (c *c16FDCell) ReadValue(distsys.ArchetypeInterface) (tla.Value, error) {
	c.fab.mu.Lock()
	defer c.fab.mu.Unlock()
	return tla.MakeBool(c.fab.crashed[c.id]), nil
}
func (c *c16FDCell) WriteValue(_ distsys.ArchetypeInterface, value tla.Value) error {
	c.fab.mu.Lock()
	defer c.fab.mu.Unlock()
	c.fab.crashed[c.id] = value.AsBool()
	return nil
}

func TestC16_ProxyReportsFailureWhileServer100IsAlive(t *testing.T) {
	const numServers, numClients = 100, 1
	const aliveServer = 100
	consts := []distsys.MPCalContextConfigFn{
		distsys.DefineConstantValue("NUM_SERVERS", tla.MakeNumber(numServers)),
		distsys.DefineConstantValue("NUM_CLIENTS", tla.MakeNumber(numClients)),
		distsys.DefineConstantValue("EXPLORE_FAIL", tla.ModuleFALSE),
		distsys.DefineConstantValue("CLIENT_RUN", tla.ModuleTRUE),
	}
	iface := distsys.NewMPCalContextWithoutArchetype(consts...).IFace()
	clientID, proxyID := tla.MakeNumber(numServers+1), ProxyID(iface)

	fab := &c16Fabric{queues: map[string][]tla.Value{}, disabled: map[string]bool{}, crashed: map[int32]bool{}}
	// the crash history: servers 1..99 have taken the failing branch of mayFail (netEnabled[self,
	// PROXY_REQ_MSG_TYP] := FALSE) and then failLabel (fd[self] := TRUE); server 100 has not.
	for i := int32(1); i <= numServers; i++ {
		if i != aliveServer {
			fab.disabled[tla.MakeTuple(tla.MakeNumber(i), PROXY_REQ_MSG_TYP(iface)).String()] = true
			fab.crashed[i] = true
		}
	}
	newNet := func() *c16Net { return &c16Net{fab: fab, consumed: map[string]int{}} }
	with := func(fns ...distsys.MPCalContextConfigFn) []distsys.MPCalContextConfigFn {
		return append(append([]distsys.MPCalContextConfigFn{}, consts...), fns...)
	}

	in, out := make(chan tla.Value, 1), make(chan tla.Value, 1)
	ctxs := []*distsys.MPCalContext{
		distsys.NewMPCalContext(tla.MakeNumber(aliveServer), AServer, with(
			distsys.EnsureArchetypeRefParam("net", newNet()),
			distsys.EnsureArchetypeRefParam("netEnabled", resources.NewPlaceHolder()),
			distsys.EnsureArchetypeRefParam("fd", &c16FD{fab: fab}))...),
		distsys.NewMPCalContext(proxyID, AProxy, with(
			distsys.EnsureArchetypeRefParam("net", newNet()),
			distsys.EnsureArchetypeRefParam("fd", &c16FD{fab: fab}))...),
		distsys.NewMPCalContext(clientID, AClient, with(
			distsys.EnsureArchetypeRefParam("net", newNet()),
			distsys.EnsureArchetypeRefParam("input", resources.NewInputChan(in)),
			distsys.EnsureArchetypeRefParam("output", resources.NewOutputChan(out)))...),
	}
	errs := make(chan error, len(ctxs))
	for _, ctx := range ctxs {
		ctx := ctx
		go func() { errs <- ctx.Run() }()
	}
	defer func() {
		for _, ctx := range ctxs {
			ctx.Stop()
		}
	}()

	in <- tla.MakeString("GET /")
	var resp tla.Value
	select {
	case resp = <-out:
		resp = resp.StripVClock()
	case err := <-errs:
		t.Fatalf("an archetype stopped: %v", err)
	case <-time.After(120 * time.Second): // bounds a hang only
		t.Fatalf("no response")
	}
	body := resp.ApplyFunction(tla.MakeString("body"))
	t.Logf("client received %v", resp)

	fab.mu.Lock()
	var alive []int32
	for i := int32(1); i <= numServers; i++ {
		if !fab.crashed[i] {
			alive = append(alive, i)
		}
	}
	fab.mu.Unlock()
	if body.Equal(FAIL(iface)) && len(alive) != 0 {
		t.Fatalf("C16 violated (proxy: with a perfect failure detector the proxy reports failure only when every "+
			"backend has failed): the client was answered body = %v = FAIL although backend(s) %v have not failed "+
			"(perfect fd says FALSE for them) - the response was in fact produced by live server %d",
			body, alive, aliveServer)
	}
}

package tla

import "testing"

// C05 quantifies over "all values nested to any depth".  valueSet.Equal compares the members in BOTH
// directions (c \subseteq oC and then oC \subseteq c, although the lengths are already known to be equal), and
// every membership test calls Equal on the members again.  For sets nested d deep that is 2^d member
// comparisons: {{...{1}...}} = {{...{1}...}} takes ~1.7 s at depth 24 on this machine, hours at depth 40,
// and never returns in practice at depth 64, so "equality is an equivalence" cannot even be observed
// (x = x does not return) for values that the quantifier admits.  valueFunction.Equal has the same shape
// (Get(key) compares the key, then the value is compared) when the nesting goes through the keys.
//
// The test does not use time: it counts how often the single innermost leaf is compared.

type countingLeaf struct {
	ImplStubs
	equalCalls *int
}

func (l *countingLeaf) Hash() uint32 { return 42 }
func (l *countingLeaf) Equal(other Value) bool {
	*l.equalCalls++
	o, ok := other.data.(*countingLeaf)
	return ok && o == l
}
func (l *countingLeaf) String() string     { return "leaf" }
func (l *countingLeaf) StripVClock() Value { return Value{l} }

func TestC05EqualOnNestedSetsIsExponential(t *testing.T) {
	const depth = 16
	calls := 0
	leaf := MakeValueFromImpl(&countingLeaf{equalCalls: &calls})

	v, w := leaf, leaf
	for i := 0; i < depth; i++ {
		v, w = MakeSet(v), MakeSet(w) // two separately built, equal towers {{{...leaf...}}}
	}

	calls = 0
	if !v.Equal(w) {
		t.Fatalf("premise: the two towers are equal")
	}
	t.Logf("depth %d: the innermost element was compared %d times", depth, calls)
	// one comparison per level would be enough; allow a generous constant factor
	if calls > 4*depth {
		t.Errorf("C05 violated for deeply nested values (\"nested to any depth\"): comparing two equal %d-deep "+
			"singleton-set towers compared the innermost element %d times (= 2^%d): Equal is exponential in the "+
			"nesting depth, so v = v does not return in practice from depth ~40 on",
			depth, calls, depth)
	}
}

package tla

import (
	"bytes"
	"encoding/gob"
	"testing"
)

// C05: "Equality on TLA+ values is an equivalence ...; equal values always hash equally, so set
// membership, function lookup and map resources agree with equality. ... a value's printed form is a
// TLA+ expression denoting the same value."
//
// In TLA+ a tuple/sequence <<e1, ..., en>> IS the function with domain 1..n, so the two printed forms
//
//	<<5, 6>>                          (printed by a valueTuple)
//	((1) :> (5) @@ (2) :> (6))        (printed by a valueFunction)
//
// denote one and the same TLA+ value (TLC: `((1) :> (5) @@ (2) :> (6)) = <<5, 6>>` is TRUE, and so is
// `[x \in {} |-> x] = <<>>`).  If each printed form denotes "the same value" as the Go value that printed
// it, the two Go values are the same TLA+ value and must be Equal, hash equally and be interchangeable as
// set members / function arguments.  They are not.
func TestC05TupleAndFunctionOverOneToNAreTheSameValue(t *testing.T) {
	one, two := MakeNumber(1), MakeNumber(2)
	five, six := MakeNumber(5), MakeNumber(6)

	type pair struct {
		name        string
		tuple, fn   Value
		tuplePrint  string
		fnPrint     string
		tlaEquation string
	}
	pairs := []pair{
		{
			name:        "empty",
			tuple:       MakeTuple(),
			fn:          MakeFunction([]Value{MakeSet()}, func(v []Value) Value { return v[0] }), // [x \in {} |-> x]
			tuplePrint:  `<<>>`,
			fnPrint:     `[x \in {} |-> x]`,
			tlaEquation: `<<>> = [x \in {} |-> x]`,
		},
		{
			name:        "singleton via :>",
			tuple:       MakeTuple(MakeString("a")),
			fn:          ModuleColonGreaterThanSymbol(one, MakeString("a")), // 1 :> "a"
			tuplePrint:  `<<"a">>`,
			fnPrint:     `((1) :> ("a"))`,
			tlaEquation: `<<"a">> = ((1) :> ("a"))`,
		},
		{
			name:  "[i \\in 1..2 |-> i + 4]",
			tuple: MakeTuple(five, six),
			fn: MakeFunction([]Value{ModuleDotDotSymbol(one, two)}, func(v []Value) Value {
				return ModulePlusSymbol(v[0], MakeNumber(4))
			}),
			tuplePrint:  `<<5, 6>>`,
			fnPrint:     `((1) :> (5) @@ (2) :> (6))`,
			tlaEquation: `<<5, 6>> = ((1) :> (5) @@ (2) :> (6))`,
		},
	}

	for _, p := range pairs {
		t.Run(p.name, func(t *testing.T) {
			// the premises: these are the printed forms, and in TLA+ they denote one value
			if got := p.tuple.String(); got != p.tuplePrint {
				t.Fatalf("premise: tuple printed %s, expected %s", got, p.tuplePrint)
			}
			if got := p.fn.String(); got != p.fnPrint {
				t.Fatalf("premise: function printed %s, expected %s", got, p.fnPrint)
			}
			// both must behave as functions on the same arguments (they do; this is not the failing part)
			for i := 1; i <= p.tuple.AsTuple().Len(); i++ {
				arg := MakeNumber(int32(i))
				if !p.tuple.ApplyFunction(arg).Equal(p.fn.ApplyFunction(arg)) {
					t.Fatalf("premise: application at %d differs", i)
				}
			}

			if !p.tuple.Equal(p.fn) || !p.fn.Equal(p.tuple) {
				t.Errorf("C05 violated (printed form denotes the same value / equality on TLA+ values): "+
					"the values printed as %s and %s denote the same TLA+ value (TLC evaluates %s to TRUE), "+
					"but Equal says tuple=fn: %v, fn=tuple: %v",
					p.tuplePrint, p.fnPrint, p.tlaEquation, p.tuple.Equal(p.fn), p.fn.Equal(p.tuple))
			}
			if p.tuple.Hash() != p.fn.Hash() {
				t.Errorf("C05 violated (equal values hash equally): %s hashes to %#x, %s hashes to %#x",
					p.tuplePrint, p.tuple.Hash(), p.fnPrint, p.fn.Hash())
			}
			// set membership and cardinality must agree with TLA+ equality
			if !ModuleInSymbol(p.tuple, MakeSet(p.fn)).AsBool() {
				t.Errorf("C05 violated (set membership agrees with equality): %s \\in {%s} is TRUE in TLA+, got FALSE",
					p.tuplePrint, p.fnPrint)
			}
			if n := ModuleCardinality(MakeSet(p.tuple, p.fn)).AsNumber(); n != 1 {
				t.Errorf("C05 violated (set membership agrees with equality): Cardinality({%s, %s}) is 1 in TLA+, got %d",
					p.tuplePrint, p.fnPrint, n)
			}
			// function lookup with such a value as the argument
			table := ModuleColonGreaterThanSymbol(p.fn, MakeString("found"))
			func() {
				defer func() {
					if r := recover(); r != nil {
						t.Errorf("C05 violated (function lookup agrees with equality): (%s :> \"found\")[%s] is \"found\" in TLA+, got panic: %v",
							p.fnPrint, p.tuplePrint, r)
					}
				}()
				_ = table.ApplyFunction(p.tuple)
			}()

			// the wire does not help either: each side round-trips to its own representation
			var buf bytes.Buffer
			if err := gob.NewEncoder(&buf).Encode(&p.fn); err != nil {
				t.Fatal(err)
			}
			var back Value
			if err := gob.NewDecoder(&buf).Decode(&back); err != nil {
				t.Fatal(err)
			}
			if !back.Equal(p.fn) {
				t.Errorf("gob round trip changed the function value")
			}
		})
	}
}

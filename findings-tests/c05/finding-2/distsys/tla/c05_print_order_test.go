package tla

import "testing"

// C05: "Equality on TLA+ values is an equivalence that ignores construction order".
//
// Value.String() walks sets and functions in the iteration order of the underlying immutable map, which
// for up to 8 elements is the insertion order.  The printed form is itself observable from a
// specification: ToString(v) returns it as a TLA+ string, and (since commit f3f13e86) CHOOSE picks "the
// satisfying element with the least printed form".  So two Equal values that were built in a different
// order can be told apart by the specification: the construction order is NOT ignored.
func TestC05ToStringDistinguishesEqualValues(t *testing.T) {
	one, two := MakeNumber(1), MakeNumber(2)

	a := MakeSet(one, two)
	b := MakeSet(two, one)
	if !a.Equal(b) || !b.Equal(a) || a.Hash() != b.Hash() {
		t.Fatalf("premise: {1,2} and {2,1} must be equal values")
	}
	sa, sb := ModuleToString(a), ModuleToString(b)
	if !ModuleEqualsSymbol(sa, sb).AsBool() {
		t.Errorf("C05 violated (equality ignores construction order): a = b holds for a = %v and b = %v, "+
			"but ToString(a) = ToString(b) evaluates to FALSE (%v vs %v); TLC gives \"{1, 2}\" for both",
			a, b, sa, sb)
	}

	// same for functions / records
	f := MakeRecord([]RecordField{{MakeString("x"), one}, {MakeString("y"), two}})
	g := MakeRecord([]RecordField{{MakeString("y"), two}, {MakeString("x"), one}})
	if !f.Equal(g) || f.Hash() != g.Hash() {
		t.Fatalf("premise: the two records must be equal values")
	}
	if sf, sg := ModuleToString(f), ModuleToString(g); !sf.Equal(sg) {
		t.Errorf("C05 violated (equality ignores construction order): f = g holds but ToString(f) = %v and ToString(g) = %v differ",
			sf, sg)
	}

	// and it matters for membership: ToString(a) \in {ToString(b)}
	if !ModuleInSymbol(sa, MakeSet(sb)).AsBool() {
		t.Errorf("C05 violated (set membership agrees with equality): a = b, yet ToString(a) \\notin {ToString(b)}")
	}
}

func TestC05ChooseDistinguishesEqualSets(t *testing.T) {
	one, two, three := MakeNumber(1), MakeNumber(2), MakeNumber(3)
	always := func(Value) bool { return true }

	// S1 = {{1, 3}, {2}} and S2 = {{3, 1}, {2}}: the same set of sets, only the inner set {1, 3} was
	// built in a different order
	s1 := MakeSet(MakeSet(one, three), MakeSet(two))
	s2 := MakeSet(MakeSet(three, one), MakeSet(two))
	if !s1.Equal(s2) || !s2.Equal(s1) || s1.Hash() != s2.Hash() {
		t.Fatalf("premise: S1 and S2 must be equal values")
	}
	c1 := Choose(s1, always)
	c2 := Choose(s2, always)
	if !c1.Equal(c2) {
		t.Errorf("C05 violated (equality ignores construction order): S1 = S2 (S1 prints %v, S2 prints %v), "+
			"but CHOOSE x \\in S1 : TRUE = %v and CHOOSE x \\in S2 : TRUE = %v are different values",
			s1, s2, c1, c2)
	}

	// the same with the outer insertion order changed as well, and with functions as elements
	f1 := MakeRecord([]RecordField{{one, one}, {three, three}})
	f2 := MakeRecord([]RecordField{{three, three}, {one, one}})
	other := MakeRecord([]RecordField{{two, two}})
	t1 := MakeSet(f1, other)
	t2 := MakeSet(other, f2)
	if !t1.Equal(t2) {
		t.Fatalf("premise: T1 and T2 must be equal values")
	}
	if d1, d2 := Choose(t1, always), Choose(t2, always); !d1.Equal(d2) {
		t.Errorf("C05 violated (equality ignores construction order): T1 = T2, but CHOOSE over T1 gives %v and over T2 gives %v",
			d1, d2)
	}
}

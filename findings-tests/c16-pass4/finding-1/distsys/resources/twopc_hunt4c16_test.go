package resources

import (
	"fmt"
	"sync"
	"testing"
	"time"

	"github.com/DistCompiler/pgo/distsys"
	"github.com/DistCompiler/pgo/distsys/tla"
)

// A gated in-process transport: every message waits in front of the receiver until the test
// delivers it. Delivery goes through receiveFiltered, exactly like LocalReplicaHandle.Send.

type h4Msg struct {
	arrived, released, done chan struct{}
}

type h4Gates struct {
	mu   sync.Mutex
	msgs map[string]*h4Msg
}

func (g *h4Gates) get(key string) *h4Msg {
	g.mu.Lock()
	defer g.mu.Unlock()
	m := g.msgs[key]
	if m == nil {
		m = &h4Msg{arrived: make(chan struct{}), released: make(chan struct{}), done: make(chan struct{})}
		g.msgs[key] = m
	}
	return m
}

type h4Handle struct {
	from, to string
	target   *TwoPCArchetypeResource
	g        *h4Gates
}

func (h h4Handle) Close() error { return nil }

func (h h4Handle) Send(request TwoPCRequest, reply *TwoPCResponse) chan error {
	m := h.g.get(fmt.Sprintf("%s>%s:%s:%d", h.from, h.to, request.RequestType, request.Version))
	close(m.arrived)
	<-m.released
	errCh := make(chan error, 1)
	errCh <- h.target.receiveFiltered(request, reply)
	close(m.done)
	return errCh
}

// TestHunt4C16TwoProposersWinOneVersion: five shared-counter nodes (A B Y Z W, so a quorum is the
// proposer plus 2 of its 4 replicas), every node doing what ANode.update does: read cntr, write
// cntr+1, PreCommit, Commit (or Abort after a failed PreCommit). Only message delays are used.
func TestHunt4C16TwoProposersWinOneVersion(t *testing.T) {
	names := []string{"A", "B", "Y", "Z", "W"}
	g := &h4Gates{msgs: make(map[string]*h4Msg)}
	node := make(map[string]*TwoPCArchetypeResource)
	for _, n := range names {
		node[n] = makeUnreplicatedTwoPCNamed(tla.MakeNumber(0), n)
	}
	for _, n := range names {
		var reps []ReplicaHandle
		for _, m := range names {
			if m != n {
				reps = append(reps, h4Handle{from: n, to: m, target: node[m], g: g})
			}
		}
		node[n].SetReplicas(reps)
	}
	iface := distsys.ArchetypeInterface{}
	wait := func(what string, ch <-chan struct{}) {
		t.Helper()
		select {
		case <-ch:
		case <-time.After(30 * time.Second):
			t.Fatalf("test harness: timed out waiting for %s", what)
		}
	}
	// deliver lets one message through and returns once the receiver has handled it
	deliver := func(keys ...string) {
		t.Helper()
		for _, key := range keys {
			m := g.get(key)
			wait("arrival of "+key, m.arrived)
			close(m.released)
			wait("handling of "+key, m.done)
		}
	}
	arrived := func(keys ...string) {
		t.Helper()
		for _, key := range keys {
			wait("arrival of "+key, g.get(key).arrived)
		}
	}
	// increment starts "cntr := cntr + 1" on node n up to and including PreCommit
	increment := func(n string) (read tla.Value, result chan error) {
		t.Helper()
		read, err := node[n].ReadValue(iface)
		if err != nil {
			t.Fatalf("test harness: %s could not read: %v", n, err)
		}
		if err = node[n].WriteValue(iface, tla.ModulePlusSymbol(read, tla.MakeNumber(1))); err != nil {
			t.Fatalf("test harness: %s could not write: %v", n, err)
		}
		return read, node[n].PreCommit(iface)
	}
	expect := func(what string, ch chan error, want error) {
		t.Helper()
		select {
		case err := <-ch:
			if err != want {
				t.Fatalf("test harness: %s: got %v, want %v", what, err, want)
			}
		case <-time.After(30 * time.Second):
			t.Fatalf("test harness: timed out waiting for %s", what)
		}
	}
	committed := 0

	// 1. A increments 0 -> 1 as version 1; B and Y promise; A's PreCommit to Z and W stays in flight.
	_, aPre := increment("A")
	deliver("A>B:PreCommit:1", "A>Y:PreCommit:1")
	expect("A's PreCommit", aPre, nil)
	aCommitDone := make(chan struct{})
	go func() { node["A"].Commit(iface); close(aCommitDone) }()
	// 2. A's Commit reaches B only; the copies for Y, Z and W are in flight.
	deliver("A>B:Commit:1")
	// 3. Z and W try their own increment of the stale 0; everyone they reach rejects them; they are
	// now waiting for the acks of their Abort (state inPreCommit).
	_, zPre := increment("Z")
	_, wPre := increment("W")
	arrived("Z>W:PreCommit:1", "W>Z:PreCommit:1")
	deliver("Z>A:PreCommit:1", "Z>Y:PreCommit:1", "Z>W:PreCommit:1")
	deliver("W>A:PreCommit:1", "W>Y:PreCommit:1", "W>Z:PreCommit:1")
	arrived("Z>A:Abort:1", "Z>Y:Abort:1", "W>A:Abort:1", "W>Y:Abort:1")
	// 4. B, which knows version 1, proposes version 2. Y accepts it, which REPLACES Y's promise to A
	// for version 1. A (committing), Z and W (pre-committing) reject, so B aborts version 2, and that
	// Abort leaves Y with no promise at all, still at version 0.
	bRead, bPre := increment("B")
	if !bRead.Equal(tla.MakeNumber(1)) {
		t.Fatalf("test harness: B read %v, want 1", bRead)
	}
	deliver("B>A:PreCommit:2", "B>Y:PreCommit:2", "B>Z:PreCommit:2", "B>W:PreCommit:2")
	deliver("B>Y:Abort:2", "B>A:Abort:2")
	expect("B's PreCommit", bPre, distsys.ErrCriticalSectionAborted)
	node["B"].Abort(iface)
	// 5. Z's and W's Aborts are acknowledged; they roll back and are idle (backing off).
	deliver("Z>A:Abort:1", "Z>Y:Abort:1", "W>A:Abort:1", "W>Y:Abort:1")
	expect("Z's PreCommit", zPre, distsys.ErrCriticalSectionAborted)
	expect("W's PreCommit", wPre, distsys.ErrCriticalSectionAborted)
	node["Z"].Abort(iface)
	node["W"].Abort(iface)
	// 6. Y, which promised version 1 to A and has never been released from that promise by A,
	// increments the stale 0 as version 1 itself; Z and W promise.
	yRead, yPre := increment("Y")
	deliver("Y>Z:PreCommit:1", "Y>W:PreCommit:1")
	select {
	case err := <-yPre:
		if err == nil {
			t.Errorf("2PC safety: Y (read %v) holds a quorum {Y,Z,W} for version 1 while A holds the quorum {A,B,Y} for version 1 and is committing it", yRead)
		} else {
			return // Y was refused: the property holds on this schedule
		}
	case <-time.After(30 * time.Second):
		t.Fatalf("test harness: timed out waiting for Y's PreCommit")
	}
	// 7. both commits run to completion and every message in flight for version 1 is delivered.
	yCommitDone := make(chan struct{})
	go func() { node["Y"].Commit(iface); close(yCommitDone) }()
	deliver("Y>Z:Commit:1", "Y>W:Commit:1")
	wait("Y's Commit", yCommitDone)
	committed++
	deliver("A>Y:Commit:1")
	wait("A's Commit", aCommitDone)
	committed++
	deliver("A>Z:Commit:1", "A>W:Commit:1", "Y>A:Commit:1", "Y>B:Commit:1")
	for _, n := range names {
		v, err := node[n].ReadValue(iface)
		node[n].Abort(iface)
		if err != nil {
			t.Fatalf("test harness: %s could not read: %v", n, err)
		}
		if !v.Equal(tla.MakeNumber(int32(committed))) {
			t.Errorf("C16 (the 2PC-backed shared counter ends at exactly the number of nodes): %d increments (A's and Y's) were committed, but node %s reads cntr = %v at version %d: an increment was lost, so with 5 nodes cntr can reach at most 4 and `await cntr = NUM_NODES` never holds",
				committed, n, v, node[n].version)
		}
	}
}

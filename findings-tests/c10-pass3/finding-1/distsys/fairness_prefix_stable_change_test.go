package distsys_test

import (
	"errors"
	"fmt"
	"testing"

	"github.com/DistCompiler/pgo/distsys"
	"github.com/DistCompiler/pgo/distsys/tla"
)

// C10: "... an alternative that is enabled is taken after a bounded number of retries, whatever the nesting depth,
// bounds, or changes of bounds ..." - quantified over "every identifier/bound change between attempts (prefix-stable or
// not)".
//
// The tests below retry one critical section whose FIRST choice point (an either with two alternatives) is the same on
// every attempt, while a choice point nested inside the alternatives changes its bound (or its identifier) between
// attempts more often than once per (bound) attempts.  Nothing depends on the random start values of the counter.

// runSection drives the real round-robin counter through `attempts` retries of the section
//
//	l: either { with (b \in S) { await FALSE } } or { with (c \in S) { await FALSE } }
//
// where the inner choice point of attempt t is inner(t, alternative).  It returns how often each alternative of the
// outer either was returned, and fails the test at once on an out-of-range answer.
func runSection(t *testing.T, attempts int, inner func(attempt int, alt uint) (string, uint)) [2]int {
	t.Helper()
	cnt := distsys.MakeRoundRobinFairnessCounter()
	var taken [2]int
	for attempt := 0; attempt < attempts; attempt++ {
		cnt.BeginCriticalSection("A.l")
		alt := cnt.NextFairnessCounter("A.l.0", 2)
		if alt >= 2 {
			t.Fatalf("C10 range clause violated: either of 2 alternatives answered %d", alt)
		}
		taken[alt]++
		id, bound := inner(attempt, alt)
		v := cnt.NextFairnessCounter(id, bound)
		if v >= bound {
			t.Fatalf("C10 range clause violated: with of bound %d answered %d", bound, v)
		}
	}
	return taken
}

func requireBothAlternatives(t *testing.T, attempts int, taken [2]int, what string) {
	t.Helper()
	for alt, n := range taken {
		if n == 0 {
			t.Errorf("C10 violated (an enabled alternative must be taken after a bounded number of retries, whatever "+
				"the changes of bounds/identifiers between attempts): in %d consecutive attempts of one critical section "+
				"whose outer either is consulted first on every attempt, alternative %d of that either was NEVER "+
				"returned (taken: %v) because %s", attempts, alt, taken, what)
		}
	}
}

// control: with a stable inner bound the same harness sees both alternatives (1+3 attempts would do).
func TestFairnessControlStableInnerBound(t *testing.T) {
	const attempts = 1000
	taken := runSection(t, attempts, func(_ int, alt uint) (string, uint) {
		return fmt.Sprintf("A.l.%d", 1+alt), 3
	})
	requireBothAlternatives(t, attempts, taken, "(control, must not fail)")
}

// the set of the nested with has 2 elements on even attempts and 3 on odd ones (another process adds and removes one
// element of a shared set between our attempts).
func TestFairnessOuterAlternativeStarvedWhenInnerBoundAlternates(t *testing.T) {
	const attempts = 1000
	taken := runSection(t, attempts, func(attempt int, alt uint) (string, uint) {
		return fmt.Sprintf("A.l.%d", 1+alt), uint(2 + attempt%2)
	})
	requireBothAlternatives(t, attempts, taken, "the bound of the nested with alternated between 2 and 3")
}

// the bound of the nested with changes only on every third attempt (5,5,5,6,6,6,5,...): less often than every attempt,
// but more often than once per `bound` attempts.
func TestFairnessOuterAlternativeStarvedWhenInnerBoundChangesEveryThirdAttempt(t *testing.T) {
	const attempts = 1000
	taken := runSection(t, attempts, func(attempt int, alt uint) (string, uint) {
		return fmt.Sprintf("A.l.%d", 1+alt), uint(5 + (attempt/3)%2)
	})
	requireBothAlternatives(t, attempts, taken, "the bound of the nested with changed (5<->6) on every third attempt")
}

// the bound stays 2, but the nested choice point is a different statement on odd attempts (an `if` on a value read from
// the environment selects one of two with statements inside the alternative).
func TestFairnessOuterAlternativeStarvedWhenInnerIdentifierAlternates(t *testing.T) {
	const attempts = 1000
	taken := runSection(t, attempts, func(attempt int, alt uint) (string, uint) {
		return fmt.Sprintf("A.l.%d", 1+2*alt+uint(attempt%2)), 2
	})
	requireBothAlternatives(t, attempts, taken, "the identifier of the nested choice point alternated")
}

// three levels: under each alternative of the outer either, an `if` on an environment value selects
//
//	with (x \in {1,2})  { with (y \in {1,2,3}) { await FALSE } }      (even attempts)
//	with (u \in {1})    { with (v \in {1,2})   { await FALSE } }      (odd attempts)
//
// so both nested levels are re-created on every attempt (this shape also defeats a repair that only lets the record
// re-created at the level of the mismatch inherit the progress of the record it replaces).
func TestFairnessOuterAlternativeStarvedWhenTwoNestedLevelsAlternate(t *testing.T) {
	const attempts = 1000
	cnt := distsys.MakeRoundRobinFairnessCounter()
	var taken [2]int
	consult := func(id string, bound uint) uint {
		v := cnt.NextFairnessCounter(id, bound)
		if v >= bound {
			t.Fatalf("C10 range clause violated: choice point %s of bound %d answered %d", id, bound, v)
		}
		return v
	}
	for attempt := 0; attempt < attempts; attempt++ {
		cnt.BeginCriticalSection("A.l")
		alt := consult("A.l.0", 2)
		taken[alt]++
		if attempt%2 == 0 {
			consult(fmt.Sprintf("A.l.%d", 1+4*alt), 2)
			consult(fmt.Sprintf("A.l.%d", 2+4*alt), 3)
		} else {
			consult(fmt.Sprintf("A.l.%d", 3+4*alt), 1)
			consult(fmt.Sprintf("A.l.%d", 4+4*alt), 2)
		}
	}
	requireBothAlternatives(t, attempts, taken, "the two nested choice points alternated between (2,3) and (1,2)")
}

// ---------------------------------------------------------------------------------------------------------------------
// the same through MPCalContext.Run, with a critical section written exactly as MPCalGoCodegenPass emits it for
//
//	archetype AWorker(ref pending) variable n = 0; {
//	l:  while (n < 2) {
//	        either { with (m \in pending) { await m = 0; } }   \* no element of pending is 0: this alternative is disabled
//	        or     { n := n + 1; }                              \* always enabled
//	    }
//	}
//
// `pending` is a shared set that the environment changes between our attempts ({1,2} <-> {1,2,3}).
// ---------------------------------------------------------------------------------------------------------------------

var errAttemptBudget = errors.New("attempt budget exhausted")

// pendingSet is the environment: a read-only set-valued resource whose value is stable within one attempt and that
// flips between {1,2} and {1,2,3} every time a critical section that read it is rolled back.
type pendingSet struct {
	distsys.ArchetypeResourceLeafMixin
	flips, reads, budget int
}

func (res *pendingSet) Abort(distsys.ArchetypeInterface) chan struct{} {
	res.flips++
	return nil
}
func (res *pendingSet) PreCommit(distsys.ArchetypeInterface) chan error { return nil }
func (res *pendingSet) Commit(distsys.ArchetypeInterface) chan struct{} { return nil }
func (res *pendingSet) ReadValue(distsys.ArchetypeInterface) (tla.Value, error) {
	res.reads++
	if res.reads > res.budget {
		return tla.Value{}, errAttemptBudget // ends Run: the test has seen enough
	}
	if res.flips%2 == 0 {
		return tla.MakeSet(tla.MakeNumber(1), tla.MakeNumber(2)), nil
	}
	return tla.MakeSet(tla.MakeNumber(1), tla.MakeNumber(2), tla.MakeNumber(3)), nil
}
func (res *pendingSet) WriteValue(distsys.ArchetypeInterface, tla.Value) error {
	panic("pending is read-only")
}
func (res *pendingSet) Close() error { return nil }

func TestRunStarvesEnabledEitherAlternativeWhileNestedWithSetChanges(t *testing.T) {
	var alternativeTaken [2]int

	jumpTable := distsys.MakeMPCalJumpTable(
		distsys.MPCalCriticalSection{
			Name: "AWorker.l",
			Body: func(iface distsys.ArchetypeInterface) error {
				var err error
				_ = err
				n := iface.RequireArchetypeResource("AWorker.n")
				pending, err := iface.RequireArchetypeResourceRef("AWorker.pending")
				if err != nil {
					return err
				}
				var condition tla.Value
				condition, err = iface.Read(n, nil)
				if err != nil {
					return err
				}
				if tla.ModuleLessThanSymbol(condition, tla.MakeNumber(2)).AsBool() {
					switch alt := iface.NextFairnessCounter("AWorker.l.0", 2); alt {
					case 0:
						alternativeTaken[0]++
						var mRead tla.Value
						mRead, err = iface.Read(pending, nil)
						if err != nil {
							return err
						}
						var mRead0 = mRead
						if mRead0.AsSet().Len() == 0 {
							return distsys.ErrCriticalSectionAborted
						}
						var m tla.Value = mRead0.SelectElement(iface.NextFairnessCounter("AWorker.l.1", uint(mRead0.AsSet().Len())))
						_ = m
						if !tla.ModuleEqualsSymbol(m, tla.MakeNumber(0)).AsBool() {
							return distsys.ErrCriticalSectionAborted
						}
						return iface.Goto("AWorker.l")
					case 1:
						alternativeTaken[1]++
						var exprRead tla.Value
						exprRead, err = iface.Read(n, nil)
						if err != nil {
							return err
						}
						err = iface.Write(n, nil, tla.ModulePlusSymbol(exprRead, tla.MakeNumber(1)))
						if err != nil {
							return err
						}
						return iface.Goto("AWorker.l")
					default:
						panic("current branch of either matches no code paths!")
					}
					// no statements
				} else {
					return iface.Goto("AWorker.Done")
				}
				// no statements
			},
		},
		distsys.MPCalCriticalSection{
			Name: "AWorker.Done",
			Body: func(distsys.ArchetypeInterface) error {
				return distsys.ErrDone
			},
		},
	)
	aWorker := distsys.MPCalArchetype{
		Name:              "AWorker",
		Label:             "AWorker.l",
		RequiredRefParams: []string{"AWorker.pending"},
		RequiredValParams: []string{},
		JumpTable:         jumpTable,
		ProcTable:         distsys.MakeMPCalProcTable(),
		PreAmble: func(iface distsys.ArchetypeInterface) {
			iface.EnsureArchetypeResourceLocal("AWorker.n", tla.MakeNumber(0))
		},
	}

	const budget = 5000
	env := &pendingSet{budget: budget}
	ctx := distsys.NewMPCalContext(tla.MakeNumber(1), aWorker, distsys.EnsureArchetypeRefParam("pending", env))
	err := ctx.Run() // everything is synchronous: no other goroutine, no timing

	if err != nil {
		if !errors.Is(err, errAttemptBudget) {
			t.Fatalf("unexpected error from Run: %v", err)
		}
		t.Fatalf("C10 violated (an enabled alternative must be taken after a bounded number of retries, whatever the "+
			"changes of bounds between attempts): label AWorker.l was attempted more than %d times; its alternative "+
			"`or { n := n + 1 }` is enabled on every attempt and has to be taken twice for the loop to end (4 attempts "+
			"per turn suffice for a round-robin over 1 + |pending| combinations), but the either answered 0 in %d "+
			"attempts and 1 in only %d, because the set of the nested `with (m \\in pending)` changed size between "+
			"attempts (%d flips) and its re-created counter never hands the carry to the either",
			budget, alternativeTaken[0], alternativeTaken[1], env.flips)
	}
}

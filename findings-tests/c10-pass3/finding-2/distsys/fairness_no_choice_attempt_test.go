package distsys_test

import (
	"errors"
	"testing"

	"github.com/DistCompiler/pgo/distsys"
	"github.com/DistCompiler/pgo/distsys/tla"
)

// C10: "... an alternative that is enabled is taken after a bounded number of retries ..." - for "every starting state
// of the oracle and any number of attempts", including sections that consult no choice point at all on some attempts.
//
// The section below first reads an input that is not ready on every second attempt (the attempt is rolled back before
// any choice point is consulted), and otherwise reaches an either with two alternatives.  The either has the same
// identifier and the same bound every time it is consulted, so a round-robin oracle has to alternate 0,1,0,1,... over
// the attempts that reach it: each alternative is then taken after at most 2 consultations.  The current oracle
// throws its whole state away in BeginCriticalSection after an attempt that consulted nothing, and draws a fresh
// random answer at the next consultation: the waiting time for an alternative is not bounded by anything.
//
// The random starts cannot be controlled from a test, so the test looks at 10000 consultations: a sequence of 10000
// independent fair coin flips has no run of 5 equal answers with probability below 1e-130.

const noChoiceBudget = 20000 // attempts; every second one reaches the either

var errNoChoiceBudget = errors.New("attempt budget exhausted")

// flakyInput is ready on every second read only (a network read that times out, an input channel that is empty, ...).
type flakyInput struct {
	distsys.ArchetypeResourceLeafMixin
	reads int
}

func (res *flakyInput) Abort(distsys.ArchetypeInterface) chan struct{}  { return nil }
func (res *flakyInput) PreCommit(distsys.ArchetypeInterface) chan error { return nil }
func (res *flakyInput) Commit(distsys.ArchetypeInterface) chan struct{} { return nil }
func (res *flakyInput) ReadValue(distsys.ArchetypeInterface) (tla.Value, error) {
	res.reads++
	if res.reads > noChoiceBudget {
		return tla.Value{}, errNoChoiceBudget // ends Run: the test has seen enough
	}
	if res.reads%2 == 1 {
		return tla.Value{}, distsys.ErrCriticalSectionAborted // not ready
	}
	return tla.MakeNumber(7), nil
}
func (res *flakyInput) WriteValue(distsys.ArchetypeInterface, tla.Value) error {
	panic("in is read-only")
}
func (res *flakyInput) Close() error { return nil }

func longestRun(answers []uint) (longest int, at int) {
	run := 0
	for i, a := range answers {
		if i > 0 && a == answers[i-1] {
			run++
		} else {
			run = 1
		}
		if run > longest {
			longest, at = run, i-run+1
		}
	}
	return
}

// through MPCalContext.Run, with a critical section written as MPCalGoCodegenPass emits it for
//
//	archetype AServer(ref in) variable req; {
//	l:  req := in;                                  \* aborts while no input is ready
//	    either { await req = 0; } or { await req = 1; }   \* (both disabled here, so that the label keeps being retried)
//	}
func TestRunForgetsRoundRobinPositionAfterAttemptWithoutChoicePoint(t *testing.T) {
	var answers []uint

	jumpTable := distsys.MakeMPCalJumpTable(
		distsys.MPCalCriticalSection{
			Name: "AServer.l",
			Body: func(iface distsys.ArchetypeInterface) error {
				var err error
				_ = err
				req := iface.RequireArchetypeResource("AServer.req")
				in, err := iface.RequireArchetypeResourceRef("AServer.in")
				if err != nil {
					return err
				}
				var exprRead tla.Value
				exprRead, err = iface.Read(in, nil)
				if err != nil {
					return err
				}
				err = iface.Write(req, nil, exprRead)
				if err != nil {
					return err
				}
				switch alt := iface.NextFairnessCounter("AServer.l.0", 2); alt {
				case 0:
					answers = append(answers, alt)
					var condition tla.Value
					condition, err = iface.Read(req, nil)
					if err != nil {
						return err
					}
					if !tla.ModuleEqualsSymbol(condition, tla.MakeNumber(0)).AsBool() {
						return distsys.ErrCriticalSectionAborted
					}
					return iface.Goto("AServer.Done")
				case 1:
					answers = append(answers, alt)
					var condition0 tla.Value
					condition0, err = iface.Read(req, nil)
					if err != nil {
						return err
					}
					if !tla.ModuleEqualsSymbol(condition0, tla.MakeNumber(1)).AsBool() {
						return distsys.ErrCriticalSectionAborted
					}
					return iface.Goto("AServer.Done")
				default:
					panic("current branch of either matches no code paths!")
				}
			},
		},
		distsys.MPCalCriticalSection{
			Name: "AServer.Done",
			Body: func(distsys.ArchetypeInterface) error {
				return distsys.ErrDone
			},
		},
	)
	aServer := distsys.MPCalArchetype{
		Name:              "AServer",
		Label:             "AServer.l",
		RequiredRefParams: []string{"AServer.in"},
		RequiredValParams: []string{},
		JumpTable:         jumpTable,
		ProcTable:         distsys.MakeMPCalProcTable(),
		PreAmble: func(iface distsys.ArchetypeInterface) {
			iface.EnsureArchetypeResourceLocal("AServer.req", tla.Value{})
		},
	}

	ctx := distsys.NewMPCalContext(tla.MakeNumber(1), aServer, distsys.EnsureArchetypeRefParam("in", &flakyInput{}))
	err := ctx.Run() // everything is synchronous: no other goroutine, no timing
	if !errors.Is(err, errNoChoiceBudget) {
		t.Fatalf("unexpected result of Run: %v", err)
	}
	if len(answers) != noChoiceBudget/2 {
		t.Fatalf("harness: expected %d consultations, saw %d", noChoiceBudget/2, len(answers))
	}

	longest, at := longestRun(answers)
	if longest > 4 {
		t.Errorf("C10 violated (an enabled alternative is taken after a bounded number of retries): the either "+
			"AServer.l.0 (same identifier, bound 2 at each of its %d consultations) answered %d, %d times in a row "+
			"(consultations %d..%d), although round-robin over 2 alternatives must switch at every consultation; "+
			"attempts that abort before the first choice point make BeginCriticalSection drop the whole stack, so each "+
			"consultation draws a new random start and no bound on the wait for the other alternative exists",
			len(answers), answers[at], longest, at, at+longest-1)
	}
}

// the same with the counter alone.
func TestFairnessCounterForgetsPositionAfterAttemptWithoutChoicePoint(t *testing.T) {
	cnt := distsys.MakeRoundRobinFairnessCounter()
	var answers []uint
	for attempt := 0; attempt < noChoiceBudget; attempt++ {
		cnt.BeginCriticalSection("A.l")
		if attempt%2 == 0 {
			continue // aborted before the first choice point
		}
		v := cnt.NextFairnessCounter("A.l.0", 2)
		if v >= 2 {
			t.Fatalf("C10 range clause violated: either of 2 alternatives answered %d", v)
		}
		answers = append(answers, v)
	}
	longest, at := longestRun(answers)
	if longest > 4 {
		t.Errorf("C10 violated (an enabled alternative is taken after a bounded number of retries): choice point A.l.0 "+
			"(bound 2, consulted on every second attempt, nothing else consulted) answered %d, %d times in a row "+
			"(consultations %d..%d of %d); round-robin must switch at every consultation", answers[at], longest, at,
			at+longest-1, len(answers))
	}
}

---- MODULE PbStep ----
EXTENDS pbkvs
\* One step of label rcvReplicaRespLoop of replica 1 (primary) from a state in which it still waits for the
\* acknowledgements of replicas 2 and 10, both of which have crashed (fd = TRUE) and sent nothing.
InitS == /\ network = [id \in NODE_SET, typ \in MSG_INDEX_SET |-> [queue |-> <<>>, enabled |-> ~(id \in {2, 10})]]
         /\ fd = [id \in REPLICA_SET |-> id \in {2, 10}]
         /\ fs = [id \in REPLICA_SET |-> [key \in KEY_SET |-> ""]]
         /\ primary = REPLICA_SET \ {2, 10}
         /\ clientInput = <<>>
         /\ clientOutput = defaultInitValue
         /\ req = [self \in REPLICA_SET |-> defaultInitValue]
         /\ respBody = [self \in REPLICA_SET |-> defaultInitValue]
         /\ respTyp = [self \in REPLICA_SET |-> defaultInitValue]
         /\ idx = [self \in REPLICA_SET |-> defaultInitValue]
         /\ repReq = [self \in REPLICA_SET |-> defaultInitValue]
         /\ repResp = [self \in REPLICA_SET |-> defaultInitValue]
         /\ resp = [self \in REPLICA_SET |-> defaultInitValue]
         /\ replicaSet = [self \in REPLICA_SET |-> IF self = 1 THEN {2, 10} ELSE defaultInitValue]
         /\ shouldSync = [self \in REPLICA_SET |-> FALSE]
         /\ lastPutBody = [self \in REPLICA_SET |-> [versionNumber |-> 0]]
         /\ replica = [self \in REPLICA_SET |-> defaultInitValue]
         /\ req0 = [self \in CLIENT_SET |-> defaultInitValue]
         /\ resp0 = [self \in CLIENT_SET |-> defaultInitValue]
         /\ msg = [self \in CLIENT_SET |-> defaultInitValue]
         /\ replica0 = [self \in CLIENT_SET |-> defaultInitValue]
         /\ idx0 = [self \in CLIENT_SET |-> 0]
         /\ pc = [self \in ProcSet |-> IF self = 1 THEN "rcvReplicaRespLoop" ELSE "Done"]
Fired == pc[1] = "rcvReplicaRespLoop" /\ replica[1] = defaultInitValue
NextS == Fired /\ rcvReplicaRespLoop(1)
SpecS == InitS /\ [][NextS]_vars
\* what the generated Go does: replica' = 10, replicaSet' = {2}
GoSuccessorNotInSpec == ~(replica[1] = 10)
====

SPECIFICATION SpecS
CONSTANT defaultInitValue = defaultInitValue
CONSTANT NUM_REPLICAS = 10
CONSTANT NUM_CLIENTS = 1
CONSTANT DEBUG = FALSE
CONSTANT EXPLORE_FAIL = TRUE
INVARIANT GoSuccessorNotInSpec

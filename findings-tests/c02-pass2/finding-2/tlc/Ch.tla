---- MODULE Ch ----
EXTENDS Naturals, TLC
ASSUME PrintT(<<"CHOOSE r \\in (1..10) \\ {1} : TRUE =", CHOOSE r \in (1..10) \ {1} : TRUE>>)
ASSUME PrintT(<<"CHOOSE r \\in {10, 2} : TRUE =", CHOOSE r \in {10, 2} : TRUE>>)
====

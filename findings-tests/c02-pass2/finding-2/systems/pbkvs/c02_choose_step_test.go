package pbkvs

// C02 (generated Go takes exactly the steps its spec's PlusCal translation prescribes).
//
// Spec/Go pair: systems/pbkvs/pbkvs.tla / systems/pbkvs/pbkvs.go, archetype AReplica, label rcvReplicaRespLoop,
// second `either` alternative:
//
//	replica := CHOOSE r \in replicaSet: TRUE;
//	await fd[replica] /\ netLen[<<self, RESP_INDEX>>] = 0;
//	replicaSet := replicaSet \ {replica};
//
// Pre-state (model NUM_REPLICAS = 10, EXPLORE_FAIL = TRUE): the primary, replica 1, is at rcvReplicaRespLoop and still
// waits for replicas 2 and 10 (replicaSet[1] = {2, 10}); nothing is queued for replica 1.
//
// (a) replicas 2 and 10 have both crashed (fd[2] = fd[10] = TRUE).  TLC on the checked-in translation (RUN.md,
//     PbStep.tla): every successor by rcvReplicaRespLoop(1) has replica[1] = 2 and replicaSet[1] = {10}.
//     The generated Go commits replica = 10, replicaSet = {2}.
// (b) only replica 10 has crashed (fd[10] = TRUE, fd[2] = FALSE).  TLC (PbStepB.tla): rcvReplicaRespLoop(1) has no
//     successor (CHOOSE gives 2, `await fd[2]` is false, the other alternative has nothing to read).
//     The generated Go commits the step (replica = 10, replicaSet = {2}): a state the spec cannot reach here.
//
// Cause: tla.Choose picks the candidate whose printed form is least as a *string* ("10" < "2"); TLC's CHOOSE takes the
// first satisfying element of the normalised (numerically sorted) set.

import (
	"runtime"
	"testing"

	"github.com/DistCompiler/pgo/distsys"
	"github.com/DistCompiler/pgo/distsys/tla"
	"github.com/DistCompiler/pgo/distsys/trace"
)

// c02ConstMap: a function-mapped resource (ref x[_]) every element of which reads as a fixed value; writes are dropped.
type c02ConstMap struct {
	distsys.ArchetypeResourceMapMixin
	value tla.Value                  // value of every element ...
	at    func(tla.Value) *tla.Value // ... unless at(index) says otherwise
}

func (res *c02ConstMap) Abort(distsys.ArchetypeInterface) chan struct{}  { return nil }
func (res *c02ConstMap) PreCommit(distsys.ArchetypeInterface) chan error { return nil }
func (res *c02ConstMap) Commit(distsys.ArchetypeInterface) chan struct{} { return nil }
func (res *c02ConstMap) Close() error                                    { return nil }
func (res *c02ConstMap) Index(_ distsys.ArchetypeInterface, index tla.Value) (distsys.ArchetypeResource, error) {
	if res.at != nil {
		if v := res.at(index); v != nil {
			return &c02ConstLeaf{value: *v}, nil
		}
	}
	return &c02ConstLeaf{value: res.value}, nil
}

type c02ConstLeaf struct {
	distsys.ArchetypeResourceLeafMixin
	value tla.Value
}

func (res *c02ConstLeaf) Abort(distsys.ArchetypeInterface) chan struct{}  { return nil }
func (res *c02ConstLeaf) PreCommit(distsys.ArchetypeInterface) chan error { return nil }
func (res *c02ConstLeaf) Commit(distsys.ArchetypeInterface) chan struct{} { return nil }
func (res *c02ConstLeaf) Close() error                                    { return nil }
func (res *c02ConstLeaf) ReadValue(distsys.ArchetypeInterface) (tla.Value, error) {
	return res.value, nil
}
func (res *c02ConstLeaf) WriteValue(distsys.ArchetypeInterface, tla.Value) error { return nil }

// c02OneStep resolves every nondeterministic choice as told and ends the run when a second critical section starts.
type c02OneStep struct {
	choices map[string]uint
	begun   int
}

func (f *c02OneStep) BeginCriticalSection(string) {
	f.begun++
	if f.begun > 1 {
		runtime.Goexit() // exactly one attempt of exactly one label
	}
}
func (f *c02OneStep) NextFairnessCounter(id string, ceiling uint) uint {
	c, ok := f.choices[id]
	if !ok {
		panic("unexpected choice point " + id)
	}
	return c
}

type c02CommitRecorder struct{ commits, aborts int }

func (r *c02CommitRecorder) RecordEvent(event trace.Event) {
	if event.IsAbort {
		r.aborts++
	} else {
		r.commits++
	}
}

// c02RunOneStep runs one attempt of AReplica.rcvReplicaRespLoop for self = 1 from replicaSet = {2, 10}, taking the second
// `either` alternative (and `skip` in mayFail), with the given failure detector contents.
func c02RunOneStep(t *testing.T, fd *c02ConstMap) (commits, aborts int, pc, replica, replicaSet tla.Value) {
	arch := AReplica
	arch.Label = "AReplica.rcvReplicaRespLoop"
	origPreAmble := arch.PreAmble
	arch.PreAmble = func(iface distsys.ArchetypeInterface) {
		origPreAmble(iface)
		// replicaSet[1] = {2, 10}
		iface.EnsureArchetypeResourceLocal("AReplica.replicaSet", tla.MakeSet(tla.MakeNumber(2), tla.MakeNumber(10)))
	}

	rec := &c02CommitRecorder{}
	ctx := distsys.NewMPCalContext(tla.MakeNumber(1), arch,
		distsys.DefineConstantValue("NUM_REPLICAS", tla.MakeNumber(10)),
		distsys.DefineConstantValue("NUM_CLIENTS", tla.MakeNumber(1)),
		distsys.DefineConstantValue("EXPLORE_FAIL", tla.ModuleTRUE),
		distsys.DefineConstantValue("DEBUG", tla.ModuleFALSE),
		distsys.EnsureArchetypeRefParam("net", &c02ConstMap{value: tla.MakeTuple()}),       // not touched by this alternative
		distsys.EnsureArchetypeRefParam("fs", &c02ConstMap{value: tla.MakeString("")}),     // not touched
		distsys.EnsureArchetypeRefParam("fd", fd),                                          // failure detector
		distsys.EnsureArchetypeRefParam("netEnabled", &c02ConstMap{value: tla.ModuleTRUE}), // not touched (mayFail: skip)
		distsys.EnsureArchetypeRefParam("primary", distsys.NewLocalArchetypeResource(tla.MakeNumber(1))),
		distsys.EnsureArchetypeRefParam("netLen", &c02ConstMap{value: tla.MakeNumber(0)}), // Len(network[<<1, RESP_INDEX>>].queue) = 0
		distsys.SetTraceRecorder(rec),
		distsys.SetFairnessCounter(&c02OneStep{choices: map[string]uint{
			"AReplica.rcvReplicaRespLoop.0": 1, // either ... or { replica := CHOOSE ...
			"AReplica.rcvReplicaRespLoop.1": 0, // mayFail: either { skip }
		}}))

	done := make(chan struct{})
	go func() {
		defer close(done)
		_ = ctx.Run()
	}()
	<-done

	iface := ctx.IFace()
	return rec.commits, rec.aborts, iface.ReadArchetypeResourceLocal(".pc"),
		iface.ReadArchetypeResourceLocal("AReplica.replica"), iface.ReadArchetypeResourceLocal("AReplica.replicaSet")
}

// (a) replicas 2 and 10 have both crashed: the spec allows the step, but with replica' = 2, replicaSet' = {10}.
func TestC02_AReplica_rcvReplicaRespLoop_ChooseDiffersFromSpec(t *testing.T) {
	commits, aborts, gotPC, gotReplica, gotReplicaSet := c02RunOneStep(t, &c02ConstMap{value: tla.ModuleTRUE})
	if commits != 1 || aborts != 0 {
		t.Fatalf("expected exactly one committed step, got %d commits and %d aborts (test setup problem)", commits, aborts)
	}
	t.Logf("committed step: pc' = %v, replica' = %v, replicaSet' = %v", gotPC, gotReplica, gotReplicaSet)

	// successor given by TLC for rcvReplicaRespLoop(1) from this state (both mayFail alternatives): see RUN.md
	specReplica := tla.MakeNumber(2)
	specReplicaSet := tla.MakeSet(tla.MakeNumber(10))
	if !gotReplica.Equal(specReplica) || !gotReplicaSet.Equal(specReplicaSet) {
		t.Errorf("C02 violated (same variable updates under the same choices): label rcvReplicaRespLoop of AReplica, self = 1, "+
			"pre-state replicaSet = {2, 10}, fd[2] = fd[10] = TRUE, netLen[<<1, RESP_INDEX>>] = 0, second `either` alternative: "+
			"generated Go committed replica' = %v, replicaSet' = %v; every successor the spec's translation "+
			"(TLC, rcvReplicaRespLoop(1)) allows has replica' = %v, replicaSet' = %v",
			gotReplica, gotReplicaSet, specReplica, specReplicaSet)
	}
}

// (b) only replica 10 has crashed (fd[10] = TRUE, fd[2] = FALSE) and nothing is queued: in the spec CHOOSE gives 2,
// `await fd[2]` is false, the other alternative has no message to read: rcvReplicaRespLoop(1) is disabled (TLC: no successor).
func TestC02_AReplica_rcvReplicaRespLoop_CommitsStepTheSpecDisables(t *testing.T) {
	fd := &c02ConstMap{value: tla.ModuleFALSE, at: func(index tla.Value) *tla.Value {
		if index.Equal(tla.MakeNumber(10)) {
			v := tla.ModuleTRUE
			return &v
		}
		return nil
	}}
	commits, aborts, gotPC, gotReplica, gotReplicaSet := c02RunOneStep(t, fd)
	t.Logf("commits = %d, aborts = %d, pc = %v, replica = %v, replicaSet = %v", commits, aborts, gotPC, gotReplica, gotReplicaSet)
	if commits != 0 {
		t.Errorf("C02 violated (a step the spec disables never commits): label rcvReplicaRespLoop of AReplica, self = 1, "+
			"pre-state replicaSet = {2, 10}, fd[2] = FALSE, fd[10] = TRUE, no message queued: the spec's translation has no "+
			"successor by rcvReplicaRespLoop(1) (CHOOSE r \\in {2, 10} : TRUE = 2 in TLC and `await fd[2]` fails), "+
			"but the generated Go committed the step with replica' = %v, replicaSet' = %v", gotReplica, gotReplicaSet)
	}
}

SPECIFICATION SpecS
CONSTANT defaultInitValue = 0
INVARIANT V1Not41

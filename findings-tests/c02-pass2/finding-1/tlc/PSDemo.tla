---- MODULE PSDemo ----
EXTENDS ProcedureSpaghetti
\* only process 2 (instance Arch1(ref V1, 40)) takes steps; a legal behaviour of Spec
Next2 == Pross2 \/ Proc10(2) \/ Proc11(2) \/ Proc12(2) \/ Proc13(2) \/ Proc20(2) \/ Proc21(2) \/ Proc22(2) \/ Proc23(2)
Spec2 == Init /\ [][Next2]_vars
====

---- MODULE PSStep ----
EXTENDS ProcedureSpaghetti
\* one step of label Proc1lbl2 of Proc11 (the copy of Proc1 called by Pross2) from the chosen pre-state
InitS == /\ V1 = 1 /\ V2 = defaultInitValue
         /\ b  = [self \in ProcSet |-> defaultInitValue]
         /\ c0 = [self \in ProcSet |-> defaultInitValue]
         /\ b0 = [self \in ProcSet |-> IF self = 2 THEN 40 ELSE defaultInitValue]
         /\ c1 = [self \in ProcSet |-> defaultInitValue]
         /\ b1 = [self \in ProcSet |-> defaultInitValue]
         /\ c2 = [self \in ProcSet |-> defaultInitValue]
         /\ b2 = [self \in ProcSet |-> defaultInitValue]
         /\ c3 = [self \in ProcSet |-> defaultInitValue]
         /\ c = defaultInitValue /\ f = 30 /\ f0 = 40 /\ f1 = 50 /\ f2 = 60
         /\ stack = [self \in ProcSet |-> IF self = 2
                        THEN << [procedure |-> "Proc11", pc |-> "Done", c1 |-> defaultInitValue, b0 |-> defaultInitValue] >>
                        ELSE << >>]
         /\ pc = [self \in ProcSet |-> IF self = 2 THEN "Proc1lbl2_P" ELSE "Done"]
SpecS == InitS /\ [][Proc1lbl2_P(2)]_vars
V1Not41 == V1 # 41
====

SPECIFICATION Spec2
CONSTANT defaultInitValue = 0

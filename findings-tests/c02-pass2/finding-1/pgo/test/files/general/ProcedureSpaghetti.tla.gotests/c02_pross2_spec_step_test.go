package procedurespaghetti

// C02 (generated Go takes exactly the steps its spec's PlusCal translation prescribes).
//
// Spec/Go pair: pgo/test/files/general/ProcedureSpaghetti.tla (+ .tla.expectpcal, the PlusCal/TLA+ translation the
// compiler emits for it) and ProcedureSpaghetti.tla.gotests/ProcedureSpaghetti.go.
//
// Instance under test:   process (Pross2 = 2) == instance Arch1(ref V1, 40);      (V1 not mapped)
//
// The PlusCal translation of that instance (ProcedureSpaghetti.tla.expectpcal) is
//
//	procedure Proc21()        { Proc2lbl1: V1 := (V1) + (1); return; }
//	procedure Proc11(b0)      variables c1;
//	                          { Proc1lbl1: call Proc21(); goto Proc1lbl2;
//	                            Proc1lbl2: V1 := (V1) + (b); return; }        <-- "b", not the parameter "b0"
//	process (Pross2 = 2)      variables f0 = 40;
//	                          { Arch1lbl: call Proc11(f0); goto Done; }
//
// "b" is the parameter of a *different* procedure (Proc10, the copy of Proc1 made for Pross1); for self = 2 it is never
// assigned and still holds its initial value defaultInitValue.  TLA+ translation of the label (checked-in text):
//
//	Proc1lbl2_P(self) == /\ pc[self] = "Proc1lbl2_P"
//	                     /\ V1' = (V1) + (b[self])
//	                     /\ pc' = [pc EXCEPT ![self] = Head(stack[self]).pc] ...
//
// So from the state  V1 = 1, b0[2] = 40, b[2] = defaultInitValue  the spec's step gives  V1' = 1 + defaultInitValue
// (= 1 when the model assigns defaultInitValue <- 0; a TLC evaluation error, i.e. no successor at all, when
// defaultInitValue is a model value).  TLC on the translation, only process 2 moving, defaultInitValue = 0:
// V1 = 0, 0, 0, 1 and then no further successor (see RUN.md).  V1 = 41 is not reachable in the spec by process 2 alone.
//
// The generated Go (label Proc1.Proc1lbl2: a := a + b with Proc1.b = 40) commits V1' = 41.

import (
	"fmt"
	"testing"

	"github.com/DistCompiler/pgo/distsys"
	"github.com/DistCompiler/pgo/distsys/tla"
	"github.com/DistCompiler/pgo/distsys/trace"
)

type c02Step struct {
	pcAfter string
	v1After tla.Value
}

type c02Recorder struct {
	ctx   **distsys.MPCalContext
	steps []c02Step
}

func (r *c02Recorder) RecordEvent(event trace.Event) {
	if event.IsAbort {
		return
	}
	iface := (*r.ctx).IFace()
	r.steps = append(r.steps, c02Step{
		pcAfter: iface.ReadArchetypeResourceLocal(".pc").AsString(),
		v1After: iface.ReadArchetypeResourceLocal("&Arch1.e"),
	})
}

func TestC02_Pross2_Proc1lbl2_AddsWrongParameter(t *testing.T) {
	// defaultInitValue <- 0 in the model: V1 (declared "variables V1, V2;") starts at 0
	const defaultInitValue = 0

	var ctx *distsys.MPCalContext
	rec := &c02Recorder{ctx: &ctx}
	ctx = distsys.NewMPCalContext(tla.MakeNumber(2), Arch1,
		distsys.EnsureArchetypeRefParam("e", distsys.NewLocalArchetypeResource(tla.MakeNumber(defaultInitValue))), // ref V1
		distsys.EnsureArchetypeValueParam("f", tla.MakeNumber(40)),                                                // 40
		distsys.SetTraceRecorder(rec))

	if err := ctx.Run(); err != nil {
		t.Fatalf("Run: %v", err)
	}

	for i, s := range rec.steps {
		t.Logf("committed step %d: pc' = %q, V1' = %v", i+1, s.pcAfter, s.v1After)
	}

	// steps 1..3 agree with the spec: Arch1lbl (call Proc1), Proc1lbl1 (call Proc2), Proc2lbl1 (V1 := V1 + 1; return)
	wantPrefix := []c02Step{
		{"Proc1.Proc1lbl1", tla.MakeNumber(0)},
		{"Proc2.Proc2lbl1", tla.MakeNumber(0)},
		{"Proc1.Proc1lbl2", tla.MakeNumber(1)},
	}
	if len(rec.steps) < 4 {
		t.Fatalf("expected at least 4 committed steps, got %d", len(rec.steps))
	}
	for i, w := range wantPrefix {
		g := rec.steps[i]
		if g.pcAfter != w.pcAfter || !g.v1After.Equal(w.v1After) {
			t.Fatalf("step %d: got pc'=%q V1'=%v, want pc'=%q V1'=%v (test setup problem, not the finding)",
				i+1, g.pcAfter, g.v1After, w.pcAfter, w.v1After)
		}
	}

	// step 4 = label Proc1lbl2 of the Proc1 copy called by Pross2, pre-state V1 = 1, parameter (b0[2]) = 40,
	// Proc10's parameter b[2] = defaultInitValue.
	// Spec (PlusCal translation): V1' = V1 + b[self] = 1 + defaultInitValue.
	specV1 := tla.MakeNumber(1 + defaultInitValue)
	got := rec.steps[3]
	if !got.v1After.Equal(specV1) {
		t.Errorf("C02 violated (same variable updates): step Proc1lbl2 of instance Pross2 = Arch1(ref V1, 40), "+
			"pre-state V1 = 1, b0[2] = 40, b[2] = defaultInitValue = %d: generated Go committed V1' = %v (pc' = %q), "+
			"but the spec's PlusCal translation of this label is `V1 := (V1) + (b)` / `V1' = (V1) + (b[self])` "+
			"(b is Proc10's parameter, not Proc11's parameter b0), which prescribes V1' = %v "+
			"(and no successor at all if defaultInitValue is a model value); %s",
			defaultInitValue, got.v1After, got.pcAfter, specV1,
			fmt.Sprintf("V1 = %v is not reachable in the spec when only process 2 takes steps", got.v1After))
	}
}

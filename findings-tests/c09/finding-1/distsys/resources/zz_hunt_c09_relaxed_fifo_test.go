package resources

import (
	"runtime"
	"strings"
	"testing"
	"time"

	"github.com/DistCompiler/pgo/distsys"
	"github.com/DistCompiler/pgo/distsys/tla"
)

// countBlockedHandlers reports how many handleConn goroutines of relaxed local
// mailboxes are currently parked in `res.msgChannel <- value`.
func countBlockedHandlers() int {
	buf := make([]byte, 1<<22)
	n := runtime.Stack(buf, true)
	cnt := 0
	for _, g := range strings.Split(string(buf[:n]), "\n\n") {
		if strings.Contains(g, "[chan send") && strings.Contains(g, "relaxedMailboxesLocal).handleConn") {
			cnt++
		}
	}
	return cnt
}

// C09 (raftkvs linearizability) relies on "per-link FIFO" delivery between one
// sending archetype and one receiving mailbox (AppendEntries requests from one
// leader to one follower in particular: the follower truncates its log
// unconditionally to what the request covers).
//
// The network below is a perfectly healthy loopback TCP network: nothing is
// dropped, nothing is reordered, nobody crashes. The only thing that happens is
// that the receiver is slow (a legal schedule), so that one write of the sender
// hits its write timeout. relaxedMailboxesRemote.WriteValue then closes the
// connection and the retry dials a *second* connection, while the first
// connection's handler goroutine on the receiving side is still delivering
// the messages that sit in the kernel buffers of the first connection.
// Messages of the *same logical link* are then delivered out of order.
func TestHuntC09RelaxedMailboxesPerLinkFIFOBrokenByWriteTimeoutRetry(t *testing.T) {
	iface := distsys.ArchetypeInterface{} // not used by the code paths below

	local := newRelaxedMailboxesLocal("127.0.0.1:0",
		WithMailboxesReceiveChanSize(1),
		WithMailboxesReadTimeout(20*time.Second),
	).(*relaxedMailboxesLocal)
	defer local.Close()
	addr := local.listener.Addr().String()

	remote := newRelaxedMailboxesRemote(addr,
		WithMailboxesDialTimeout(5*time.Second),
		WithMailboxesWriteTimeout(500*time.Millisecond),
	).(*relaxedMailboxesRemote)
	defer remote.Close()

	pad := tla.MakeString(strings.Repeat("x", 256*1024))
	mkMsg := func(seq int) tla.Value {
		return tla.MakeRecord([]tla.RecordField{
			{Key: tla.MakeString("seq"), Value: tla.MakeNumber(int32(seq))},
			{Key: tla.MakeString("pad"), Value: pad},
		})
	}

	// Phase 1: the sender sends messages 1, 2, 3, ... on the link; the receiving
	// archetype is slow and reads nothing yet. Every successful send is a
	// committed critical section (the message "has been sent").
	sent := 0
	for {
		if sent > 4000 {
			t.Skip("could not fill the socket buffers; environment has huge TCP buffers")
		}
		err := remote.WriteValue(iface, mkMsg(sent+1))
		if err != nil {
			// the write timed out (receiver is slow): the critical section aborts ...
			if err != distsys.ErrCriticalSectionAborted {
				t.Fatalf("unexpected error: %v", err)
			}
			remote.Abort(iface)
			break
		}
		remote.Commit(iface)
		sent++
	}
	if sent < 3 {
		t.Fatalf("only %d messages fit; test needs at least 3", sent)
	}

	// Phase 2: ... and is retried, which sends the next message of the link: seq = sent+1.
	if err := remote.WriteValue(iface, mkMsg(sent+1)); err != nil {
		t.Fatalf("retry after the write timeout failed: %v", err)
	}
	remote.Commit(iface)
	last := sent + 1

	// Synchronise (no timing luck): wait until both receiving handler goroutines (the one
	// of the first connection and the one of the retry's connection) are parked on the
	// mailbox channel.
	deadline := time.Now().Add(60 * time.Second)
	for countBlockedHandlers() < 2 {
		if time.Now().After(deadline) {
			t.Fatalf("handlers did not park; blocked=%d", countBlockedHandlers())
		}
		time.Sleep(5 * time.Millisecond)
	}

	// Phase 3: the slow receiver finally reads its mailbox, one committed critical
	// section per message, exactly like AServer.serverLoop does.
	var order []int
	for len(order) < last {
		v, err := local.ReadValue(iface)
		if err != nil {
			t.Fatalf("read failed after %d messages (%v): %v", len(order), order, err)
		}
		local.Commit(iface)
		order = append(order, int(v.ApplyFunction(tla.MakeString("seq")).AsNumber()))
	}

	pos := -1
	for i, s := range order {
		if s == last {
			pos = i
		}
	}
	for i := pos + 1; i < len(order); i++ {
		if order[i] < last {
			t.Fatalf("per-link FIFO violated on a healthy network: message #%d (sent LAST on the link, by the retry after a write timeout) "+
				"was delivered at position %d, BEFORE message #%d which the same sender had successfully sent EARLIER on the same link "+
				"(delivered at position %d). %d messages in total were overtaken. For raftkvs this lets an older, shorter AppendEntries request "+
				"arrive after a newer, longer one, and the follower then truncates entries it has already acknowledged (see the raftkvs test).",
				last, pos+1, order[i], i+1, len(order)-pos-1)
		}
	}
}

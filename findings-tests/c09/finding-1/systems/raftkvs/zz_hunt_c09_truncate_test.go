package raftkvs_test

// Hunt C09, finding 1 (second half).
//
// The generated AServer archetype (from raftkvs.tla) handles an accepted
// AppendEntries request by *unconditionally* truncating its log to
// m.mprevLogIndex and appending m.mentries. That is only safe if requests of one
// leader arrive in the order in which they were sent. The relaxed mailboxes do
// not guarantee that (see distsys/resources/zz_hunt_c09_relaxed_fifo_test.go: a
// retry after a write timeout opens a second connection and overtakes messages
// that were sent earlier on the same link).
//
// This test drives the real generated archetypes (server 2: AServer; server 3:
// all five server archetypes) over an in-memory network. Server 1 (the leader of
// term 2) and the client are played by the test, sending exactly the messages
// their archetypes would send.

import (
	"fmt"
	"sync"
	"testing"
	"time"

	"github.com/DistCompiler/pgo/distsys"
	"github.com/DistCompiler/pgo/distsys/resources"
	"github.com/DistCompiler/pgo/distsys/tla"
	"github.com/DistCompiler/pgo/systems/raftkvs"
)

// ---------- in-memory network ----------

type h9Router struct {
	mu    sync.Mutex
	boxes map[int32]chan tla.Value
	log   []tla.Value // every message handed to the network, in order
}

func (r *h9Router) send(dest int32, m tla.Value) {
	r.mu.Lock()
	r.log = append(r.log, m)
	box := r.boxes[dest]
	r.mu.Unlock()
	if box != nil {
		box <- m
	}
	// messages to server 1 (crashed / played by the test) and to the client are only logged
}

func (r *h9Router) find(pred func(m tla.Value) bool) (tla.Value, bool) {
	r.mu.Lock()
	defer r.mu.Unlock()
	for _, m := range r.log {
		if pred(m) {
			return m, true
		}
	}
	return tla.Value{}, false
}

func (r *h9Router) await(t *testing.T, what string, pred func(m tla.Value) bool) tla.Value {
	t.Helper()
	deadline := time.Now().Add(90 * time.Second)
	for {
		if m, ok := r.find(pred); ok {
			return m
		}
		if time.Now().After(deadline) {
			t.Fatalf("harness: never saw %s", what)
		}
		time.Sleep(2 * time.Millisecond)
	}
}

type h9Local struct {
	distsys.ArchetypeResourceLeafMixin
	ch         chan tla.Value
	backlog    []tla.Value
	inProgress []tla.Value
}

func (l *h9Local) Abort(distsys.ArchetypeInterface) chan struct{} {
	l.backlog = append(l.inProgress, l.backlog...)
	l.inProgress = nil
	return nil
}
func (l *h9Local) PreCommit(distsys.ArchetypeInterface) chan error { return nil }
func (l *h9Local) Commit(distsys.ArchetypeInterface) chan struct{} {
	l.inProgress = nil
	return nil
}
func (l *h9Local) ReadValue(distsys.ArchetypeInterface) (tla.Value, error) {
	if len(l.backlog) > 0 {
		v := l.backlog[0]
		l.backlog = l.backlog[1:]
		l.inProgress = append(l.inProgress, v)
		return v, nil
	}
	select {
	case v := <-l.ch:
		l.inProgress = append(l.inProgress, v)
		return v, nil
	case <-time.After(10 * time.Millisecond):
		return tla.Value{}, distsys.ErrCriticalSectionAborted
	}
}
func (l *h9Local) WriteValue(distsys.ArchetypeInterface, tla.Value) error { panic("write to local") }
func (l *h9Local) Close() error                                           { return nil }

type h9Remote struct {
	distsys.ArchetypeResourceLeafMixin
	r    *h9Router
	dest int32
	buf  []tla.Value
}

func (w *h9Remote) Abort(distsys.ArchetypeInterface) chan struct{} { w.buf = nil; return nil }
func (w *h9Remote) PreCommit(distsys.ArchetypeInterface) chan error { return nil }
func (w *h9Remote) Commit(distsys.ArchetypeInterface) chan struct{} {
	for _, m := range w.buf {
		w.r.send(w.dest, m)
	}
	w.buf = nil
	return nil
}
func (w *h9Remote) ReadValue(distsys.ArchetypeInterface) (tla.Value, error) { panic("read remote") }
func (w *h9Remote) WriteValue(_ distsys.ArchetypeInterface, v tla.Value) error {
	w.buf = append(w.buf, v)
	return nil
}
func (w *h9Remote) Close() error { return nil }

func h9Net(r *h9Router, own int32) distsys.ArchetypeResource {
	return resources.NewIncMap(func(index tla.Value) distsys.ArchetypeResource {
		if index.AsNumber() == own {
			return &h9Local{ch: r.boxes[own]}
		}
		return &h9Remote{r: r, dest: index.AsNumber()}
	})
}

// failure detector that never suspects anybody
type h9Const struct {
	distsys.ArchetypeResourceLeafMixin
	v tla.Value
}

func (c *h9Const) Abort(distsys.ArchetypeInterface) chan struct{}            { return nil }
func (c *h9Const) PreCommit(distsys.ArchetypeInterface) chan error           { return nil }
func (c *h9Const) Commit(distsys.ArchetypeInterface) chan struct{}           { return nil }
func (c *h9Const) ReadValue(distsys.ArchetypeInterface) (tla.Value, error)   { return c.v, nil }
func (c *h9Const) WriteValue(distsys.ArchetypeInterface, tla.Value) error    { return nil }
func (c *h9Const) Close() error                                             { return nil }

// leader-election timer under test control: yields TRUE once per trigger
type h9Timer struct {
	distsys.ArchetypeResourceLeafMixin
	fire chan struct{}
}

func (c *h9Timer) Abort(distsys.ArchetypeInterface) chan struct{}  { return nil }
func (c *h9Timer) PreCommit(distsys.ArchetypeInterface) chan error { return nil }
func (c *h9Timer) Commit(distsys.ArchetypeInterface) chan struct{} { return nil }
func (c *h9Timer) ReadValue(distsys.ArchetypeInterface) (tla.Value, error) {
	select {
	case <-c.fire:
		return tla.ModuleTRUE, nil
	case <-time.After(10 * time.Millisecond):
		return tla.ModuleFALSE, nil
	}
}
func (c *h9Timer) WriteValue(distsys.ArchetypeInterface, tla.Value) error { return nil }
func (c *h9Timer) Close() error                                          { return nil }

// ---------- one server, wired like bootstrap/server.go ----------

type h9Server struct {
	ctxs  []*distsys.MPCalContext
	timer *h9Timer
}

const h9NumServers = 3

func h9NewServer(r *h9Router, id int32, full bool) *h9Server {
	srvId := tla.MakeNumber(id)
	constants := append([]distsys.MPCalContextConfigFn{
		distsys.DefineConstantValue("NumServers", tla.MakeNumber(h9NumServers)),
		distsys.DefineConstantValue("NumClients", tla.MakeNumber(1)),
		distsys.DefineConstantValue("ExploreFail", tla.ModuleFALSE),
		distsys.DefineConstantValue("Debug", tla.ModuleFALSE),
	}, raftkvs.PersistentLogConstantDefs, raftkvs.LeaderTimeoutConstantDefs)
	iface := distsys.NewMPCalContextWithoutArchetype(constants...).IFace()

	toMap := func(res distsys.ArchetypeResource) distsys.ArchetypeResource {
		return resources.NewIncMap(func(index tla.Value) distsys.ArchetypeResource {
			if index.Equal(srvId) {
				return res
			}
			panic("wrong index")
		})
	}
	lt := resources.WithLocalSharedResourceTimeout(200 * time.Millisecond)
	srvFn := func(v tla.Value) tla.Value {
		return tla.MakeFunction([]tla.Value{raftkvs.ServerSet(iface)}, func([]tla.Value) tla.Value { return v })
	}
	stateM := resources.NewLocalSharedManager(raftkvs.Follower(iface), lt)
	termM := resources.NewLocalSharedManager(tla.MakeNumber(1), lt)
	logM := resources.NewLocalSharedManager(tla.MakeTuple(), lt)
	commitM := resources.NewLocalSharedManager(tla.MakeNumber(0), lt)
	nextM := resources.NewLocalSharedManager(srvFn(tla.MakeNumber(1)), lt)
	matchM := resources.NewLocalSharedManager(srvFn(tla.MakeNumber(0)), lt)
	votedForM := resources.NewLocalSharedManager(raftkvs.Nil(iface), lt)
	respondedM := resources.NewLocalSharedManager(tla.MakeSet(), lt)
	grantedM := resources.NewLocalSharedManager(tla.MakeSet(), lt)
	leaderM := resources.NewLocalSharedManager(raftkvs.Nil(iface), lt)
	smM := resources.NewLocalSharedManager(tla.MakeFunction([]tla.Value{raftkvs.KeySet(iface)}, func([]tla.Value) tla.Value { return raftkvs.Nil(iface) }), lt)
	smDomM := resources.NewLocalSharedManager(raftkvs.KeySet(iface), lt)
	timer := &h9Timer{fire: make(chan struct{}, 1)}

	gen := func() []distsys.MPCalContextConfigFn {
		return []distsys.MPCalContextConfigFn{
			distsys.EnsureArchetypeValueParam("srvId", srvId),
			distsys.EnsureArchetypeRefParam("net", h9Net(r, id)),
			distsys.EnsureArchetypeRefParam("netLen", toMap(distsys.NewLocalArchetypeResource(tla.MakeNumber(0)))),
			distsys.EnsureArchetypeRefParam("netEnabled", resources.NewPlaceHolder()),
			distsys.EnsureArchetypeRefParam("fd", resources.NewIncMap(func(tla.Value) distsys.ArchetypeResource { return &h9Const{v: tla.ModuleFALSE} })),
			distsys.EnsureArchetypeRefParam("state", toMap(stateM.MakeLocalShared())),
			distsys.EnsureArchetypeRefParam("currentTerm", toMap(termM.MakeLocalShared())),
			distsys.EnsureArchetypeRefParam("log", toMap(logM.MakeLocalShared())),
			distsys.EnsureArchetypeRefParam("plog", toMap(resources.NewDummy())),
			distsys.EnsureArchetypeRefParam("commitIndex", toMap(commitM.MakeLocalShared())),
			distsys.EnsureArchetypeRefParam("nextIndex", toMap(nextM.MakeLocalShared())),
			distsys.EnsureArchetypeRefParam("matchIndex", toMap(matchM.MakeLocalShared())),
			distsys.EnsureArchetypeRefParam("votedFor", toMap(votedForM.MakeLocalShared())),
			distsys.EnsureArchetypeRefParam("votesResponded", toMap(respondedM.MakeLocalShared())),
			distsys.EnsureArchetypeRefParam("votesGranted", toMap(grantedM.MakeLocalShared())),
			distsys.EnsureArchetypeRefParam("leader", toMap(leaderM.MakeLocalShared())),
			distsys.EnsureArchetypeRefParam("sm", toMap(smM.MakeLocalShared())),
			distsys.EnsureArchetypeRefParam("smDomain", toMap(smDomM.MakeLocalShared())),
			distsys.EnsureArchetypeRefParam("leaderTimeout", timer),
			distsys.EnsureMPCalContextConfigs(constants...),
		}
	}

	appendEntriesCh := make(chan tla.Value, 100)
	becomeLeaderCh := make(chan tla.Value, 100)

	s := &h9Server{timer: timer}
	s.ctxs = append(s.ctxs, distsys.NewMPCalContext(srvId, raftkvs.AServer, append(gen(),
		distsys.EnsureArchetypeRefParam("appendEntriesCh", toMap(resources.NewDummy())),
		distsys.EnsureArchetypeRefParam("becomeLeaderCh", toMap(resources.NewOutputChan(becomeLeaderCh))),
	)...))
	if full {
		s.ctxs = append(s.ctxs,
			distsys.NewMPCalContext(tla.MakeNumber(id+1*h9NumServers), raftkvs.AServerRequestVote, append(gen(),
				distsys.EnsureArchetypeRefParam("appendEntriesCh", resources.NewPlaceHolder()),
				distsys.EnsureArchetypeRefParam("becomeLeaderCh", resources.NewPlaceHolder()),
			)...),
			distsys.NewMPCalContext(tla.MakeNumber(id+2*h9NumServers), raftkvs.AServerAppendEntries, append(gen(),
				distsys.EnsureArchetypeRefParam("appendEntriesCh", toMap(raftkvs.NewCustomInChan(appendEntriesCh, 20*time.Millisecond))),
				distsys.EnsureArchetypeRefParam("becomeLeaderCh", resources.NewPlaceHolder()),
			)...),
			distsys.NewMPCalContext(tla.MakeNumber(id+3*h9NumServers), raftkvs.AServerAdvanceCommitIndex, append(gen(),
				distsys.EnsureArchetypeRefParam("appendEntriesCh", resources.NewPlaceHolder()),
				distsys.EnsureArchetypeRefParam("becomeLeaderCh", resources.NewPlaceHolder()),
			)...),
			distsys.NewMPCalContext(tla.MakeNumber(id+4*h9NumServers), raftkvs.AServerBecomeLeader, append(gen(),
				distsys.EnsureArchetypeRefParam("appendEntriesCh", toMap(resources.NewOutputChan(appendEntriesCh))),
				distsys.EnsureArchetypeRefParam("becomeLeaderCh", toMap(resources.NewInputChan(becomeLeaderCh, resources.WithInputChanReadTimeout(10*time.Millisecond)))),
			)...),
		)
	}
	return s
}

func (s *h9Server) start(t *testing.T) {
	for _, ctx := range s.ctxs {
		ctx := ctx
		go func() {
			if err := ctx.Run(); err != nil {
				t.Errorf("harness: archetype %v ended with %v", ctx.IFace().Self(), err)
			}
		}()
	}
}

func (s *h9Server) stop() {
	for _, ctx := range s.ctxs {
		ctx.Stop()
	}
}

// ---------- messages, exactly as the generated code builds them ----------

func h9S(s string) tla.Value { return tla.MakeString(s) }
func h9N(n int32) tla.Value  { return tla.MakeNumber(n) }
func h9Rec(kv ...interface{}) tla.Value {
	var fs []tla.RecordField
	for i := 0; i < len(kv); i += 2 {
		fs = append(fs, tla.RecordField{Key: h9S(kv[i].(string)), Value: kv[i+1].(tla.Value)})
	}
	return tla.MakeRecord(fs)
}

const h9Client = 6*h9NumServers + 1

func h9PutEntry(term, idx int32, key, value string) tla.Value {
	return h9Rec("term", h9N(term),
		"cmd", h9Rec("idx", h9N(idx), "type", h9S("put"), "key", h9S(key), "value", h9S(value)),
		"client", h9N(h9Client))
}

func h9AppendEntries(term, src, dest, prevIdx, prevTerm int32, commit int32, entries ...tla.Value) tla.Value {
	return h9Rec("mtype", h9S("apq"), "mterm", h9N(term),
		"mprevLogIndex", h9N(prevIdx), "mprevLogTerm", h9N(prevTerm),
		"mentries", tla.MakeTuple(entries...), "mcommitIndex", h9N(commit),
		"msource", h9N(src), "mdest", h9N(dest))
}

func h9Field(m tla.Value, f string) tla.Value { return m.ApplyFunction(h9S(f)) }
func h9Is(m tla.Value, typ string, src, dest int32) bool {
	return h9Field(m, "mtype").Equal(h9S(typ)) && h9Field(m, "msource").Equal(h9N(src)) && h9Field(m, "mdest").Equal(h9N(dest))
}

// run plays the scenario; aeOrderAtServer2 is the order in which server 2 receives the two
// AppendEntries requests that leader 1 sent to it ("short" was sent first, "long" second).
func h9Run(t *testing.T, aeOrderAtServer2 []string) (r *h9Router, cleanup func()) {
	r = &h9Router{boxes: map[int32]chan tla.Value{2: make(chan tla.Value, 1000), 3: make(chan tla.Value, 1000)}}
	s2 := h9NewServer(r, 2, false) // follower: only its message handler is needed
	s3 := h9NewServer(r, 3, true)
	s2.start(t)
	s3.start(t)
	cleanup = func() { s2.stop(); s3.stop() }

	e1 := h9PutEntry(2, 1, "k", "v1")
	e2 := h9PutEntry(2, 2, "k", "v2")

	// Leader 1 (term 2). Its log is [e1] when its AppendEntries archetype runs the first time,
	// and [e1, e2] when it runs the second time (nextIndex is still 1: no response handled yet).
	short := func(dest int32) tla.Value { return h9AppendEntries(2, 1, dest, 0, 0, 0, e1) }
	long := func(dest int32) tla.Value { return h9AppendEntries(2, 1, dest, 0, 0, 0, e1, e2) }

	// server 3 gets the first request only (the second one is still in flight when leader 1 crashes)
	r.send(3, short(3))
	r.await(t, "server 3's ack of [e1]", func(m tla.Value) bool {
		return h9Is(m, "app", 3, 1) && h9Field(m, "msuccess").AsBool() && h9Field(m, "mmatchIndex").Equal(h9N(1))
	})

	for _, which := range aeOrderAtServer2 {
		if which == "short" {
			r.send(2, short(2))
		} else {
			r.send(2, long(2))
		}
	}
	// Server 2 acknowledges index 2 in term 2: leader 1 now has matchIndex[2] = 2, {1,2} is a quorum,
	// log[2].term = currentTerm: leader 1 commits index 2, applies Put(k,v1), Put(k,v2) and
	// acknowledges both to the client (AServerAdvanceCommitIndex.applyLoop).
	r.await(t, "server 2's ack of [e1,e2]", func(m tla.Value) bool {
		return h9Is(m, "app", 2, 1) && h9Field(m, "msuccess").AsBool() && h9Field(m, "mmatchIndex").Equal(h9N(2))
	})
	// wait until server 2 has handled both requests (two responses)
	r.await(t, "server 2's second response", func(m tla.Value) bool {
		n := 0
		for _, x := range r.log { // r.mu is held by find
			if h9Is(x, "app", 2, 1) {
				n++
			}
		}
		return n >= 2
	})

	// Leader 1 crashes (a minority). Server 3's election timer fires.
	s3.timer.fire <- struct{}{}
	return r, cleanup
}

// Control: with the two requests delivered in sending order, server 2 keeps [e1,e2] and refuses to
// vote for server 3, whose log lacks the acknowledged Put. Passes.
func TestHuntC09ControlAppendEntriesInOrder(t *testing.T) {
	r, cleanup := h9Run(t, []string{"short", "long"})
	defer cleanup()
	m := r.await(t, "server 2's vote response", func(m tla.Value) bool { return h9Is(m, "rvp", 2, 3) })
	if h9Field(m, "mvoteGranted").AsBool() {
		t.Fatalf("server 2 voted for server 3 although server 3's log lacks the acknowledged Put(k,v2)")
	}
}

// The finding: the older, shorter request overtaken by the newer one (possible on a healthy network,
// see the resources test) makes server 2 drop the entry it has acknowledged.
func TestHuntC09AcknowledgedPutLostAfterOvertakenAppendEntries(t *testing.T) {
	r, cleanup := h9Run(t, []string{"long", "short"})
	defer cleanup()

	vote := r.await(t, "server 2's vote response", func(m tla.Value) bool { return h9Is(m, "rvp", 2, 3) })
	if !h9Field(vote, "mvoteGranted").AsBool() {
		t.Skip("server 2 refused the vote: the defect did not show")
	}
	// server 3 is now the leader of term 3. The client, which got the acknowledgement of
	// Put(k,v2) from leader 1, issues Get(k) (request idx 3); it finds the new leader.
	r.await(t, "server 3's first AppendEntries as leader", func(m tla.Value) bool {
		return h9Is(m, "apq", 3, 2) && h9Field(m, "mterm").Equal(h9N(3))
	})
	r.send(3, h9Rec("mtype", h9S("cgq"),
		"mcmd", h9Rec("idx", h9N(3), "type", h9S("get"), "key", h9S("k")),
		"msource", h9N(h9Client), "mdest", h9N(3)))

	resp := r.await(t, "the Get response", func(m tla.Value) bool {
		return h9Field(m, "mtype").Equal(h9S("cgp")) && h9Field(m, "mdest").Equal(h9N(h9Client)) &&
			h9Field(m, "msuccess").AsBool() && h9Field(h9Field(m, "mresponse"), "idx").Equal(h9N(3))
	})
	got := h9Field(h9Field(resp, "mresponse"), "value")
	if !got.Equal(h9S("v2")) {
		t.Fatalf("C09 violated: \"An acknowledged Put is never lost ... by leader changes ... or minority crashes\": "+
			"Put(k,v2) was replicated on a quorum {1,2} in term 2 (server 2 answered msuccess with mmatchIndex=2), so leader 1 committed and acknowledged it; "+
			"after leader 1 crashed, Get(k) answered by the new leader %v returned %v instead of \"v2\" (history Put(k,v1) ok; Put(k,v2) ok; Get(k) -> %v is not linearizable). "+
			"Server 2 truncated the acknowledged entry when the older AppendEntries(prev=0,[e1]) arrived after the newer AppendEntries(prev=0,[e1,e2]), then voted for server 3.",
			h9Field(resp, "msource"), got, got)
	}
	_ = fmt.Sprint
}

package resources

import (
	"os"
	"os/exec"
	"sync"
	"testing"

	"github.com/DistCompiler/pgo/distsys"
	"github.com/DistCompiler/pgo/distsys/tla"
	"github.com/DistCompiler/pgo/distsys/trace"
)

// C18: an attempt that read a value written or sent by another attempt carries a vector clock that dominates
// the writer's.  Here the two communicating archetypes are an archetype ("Outer") and the archetype ("Inner")
// nested in its NewNested resource; they talk through the resource's Go channels (InputChan / OutputChan on the
// nested side).

type c18Recorder struct {
	lock   sync.Mutex
	events []trace.Event
}

func (r *c18Recorder) RecordEvent(e trace.Event) {
	r.lock.Lock()
	defer r.lock.Unlock()
	// EventState re-uses (and clears) the slice after RecordEvent returns
	e.Elements = append([]trace.Element(nil), e.Elements...)
	r.events = append(r.events, e)
}

func c18Rec(fields ...tla.RecordField) tla.Value {
	return tla.MakeRecord(fields)
}

var c18Tpe = tla.MakeString("tpe")
var c18Value = tla.MakeString("value")

// the nested archetype: a register; a read yields 6 times what was last written
//
//	archetype Inner(ref in, ref out) variable state = 0, req; {
//	  loop: req := in;
//	        if (req.tpe = READ_REQ) { out := [tpe |-> READ_ACK, value |-> state * 6] }
//	        else if (req.tpe = WRITE_REQ) { state := req.value; out := [tpe |-> WRITE_ACK] }
//	        else if ... { out := [tpe |-> <the matching ack>] };
//	        goto loop }
var c18InnerJumpTable = distsys.MakeMPCalJumpTable(
	distsys.MPCalCriticalSection{
		Name: "Inner.loop",
		Body: func(iface distsys.ArchetypeInterface) error {
			in, err := iface.RequireArchetypeResourceRef("Inner.in")
			if err != nil {
				return err
			}
			out, err := iface.RequireArchetypeResourceRef("Inner.out")
			if err != nil {
				return err
			}
			state := iface.RequireArchetypeResource("Inner.state")
			req, err := iface.Read(in, nil)
			if err != nil {
				return err
			}
			tpe := req.ApplyFunction(c18Tpe)
			switch {
			case tpe.Equal(nestedArchetypeReadReq):
				st, err := iface.Read(state, nil)
				if err != nil {
					return err
				}
				err = iface.Write(out, nil, c18Rec(
					tla.RecordField{Key: c18Tpe, Value: nestedArchetypeReadAck},
					tla.RecordField{Key: c18Value, Value: tla.ModuleAsteriskSymbol(st, tla.MakeNumber(6))}))
				if err != nil {
					return err
				}
			case tpe.Equal(nestedArchetypeWriteReq):
				err = iface.Write(state, nil, req.ApplyFunction(c18Value))
				if err != nil {
					return err
				}
				err = iface.Write(out, nil, c18Rec(tla.RecordField{Key: c18Tpe, Value: nestedArchetypeWriteAck}))
				if err != nil {
					return err
				}
			case tpe.Equal(nestedArchetypePreCommitReq):
				err = iface.Write(out, nil, c18Rec(tla.RecordField{Key: c18Tpe, Value: nestedArchetypePreCommitAck}))
				if err != nil {
					return err
				}
			case tpe.Equal(nestedArchetypeCommitReq):
				err = iface.Write(out, nil, c18Rec(tla.RecordField{Key: c18Tpe, Value: nestedArchetypeCommitAck}))
				if err != nil {
					return err
				}
			case tpe.Equal(nestedArchetypeAbortReq):
				err = iface.Write(out, nil, c18Rec(tla.RecordField{Key: c18Tpe, Value: nestedArchetypeAbortAck}))
				if err != nil {
					return err
				}
			}
			return iface.Goto("Inner.loop")
		},
	},
)

var c18Inner = distsys.MPCalArchetype{
	Name:              "Inner",
	Label:             "Inner.loop",
	RequiredRefParams: []string{"Inner.in", "Inner.out"},
	RequiredValParams: []string{},
	JumpTable:         c18InnerJumpTable,
	ProcTable:         distsys.MakeMPCalProcTable(),
	PreAmble: func(iface distsys.ArchetypeInterface) {
		iface.EnsureArchetypeResourceLocal("Inner.state", tla.MakeNumber(0))
	},
}

// the outer archetype:
//
//	archetype Outer(ref res) variable got; {
//	  w: res := 7;
//	  r: got := res;
//	}
var c18OuterJumpTable = distsys.MakeMPCalJumpTable(
	distsys.MPCalCriticalSection{
		Name: "Outer.w",
		Body: func(iface distsys.ArchetypeInterface) error {
			res, err := iface.RequireArchetypeResourceRef("Outer.res")
			if err != nil {
				return err
			}
			err = iface.Write(res, nil, tla.MakeNumber(7))
			if err != nil {
				return err
			}
			return iface.Goto("Outer.r")
		},
	},
	distsys.MPCalCriticalSection{
		Name: "Outer.r",
		Body: func(iface distsys.ArchetypeInterface) error {
			res, err := iface.RequireArchetypeResourceRef("Outer.res")
			if err != nil {
				return err
			}
			got := iface.RequireArchetypeResource("Outer.got")
			v, err := iface.Read(res, nil)
			if err != nil {
				return err
			}
			err = iface.Write(got, nil, v)
			if err != nil {
				return err
			}
			return iface.Goto("Outer.Done")
		},
	},
	distsys.MPCalCriticalSection{
		Name: "Outer.Done",
		Body: func(distsys.ArchetypeInterface) error {
			return distsys.ErrDone
		},
	},
)

var c18Outer = distsys.MPCalArchetype{
	Name:              "Outer",
	Label:             "Outer.w",
	RequiredRefParams: []string{"Outer.res"},
	RequiredValParams: []string{},
	JumpTable:         c18OuterJumpTable,
	ProcTable:         distsys.MakeMPCalProcTable(),
	PreAmble: func(iface distsys.ArchetypeInterface) {
		iface.EnsureArchetypeResourceLocal("Outer.got", tla.Value{})
	},
}

func TestNestedArchetypeTraceClocks(t *testing.T) {
	// vector clocks are switched on by PGO_TRACE_DIR at process start (tla.vClocksEnabled, NewMPCalContext):
	// re-run this test in a child process that has it
	if os.Getenv("PGO_TRACE_DIR") == "" {
		cmd := exec.Command(os.Args[0], "-test.run=^TestNestedArchetypeTraceClocks$", "-test.count=1")
		cmd.Env = append(os.Environ(), "PGO_TRACE_DIR="+t.TempDir())
		out, err := cmd.CombinedOutput()
		t.Logf("child process with tracing enabled:\n%s", out)
		if err != nil {
			t.Fatalf("with tracing enabled the test fails: %v", err)
		}
		return
	}

	outerSelf := tla.MakeString("outer")
	innerSelf := tla.MakeString("inner")
	outerRec, innerRec := &c18Recorder{}, &c18Recorder{}

	nested := NewNested(func(sendCh chan<- tla.Value, receiveCh <-chan tla.Value) []*distsys.MPCalContext {
		return []*distsys.MPCalContext{
			distsys.NewMPCalContext(innerSelf, c18Inner,
				NestedArchetypeConstantDefs,
				distsys.SetTraceRecorder(innerRec),
				distsys.EnsureArchetypeRefParam("in", NewInputChan(receiveCh)),
				distsys.EnsureArchetypeRefParam("out", NewOutputChan(sendCh))),
		}
	})
	outerCtx := distsys.NewMPCalContext(outerSelf, c18Outer,
		distsys.SetTraceRecorder(outerRec),
		distsys.EnsureArchetypeRefParam("res", nested))
	if err := outerCtx.Run(); err != nil { // also closes the nested resource, which waits for Inner to stop
		t.Fatalf("Outer failed: %v", err)
	}
	if got := outerCtx.IFace().ReadArchetypeResourceLocal("Outer.got"); !got.Equal(tla.MakeNumber(42)) {
		t.Fatalf("Outer read %v from the nested register, expected 42", got)
	}

	outerRec.lock.Lock()
	defer outerRec.lock.Unlock()
	innerRec.lock.Lock()
	defer innerRec.lock.Unlock()

	// sanity: own clock component = position in the own log
	for i, ev := range outerRec.events {
		if got := ev.Clock.Get("Outer", outerSelf); got != i+1 {
			t.Fatalf("Outer event %d has own clock component %d", i+1, got)
		}
	}
	for i, ev := range innerRec.events {
		if got := ev.Clock.Get("Inner", innerSelf); got != i+1 {
			t.Fatalf("Inner event %d has own clock component %d", i+1, got)
		}
	}

	// nested -> outer: the committed Inner attempt(s) that sent [tpe |-> read_ack, value |-> 42]
	firstSender := 0
	var senderClock tla.VClock
	for _, ev := range innerRec.events {
		if ev.IsAbort {
			continue
		}
		for _, el := range ev.Elements {
			if w, ok := el.(trace.WriteElement); ok && w.Name == "out" &&
				w.Value.ApplyFunction(c18Tpe).Equal(nestedArchetypeReadAck) && w.Value.ApplyFunction(c18Value).Equal(tla.MakeNumber(42)) {
				if firstSender == 0 {
					firstSender = ev.Clock.Get("Inner", innerSelf)
					senderClock = ev.Clock
				}
			}
		}
	}
	if firstSender == 0 {
		t.Fatalf("no committed Inner attempt logged sending the read_ack")
	}
	checkedReader := false
	for _, ev := range outerRec.events {
		if ev.IsAbort {
			continue
		}
		for _, el := range ev.Elements {
			if r, ok := el.(trace.ReadElement); ok && r.Name == "res" && r.Value.Equal(tla.MakeNumber(42)) {
				checkedReader = true
				if got := ev.Clock.Get("Inner", innerSelf); got < firstSender {
					t.Errorf("C18 violated (reader's clock must dominate the writer's): Outer attempt with clock %v logged the read res = 42, "+
						"a value sent by Inner's attempt with clock %v, but its clock has Inner component %d < %d",
						ev.Clock, senderClock, got, firstSender)
				}
			}
		}
	}
	if !checkedReader {
		t.Fatalf("no committed Outer attempt logged reading 42")
	}

	// outer -> nested: the Inner attempt that read Outer's write request cannot know less than Outer's own component
	checkedInner := false
	for _, ev := range innerRec.events {
		for _, el := range ev.Elements {
			if r, ok := el.(trace.ReadElement); ok && r.Name == "in" && r.Value.ApplyFunction(c18Tpe).Equal(nestedArchetypeWriteReq) {
				checkedInner = true
				if got := ev.Clock.Get("Outer", outerSelf); got < 1 {
					t.Errorf("C18 violated (reader's clock must dominate the writer's): Inner attempt with clock %v logged the read in = %v, "+
						"a value sent by an attempt of Outer (own clock component >= 1), but its clock has Outer component %d",
						ev.Clock, r.Value, got)
				}
			}
		}
	}
	if !checkedInner {
		t.Fatalf("no Inner attempt logged reading the write request")
	}
}

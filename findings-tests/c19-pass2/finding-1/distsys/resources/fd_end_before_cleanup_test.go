package resources

// C19 (failure detector is complete): "Once a monitored archetype has crashed, finished, or its monitor
// has become unreachable, every failure detector watching it reports it failed within a bounded number
// of polling intervals and keeps doing so."
//
// Monitor.RunArchetype only records the end of the archetype (failed / finished) AFTER ctx.Run has
// returned, and ctx.Run closes every resource of the archetype (MPCalContext.cleanupResources) before
// it returns - also when it is unwinding a panic.  ArchetypeResource.Close is documented as being
// called "when the archetype stops running", i.e. the archetype has already ended at that point; but
// for as long as the Close calls take, the monitor keeps answering IsAlive with "alive", and every
// detector keeps reporting a dead archetype as alive.  Nothing relates the duration of those Close
// calls to the polling interval of the *watching* detectors.
//
// The tests below end a monitored archetype in the three ways the property names (error, panic, normal),
// hold one of its resources in Close, and count the successful polls a real SingleFailureDetector makes
// after the end (counted on the wire, by a forwarding proxy between detector and monitor).

import (
	"errors"
	"net"
	"sync"
	"sync/atomic"
	"testing"
	"time"

	"github.com/DistCompiler/pgo/distsys"
	"github.com/DistCompiler/pgo/distsys/tla"
)

// gateResource is an otherwise trivial resource whose Close takes as long as the test wants.
// (A library resource that behaves this way is SingleFailureDetector itself, see the second test.)
type gateResource struct {
	distsys.ArchetypeResourceLeafMixin
	closing chan struct{} // closed when Close has been entered, i.e. the archetype has stopped running
	release chan struct{} // Close returns once this is closed
}

func (res *gateResource) Abort(distsys.ArchetypeInterface) chan struct{}  { return nil }
func (res *gateResource) PreCommit(distsys.ArchetypeInterface) chan error { return nil }
func (res *gateResource) Commit(distsys.ArchetypeInterface) chan struct{} { return nil }
func (res *gateResource) ReadValue(distsys.ArchetypeInterface) (tla.Value, error) {
	return tla.ModuleTRUE, nil
}
func (res *gateResource) WriteValue(distsys.ArchetypeInterface, tla.Value) error { return nil }
func (res *gateResource) Close() error {
	close(res.closing)
	<-res.release
	return nil
}

func c19FreeAddr(t *testing.T) string {
	l, err := net.Listen("tcp", "127.0.0.1:0")
	if err != nil {
		t.Fatal(err)
	}
	addr := l.Addr().String()
	_ = l.Close()
	return addr
}

func c19StartMonitor(t *testing.T) *Monitor {
	mon := NewMonitor(c19FreeAddr(t))
	errCh := make(chan error, 1)
	go func() { errCh <- mon.ListenAndServe() }()
	for i := 0; ; i++ {
		conn, err := net.DialTimeout("tcp", mon.ListenAddr, time.Second)
		if err == nil {
			_ = conn.Close()
			return mon
		}
		select {
		case err := <-errCh:
			t.Fatalf("monitor did not start: %v", err)
		default:
		}
		if i > 1000 {
			t.Fatalf("monitor did not start listening: %v", err)
		}
		time.Sleep(10 * time.Millisecond)
	}
}

// c19CountingProxy forwards TCP connections to target and counts the chunks that travel from the
// target (monitor) back to the client (detector).  The detector sends one request, then waits for the
// answer before the next tick, so every chunk is one IsAlive answer = one successful poll.
func c19CountingProxy(t *testing.T, target string) (addr string, answers *int64, stop func()) {
	l, err := net.Listen("tcp", "127.0.0.1:0")
	if err != nil {
		t.Fatal(err)
	}
	answers = new(int64)
	var lock sync.Mutex
	var conns []net.Conn
	track := func(c net.Conn) {
		lock.Lock()
		conns = append(conns, c)
		lock.Unlock()
	}
	pipe := func(from, to net.Conn, counter *int64) {
		buf := make([]byte, 64*1024)
		for {
			n, err := from.Read(buf)
			if n > 0 {
				if _, werr := to.Write(buf[:n]); werr != nil {
					break
				}
				if counter != nil {
					atomic.AddInt64(counter, 1)
				}
			}
			if err != nil {
				break
			}
		}
		_ = from.Close()
		_ = to.Close()
	}
	go func() {
		for {
			down, err := l.Accept()
			if err != nil {
				return
			}
			up, err := net.Dial("tcp", target)
			if err != nil {
				_ = down.Close()
				continue
			}
			track(down)
			track(up)
			go pipe(down, up, nil)
			go pipe(up, down, answers)
		}
	}()
	return l.Addr().String(), answers, func() {
		_ = l.Close()
		lock.Lock()
		for _, c := range conns {
			_ = c.Close()
		}
		lock.Unlock()
	}
}

func c19WaitAnswers(t *testing.T, answers *int64, atLeast int64, what string) {
	deadline := time.Now().Add(2 * time.Minute)
	for atomic.LoadInt64(answers) < atLeast {
		if time.Now().After(deadline) {
			t.Fatalf("test environment too slow: %s: only %d of %d polls were answered", what, atomic.LoadInt64(answers), atLeast)
		}
		time.Sleep(5 * time.Millisecond)
	}
}

// a one-label archetype: the label waits for the test's go-ahead and then ends the archetype the way
// `end` says.
func c19Archetype(end func() error, goAhead chan struct{}) distsys.MPCalArchetype {
	return distsys.MPCalArchetype{
		Name:  "AVictim",
		Label: "AVictim.l",
		JumpTable: distsys.MakeMPCalJumpTable(distsys.MPCalCriticalSection{
			Name: "AVictim.l",
			Body: func(iface distsys.ArchetypeInterface) error {
				<-goAhead
				return end()
			},
		}),
		ProcTable: distsys.MakeMPCalProcTable(),
		PreAmble:  func(distsys.ArchetypeInterface) {},
	}
}

const (
	c19PullInterval = 10 * time.Millisecond
	c19Timeout      = 5 * time.Second // generous: no poll of a reachable monitor times out
	c19PollsAfter   = 100             // successful polls observed after the archetype has ended
)

func c19ReportsFailed(t *testing.T, fd *SingleFailureDetector) bool {
	v, err := fd.ReadValue(distsys.ArchetypeInterface{})
	if err != nil {
		t.Fatalf("detector has polled but read returned %v", err)
	}
	return v.AsBool()
}

func TestC19_EndedArchetypeStaysAliveWhileItsResourcesClose(t *testing.T) {
	ends := []struct {
		name string
		end  func() error
	}{
		{"error", func() error { return errors.New("archetype crashed") }},
		{"panic", func() error { panic("archetype panicked") }},
		{"normal", func() error { return distsys.ErrDone }},
	}
	for _, tc := range ends {
		t.Run(tc.name, func(t *testing.T) {
			mon := c19StartMonitor(t)
			defer func() { _ = mon.Close() }()

			self := tla.MakeNumber(1)
			gate := &gateResource{closing: make(chan struct{}), release: make(chan struct{})}
			goAhead := make(chan struct{})
			ctx := distsys.NewMPCalContext(self, c19Archetype(tc.end, goAhead),
				distsys.EnsureArchetypeRefParam("gate", gate))
			runDone := make(chan error, 1)
			go func() { runDone <- mon.RunArchetype(ctx) }()

			proxyAddr, answers, stopProxy := c19CountingProxy(t, mon.ListenAddr)
			defer stopProxy()
			fd := NewSingleFailureDetector(self, proxyAddr,
				WithFailureDetectorPullInterval(c19PullInterval),
				WithFailureDetectorTimeout(c19Timeout))
			defer func() { _ = fd.Close() }()

			// accuracy, for reference: the archetype runs, the monitor is reachable
			c19WaitAnswers(t, answers, 2, "while the archetype runs")
			for fd.getState() == uninitialized {
				time.Sleep(time.Millisecond)
			}
			if c19ReportsFailed(t, fd) {
				t.Fatalf("detector reports a running archetype with a reachable monitor as failed")
			}

			// the archetype ends; Run starts closing its resources ("Close will be called when the
			// archetype stops running")
			close(goAhead)
			<-gate.closing
			endedAt := atomic.LoadInt64(answers)

			// +1: a poll that was in flight when the archetype ended
			c19WaitAnswers(t, answers, endedAt+1+c19PollsAfter, "after the archetype ended")
			stillAlive := !c19ReportsFailed(t, fd)
			polls := atomic.LoadInt64(answers) - endedAt - 1

			// let the archetype's Run return, and check that the detector does turn after that
			close(gate.release)
			<-runDone
			after := atomic.LoadInt64(answers)
			c19WaitAnswers(t, answers, after+2, "after Run returned")
			if !c19ReportsFailed(t, fd) {
				t.Errorf("detector still reports the archetype alive after RunArchetype returned")
			}

			if stillAlive {
				t.Errorf("C19 completeness violated: the archetype ended (%s) and its context was already closing "+
					"its resources, yet after %d further successful polls (polling interval %v) the detector watching "+
					"it still reported it ALIVE; it only turned to failed once the archetype's resources had finished "+
					"closing, which is not bounded by any number of the detector's polling intervals",
					tc.name, polls, c19PullInterval)
			}
		})
	}
}

// The same with library resources only: the ended archetype owns a failure detector of its own (as the
// proxy, raftkvs, pbkvs ... archetypes do) whose polling interval is simply longer than the watcher's.
// SingleFailureDetector.Close waits for the next tick of its own ticker (plus a dial and an RPC
// timeout), so the watcher - whatever its own polling interval - reports the ended archetype alive for
// that long.  With 1h against 10ms the ratio is 360000 polling intervals; the test looks at the first
// 100 of them.  (The archetype's Run cannot be released here; its goroutine is left behind.)
func TestC19_EndedArchetypeStaysAliveWhileItsOwnDetectorCloses(t *testing.T) {
	mon := c19StartMonitor(t)
	defer func() { _ = mon.Close() }()

	self := tla.MakeNumber(1)
	goAhead := make(chan struct{})
	ownFD := NewSingleFailureDetector(tla.MakeNumber(2), mon.ListenAddr,
		WithFailureDetectorPullInterval(time.Hour),
		WithFailureDetectorTimeout(c19Timeout))
	// make sure the own detector's loop is running, as it would be in any archetype that lives longer
	// than an instant (otherwise Close returns at once)
	for {
		ownFD.execLock.RLock()
		started := ownFD.started
		ownFD.execLock.RUnlock()
		if started {
			break
		}
		time.Sleep(time.Millisecond)
	}
	ctx := distsys.NewMPCalContext(self,
		c19Archetype(func() error { return errors.New("archetype crashed") }, goAhead),
		distsys.EnsureArchetypeRefParam("fd", ownFD))
	runDone := make(chan error, 1)
	go func() { runDone <- mon.RunArchetype(ctx) }()

	proxyAddr, answers, stopProxy := c19CountingProxy(t, mon.ListenAddr)
	defer stopProxy()
	fd := NewSingleFailureDetector(self, proxyAddr,
		WithFailureDetectorPullInterval(c19PullInterval),
		WithFailureDetectorTimeout(c19Timeout))
	defer func() { _ = fd.Close() }()

	c19WaitAnswers(t, answers, 2, "while the archetype runs")
	for fd.getState() == uninitialized {
		time.Sleep(time.Millisecond)
	}
	if c19ReportsFailed(t, fd) {
		t.Fatalf("detector reports a running archetype with a reachable monitor as failed")
	}

	close(goAhead)
	// the critical section has returned its error as soon as the context's closing flag is visible on the
	// own detector (set by SingleFailureDetector.Close under execLock before it blocks)
	for {
		if !ownFD.execLock.TryRLock() {
			// Close holds execLock while it waits for the loop: the archetype has ended
			break
		}
		closing := ownFD.closing
		ownFD.execLock.RUnlock()
		if closing {
			break
		}
		select {
		case <-runDone:
			t.Fatalf("RunArchetype returned without closing the archetype's detector")
		default:
		}
		time.Sleep(time.Millisecond)
	}
	endedAt := atomic.LoadInt64(answers)
	c19WaitAnswers(t, answers, endedAt+1+c19PollsAfter, "after the archetype ended")
	select {
	case <-runDone:
		return // Run got out of cleanup: nothing to report
	default:
	}
	if !c19ReportsFailed(t, fd) {
		t.Errorf("C19 completeness violated: the archetype crashed and its context is closing its resources "+
			"(its own failure detector, polling interval 1h), yet after %d further successful polls (polling "+
			"interval %v) the detector watching it still reports it ALIVE, and will for up to an hour",
			atomic.LoadInt64(answers)-endedAt-1, c19PullInterval)
	}
}

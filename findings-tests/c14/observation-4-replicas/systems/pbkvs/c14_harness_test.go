package pbkvs_test

// Deterministic single-stepping harness for the generated pbkvs archetypes (AReplica, AClient).
//
// Every archetype runs the real generated code under a real distsys.MPCalContext, but:
//   - all archetype parameters are hand-made in-memory resources that implement the mapping macros of pbkvs.tla
//     literally (ReliableFIFOLink, NetworkToggle, PerfectFD, LeaderElection, NetworkBufferLength, FileSystem, Channel)
//     on one shared "world";
//   - the context's FairnessCounter is replaced by a gate: an archetype may attempt a critical section (= one
//     PlusCal label) only when the test grants it one attempt, and the test decides how every `either` is resolved.
//
// So exactly one archetype executes at any time, each label is atomic, and the test fixes the interleaving, the
// either-resolution and the crash points (mayFail's failing branch), exactly the things property C14 quantifies over.

import (
	"fmt"
	"strings"
	"sync"
	"testing"
	"time"

	"github.com/DistCompiler/pgo/distsys"
	"github.com/DistCompiler/pgo/distsys/tla"
	"github.com/DistCompiler/pgo/systems/pbkvs"
)

const (
	c14Req  = 1 // REQ_INDEX
	c14Resp = 2 // RESP_INDEX
)

// ids of the `either` statements that come from the mayFail macro: branch 0 = skip, branch 1 = crash
var c14MayFailIDs = map[string]bool{
	"AReplica.replicaLoop.0":        true,
	"AReplica.sndSyncReqLoop.1":     true,
	"AReplica.sndReplicaReqLoop.1":  true,
	"AReplica.rcvReplicaRespLoop.1": true,
}

type c14Event struct {
	client int
	invoke bool   // true: the client took the operation from its input; false: the client wrote the result to its output
	op     string // "PUT" / "GET"
	key    string
	value  string // PUT: value written; GET response: value returned
}

type c14World struct {
	t         *testing.T
	mu        sync.Mutex
	nReplicas int
	nClients  int
	queues    map[[2]int][]tla.Value
	enabled   map[[2]int]bool
	fd        map[int]bool
	alive     map[int]bool // the set behind the LeaderElection mapping macro
	fs        map[int]map[string]string
	inputs    map[int][]tla.Value
	pendingOp map[int]c14Event
	history   []c14Event
	nodes     map[int]*c14Node

	violations []string // ConsistencyOK violations seen at label boundaries
}

type c14Node struct {
	w        *c14World
	id       int
	ctx      *distsys.MPCalContext
	arrive   chan string
	grant    chan struct{}
	quit     chan struct{}
	done     chan struct{}
	runErr   error
	pc       string
	finished bool

	ops          []func()
	pendingReads map[[2]int]int
	pendingInput int
	aborted      bool

	choices map[string]uint
	flip    uint
}

// ---- FairnessCounter: the scheduling gate ----

func (n *c14Node) BeginCriticalSection(pc string) {
	select {
	case n.arrive <- pc:
	case <-n.quit:
		return
	}
	select {
	case <-n.grant:
	case <-n.quit:
	}
}

func (n *c14Node) NextFairnessCounter(id string, ceiling uint) uint {
	if c, ok := n.choices[id]; ok {
		return c
	}
	if c14MayFailIDs[id] {
		return 0 // do not crash unless the test says so
	}
	return n.flip % ceiling // first branch first; the other one after an aborted attempt
}

// ---- resources ----

type c14Kind int

const (
	c14Net c14Kind = iota
	c14FS
	c14FD
	c14NetEnabled
	c14Primary
	c14NetLen
	c14Input
	c14Output
)

type c14Res struct {
	n    *c14Node
	kind c14Kind
	path []tla.Value
}

var _ distsys.ArchetypeResource = &c14Res{}

func (r *c14Res) Abort(distsys.ArchetypeInterface) chan struct{} {
	n := r.n
	n.w.mu.Lock()
	defer n.w.mu.Unlock()
	n.aborted = true
	n.resetTxn()
	return nil
}

func (r *c14Res) PreCommit(distsys.ArchetypeInterface) chan error { return nil }

func (r *c14Res) Commit(distsys.ArchetypeInterface) chan struct{} {
	n := r.n
	w := n.w
	w.mu.Lock()
	defer w.mu.Unlock()
	for key, cnt := range n.pendingReads {
		w.queues[key] = w.queues[key][cnt:]
	}
	if n.pendingInput > 0 {
		for i := 0; i < n.pendingInput; i++ {
			msg := w.inputs[n.id][i]
			ev := c14Event{client: n.id, invoke: true, key: msg.ApplyFunction(tla.MakeString("body")).ApplyFunction(tla.MakeString("key")).AsString()}
			if msg.ApplyFunction(tla.MakeString("typ")).AsNumber() == 3 {
				ev.op = "PUT"
				ev.value = msg.ApplyFunction(tla.MakeString("body")).ApplyFunction(tla.MakeString("value")).AsString()
			} else {
				ev.op = "GET"
			}
			w.pendingOp[n.id] = ev
			w.history = append(w.history, ev)
		}
		w.inputs[n.id] = w.inputs[n.id][n.pendingInput:]
	}
	for _, op := range n.ops {
		op()
	}
	n.resetTxn()
	return nil
}

func (n *c14Node) resetTxn() {
	n.ops = nil
	n.pendingReads = map[[2]int]int{}
	n.pendingInput = 0
}

func (r *c14Res) Close() error { return nil }

func (r *c14Res) Index(_ distsys.ArchetypeInterface, index tla.Value) (distsys.ArchetypeResource, error) {
	path := make([]tla.Value, 0, len(r.path)+1)
	path = append(path, r.path...)
	path = append(path, index.StripVClock())
	return &c14Res{n: r.n, kind: r.kind, path: path}, nil
}

func c14NetKey(idx tla.Value) [2]int {
	return [2]int{int(idx.ApplyFunction(tla.MakeNumber(1)).AsNumber()), int(idx.ApplyFunction(tla.MakeNumber(2)).AsNumber())}
}

func (r *c14Res) ReadValue(distsys.ArchetypeInterface) (tla.Value, error) {
	n := r.n
	w := n.w
	w.mu.Lock()
	defer w.mu.Unlock()
	switch r.kind {
	case c14Net: // ReliableFIFOLink read: await Len(queue) > 0; take the head
		key := c14NetKey(r.path[0])
		k := n.pendingReads[key]
		if k >= len(w.queues[key]) {
			return tla.Value{}, distsys.ErrCriticalSectionAborted
		}
		n.pendingReads[key] = k + 1
		return w.queues[key][k], nil
	case c14FS:
		return tla.MakeString(w.fs[int(r.path[0].AsNumber())][r.path[1].AsString()]), nil
	case c14FD: // PerfectFD
		return tla.MakeBool(w.fd[int(r.path[0].AsNumber())]), nil
	case c14Primary: // LeaderElection read: the smallest member, NULL if none
		for i := 1; i <= w.nReplicas; i++ {
			if w.alive[i] {
				return tla.MakeNumber(int32(i)), nil
			}
		}
		return tla.MakeNumber(0), nil
	case c14NetLen: // NetworkBufferLength
		return tla.MakeNumber(int32(len(w.queues[c14NetKey(r.path[0])]))), nil
	case c14Input: // Channel read
		if n.pendingInput >= len(w.inputs[n.id]) {
			return tla.Value{}, distsys.ErrCriticalSectionAborted
		}
		n.pendingInput++
		return w.inputs[n.id][n.pendingInput-1], nil
	}
	panic(fmt.Sprintf("unexpected read of resource kind %d", r.kind))
}

func (r *c14Res) WriteValue(_ distsys.ArchetypeInterface, value tla.Value) error {
	n := r.n
	w := n.w
	value = value.StripVClock()
	w.mu.Lock()
	defer w.mu.Unlock()
	switch r.kind {
	case c14Net: // ReliableFIFOLink write: await enabled; append
		key := c14NetKey(r.path[0])
		if !w.enabled[key] {
			return distsys.ErrCriticalSectionAborted
		}
		n.ops = append(n.ops, func() { w.queues[key] = append(w.queues[key], value) })
	case c14FS:
		rep, k, v := int(r.path[0].AsNumber()), r.path[1].AsString(), value.AsString()
		n.ops = append(n.ops, func() { w.fs[rep][k] = v })
	case c14FD:
		rep, v := int(r.path[0].AsNumber()), value.AsBool()
		n.ops = append(n.ops, func() { w.fd[rep] = v })
	case c14NetEnabled: // NetworkToggle
		key, v := c14NetKey(r.path[0]), value.AsBool()
		n.ops = append(n.ops, func() { w.enabled[key] = v })
	case c14Primary: // LeaderElection write: remove the value from the set
		rep := int(value.AsNumber())
		n.ops = append(n.ops, func() { delete(w.alive, rep) })
	case c14Output:
		v := value.AsString()
		n.ops = append(n.ops, func() {
			ev := w.pendingOp[n.id]
			ev.invoke = false
			if ev.op == "GET" {
				ev.value = v
			}
			w.history = append(w.history, ev)
		})
	default:
		panic(fmt.Sprintf("unexpected write of resource kind %d", r.kind))
	}
	return nil
}

// ---- world construction ----

func c14NewWorld(t *testing.T, nReplicas, nClients int) *c14World {
	w := &c14World{
		t: t, nReplicas: nReplicas, nClients: nClients,
		queues: map[[2]int][]tla.Value{}, enabled: map[[2]int]bool{}, fd: map[int]bool{}, alive: map[int]bool{},
		fs: map[int]map[string]string{}, inputs: map[int][]tla.Value{}, pendingOp: map[int]c14Event{},
		nodes: map[int]*c14Node{},
	}
	for i := 1; i <= nReplicas+nClients; i++ {
		w.enabled[[2]int{i, c14Req}] = true
		w.enabled[[2]int{i, c14Resp}] = true
	}
	for i := 1; i <= nReplicas; i++ {
		w.alive[i] = true
		w.fs[i] = map[string]string{}
	}
	constants := func() []distsys.MPCalContextConfigFn {
		return []distsys.MPCalContextConfigFn{
			distsys.DefineConstantValue("NUM_REPLICAS", tla.MakeNumber(int32(nReplicas))),
			distsys.DefineConstantValue("NUM_CLIENTS", tla.MakeNumber(int32(nClients))),
			distsys.DefineConstantValue("EXPLORE_FAIL", tla.ModuleTRUE),
			distsys.DefineConstantValue("DEBUG", tla.ModuleFALSE),
		}
	}
	newNode := func(id int) *c14Node {
		n := &c14Node{w: w, id: id, arrive: make(chan string), grant: make(chan struct{}), quit: make(chan struct{}),
			done: make(chan struct{}), choices: map[string]uint{}}
		n.resetTxn()
		w.nodes[id] = n
		return n
	}
	for i := 1; i <= nReplicas; i++ {
		n := newNode(i)
		n.ctx = distsys.NewMPCalContext(tla.MakeNumber(int32(i)), pbkvs.AReplica, append(constants(),
			distsys.SetFairnessCounter(n),
			distsys.EnsureArchetypeRefParam("net", &c14Res{n: n, kind: c14Net}),
			distsys.EnsureArchetypeRefParam("fs", &c14Res{n: n, kind: c14FS}),
			distsys.EnsureArchetypeRefParam("fd", &c14Res{n: n, kind: c14FD}),
			distsys.EnsureArchetypeRefParam("netEnabled", &c14Res{n: n, kind: c14NetEnabled}),
			distsys.EnsureArchetypeRefParam("primary", &c14Res{n: n, kind: c14Primary}),
			distsys.EnsureArchetypeRefParam("netLen", &c14Res{n: n, kind: c14NetLen}),
		)...)
	}
	for i := nReplicas + 1; i <= nReplicas+nClients; i++ {
		n := newNode(i)
		n.ctx = distsys.NewMPCalContext(tla.MakeNumber(int32(i)), pbkvs.AClient, append(constants(),
			distsys.SetFairnessCounter(n),
			distsys.EnsureArchetypeRefParam("net", &c14Res{n: n, kind: c14Net}),
			distsys.EnsureArchetypeRefParam("fd", &c14Res{n: n, kind: c14FD}),
			distsys.EnsureArchetypeRefParam("primary", &c14Res{n: n, kind: c14Primary}),
			distsys.EnsureArchetypeRefParam("netLen", &c14Res{n: n, kind: c14NetLen}),
			distsys.EnsureArchetypeRefParam("input", &c14Res{n: n, kind: c14Input}),
			distsys.EnsureArchetypeRefParam("output", &c14Res{n: n, kind: c14Output}),
		)...)
	}
	return w
}

// start launches every archetype; each one parks in front of its first label.
func (w *c14World) start() {
	for id := 1; id <= w.nReplicas+w.nClients; id++ {
		n := w.nodes[id]
		go func() {
			n.runErr = n.ctx.Run()
			close(n.done)
		}()
		n.pc = w.waitArrive(n)
	}
	w.t.Cleanup(func() {
		for _, n := range w.nodes {
			close(n.quit)
		}
		for _, n := range w.nodes {
			n.ctx.Stop()
		}
	})
}

func (w *c14World) waitArrive(n *c14Node) string {
	select {
	case pc := <-n.arrive:
		return pc
	case <-n.done:
		n.finished = true
		return ""
	case <-time.After(60 * time.Second): // only a safety net against a harness bug; never decides an outcome
		w.t.Fatalf("harness: node %d did not reach a label boundary", n.id)
		return ""
	}
}

// attempt lets node id attempt exactly one critical section (label) and reports whether it committed.
func (w *c14World) attempt(id int) bool {
	n := w.nodes[id]
	if n.finished {
		w.t.Fatalf("harness: node %d has already terminated (err=%v)", id, n.runErr)
	}
	n.aborted = false
	n.grant <- struct{}{}
	n.pc = w.waitArrive(n)
	if n.finished { // the archetype returned from Run (Done, or an error such as a failed assertion)
		return true
	}
	committed := !n.aborted
	if committed {
		n.flip = 0
		w.checkConsistency()
	} else {
		n.flip++
	}
	return committed
}

// step makes node id commit exactly one label (retrying aborted attempts with the other either-branches).
func (w *c14World) step(id int) {
	w.nodes[id].flip = 0
	for i := 0; i < 8; i++ {
		if w.attempt(id) {
			return
		}
	}
	w.t.Fatalf("harness: node %d cannot make a step at %s", id, w.nodes[id].pc)
}

// runUntil steps node id until cond holds at a label boundary.
func (w *c14World) runUntil(id int, what string, cond func(n *c14Node) bool) {
	n := w.nodes[id]
	for i := 0; i < 200; i++ {
		if cond(n) {
			return
		}
		w.step(id)
	}
	w.t.Fatalf("harness: node %d never reached: %s (now at %s)", id, what, n.pc)
}

func (w *c14World) runTo(id int, pc string) {
	w.runUntil(id, pc, func(n *c14Node) bool { return n.pc == pc })
}

// idle runs a replica until it waits at rcvMsg with an empty request queue and nothing to synchronise.
func (w *c14World) idle(id int) {
	n := w.nodes[id]
	for i := 0; i < 200; i++ {
		n.flip = 0
		if n.pc == "AReplica.rcvMsg" && w.qlen(id, c14Req) == 0 {
			if !w.attempt(id) { // blocked on the empty queue: really idle
				return
			}
			continue
		}
		w.step(id)
	}
	w.t.Fatalf("harness: replica %d never became idle (now at %s)", id, n.pc)
}

func (w *c14World) qlen(node, typ int) int {
	w.mu.Lock()
	defer w.mu.Unlock()
	return len(w.queues[[2]int{node, typ}])
}

func (w *c14World) fsGet(rep int, key string) string {
	w.mu.Lock()
	defer w.mu.Unlock()
	return w.fs[rep][key]
}

func (w *c14World) isAliveReplica(r int) bool {
	n := w.nodes[r]
	return !n.finished && n.pc != "AReplica.failLabel" && n.pc != "AReplica.Done"
}

// checkConsistency evaluates ConsistencyOK of pbkvs.tla on the current label-boundary state.
func (w *c14World) checkConsistency() {
	primary := 0
	for r := 1; r <= w.nReplicas; r++ {
		if w.isAliveReplica(r) {
			primary = r
			break
		}
	}
	if primary == 0 || w.nodes[primary].pc != "AReplica.sndResp" {
		return
	}
	w.mu.Lock()
	defer w.mu.Unlock()
	keys := map[string]bool{}
	for r := 1; r <= w.nReplicas; r++ {
		for k := range w.fs[r] {
			keys[k] = true
		}
	}
	for r := 1; r <= w.nReplicas; r++ {
		if !w.isAliveReplica(r) {
			continue
		}
		for k := range keys {
			if w.fs[r][k] != w.fs[primary][k] {
				w.violations = append(w.violations, fmt.Sprintf(
					"primary %d is at sndResp (about to answer a client) with fs[%d][%s]=%q but live replica %d (pc=%s) has fs[%d][%s]=%q",
					primary, primary, k, w.fs[primary][k], r, w.nodes[r].pc, r, k, w.fs[r][k]))
			}
		}
	}
}

func (w *c14World) put(client int, key, value string) {
	w.mu.Lock()
	defer w.mu.Unlock()
	w.inputs[client] = append(w.inputs[client], tla.MakeRecord([]tla.RecordField{
		{Key: tla.MakeString("typ"), Value: tla.MakeNumber(3)},
		{Key: tla.MakeString("body"), Value: tla.MakeRecord([]tla.RecordField{
			{Key: tla.MakeString("key"), Value: tla.MakeString(key)},
			{Key: tla.MakeString("value"), Value: tla.MakeString(value)},
		})},
	}))
}

func (w *c14World) get(client int, key string) {
	w.mu.Lock()
	defer w.mu.Unlock()
	w.inputs[client] = append(w.inputs[client], tla.MakeRecord([]tla.RecordField{
		{Key: tla.MakeString("typ"), Value: tla.MakeNumber(1)},
		{Key: tla.MakeString("body"), Value: tla.MakeRecord([]tla.RecordField{
			{Key: tla.MakeString("key"), Value: tla.MakeString(key)},
		})},
	}))
}

func (w *c14World) historyString() string {
	w.mu.Lock()
	defer w.mu.Unlock()
	var sb strings.Builder
	for i, ev := range w.history {
		kind := "ack   "
		if ev.invoke {
			kind = "invoke"
		}
		fmt.Fprintf(&sb, "  %2d: client %d %s %s(%s) %q\n", i, ev.client, kind, ev.op, ev.key, ev.value)
	}
	return sb.String()
}

// ---- linearizability of a complete history of one register per key (brute force; histories here are tiny) ----

type c14Op struct {
	op, key, value string
	inv, ack       int
}

func (w *c14World) completedOps() []c14Op {
	w.mu.Lock()
	defer w.mu.Unlock()
	var ops []c14Op
	open := map[int]int{}
	for i, ev := range w.history {
		if ev.invoke {
			open[ev.client] = i
		} else {
			ops = append(ops, c14Op{op: ev.op, key: ev.key, value: ev.value, inv: open[ev.client], ack: i})
			delete(open, ev.client)
		}
	}
	return ops
}

// c14Linearizable: is there a total order of ops that respects real time (a.ack < b.inv => a before b) and the
// sequential specification of a map of registers whose initial value is ""?
func c14Linearizable(ops []c14Op) bool {
	used := make([]bool, len(ops))
	var rec func(done int, state map[string]string) bool
	rec = func(done int, state map[string]string) bool {
		if done == len(ops) {
			return true
		}
		for i := range ops {
			if used[i] {
				continue
			}
			minimal := true
			for j := range ops {
				if !used[j] && j != i && ops[j].ack < ops[i].inv {
					minimal = false
					break
				}
			}
			if !minimal {
				continue
			}
			if ops[i].op == "GET" {
				if state[ops[i].key] != ops[i].value {
					continue
				}
				used[i] = true
				if rec(done+1, state) {
					return true
				}
				used[i] = false
			} else {
				old, had := state[ops[i].key]
				state[ops[i].key] = ops[i].value
				used[i] = true
				if rec(done+1, state) {
					return true
				}
				used[i] = false
				if had {
					state[ops[i].key] = old
				} else {
					delete(state, ops[i].key)
				}
			}
		}
		return false
	}
	return rec(0, map[string]string{})
}

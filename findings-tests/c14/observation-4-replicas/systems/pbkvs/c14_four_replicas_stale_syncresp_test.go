package pbkvs_test

import (
	"errors"
	"testing"

	"github.com/DistCompiler/pgo/distsys"
)

// NOT a violation of C14's own words (no answer is sent while replicas disagree) - kept as an observation.
//
// 4 replicas, 1 client.  Primary 1 crashes mid-replication of the second PUT (sent to 2 and 3, not to 4).  The new
// primary 2 (which has not yet consumed its copy) synchronises: replica 3 is ahead, so rcvSyncRespLoop adopts 3's body
// and restarts the round with `goto sndSyncReqLoop` - without draining/recognising the answers of the first round.
// Replica 4's first-round answer is then counted as its second-round answer, so the second round "completes" while the
// live replica 4 has not seen VALUE2; the surplus answer that 4 sends later trips the assertion of rcvSyncRespLoop
// (repResp.from \in replicaSet \/ fd[repResp.from]) and the new primary terminates with ErrAssertionFailed.
func TestC14_Observation_FourReplicas_StaleSyncRespKillsNewPrimary(t *testing.T) {
	const C = 5
	w := c14NewWorld(t, 4, 1)
	w.put(C, "KEY1", "VALUE1")
	w.put(C, "KEY1", "VALUE2")
	w.start()

	// PUT VALUE1 completes normally
	w.runTo(C, "AClient.rcvResp")
	w.runTo(1, "AReplica.rcvReplicaRespLoop")
	w.idle(2)
	w.idle(3)
	w.idle(4)
	w.idle(1)
	w.runTo(C, "AClient.clientLoop")
	// PUT VALUE2: primary 1 sends PUT_REQ(v2) to 2, then to 3 and crashes in that label (mayFail), nothing for 4
	w.runTo(C, "AClient.rcvResp")
	w.runUntil(1, "sent v2 to 2", func(n *c14Node) bool { return n.pc == "AReplica.sndReplicaReqLoop" && w.qlen(2, c14Req) == 1 })
	w.nodes[1].choices["AReplica.sndReplicaReqLoop.1"] = 1
	w.step(1)
	if w.nodes[1].pc != "AReplica.failLabel" || w.qlen(3, c14Req) != 1 || w.qlen(4, c14Req) != 0 {
		t.Fatalf("harness: pc=%s q3=%d q4=%d", w.nodes[1].pc, w.qlen(3, c14Req), w.qlen(4, c14Req))
	}
	w.runUntil(1, "terminated", func(n *c14Node) bool { return n.finished })
	w.idle(3) // 3 applies v2; 2 has not consumed its copy yet
	// new primary 2: round 1 with its old body (v1)
	w.step(2) // rcvMsg -> syncPrimary (primary = self /\ shouldSync)
	w.runTo(2, "AReplica.rcvSyncRespLoop")
	w.idle(3) // answers v2
	w.idle(4) // answers v1
	w.step(2) // reads 3's answer: newer -> adopt, goto sndSyncReqLoop (4's answer stays in the queue)
	if w.nodes[2].pc != "AReplica.sndSyncReqLoop" {
		t.Fatalf("harness: replica 2 at %s", w.nodes[2].pc)
	}
	w.runTo(2, "AReplica.rcvSyncRespLoop") // round 2: SYNC_REQ(v2) to 3 and 4
	w.idle(3)                              // only 3 answers round 2
	w.runTo(2, "AReplica.rcvMsg")          // round 2 is over: 4's round-1 answer was taken for its round-2 answer
	syncedWithLaggard := w.fsGet(2, "KEY1") == "VALUE2" && w.fsGet(4, "KEY1") == "VALUE1" && w.isAliveReplica(4)
	// 2 now consumes the late PUT_REQ(v2) of the dead primary as a backup and synchronises a third time
	w.runTo(2, "AReplica.rcvSyncRespLoop")
	w.idle(3)
	w.idle(4) // 4 answers round 2 and round 3
	for i := 0; i < 20 && !w.nodes[2].finished && w.nodes[2].pc != "AReplica.rcvMsg"; i++ {
		w.step(2)
	}
	if len(w.violations) != 0 {
		t.Fatalf("ConsistencyOK violations: %v", w.violations)
	}
	if w.nodes[2].finished && errors.Is(w.nodes[2].runErr, distsys.ErrAssertionFailed) {
		t.Fatalf("observation (outside C14's words): 4 replicas, primary 1 crashed mid-replication; new primary 2 completed a sync round "+
			"while live replica 4 still lacked the value (%v) and then terminated by itself: %v", syncedWithLaggard, w.nodes[2].runErr)
	}
}

package pbkvs_test

import "testing"

// C14, clause "the history of acknowledged client operations is linearizable ... in every execution ... in which
// replicas may crash-stop at any label boundary (including the primary mid-replication)".
//
// 2 replicas, 2 clients.  The primary crashes after it replicated client A's PUT(KEY1,VALUE1) to the backup but before
// it answered A.  A's retry (AClient.rcvResp: `await fd[replica] /\ netLen = 0; goto sndReq`) reaches the new primary
// only after client B has read VALUE1 and overwritten it with VALUE2, both acknowledged.  The new primary applies the
// retried PUT a second time (AReplica.handlePrimary has no duplicate suppression), so B's next GET returns VALUE1 again.
func TestC14_RetriedPutAfterPrimaryCrashIsAppliedTwice(t *testing.T) {
	const A, B = 3, 4
	w := c14NewWorld(t, 2, 2)
	w.put(A, "KEY1", "VALUE1")
	w.get(B, "KEY1")
	w.put(B, "KEY1", "VALUE2")
	w.get(B, "KEY1")
	w.start()

	// A: PUT(KEY1,VALUE1) goes to primary 1
	w.runTo(A, "AClient.rcvResp")
	// primary 1: applies it, sends the PUT_REQ to backup 2, waits for the ack
	w.runTo(1, "AReplica.rcvReplicaRespLoop")
	// backup 2: applies VALUE1 and acks
	w.idle(2)
	if got := w.fsGet(2, "KEY1"); got != "VALUE1" {
		t.Fatalf("harness: backup 2 should hold VALUE1, has %q", got)
	}
	// primary 1: receives the ack and crashes at the end of that very label (mayFail in rcvReplicaRespLoop), i.e.
	// mid-replication from the client's point of view: replicated, not answered
	w.nodes[1].choices["AReplica.rcvReplicaRespLoop.1"] = 1
	w.step(1)
	if w.nodes[1].pc != "AReplica.failLabel" {
		t.Fatalf("harness: replica 1 should be at failLabel, is at %s", w.nodes[1].pc)
	}
	w.runUntil(1, "terminated", func(n *c14Node) bool { return n.finished }) // fd[1] := TRUE; primary := primary \ {1}

	// B: GET(KEY1) is served by the new primary 2 -> VALUE1
	w.runTo(B, "AClient.rcvResp")
	w.idle(2)
	w.runTo(B, "AClient.clientLoop")
	// B: PUT(KEY1,VALUE2), acknowledged
	w.runTo(B, "AClient.rcvResp")
	w.idle(2)
	w.runTo(B, "AClient.clientLoop")
	if got := w.fsGet(2, "KEY1"); got != "VALUE2" {
		t.Fatalf("harness: primary 2 should hold VALUE2, has %q", got)
	}

	// A: only now notices that replica 1 is dead, and retries the same PUT at replica 2; it is acknowledged
	w.runUntil(A, "retry sent to replica 2", func(n *c14Node) bool { return n.pc == "AClient.rcvResp" && w.qlen(2, c14Req) == 1 })
	w.idle(2)
	w.runTo(A, "AClient.clientLoop")

	// B: GET(KEY1)
	w.runTo(B, "AClient.rcvResp")
	w.idle(2)
	w.runTo(B, "AClient.clientLoop")

	if len(w.violations) != 0 {
		t.Fatalf("unexpected ConsistencyOK violations: %v", w.violations)
	}
	ops := w.completedOps()
	if len(ops) != 4 {
		t.Fatalf("harness: expected 4 acknowledged operations, got %d\n%s", len(ops), w.historyString())
	}
	if !c14Linearizable(ops) {
		t.Fatalf("C14 violated (clause: the history of acknowledged client operations is linearizable): "+
			"with 2 replicas / 2 clients and the primary crashing between replicating and answering a PUT, "+
			"every operation below was acknowledged, yet no linearization exists: client 4 reads VALUE1, overwrites it "+
			"with VALUE2 (acknowledged), then reads VALUE1 again although the only PUT of VALUE1 was issued before all of that "+
			"(its retry was applied a second time by the new primary; final fs[2][KEY1]=%q)\n%s",
			w.fsGet(2, "KEY1"), w.historyString())
	}
}

// Control for the harness and the checker: the same operations, the same crash point, but client A notices the crash
// and retries *before* client B starts; the history is linearizable and the test passes.
func TestC14_Control_PromptRetryIsLinearizable(t *testing.T) {
	const A, B = 3, 4
	w := c14NewWorld(t, 2, 2)
	w.put(A, "KEY1", "VALUE1")
	w.get(B, "KEY1")
	w.put(B, "KEY1", "VALUE2")
	w.get(B, "KEY1")
	w.start()

	w.runTo(A, "AClient.rcvResp")
	w.runTo(1, "AReplica.rcvReplicaRespLoop")
	w.idle(2)
	w.nodes[1].choices["AReplica.rcvReplicaRespLoop.1"] = 1
	w.step(1)
	w.runUntil(1, "terminated", func(n *c14Node) bool { return n.finished })
	w.runUntil(A, "retry sent to replica 2", func(n *c14Node) bool { return n.pc == "AClient.rcvResp" && w.qlen(2, c14Req) == 1 })
	w.idle(2)
	w.runTo(A, "AClient.clientLoop")
	for i := 0; i < 3; i++ {
		w.runTo(B, "AClient.rcvResp")
		w.idle(2)
		w.runTo(B, "AClient.clientLoop")
	}
	if len(w.violations) != 0 {
		t.Fatalf("unexpected ConsistencyOK violations: %v", w.violations)
	}
	ops := w.completedOps()
	if len(ops) != 4 || !c14Linearizable(ops) {
		t.Fatalf("control failed: %d ops\n%s", len(ops), w.historyString())
	}
}

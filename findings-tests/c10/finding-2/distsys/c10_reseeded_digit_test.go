//go:debug randseednop=0

package distsys_test

// C10 hunt, finding 2: when the arms of an `either` consult DIFFERENT choice points
// (identifier sequence not prefix-stable between attempts), every switch of arm
// throws the deeper counters away and re-creates them at a random value r - but the
// carry into the `either` fires as soon as such a counter wraps past its bound, not
// after it has gone once around. So on every visit of an arm only the combinations
// lexicographically >= the random start are tried; the ones below (in particular
// "all zero") are skipped until some later visit happens to draw them. An enabled
// alternative is therefore taken only after an unbounded (geometrically distributed)
// number of retries, although nothing at all changes between the attempts.
//
// The archetype below is hand-written in exactly the shape MPCalGoCodegenPass emits
// for (S == 0..3)
//
//	archetype AArms(ref giveUp) {
//	lbl:
//	    either {                                            \* AArms.lbl.0
//	        with (x \in S) { await giveUp; };               \* AArms.lbl.1
//	    } or {
//	        with (y1 \in S, y2 \in S, y3 \in S,
//	              y4 \in S, y5 \in S, y6 \in S) {           \* AArms.lbl.2 .. AArms.lbl.7
//	            await y1 = 0 /\ y2 = 0 /\ y3 = 0 /\ y4 = 0 /\ y5 = 0 /\ y6 = 0;
//	        };
//	    };
//	}
//
// `giveUp` is an environment resource that stays FALSE until the test's budget of
// attempts is used up, so during the budget exactly one alternative is enabled:
// (second arm, y1..y6 = 0). It is enabled on EVERY attempt.

import (
	"math/rand"
	"testing"

	"github.com/DistCompiler/pgo/distsys"
	"github.com/DistCompiler/pgo/distsys/tla"
)

type c10GiveUp struct {
	distsys.ArchetypeResourceLeafMixin
	attempts *int
	budget   int
}

func (res *c10GiveUp) Abort(distsys.ArchetypeInterface) chan struct{}  { return nil }
func (res *c10GiveUp) PreCommit(distsys.ArchetypeInterface) chan error { return nil }
func (res *c10GiveUp) Commit(distsys.ArchetypeInterface) chan struct{} { return nil }
func (res *c10GiveUp) Close() error                                    { return nil }
func (res *c10GiveUp) WriteValue(distsys.ArchetypeInterface, tla.Value) error {
	panic("read-only")
}
func (res *c10GiveUp) ReadValue(distsys.ArchetypeInterface) (tla.Value, error) {
	return tla.MakeBool(*res.attempts > res.budget), nil
}

func TestC10EnabledAlternativeSkippedAfterArmSwitch(t *testing.T) {
	// The oracle draws its start values from the global math/rand source; fix it so that
	// the run is reproducible (the //go:debug line above makes Seed effective again under
	// go >= 1.24). Nothing depends on this particular seed: with an unseeded source the
	// test fails in about 98 runs out of 100 (see WHY.md).
	rand.Seed(10)

	const depth = 6
	const setSize = 4
	combosSecondArm := 1
	for i := 0; i < depth; i++ {
		combosSecondArm *= setSize
	}
	// product of the bounds of ALL choice points of the section: 2 * 4 * 4^6 = 32768
	productOfBounds := 2 * setSize * combosSecondArm
	// a (very) generous bound on the number of retries: 4 times that product.
	// (the section has only 4 + 4^6 = 4100 distinct executions.)
	budget := 4 * productOfBounds

	var attempts int
	var takenAt int // attempt on which the enabled alternative was taken; 0 = never
	secondArmTried := make(map[[depth]uint]bool)
	armSwitches := 0
	lastArm := uint(99)

	S := tla.ModuleDotDotSymbol(tla.MakeNumber(0), tla.MakeNumber(setSize-1))
	yIds := [depth]string{"AArms.lbl.2", "AArms.lbl.3", "AArms.lbl.4", "AArms.lbl.5", "AArms.lbl.6", "AArms.lbl.7"}

	jumpTable := distsys.MakeMPCalJumpTable(
		distsys.MPCalCriticalSection{
			Name: "AArms.lbl",
			Body: func(iface distsys.ArchetypeInterface) error {
				var err error
				_ = err
				attempts++
				giveUp, err := iface.RequireArchetypeResourceRef("AArms.giveUp")
				if err != nil {
					return err
				}
				arm := iface.NextFairnessCounter("AArms.lbl.0", 2)
				if arm != lastArm {
					armSwitches++
					lastArm = arm
				}
				switch arm {
				case 0:
					var xRead = S
					if xRead.AsSet().Len() == 0 {
						return distsys.ErrCriticalSectionAborted
					}
					xChoice := iface.NextFairnessCounter("AArms.lbl.1", uint(xRead.AsSet().Len()))
					if xChoice >= setSize {
						t.Errorf("C10 in-range clause: choice %d for bound %d", xChoice, setSize)
					}
					var x tla.Value = xRead.SelectElement(xChoice)
					_ = x
					var condition tla.Value
					condition, err = iface.Read(giveUp, nil)
					if err != nil {
						return err
					}
					if !condition.AsBool() {
						return distsys.ErrCriticalSectionAborted
					}
					return iface.Goto("AArms.Done")
				case 1:
					var ys [depth]uint
					allZero := true
					for i := 0; i < depth; i++ { // the generated code is the same thing, unrolled
						var yRead = S
						if yRead.AsSet().Len() == 0 {
							return distsys.ErrCriticalSectionAborted
						}
						ys[i] = iface.NextFairnessCounter(yIds[i], uint(yRead.AsSet().Len()))
						if ys[i] >= setSize {
							t.Errorf("C10 in-range clause: choice %d for bound %d", ys[i], setSize)
						}
						var y tla.Value = yRead.SelectElement(ys[i])
						if !tla.ModuleEqualsSymbol(y, tla.MakeNumber(0)).AsBool() {
							allZero = false
						}
					}
					secondArmTried[ys] = true
					if !allZero {
						return distsys.ErrCriticalSectionAborted
					}
					takenAt = attempts
					return iface.Goto("AArms.Done")
				default:
					panic("current branch of either matches no code paths!")
				}
			},
		},
		distsys.MPCalCriticalSection{
			Name: "AArms.Done",
			Body: func(distsys.ArchetypeInterface) error {
				return distsys.ErrDone
			},
		},
	)
	archetype := distsys.MPCalArchetype{
		Name:              "AArms",
		Label:             "AArms.lbl",
		RequiredRefParams: []string{"AArms.giveUp"},
		RequiredValParams: []string{},
		JumpTable:         jumpTable,
		ProcTable:         distsys.MakeMPCalProcTable(),
		PreAmble:          func(distsys.ArchetypeInterface) {},
	}

	ctx := distsys.NewMPCalContext(tla.MakeString("self"), archetype,
		distsys.EnsureArchetypeRefParam("giveUp", &c10GiveUp{attempts: &attempts, budget: budget}),
	)
	if err := ctx.Run(); err != nil { // everything runs synchronously on this goroutine
		t.Fatalf("Run: %v", err)
	}

	if takenAt == 0 {
		t.Fatalf("C10 violated (\"an alternative that is enabled is taken after a bounded number of retries, whatever the nesting "+
			"depth, bounds ...\", for \"every identifier/bound change between attempts (prefix-stable or not)\"): the alternative "+
			"(second arm of the either, y1..y6 = 0) was enabled on every one of %d consecutive attempts of AArms.lbl and nothing "+
			"changed between them, but it was never taken. That is 4 x the product of the bounds of all choice points of the "+
			"section (%d); the section has only %d distinct executions. The either switched arm %d times, i.e. the second arm "+
			"was visited about %d times, and all those visits together tried %d of its %d combinations but never the lowest ones: each visit "+
			"restarts y1..y6 at random values and hands over to the other arm as soon as they wrap, skipping everything below "+
			"the start.",
			budget, productOfBounds, setSize+combosSecondArm, armSwitches, armSwitches/2, len(secondArmTried), combosSecondArm)
	}
	t.Logf("enabled alternative taken on attempt %d", takenAt)
}

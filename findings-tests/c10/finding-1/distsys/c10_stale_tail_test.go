package distsys_test

// C10 hunt, finding 1: choice points that a critical section consulted ONCE (on an
// earlier attempt, while the environment made it take a deeper path) stay on the
// round-robin counter's stack for ever, and keep absorbing the per-attempt
// increment. From then on the choice points the section really consults only
// advance once per (product of the STALE bounds) attempts, so a combination is
// repeated many times inside one run of (product of the bounds) consecutive
// attempts instead of every combination being tried exactly once.
//
// The archetype below is hand-written in exactly the shape MPCalGoCodegenPass emits
// for
//
//	archetype AStale(ref deep, ref stop) {
//	lbl:
//	    with (a \in {0, 1}) {                  \* choice point AStale.lbl.0
//	        if (deep) {
//	            with (c \in 0..(K-1)) {        \* choice point AStale.lbl.1
//	                await FALSE;
//	            };
//	        } else {
//	            await stop;                    \* not enabled while we watch
//	        };
//	    };
//	}
//
// `deep` and `stop` are environment resources (think: a failure detector, the
// length of a mailbox, ...). `deep` is TRUE during the first attempt only.

import (
	"fmt"
	"testing"

	"github.com/DistCompiler/pgo/distsys"
	"github.com/DistCompiler/pgo/distsys/tla"
)

// c10EnvBool is a read-only environment resource; its value is a function of how
// many attempts of the critical section have been rolled back so far.
type c10EnvBool struct {
	distsys.ArchetypeResourceLeafMixin
	aborts *int
	value  func(aborts int) bool
}

func (res *c10EnvBool) Abort(distsys.ArchetypeInterface) chan struct{}  { return nil }
func (res *c10EnvBool) PreCommit(distsys.ArchetypeInterface) chan error { return nil }
func (res *c10EnvBool) Commit(distsys.ArchetypeInterface) chan struct{} { return nil }
func (res *c10EnvBool) Close() error                                    { return nil }
func (res *c10EnvBool) WriteValue(distsys.ArchetypeInterface, tla.Value) error {
	panic("read-only")
}
func (res *c10EnvBool) ReadValue(distsys.ArchetypeInterface) (tla.Value, error) {
	return tla.MakeBool(res.value(*res.aborts)), nil
}

func TestC10StaleChoicePointsDelayEnabledAlternatives(t *testing.T) {
	const K = 50          // bound of the choice point that is consulted on the first attempt only
	const watched = 4 * K // attempts 2 .. watched+1 all consult exactly one choice point, `a`, bound 2

	var attempts int // number of attempts started so far
	var aSeen []uint // value of `a` in attempts 2, 3, ... (the ones that consult only `a`)

	jumpTable := distsys.MakeMPCalJumpTable(
		distsys.MPCalCriticalSection{
			Name: "AStale.lbl",
			Body: func(iface distsys.ArchetypeInterface) error {
				var err error
				_ = err
				attempts++
				deep, err := iface.RequireArchetypeResourceRef("AStale.deep")
				if err != nil {
					return err
				}
				stop, err := iface.RequireArchetypeResourceRef("AStale.stop")
				if err != nil {
					return err
				}
				var aRead = tla.MakeSet(tla.MakeNumber(0), tla.MakeNumber(1))
				if aRead.AsSet().Len() == 0 {
					return distsys.ErrCriticalSectionAborted
				}
				aChoice := iface.NextFairnessCounter("AStale.lbl.0", uint(aRead.AsSet().Len()))
				if aChoice >= 2 {
					t.Errorf("C10 in-range clause: choice %d for bound 2", aChoice)
				}
				var a tla.Value = aRead.SelectElement(aChoice)
				_ = a
				var condition tla.Value
				condition, err = iface.Read(deep, nil)
				if err != nil {
					return err
				}
				if condition.AsBool() {
					var cRead = tla.ModuleDotDotSymbol(tla.MakeNumber(0), tla.MakeNumber(K-1))
					if cRead.AsSet().Len() == 0 {
						return distsys.ErrCriticalSectionAborted
					}
					cChoice := iface.NextFairnessCounter("AStale.lbl.1", uint(cRead.AsSet().Len()))
					if cChoice >= K {
						t.Errorf("C10 in-range clause: choice %d for bound %d", cChoice, K)
					}
					var c tla.Value = cRead.SelectElement(cChoice)
					_ = c
					// await FALSE
					return distsys.ErrCriticalSectionAborted
				} else {
					aSeen = append(aSeen, aChoice)
					var condition0 tla.Value
					condition0, err = iface.Read(stop, nil)
					if err != nil {
						return err
					}
					if !condition0.AsBool() {
						return distsys.ErrCriticalSectionAborted
					}
					return iface.Goto("AStale.Done")
				}
			},
		},
		distsys.MPCalCriticalSection{
			Name: "AStale.Done",
			Body: func(distsys.ArchetypeInterface) error {
				return distsys.ErrDone
			},
		},
	)
	archetype := distsys.MPCalArchetype{
		Name:              "AStale",
		Label:             "AStale.lbl",
		RequiredRefParams: []string{"AStale.deep", "AStale.stop"},
		RequiredValParams: []string{},
		JumpTable:         jumpTable,
		ProcTable:         distsys.MakeMPCalProcTable(),
		PreAmble:          func(distsys.ArchetypeInterface) {},
	}

	ctx := distsys.NewMPCalContext(tla.MakeString("self"), archetype,
		// TRUE while the first attempt runs, FALSE for ever after
		distsys.EnsureArchetypeRefParam("deep", &c10EnvBool{aborts: &attempts, value: func(n int) bool { return n <= 1 }}),
		// lets the run end once we have watched enough attempts
		distsys.EnsureArchetypeRefParam("stop", &c10EnvBool{aborts: &attempts, value: func(n int) bool { return n > watched+1 }}),
	)
	if err := ctx.Run(); err != nil { // everything runs synchronously on this goroutine
		t.Fatalf("Run: %v", err)
	}

	if len(aSeen) < watched {
		t.Fatalf("test harness: only watched %d attempts", len(aSeen))
	}
	aSeen = aSeen[:watched]

	// Attempts 2.. all consult the same single choice point `a` (bound 2): the product of
	// the bounds is 2, so every run of 2 consecutive attempts must contain a=0 and a=1
	// exactly once each, i.e. `a` must alternate.
	longest, cur, at := 1, 1, 0
	for i := 1; i < len(aSeen); i++ {
		if aSeen[i] == aSeen[i-1] {
			cur++
			if cur > longest {
				longest, at = cur, i-cur+1
			}
		} else {
			cur = 1
		}
	}
	if longest > 1 {
		t.Fatalf("C10 violated (\"if the section consults the same choice points on each attempt then every combination "+
			"of choices is tried exactly once in each run of (product of the bounds) consecutive attempts\"): attempts %d..%d "+
			"all consulted only the choice point AStale.lbl.0 with bound 2, yet %d consecutive attempts (from watched attempt %d) "+
			"all got the same choice %d; the other, equally enabled alternative had to wait %d retries instead of 1, because "+
			"the choice point AStale.lbl.1 (bound %d), consulted on attempt 1 only, is still on the counter stack and absorbs "+
			"the increments.\nchoices seen: %s",
			2, watched+1, longest, at, aSeen[at], longest, K, fmt.Sprint(aSeen))
	}
}

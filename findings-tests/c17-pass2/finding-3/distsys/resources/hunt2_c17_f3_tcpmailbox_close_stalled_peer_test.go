package resources

// C17 hunt, finding 3: Stop of a context that owns a local TCP mailbox never returns while one peer
// connection is stalled in the middle of a message.
//
// tcpMailboxesLocal.handleConn holds res.lock (read side) around a blocking network read
// (decoder.Decode(&value), no deadline) and tcpMailboxesLocal.Close starts with res.lock.Lock().
// A sender that has written the tcpNetworkValue tag but not (yet) the value - a paused or partitioned
// peer, or simply a peer that is slow - therefore blocks Close, hence Run's finaliser, hence every Stop,
// for as long as it likes. The archetype itself stopped at a label boundary long ago.

import (
	"encoding/gob"
	"net"
	"testing"
	"time"

	"github.com/DistCompiler/pgo/distsys"
	"github.com/DistCompiler/pgo/distsys/tla"
)

func TestHunt2C17F3_StopBlockedByPeerStalledMidMessage(t *testing.T) {
	const addr = "127.0.0.1:47917"
	self := tla.MakeNumber(1)

	mailboxes := NewTCPMailboxes(func(idx tla.Value) (MailboxKind, string) {
		if idx.Equal(self) {
			return MailboxesLocal, addr
		}
		return MailboxesRemote, "127.0.0.1:1"
	}, WithMailboxesReadTimeout(5*time.Millisecond))

	// archetype: keeps trying to read net[self] (aborts on the read timeout: a label boundary every 5ms)
	sections := make(chan struct{}, 1)
	arch := distsys.MPCalArchetype{
		Name:              "ARecv",
		Label:             "ARecv.rcv",
		RequiredRefParams: []string{"ARecv.net"},
		JumpTable: distsys.MakeMPCalJumpTable(distsys.MPCalCriticalSection{
			Name: "ARecv.rcv",
			Body: func(iface distsys.ArchetypeInterface) error {
				netH, err := iface.RequireArchetypeResourceRef("ARecv.net")
				if err != nil {
					return err
				}
				_, err = iface.Read(netH, []tla.Value{iface.Self()})
				select {
				case sections <- struct{}{}:
				default:
				}
				if err != nil {
					return err
				}
				return iface.Goto("ARecv.rcv")
			},
		}),
		ProcTable: distsys.MakeMPCalProcTable(),
		PreAmble:  func(distsys.ArchetypeInterface) {},
	}
	ctx := distsys.NewMPCalContext(self, arch, distsys.EnsureArchetypeRefParam("net", mailboxes))

	runDone := make(chan error, 1)
	go func() { runDone <- ctx.Run() }()

	// wait until the archetype has gone through a section: the local mailbox exists and listens
	select {
	case <-sections:
	case <-time.After(30 * time.Second):
		t.Fatalf("test set-up: archetype did not run")
	}
	elem, ok := mailboxes.realizedMap.Get(self)
	if !ok {
		t.Fatalf("test set-up: local mailbox not created")
	}
	local := elem.(*tcpMailboxesLocal)

	// a peer starts a message: begin, value tag ... and stalls before the value itself
	conn, err := net.Dial("tcp", addr)
	if err != nil {
		t.Fatalf("test set-up: dial: %v", err)
	}
	defer conn.Close()
	enc := gob.NewEncoder(conn)
	if err := enc.Encode(tcpNetworkBegin); err != nil {
		t.Fatal(err)
	}
	if err := enc.Encode(tcpNetworkValue); err != nil {
		t.Fatal(err)
	}
	// wait until handleConn is waiting for the value (it then holds the read lock): observable through TryLock
	deadline := time.Now().Add(30 * time.Second)
	for {
		if !local.lock.TryLock() {
			break
		}
		local.lock.Unlock()
		if time.Now().After(deadline) {
			t.Fatalf("test set-up: handleConn never started to read the value")
		}
		time.Sleep(time.Millisecond)
	}

	// Stop: the archetype is at a label boundary every few milliseconds; the mailbox's Close needs 500ms by design
	stopDone := make(chan struct{})
	go func() {
		ctx.Stop()
		close(stopDone)
	}()

	blocked := false
	select {
	case <-stopDone:
	case <-time.After(5 * time.Second):
		blocked = true
	}

	// the peer gives up: now everything unwinds, which shows that the peer was what Stop was waiting for
	_ = conn.Close()
	select {
	case <-stopDone:
	case <-time.After(30 * time.Second):
		t.Fatalf("Stop did not return even after the peer went away")
	}
	if err := <-runDone; err != nil {
		t.Logf("Run returned: %v", err)
	}

	if blocked {
		t.Fatalf("C17 violated (Stop ... every call returns once the archetype has stopped at a label boundary; never " +
			"deadlocks): the archetype had stopped, but Stop stayed blocked for as long as a peer connection was stalled " +
			"in the middle of a message - tcpMailboxesLocal.Close waits for res.lock, which handleConn holds around a " +
			"blocking network read; Stop returned only when the peer closed its connection")
	}
}

package resources

// C17 hunt, finding 2: the repairs of the nested-archetype resource for "late answers" and for "the nested
// system has ended" are incomplete when the nested system consists of two archetypes (which NewNested
// explicitly supports): ctxHasStopped is closed as soon as ANY nested archetype ends, while ANOTHER nested
// archetype may still be working on a request that timed out and answer it later.
//
// Abort then completes through its "nested system has ended" branch while the answer is not there yet; the
// answer arrives afterwards and stays in receiveCh; the retried section's first operation runs
// assertSanity(true) and panics on the Run goroutine. Run does not report a resource error
// (ErrNestedArchetypeStopped): it panics.

import (
	"errors"
	"fmt"
	"testing"
	"time"

	"github.com/DistCompiler/pgo/distsys"
	"github.com/DistCompiler/pgo/distsys/tla"
)

// hunt2F2AbortSpy delegates everything to the wrapped resource and tells the test when Abort is called.
type hunt2F2AbortSpy struct {
	distsys.ArchetypeResource
	abortCalled chan struct{}
}

func (s *hunt2F2AbortSpy) Abort(iface distsys.ArchetypeInterface) chan struct{} {
	select {
	case s.abortCalled <- struct{}{}:
	default:
	}
	return s.ArchetypeResource.Abort(iface)
}

func TestHunt2C17F2_TwoNestedArchetypes_LateAnswerAfterOtherEnded(t *testing.T) {
	const wait = 30 * time.Second

	gateA := make(chan struct{})     // closed: nested archetype A reaches Done
	bEnter := make(chan int, 16)     // B reports every start of its serve section
	bGotReq := make(chan string, 16) // B reports the request it took
	gateB := make(chan struct{}, 16) // one token: B may answer the request it holds

	// ---- nested archetype A: idles, then terminates normally (Done) when the test says so
	archA := distsys.MPCalArchetype{
		Name:  "A",
		Label: "A.wait",
		JumpTable: distsys.MakeMPCalJumpTable(distsys.MPCalCriticalSection{
			Name: "A.wait",
			Body: func(iface distsys.ArchetypeInterface) error {
				select {
				case <-gateA:
					return distsys.ErrDone
				case <-time.After(5 * time.Millisecond):
					return distsys.ErrCriticalSectionAborted
				}
			},
		}),
		ProcTable: distsys.MakeMPCalProcTable(),
		PreAmble:  func(distsys.ArchetypeInterface) {},
	}

	// ---- nested archetype B: serves the resource protocol (one answer per request), slowly
	bSections := 0
	archB := distsys.MPCalArchetype{
		Name:              "B",
		Label:             "B.serve",
		RequiredRefParams: []string{"B.in", "B.out"},
		JumpTable: distsys.MakeMPCalJumpTable(distsys.MPCalCriticalSection{
			Name: "B.serve",
			Body: func(iface distsys.ArchetypeInterface) error {
				in, err := iface.RequireArchetypeResourceRef("B.in")
				if err != nil {
					return err
				}
				out, err := iface.RequireArchetypeResourceRef("B.out")
				if err != nil {
					return err
				}
				req, err := iface.Read(in, nil)
				if err != nil {
					return err // timeout: abort and retry (label boundary)
				}
				bSections++
				bEnter <- bSections
				tpe := req.ApplyFunction(tla.MakeString("tpe"))
				bGotReq <- tpe.AsString()
				<-gateB
				var resp tla.Value
				switch {
				case tpe.Equal(nestedArchetypeReadReq):
					resp = tla.MakeRecord([]tla.RecordField{
						{Key: tla.MakeString("tpe"), Value: nestedArchetypeReadAck},
						{Key: tla.MakeString("value"), Value: tla.MakeNumber(42)},
					})
				case tpe.Equal(nestedArchetypeAbortReq):
					resp = tla.MakeRecord([]tla.RecordField{{Key: tla.MakeString("tpe"), Value: nestedArchetypeAbortAck}})
				case tpe.Equal(nestedArchetypePreCommitReq):
					resp = tla.MakeRecord([]tla.RecordField{{Key: tla.MakeString("tpe"), Value: nestedArchetypePreCommitAck}})
				case tpe.Equal(nestedArchetypeCommitReq):
					resp = tla.MakeRecord([]tla.RecordField{{Key: tla.MakeString("tpe"), Value: nestedArchetypeCommitAck}})
				default:
					panic(fmt.Errorf("unexpected request %v", req))
				}
				if err := iface.Write(out, nil, resp); err != nil {
					return err
				}
				return iface.Goto("B.serve")
			},
		}),
		ProcTable: distsys.MakeMPCalProcTable(),
		PreAmble:  func(distsys.ArchetypeInterface) {},
	}
	bCommitted := make(chan struct{}, 16) // B's answer has been put on the resource's receive channel

	var nested *nestedArchetype
	nestedRes := NewNested(func(sendCh chan<- tla.Value, receiveCh <-chan tla.Value) []*distsys.MPCalContext {
		// B's answers go through a forwarding channel so that the test learns when one has been delivered
		fwd := make(chan tla.Value)
		go func() {
			for v := range fwd {
				sendCh <- v
				bCommitted <- struct{}{}
			}
		}()
		return []*distsys.MPCalContext{
			distsys.NewMPCalContext(tla.MakeString("a"), archA),
			distsys.NewMPCalContext(tla.MakeString("b"), archB,
				distsys.EnsureArchetypeRefParam("in", NewInputChan(receiveCh)),
				distsys.EnsureArchetypeRefParam("out", NewOutputChan(fwd))),
		}
	})
	nested = nestedRes.(*nestedArchetype)
	spy := &hunt2F2AbortSpy{ArchetypeResource: nestedRes, abortCalled: make(chan struct{}, 16)}

	// ---- the outer archetype: one section that reads the nested resource, then Done
	outerEnter := make(chan int, 16)
	outerGo := make(chan struct{}, 16)
	outerSections := 0
	archO := distsys.MPCalArchetype{
		Name:              "O",
		Label:             "O.sec",
		RequiredRefParams: []string{"O.r"},
		JumpTable: distsys.MakeMPCalJumpTable(
			distsys.MPCalCriticalSection{
				Name: "O.sec",
				Body: func(iface distsys.ArchetypeInterface) error {
					r, err := iface.RequireArchetypeResourceRef("O.r")
					if err != nil {
						return err
					}
					outerSections++
					outerEnter <- outerSections
					<-outerGo
					if _, err := iface.Read(r, nil); err != nil {
						return err
					}
					return iface.Goto("O.Done")
				},
			},
			distsys.MPCalCriticalSection{
				Name: "O.Done",
				Body: func(distsys.ArchetypeInterface) error { return distsys.ErrDone },
			},
		),
		ProcTable: distsys.MakeMPCalProcTable(),
		PreAmble:  func(distsys.ArchetypeInterface) {},
	}
	outer := distsys.NewMPCalContext(tla.MakeString("o"), archO, distsys.EnsureArchetypeRefParam("r", spy))

	type outcome struct {
		err      error
		panicked interface{}
	}
	done := make(chan outcome, 1)
	go func() {
		var o outcome
		defer func() {
			o.panicked = recover()
			done <- o
		}()
		o.err = outer.Run()
	}()

	expect := func(what string, ch interface{}) {
		t.Helper()
		timeout := time.After(wait)
		switch ch := ch.(type) {
		case chan int:
			select {
			case <-ch:
			case <-timeout:
				t.Fatalf("test set-up: timed out waiting for %s", what)
			}
		case chan string:
			select {
			case <-ch:
			case <-timeout:
				t.Fatalf("test set-up: timed out waiting for %s", what)
			}
		case chan struct{}:
			select {
			case <-ch:
			case <-timeout:
				t.Fatalf("test set-up: timed out waiting for %s", what)
			}
		}
	}

	// 1. the outer section reads the resource; B takes the read request and sits on it
	expect("outer section #1", outerEnter)
	outerGo <- struct{}{}
	expect("B's section with the read request", bEnter)
	expect("B's request", bGotReq)
	// 2. the request times out (100ms, B is blocked): the outer section aborts; Abort is now waiting to hand
	//    the abort request to B (B is busy), for a late answer, or for the nested system to end
	expect("Abort of the timed-out outer section", spy.abortCalled)
	// 3. the OTHER nested archetype terminates normally: ctxHasStopped is closed, Abort completes through its
	//    "nested system has ended" branch (no answer to discard yet), the outer section is retried
	close(gateA)
	expect("outer section #2 (the retry)", outerEnter)
	// 4. B, still running, now answers the request it took in step 1
	gateB <- struct{}{}
	expect("B's late answer to be delivered", bCommitted)
	if len(nested.receiveCh) != 1 {
		t.Fatalf("test set-up: expected the late answer in receiveCh")
	}
	// 5. the retried section performs its read
	outerGo <- struct{}{}

	var o outcome
	select {
	case o = <-done:
	case <-time.After(wait):
		t.Fatalf("Run did not end")
	}
	// let B go on, whatever it holds, so that nothing is leaked
	for i := 0; i < 8; i++ {
		gateB <- struct{}{}
	}

	if o.panicked != nil {
		t.Fatalf("C17 violated (Run reports ... a resource error distinctly): one of the two nested archetypes "+
			"ended and the other one answered a timed-out request late; Run must end with the resource error "+
			"ErrNestedArchetypeStopped, but it PANICKED on the archetype's goroutine: %v", o.panicked)
	}
	if !errors.Is(o.err, ErrNestedArchetypeStopped) {
		t.Fatalf("expected Run to report ErrNestedArchetypeStopped, got %v", o.err)
	}
}

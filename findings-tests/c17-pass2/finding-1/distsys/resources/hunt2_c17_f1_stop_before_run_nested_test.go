package resources

// C17 hunt, finding 1: a context that is stopped before it runs ("will never start") never closes its
// resources, and a nested-archetype resource started its nested archetypes when it was constructed.
// So after Stop has returned (and Run has returned nil without running), the nested archetypes keep
// running and keep committing critical sections, forever, with nothing left that could stop them.

import (
	"sync/atomic"
	"testing"
	"time"

	"github.com/DistCompiler/pgo/distsys"
	"github.com/DistCompiler/pgo/distsys/tla"
)

func TestHunt2C17F1_StopBeforeRun_NestedArchetypesKeepCommitting(t *testing.T) {
	// the nested archetype: one label that loops forever; every Body execution consumes one tick.
	// Body number k+1 can only start after the critical section of Body number k has committed.
	ticks := make(chan struct{})
	var bodies atomic.Int32
	nestedJump := distsys.MakeMPCalJumpTable(distsys.MPCalCriticalSection{
		Name: "ANested.loop",
		Body: func(iface distsys.ArchetypeInterface) error {
			select {
			case <-ticks:
				bodies.Add(1)
				return iface.Goto("ANested.loop") // commits
			case <-time.After(5 * time.Millisecond):
				return distsys.ErrCriticalSectionAborted // label boundary: lets a Stop through
			}
		},
	})
	nestedArch := distsys.MPCalArchetype{
		Name:      "ANested",
		Label:     "ANested.loop",
		JumpTable: nestedJump,
		ProcTable: distsys.MakeMPCalProcTable(),
		PreAmble:  func(distsys.ArchetypeInterface) {},
	}

	var nestedCtx *distsys.MPCalContext
	nestedRes := NewNested(func(sendCh chan<- tla.Value, receiveCh <-chan tla.Value) []*distsys.MPCalContext {
		nestedCtx = distsys.NewMPCalContext(tla.MakeString("nested"), nestedArch)
		return []*distsys.MPCalContext{nestedCtx}
	})
	// whatever happens, do not leak the nested archetype out of this test
	defer nestedCtx.Stop()

	// the outer archetype: would be done immediately, if it ever ran
	outerJump := distsys.MakeMPCalJumpTable(distsys.MPCalCriticalSection{
		Name: "AOuter.Done",
		Body: func(distsys.ArchetypeInterface) error { return distsys.ErrDone },
	})
	outerArch := distsys.MPCalArchetype{
		Name:              "AOuter",
		Label:             "AOuter.Done",
		RequiredRefParams: []string{"AOuter.r"},
		JumpTable:         outerJump,
		ProcTable:         distsys.MakeMPCalProcTable(),
		PreAmble:          func(distsys.ArchetypeInterface) {},
	}
	outer := distsys.NewMPCalContext(tla.MakeString("outer"), outerArch,
		distsys.EnsureArchetypeRefParam("r", nestedRes))

	// Stop before the run: returns at once, the archetype will never start
	outer.Stop()
	// ... and indeed Run refuses to run
	if err := outer.Run(); err != nil {
		t.Fatalf("Run after Stop: %v", err)
	}
	// a second Stop also returns
	outer.Stop()

	// From here on the context is finished for good: Stop has returned, Run has returned. Nothing that the
	// context owns may commit a critical section any more. Offer the nested archetype some ticks.
	committedAfterStop := 0
	for i := 0; i < 3; i++ {
		select {
		case ticks <- struct{}{}:
			committedAfterStop++
		case <-time.After(3 * time.Second):
			// nobody is running the nested archetype any more: this is what the property demands
		}
	}
	// one more tick so that the commit of the last counted Body is known to have completed
	if committedAfterStop == 3 {
		select {
		case ticks <- struct{}{}:
			t.Fatalf("C17 violated (after Stop returns no further critical section commits / stops cleanly): "+
				"the context was stopped before it ran, Stop and Run have both returned, yet its nested archetype "+
				"executed %d further critical sections and committed at least 3 of them; the nested-archetype "+
				"resource was never closed, and nothing is left that can stop it", bodies.Load())
		case <-time.After(3 * time.Second):
		}
	}
	if committedAfterStop != 0 {
		t.Fatalf("C17 violated: nested archetype still ran %d critical sections after Stop/Run of its owner returned", committedAfterStop)
	}
}

// Control: the same configuration, but the outer context does run. Then the nested archetype is stopped
// by the resource's Close before Run returns, as the property demands.
func TestHunt2C17F1_Control_StartedRunStopsNestedArchetypes(t *testing.T) {
	ticks := make(chan struct{})
	nestedJump := distsys.MakeMPCalJumpTable(distsys.MPCalCriticalSection{
		Name: "ANested.loop",
		Body: func(iface distsys.ArchetypeInterface) error {
			select {
			case <-ticks:
				return iface.Goto("ANested.loop")
			case <-time.After(5 * time.Millisecond):
				return distsys.ErrCriticalSectionAborted
			}
		},
	})
	nestedArch := distsys.MPCalArchetype{
		Name:      "ANested",
		Label:     "ANested.loop",
		JumpTable: nestedJump,
		ProcTable: distsys.MakeMPCalProcTable(),
		PreAmble:  func(distsys.ArchetypeInterface) {},
	}
	var nestedCtx *distsys.MPCalContext
	nestedRes := NewNested(func(sendCh chan<- tla.Value, receiveCh <-chan tla.Value) []*distsys.MPCalContext {
		nestedCtx = distsys.NewMPCalContext(tla.MakeString("nested"), nestedArch)
		return []*distsys.MPCalContext{nestedCtx}
	})
	defer nestedCtx.Stop()
	outerJump := distsys.MakeMPCalJumpTable(distsys.MPCalCriticalSection{
		Name: "AOuter.Done",
		Body: func(distsys.ArchetypeInterface) error { return distsys.ErrDone },
	})
	outerArch := distsys.MPCalArchetype{
		Name:              "AOuter",
		Label:             "AOuter.Done",
		RequiredRefParams: []string{"AOuter.r"},
		JumpTable:         outerJump,
		ProcTable:         distsys.MakeMPCalProcTable(),
		PreAmble:          func(distsys.ArchetypeInterface) {},
	}
	outer := distsys.NewMPCalContext(tla.MakeString("outer"), outerArch,
		distsys.EnsureArchetypeRefParam("r", nestedRes))
	if err := outer.Run(); err != nil {
		t.Fatalf("Run: %v", err)
	}
	outer.Stop()
	select {
	case ticks <- struct{}{}:
		t.Fatalf("nested archetype still running after a started run ended")
	case <-time.After(1 * time.Second):
	}
}

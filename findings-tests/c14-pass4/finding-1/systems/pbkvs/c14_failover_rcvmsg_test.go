package pbkvs

// C14: "whenever the primary is about to answer a client every live replica
// holds the same value for every key".
//
// The generated critical section AReplica.rcvMsg reads `primary` (and
// shouldSync), then BLOCKS in the read of net[<<self, REQ_INDEX>>], then reads
// `primary` a second time to choose between handlePrimary and handleBackup.
// In the spec the label is one atomic step; in Go the primary can crash while
// the backup is parked in the mailbox read. The backup then wakes up with a
// client request, sees primary = self on the second read, and serves the client
// from its own store WITHOUT the sync round that the first check
// (primary = self /\ shouldSync => goto syncPrimary) was meant to force.
//
// All three replicas and the reading client run the real generated archetypes.
// The resources are hand made, in memory, and read live state exactly as the
// repository's own failure detector / leader election resources do (no
// validation at PreCommit). Nothing depends on timing: replica mailboxes block
// without a timeout, and every step of the schedule is gated on a hook.

import (
	"fmt"
	"sync"
	"sync/atomic"
	"testing"
	"time"

	"github.com/DistCompiler/pgo/distsys"
	"github.com/DistCompiler/pgo/distsys/resources"
	"github.com/DistCompiler/pgo/distsys/tla"
)

type c14Key struct{ node, typ int32 }

type c14World struct {
	mu      sync.Mutex
	boxes   map[c14Key]chan tla.Value
	enabled map[c14Key]*atomic.Bool
	dead    map[int32]*atomic.Bool // perfect failure detector state
	leader  atomic.Int32           // least live replica
	fs      map[string]*c14Cell    // "<replica>/<key>" -> committed value
	done    chan struct{}

	// hooks
	onWrite     func(from int32, to c14Key, msg tla.Value) bool // true: never deliver (writer is crashing)
	onReadEnter func(owner c14Key)
}

func newC14World(nodes int32) *c14World {
	w := &c14World{
		boxes:   map[c14Key]chan tla.Value{},
		enabled: map[c14Key]*atomic.Bool{},
		dead:    map[int32]*atomic.Bool{},
		fs:      map[string]*c14Cell{},
		done:    make(chan struct{}),
	}
	for n := int32(1); n <= nodes; n++ {
		for _, t := range []int32{1, 2} {
			k := c14Key{n, t}
			w.boxes[k] = make(chan tla.Value, 64)
			b := &atomic.Bool{}
			b.Store(true)
			w.enabled[k] = b
		}
		w.dead[n] = &atomic.Bool{}
	}
	w.leader.Store(1)
	return w
}

// ---- fs: committed value observable from the test

type c14Cell struct {
	distsys.ArchetypeResourceLeafMixin
	mu        sync.Mutex
	committed tla.Value
	pending   *tla.Value
}

func (c *c14Cell) get() string {
	c.mu.Lock()
	defer c.mu.Unlock()
	return c.committed.AsString()
}
func (c *c14Cell) Abort(distsys.ArchetypeInterface) chan struct{}  { c.pending = nil; return nil }
func (c *c14Cell) PreCommit(distsys.ArchetypeInterface) chan error { return nil }
func (c *c14Cell) Commit(distsys.ArchetypeInterface) chan struct{} {
	if c.pending != nil {
		c.mu.Lock()
		c.committed = *c.pending
		c.mu.Unlock()
		c.pending = nil
	}
	return nil
}
func (c *c14Cell) ReadValue(distsys.ArchetypeInterface) (tla.Value, error) {
	if c.pending != nil {
		return *c.pending, nil
	}
	return c.committed, nil
}
func (c *c14Cell) WriteValue(_ distsys.ArchetypeInterface, v tla.Value) error {
	c.pending = &v
	return nil
}
func (c *c14Cell) Close() error { return nil }

func (w *c14World) cell(replica int32, key string) *c14Cell {
	w.mu.Lock()
	defer w.mu.Unlock()
	name := fmt.Sprintf("%d/%s", replica, key)
	c, ok := w.fs[name]
	if !ok {
		c = &c14Cell{committed: tla.MakeString("")}
		w.fs[name] = c
	}
	return c
}

func (w *c14World) newFS(self int32) distsys.ArchetypeResource {
	return resources.NewIncMap(func(index tla.Value) distsys.ArchetypeResource {
		if index.AsNumber() != self {
			panic("wrong fs index")
		}
		return resources.NewIncMap(func(key tla.Value) distsys.ArchetypeResource {
			return w.cell(self, key.AsString())
		})
	})
}

// ---- network: one FIFO queue per <<node, typ>>, as ReliableFIFOLink

type c14Mailbox struct {
	distsys.ArchetypeResourceLeafMixin
	w       *c14World
	self    int32
	key     c14Key
	timeout time.Duration // 0: block until a message arrives (or teardown)

	backlog []tla.Value // reads of an aborted section
	inProg  []tla.Value
	out     []tla.Value
}

func (m *c14Mailbox) Abort(distsys.ArchetypeInterface) chan struct{} {
	m.backlog = append(m.inProg, m.backlog...)
	m.inProg = nil
	m.out = nil
	return nil
}
func (m *c14Mailbox) PreCommit(distsys.ArchetypeInterface) chan error { return nil }
func (m *c14Mailbox) Commit(distsys.ArchetypeInterface) chan struct{} {
	m.inProg = nil
	for _, v := range m.out {
		m.w.boxes[m.key] <- v
	}
	m.out = nil
	return nil
}
func (m *c14Mailbox) ReadValue(distsys.ArchetypeInterface) (tla.Value, error) {
	if m.key.node != m.self {
		panic("read of a remote mailbox")
	}
	if len(m.backlog) > 0 {
		v := m.backlog[0]
		m.backlog = m.backlog[1:]
		m.inProg = append(m.inProg, v)
		return v, nil
	}
	if m.w.onReadEnter != nil {
		m.w.onReadEnter(m.key)
	}
	var tmo <-chan time.Time
	if m.timeout > 0 {
		tmo = time.After(m.timeout)
	}
	select {
	case v := <-m.w.boxes[m.key]:
		m.inProg = append(m.inProg, v)
		return v, nil
	case <-tmo:
		return tla.Value{}, distsys.ErrCriticalSectionAborted
	case <-m.w.done:
		return tla.Value{}, distsys.ErrCriticalSectionAborted
	}
}
func (m *c14Mailbox) WriteValue(_ distsys.ArchetypeInterface, v tla.Value) error {
	if m.w.onWrite != nil && m.w.onWrite(m.self, m.key, v) {
		// the writer crash-stops before this step commits
		<-m.w.done
		return distsys.ErrCriticalSectionAborted
	}
	if !m.w.enabled[m.key].Load() { // await $variable.enabled
		select {
		case <-time.After(2 * time.Millisecond):
		case <-m.w.done:
		}
		return distsys.ErrCriticalSectionAborted
	}
	m.out = append(m.out, v)
	return nil
}
func (m *c14Mailbox) Close() error { return nil }
func (m *c14Mailbox) length() int  { return len(m.backlog) + len(m.w.boxes[m.key]) }

type c14Len struct {
	distsys.ArchetypeResourceLeafMixin
	m *c14Mailbox
}

func (l *c14Len) Abort(distsys.ArchetypeInterface) chan struct{}         { return nil }
func (l *c14Len) PreCommit(distsys.ArchetypeInterface) chan error        { return nil }
func (l *c14Len) Commit(distsys.ArchetypeInterface) chan struct{}        { return nil }
func (l *c14Len) WriteValue(distsys.ArchetypeInterface, tla.Value) error { panic("no write") }
func (l *c14Len) Close() error                                           { return nil }
func (l *c14Len) ReadValue(distsys.ArchetypeInterface) (tla.Value, error) {
	return tla.MakeNumber(int32(l.m.length())), nil
}

func (w *c14World) newNet(self int32, timeout time.Duration) (net, netLen distsys.ArchetypeResource) {
	var mu sync.Mutex
	boxes := map[c14Key]*c14Mailbox{}
	get := func(index tla.Value) *c14Mailbox {
		k := c14Key{index.AsTuple().Get(0).AsNumber(), index.AsTuple().Get(1).AsNumber()}
		mu.Lock()
		defer mu.Unlock()
		m, ok := boxes[k]
		if !ok {
			m = &c14Mailbox{w: w, self: self, key: k, timeout: timeout}
			boxes[k] = m
		}
		return m
	}
	net = resources.NewIncMap(func(index tla.Value) distsys.ArchetypeResource { return get(index) })
	netLen = resources.NewIncMap(func(index tla.Value) distsys.ArchetypeResource { return &c14Len{m: get(index)} })
	return
}

// ---- perfect failure detector and leader election: live reads, like resources.FailureDetector

type c14Live struct {
	distsys.ArchetypeResourceLeafMixin
	read func() tla.Value
}

func (l *c14Live) Abort(distsys.ArchetypeInterface) chan struct{}         { return nil }
func (l *c14Live) PreCommit(distsys.ArchetypeInterface) chan error        { return nil }
func (l *c14Live) Commit(distsys.ArchetypeInterface) chan struct{}        { return nil }
func (l *c14Live) WriteValue(distsys.ArchetypeInterface, tla.Value) error { panic("no write") }
func (l *c14Live) Close() error                                           { return nil }
func (l *c14Live) ReadValue(distsys.ArchetypeInterface) (tla.Value, error) {
	return l.read(), nil
}

func (w *c14World) newFD() distsys.ArchetypeResource {
	return resources.NewIncMap(func(index tla.Value) distsys.ArchetypeResource {
		n := index.AsNumber()
		return &c14Live{read: func() tla.Value { return tla.MakeBool(w.dead[n].Load()) }}
	})
}
func (w *c14World) newLeader() distsys.ArchetypeResource {
	return &c14Live{read: func() tla.Value { return tla.MakeNumber(w.leader.Load()) }}
}

func c14Constants() []distsys.MPCalContextConfigFn {
	return []distsys.MPCalContextConfigFn{
		distsys.DefineConstantValue("NUM_REPLICAS", tla.MakeNumber(3)),
		distsys.DefineConstantValue("NUM_CLIENTS", tla.MakeNumber(2)),
		distsys.DefineConstantValue("EXPLORE_FAIL", tla.ModuleFALSE), // the crash of replica 1 is forced by a hook instead
		distsys.DefineConstantValue("DEBUG", tla.ModuleFALSE),
	}
}

func (w *c14World) replicaCtx(self int32, timeout time.Duration) *distsys.MPCalContext {
	net, netLen := w.newNet(self, timeout)
	return distsys.NewMPCalContext(tla.MakeNumber(self), AReplica, append(c14Constants(),
		distsys.EnsureArchetypeRefParam("net", net),
		distsys.EnsureArchetypeRefParam("fs", w.newFS(self)),
		distsys.EnsureArchetypeRefParam("fd", w.newFD()),
		distsys.EnsureArchetypeRefParam("netEnabled", resources.NewPlaceHolder()),
		distsys.EnsureArchetypeRefParam("primary", w.newLeader()),
		distsys.EnsureArchetypeRefParam("netLen", netLen),
	)...)
}

func (w *c14World) clientCtx(self int32, in chan tla.Value, out chan tla.Value) *distsys.MPCalContext {
	net, netLen := w.newNet(self, 5*time.Millisecond) // the client has to alternate between its two either branches
	return distsys.NewMPCalContext(tla.MakeNumber(self), AClient, append(c14Constants(),
		distsys.EnsureArchetypeRefParam("net", net),
		distsys.EnsureArchetypeRefParam("fd", w.newFD()),
		distsys.EnsureArchetypeRefParam("primary", w.newLeader()),
		distsys.EnsureArchetypeRefParam("netLen", netLen),
		distsys.EnsureArchetypeRefParam("input", resources.NewInputChan(in)),
		distsys.EnsureArchetypeRefParam("output", resources.NewOutputChan(out)),
	)...)
}

func c14Wait(t *testing.T, what string, ch <-chan struct{}) {
	t.Helper()
	select {
	case <-ch:
	case <-time.After(60 * time.Second):
		t.Fatalf("schedule did not reach: %s", what)
	}
}

func TestC14_BackupParkedInRcvMsgAnswersClientWithoutSync(t *testing.T) {
	c14Schedule(t, true)
}

// Control: identical resources and schedule, except that replica 1's crash is
// reported while replica 2 is still inside handleBackup (before it re-enters
// replicaLoop/syncPrimary/rcvMsg). Replica 2 then sees primary = self /\
// shouldSync at a label boundary, runs the sync round, and the property holds.
func TestC14_Control_FailoverSeenAtLabelBoundary(t *testing.T) {
	c14Schedule(t, false)
}

func c14Schedule(t *testing.T, failoverWhileParked bool) {
	iface := distsys.NewMPCalContextWithoutArchetype().IFace()
	w := newC14World(5) // replicas 1..3, clients 4 and 5

	crashPoint := make(chan struct{}) // replica 1 is about to send PUT_REQ to replica 3
	var crashOnce sync.Once
	ackFrom2 := make(chan struct{}) // replica 2 committed handleBackup (its PUT_RESP is in 1's queue)
	var ackOnce sync.Once
	var reads2 atomic.Int32            // number of times replica 2 parked in the read of its REQ mailbox
	parkedAgain := make(chan struct{}) // replica 2 parked in rcvMsg after having handled the PUT_REQ
	var parkedOnce sync.Once
	var ackSeen atomic.Bool

	failoverDone := make(chan struct{})
	replicaTimeout := time.Duration(0) // replicas block in mailbox reads: the window stays open, no timing involved
	if !failoverWhileParked {
		replicaTimeout = 5 * time.Millisecond // the sync round needs both either branches
	}

	type snapshot struct{ at2, at3 string }
	answer := make(chan snapshot, 1)

	w.onWrite = func(from int32, to c14Key, msg tla.Value) bool {
		switch {
		case from == 1 && to == (c14Key{3, 1}):
			crashOnce.Do(func() { close(crashPoint) })
			return true // replica 1 crash-stops at this label boundary: idx=2 done, idx=3 never happens
		case from == 2 && to == (c14Key{1, 2}):
			ackSeen.Store(true)
			ackOnce.Do(func() { close(ackFrom2) })
			if !failoverWhileParked {
				select {
				case <-failoverDone:
				case <-w.done:
				}
			}
		case from == 2 && to == (c14Key{5, 2}):
			// replica 2 is inside sndResp, about to answer client 5: this is the
			// moment ConsistencyOK speaks about.
			select {
			case answer <- snapshot{w.cell(2, "KEY1").get(), w.cell(3, "KEY1").get()}:
			default:
			}
		}
		return false
	}
	w.onReadEnter = func(owner c14Key) {
		if owner == (c14Key{2, 1}) {
			reads2.Add(1)
			if ackSeen.Load() {
				// second park: replicaLoop, syncPrimary and the first half of rcvMsg
				// have already read primary = 1
				parkedOnce.Do(func() { close(parkedAgain) })
			}
		}
	}

	var ctxs []*distsys.MPCalContext
	var wg sync.WaitGroup
	run := func(ctx *distsys.MPCalContext) {
		ctxs = append(ctxs, ctx)
		wg.Add(1)
		go func() {
			defer wg.Done()
			_ = ctx.Run()
		}()
	}
	for r := int32(1); r <= 3; r++ {
		run(w.replicaCtx(r, replicaTimeout))
	}
	in5, out5 := make(chan tla.Value, 1), make(chan tla.Value, 1)
	run(w.clientCtx(5, in5, out5))
	defer func() {
		close(w.done)
		for _, ctx := range ctxs {
			go ctx.Stop()
		}
		wg.Wait()
	}()

	// client 4 (played by hand; it is simply slow and takes no further step):
	// PUT KEY1 := VALUE1 sent to the primary, replica 1.
	w.boxes[c14Key{1, 1}] <- tla.MakeRecord([]tla.RecordField{
		{Key: tla.MakeString("from"), Value: tla.MakeNumber(4)},
		{Key: tla.MakeString("to"), Value: tla.MakeNumber(1)},
		{Key: tla.MakeString("body"), Value: tla.MakeRecord([]tla.RecordField{
			{Key: tla.MakeString("key"), Value: KEY1(iface)},
			{Key: tla.MakeString("value"), Value: VALUE1(iface)},
		})},
		{Key: tla.MakeString("srcTyp"), Value: CLIENT_SRC(iface)},
		{Key: tla.MakeString("typ"), Value: PUT_REQ(iface)},
		{Key: tla.MakeString("id"), Value: tla.MakeNumber(1)},
	})

	c14Wait(t, "replica 1 replicated the PUT to replica 2 and reached idx=3", crashPoint)
	c14Wait(t, "replica 2 applied the PUT_REQ (handleBackup committed)", ackFrom2)
	if failoverWhileParked {
		c14Wait(t, "replica 2 parked in the mailbox read of rcvMsg having read primary=1", parkedAgain)
		if got := w.cell(2, "KEY1").get(); got != "VALUE1" {
			t.Fatalf("setup: replica 2 should hold VALUE1, holds %q", got)
		}
	}
	if got := w.cell(3, "KEY1").get(); got != "" {
		t.Fatalf("setup: replica 3 should hold the initial value, holds %q", got)
	}

	// failLabel of replica 1 (mayFail disabled its network first): the perfect
	// failure detector reports it and replica 2 is the new primary.
	w.enabled[c14Key{1, 1}].Store(false)
	w.enabled[c14Key{1, 2}].Store(false)
	w.dead[1].Store(true)
	w.leader.Store(2)
	close(failoverDone)

	// client 5 (real AClient) now issues GET KEY1; it reads primary = 2.
	in5 <- tla.MakeRecord([]tla.RecordField{
		{Key: tla.MakeString("typ"), Value: GET_REQ(iface)},
		{Key: tla.MakeString("body"), Value: tla.MakeRecord([]tla.RecordField{
			{Key: tla.MakeString("key"), Value: KEY1(iface)},
		})},
	})

	var snap snapshot
	select {
	case snap = <-answer:
	case <-time.After(60 * time.Second):
		t.Fatal("replica 2 never answered client 5")
	}
	var got tla.Value
	select {
	case got = <-out5:
	case <-time.After(60 * time.Second):
		t.Fatal("client 5 got no answer")
	}
	t.Logf("client 5 GET KEY1 -> %q; at the moment primary 2 answered: fs[2][KEY1]=%q fs[3][KEY1]=%q (replica 2 parked %d times)",
		got.AsString(), snap.at2, snap.at3, reads2.Load())

	if snap.at2 != snap.at3 {
		t.Fatalf("C14 violated: primary 2 answered client 5 (GET KEY1 -> %q) while live replicas disagree: fs[2][KEY1]=%q but fs[3][KEY1]=%q; "+
			"replica 2 had shouldSync=TRUE and must have run the sync round before serving a client, but rcvMsg read primary=1 before blocking in the mailbox read and primary=2 after it",
			got.AsString(), snap.at2, snap.at3)
	}
}

package bootstrap

import (
	"errors"
	"fmt"
	"net"
	"sync/atomic"
	"testing"
	"time"

	"github.com/DistCompiler/pgo/distsys"
	"github.com/DistCompiler/pgo/distsys/resources"
	"github.com/DistCompiler/pgo/distsys/tla"
	"github.com/DistCompiler/pgo/systems/raftkvs/configs"
)

// C19: "Once a monitored archetype has crashed, finished, or its monitor has
// become unreachable, every failure detector watching it reports it failed
// within a bounded number of polling intervals and keeps doing so".
//
// newSingleFD (helper.go) detectors are shared: getFailureDetector (client.go)
// hands the same *SingleFailureDetector objects to every client archetype of the
// process, and newServerCtxs (server.go) hands them to the five archetypes of a
// server.  Each of these archetypes owns the detectors as far as
// MPCalContext.cleanupResources is concerned, so the first archetype that ends
// Closes them.  A closed SingleFailureDetector has no polling loop any more but
// keeps answering ReadValue with its last state, so the archetypes that are
// still running (or are started later) watch the server through a detector
// that says "alive" forever.

const (
	c19PullInterval = 20 * time.Millisecond
	c19Timeout      = 2 * time.Second
	// a live detector needs at most 2 polls to see an archetype end on a reachable
	// monitor; the test grants this many polling intervals on top of a control
	// detector having already reported the failure.
	c19Bound = 25
)

func c19FreeAddr(t *testing.T) string {
	l, err := net.Listen("tcp", "127.0.0.1:0")
	if err != nil {
		t.Fatal(err)
	}
	addr := l.Addr().String()
	_ = l.Close()
	return addr
}

func c19Config(t *testing.T) configs.Root {
	return configs.Root{
		NumServers:           1,
		NumClients:           3,
		ClientRequestTimeout: time.Second,
		FD:                   configs.FD{PullInterval: c19PullInterval, Timeout: c19Timeout},
		Mailboxes: configs.Mailboxes{
			ReceiveChanSize: 10,
			DialTimeout:     100 * time.Millisecond,
			ReadTimeout:     100 * time.Millisecond,
			WriteTimeout:    100 * time.Millisecond,
		},
		LeaderElection:            configs.LeaderElection{Timeout: 150 * time.Millisecond, TimeoutOffset: 150 * time.Millisecond},
		AppendEntriesSendInterval: 5 * time.Millisecond,
		SharedResourceTimeout:     3 * time.Millisecond,
		InputChanReadTimeout:      5 * time.Millisecond,
		Servers: map[int]configs.Server{
			1: {MailboxAddr: c19FreeAddr(t), MonitorAddr: c19FreeAddr(t)},
		},
		Clients: map[int]configs.Client{
			1: {MailboxAddr: c19FreeAddr(t)},
			2: {MailboxAddr: c19FreeAddr(t)},
			3: {MailboxAddr: c19FreeAddr(t)},
		},
	}
}

// c19Watched is the monitored archetype "server 1": it spins on one label until it
// is told to crash, then ends with an error.
type c19Watched struct {
	crash atomic.Bool
	ctx   *distsys.MPCalContext
	ended chan error
}

func c19StartWatched(mon *resources.Monitor) *c19Watched {
	w := &c19Watched{ended: make(chan error, 1)}
	jumpTable := distsys.MakeMPCalJumpTable(
		distsys.MPCalCriticalSection{
			Name: "C19Watched.loop",
			Body: func(iface distsys.ArchetypeInterface) error {
				if w.crash.Load() {
					return errors.New("C19Watched: crashing on request")
				}
				time.Sleep(time.Millisecond)
				return iface.Goto("C19Watched.loop")
			},
		},
	)
	w.ctx = distsys.NewMPCalContext(tla.MakeNumber(1), distsys.MPCalArchetype{
		Name:      "C19Watched",
		Label:     "C19Watched.loop",
		JumpTable: jumpTable,
		ProcTable: distsys.MakeMPCalProcTable(),
		PreAmble:  func(distsys.ArchetypeInterface) {},
	})
	go func() { w.ended <- mon.RunArchetype(w.ctx) }()
	return w
}

type c19Reader interface {
	ReadValue(distsys.ArchetypeInterface) (tla.Value, error)
}

// c19WaitFor polls the detector (reads are free of side effects) until it answers
// want, and gives up after a very generous wall-clock limit.
func c19WaitFor(t *testing.T, what string, fd c19Reader, want tla.Value) {
	t.Helper()
	deadline := time.Now().Add(60 * time.Second)
	for time.Now().Before(deadline) {
		v, err := fd.ReadValue(distsys.ArchetypeInterface{})
		if err == nil && v.Equal(want) {
			return
		}
		time.Sleep(c19PullInterval / 2)
	}
	t.Fatalf("setup: %s never answered %v", what, want)
}

type c19Env struct {
	c       configs.Root
	mon     *resources.Monitor
	watched *c19Watched
}

func c19Setup(t *testing.T) *c19Env {
	ResetClientFailureDetector()
	c := c19Config(t)
	mon := resources.NewMonitor(c.Servers[1].MonitorAddr)
	monErr := make(chan error, 1)
	go func() { monErr <- mon.ListenAndServe() }()
	t.Cleanup(func() {
		_ = mon.Close()
		if err := <-monErr; err != nil {
			t.Errorf("monitor: %v", err)
		}
	})
	watched := c19StartWatched(mon)
	t.Cleanup(watched.ctx.Stop)
	return &c19Env{c: c, mon: mon, watched: watched}
}

// c19RunClient starts the real raftkvs client archetype the way Client.Run does.
func c19RunClient(t *testing.T, cl *Client) (stop func()) {
	reqCh := make(chan Request)
	respCh := make(chan Response)
	done := make(chan error, 1)
	go func() { done <- cl.Run(reqCh, respCh) }()
	stopped := false
	stop = func() {
		if stopped {
			return
		}
		stopped = true
		if err := cl.Close(); err != nil {
			t.Errorf("client %d close: %v", cl.Id, err)
		}
		close(reqCh)
		if err := <-done; err != nil {
			t.Errorf("client %d run: %v", cl.Id, err)
		}
	}
	t.Cleanup(stop)
	return stop
}

func c19DetectorOfClients(t *testing.T) *resources.SingleFailureDetector {
	lock.Lock()
	defer lock.Unlock()
	res, ok := fdMap.Get(tla.MakeNumber(1))
	if !ok {
		t.Fatal("setup: the clients have no detector for server 1")
	}
	return res.(*resources.SingleFailureDetector)
}

// c19CrashAndControl crashes the watched archetype, waits until the monitor has
// recorded the end, and proves with a private, freshly started detector that the
// monitor is reachable and that a working detector reports the failure.
func c19CrashAndControl(t *testing.T, env *c19Env) {
	env.watched.crash.Store(true)
	select {
	case err := <-env.watched.ended:
		if err == nil {
			t.Fatal("setup: watched archetype ended without the requested error")
		}
	case <-time.After(60 * time.Second):
		t.Fatal("setup: watched archetype did not end")
	}
	control := newSingleFD(env.c, tla.MakeNumber(1))
	defer func() { _ = control.Close() }()
	c19WaitFor(t, "control detector (after the crash)", control, tla.ModuleTRUE)
}

func c19Check(t *testing.T, who string, fd c19Reader) {
	t.Helper()
	// the control detector, started after the crash, has already reported it; grant
	// the clients' detector a further c19Bound polling intervals.
	var last tla.Value
	var lastErr error
	for i := 0; i < c19Bound; i++ {
		last, lastErr = fd.ReadValue(distsys.ArchetypeInterface{})
		if lastErr == nil && last.Equal(tla.ModuleTRUE) {
			return
		}
		time.Sleep(c19PullInterval)
	}
	t.Fatalf("C19 violated (\"once a monitored archetype has crashed ... every failure detector watching it "+
		"reports it failed within a bounded number of polling intervals\"): server 1 crashed, its monitor is "+
		"reachable and a fresh detector reports the crash, but %s still reads fd[1] = %v (err %v) %d polling "+
		"intervals later; the detector was Closed by the other client archetype that ended and has stopped polling",
		who, last, lastErr, c19Bound)
}

// Two clients of one process (the configuration of test-3-3.yaml / runLivenessTest).
// Client 1 ends normally, client 2 keeps running, then server 1 crashes.
func TestC19_ClientDetectorStopsWhenSiblingClientEnds(t *testing.T) {
	env := c19Setup(t)

	cl1 := NewClient(1, env.c)
	cl2 := NewClient(2, env.c)
	stop1 := c19RunClient(t, cl1)
	_ = c19RunClient(t, cl2)

	fd := c19DetectorOfClients(t)
	c19WaitFor(t, "clients' detector (server running)", fd, tla.ModuleFALSE)

	stop1() // archetype end (normal) of client 1; client 2 is still running

	c19CrashAndControl(t, env)
	c19Check(t, fmt.Sprintf("the still running client %d", cl2.Id), fd)
}

// A client archetype (and with it its detector) that is started after another
// client of the process has ended, and after the server has crashed.
func TestC19_ClientStartedAfterSiblingEndedNeverSeesCrash(t *testing.T) {
	env := c19Setup(t)

	cl1 := NewClient(1, env.c)
	stop1 := c19RunClient(t, cl1)
	c19WaitFor(t, "clients' detector (server running)", c19DetectorOfClients(t), tla.ModuleFALSE)
	stop1()

	c19CrashAndControl(t, env)

	cl3 := NewClient(3, env.c) // detector start after archetype end
	_ = c19RunClient(t, cl3)
	c19Check(t, fmt.Sprintf("client %d, started after the crash,", cl3.Id), c19DetectorOfClients(t))
}

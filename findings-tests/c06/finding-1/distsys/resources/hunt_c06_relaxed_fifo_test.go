package resources

import (
	"runtime"
	"strings"
	"testing"
	"time"

	"github.com/DistCompiler/pgo/distsys"
	"github.com/DistCompiler/pgo/distsys/tla"
)

// Two hand-written archetypes in the exact shape PGo generates.
//
//	archetype ASender(ref net[_], ref in, ref done) {
//	s:  while (TRUE) {
//	        with (v = in) { net[1] := v; done := v[1]; };   \* one network send per section
//	    };
//	}
//
//	archetype AReceiver(ref net[_], ref out) {
//	r:  while (TRUE) { out := net[self]; };
//	}
var huntC06JumpTable = distsys.MakeMPCalJumpTable(
	distsys.MPCalCriticalSection{
		Name: "ASender.s",
		Body: func(iface distsys.ArchetypeInterface) error {
			in, err := iface.RequireArchetypeResourceRef("ASender.in")
			if err != nil {
				return err
			}
			net, err := iface.RequireArchetypeResourceRef("ASender.net")
			if err != nil {
				return err
			}
			done, err := iface.RequireArchetypeResourceRef("ASender.done")
			if err != nil {
				return err
			}
			v, err := iface.Read(in, nil)
			if err != nil {
				return err
			}
			err = iface.Write(net, []tla.Value{tla.MakeNumber(1)}, v)
			if err != nil {
				return err
			}
			err = iface.Write(done, nil, v.ApplyFunction(tla.MakeNumber(1)))
			if err != nil {
				return err
			}
			return iface.Goto("ASender.s")
		},
	},
	distsys.MPCalCriticalSection{
		Name: "AReceiver.r",
		Body: func(iface distsys.ArchetypeInterface) error {
			net, err := iface.RequireArchetypeResourceRef("AReceiver.net")
			if err != nil {
				return err
			}
			out, err := iface.RequireArchetypeResourceRef("AReceiver.out")
			if err != nil {
				return err
			}
			v, err := iface.Read(net, []tla.Value{iface.Self()})
			if err != nil {
				return err
			}
			err = iface.Write(out, nil, v.ApplyFunction(tla.MakeNumber(1)))
			if err != nil {
				return err
			}
			return iface.Goto("AReceiver.r")
		},
	},
)

var huntC06Sender = distsys.MPCalArchetype{
	Name:              "ASender",
	Label:             "ASender.s",
	RequiredRefParams: []string{"ASender.net", "ASender.in", "ASender.done"},
	RequiredValParams: []string{},
	JumpTable:         huntC06JumpTable,
	ProcTable:         distsys.MakeMPCalProcTable(),
	PreAmble:          func(iface distsys.ArchetypeInterface) {},
}

var huntC06Receiver = distsys.MPCalArchetype{
	Name:              "AReceiver",
	Label:             "AReceiver.r",
	RequiredRefParams: []string{"AReceiver.net", "AReceiver.out"},
	RequiredValParams: []string{},
	JumpTable:         huntC06JumpTable,
	ProcTable:         distsys.MakeMPCalProcTable(),
	PreAmble:          func(iface distsys.ArchetypeInterface) {},
}

// countBlockedHandleConn counts the goroutines that are parked in a channel
// send inside relaxedMailboxesLocal.handleConn, i.e. the per-connection
// receive loops that hold a decoded message and wait for room in msgChannel.
func countBlockedHandleConn() int {
	buf := make([]byte, 1<<20)
	for {
		n := runtime.Stack(buf, true)
		if n < len(buf) {
			buf = buf[:n]
			break
		}
		buf = make([]byte, 2*len(buf))
	}
	count := 0
	for _, g := range strings.Split(string(buf), "\n\n") {
		if strings.Contains(g, "[chan send") && strings.Contains(g, "relaxedMailboxesLocal).handleConn") {
			count++
		}
	}
	return count
}

// TestHuntC06RelaxedMailboxesWriteTimeoutReordersMessages
//
// One sender, one receiver, relaxed mailboxes, no connection failure, every
// sender section that reports completion has committed. The receiver is slow
// (the test consumes its output only at the end). The sender keeps sending,
// one message per section, until one WriteValue hits its write timeout
// because the TCP buffers towards the stopped receiver are full; that section
// aborts, is retried, and commits. C06 says the timeout "only aborts the
// section in flight" and that the receiver obtains the messages in the order
// the committed sections sent them.
func TestHuntC06RelaxedMailboxesWriteTimeoutReordersMessages(t *testing.T) {
	const receiverIdx = 1
	const maxMessages = 4000
	pad := tla.MakeString(strings.Repeat("x", 64*1024))

	opts := []MailboxesOption{
		WithMailboxesReceiveChanSize(1),
		WithMailboxesWriteTimeout(300 * time.Millisecond),
		WithMailboxesReadTimeout(50 * time.Millisecond),
	}

	// receiver side; force the listener into existence so that the sender never sees a dial failure
	rcvNet := NewRelaxedMailboxes(func(index tla.Value) (MailboxKind, string) {
		if index.AsNumber() != receiverIdx {
			panic("receiver only owns mailbox 1")
		}
		return MailboxesLocal, "127.0.0.1:0"
	}, opts...)
	rcvLocalRes, err := rcvNet.Index(distsys.ArchetypeInterface{}, tla.MakeNumber(receiverIdx))
	if err != nil {
		t.Fatal(err)
	}
	rcvAddr := rcvLocalRes.(*relaxedMailboxesLocal).listener.Addr().String()

	out := make(chan tla.Value) // unbuffered: the receiver archetype is as slow as the test wants
	rcvCtx := distsys.NewMPCalContext(tla.MakeNumber(receiverIdx), huntC06Receiver,
		distsys.EnsureArchetypeRefParam("net", rcvNet),
		distsys.EnsureArchetypeRefParam("out", NewOutputChan(out)))
	rcvErr := make(chan error, 1)
	go func() { rcvErr <- rcvCtx.Run() }()

	// sender side
	sndNet := NewRelaxedMailboxes(func(index tla.Value) (MailboxKind, string) {
		if index.AsNumber() != receiverIdx {
			panic("sender only talks to mailbox 1")
		}
		return MailboxesRemote, rcvAddr
	}, opts...)
	in := make(chan tla.Value)
	done := make(chan tla.Value, 1)
	sndCtx := distsys.NewMPCalContext(tla.MakeNumber(0), huntC06Sender,
		distsys.EnsureArchetypeRefParam("net", sndNet),
		distsys.EnsureArchetypeRefParam("in", NewInputChan(in)),
		distsys.EnsureArchetypeRefParam("done", NewOutputChan(done)))
	sndErr := make(chan error, 1)
	go func() { sndErr <- sndCtx.Run() }()

	defer func() {
		go func() { // keep draining so that the receiver's commit can finish and Stop can return
			for range out {
			}
		}()
		sndCtx.Stop()
		rcvCtx.Stop()
	}()

	// Phase 1: send 1, 2, 3, ... one committed section each, the receiver being stopped, until the sender had
	// to open a second connection, which it only does after a write timeout.
	var firstConn interface{}
	sent := 0
	redialedAt := 0
	for i := 1; i <= maxMessages && redialedAt == 0; i++ {
		in <- tla.MakeTuple(tla.MakeNumber(int32(i)), pad)
		select {
		case d := <-done: // section i has committed (OutputChan only emits on Commit)
			if d.AsNumber() != int32(i) {
				t.Fatalf("harness problem: sender reported %v, expected %d", d, i)
			}
		case err := <-sndErr:
			t.Fatalf("sender archetype ended: %v", err)
		case <-time.After(2 * time.Minute):
			t.Fatalf("harness problem: section %d never committed", i)
		}
		sent = i
		// the sender is idle now (it is waiting for input): its remote mailbox can be inspected without a race
		remoteRes, ok := sndNet.realizedMap.Get(tla.MakeNumber(receiverIdx))
		if !ok {
			t.Fatal("harness problem: remote mailbox not realized")
		}
		conn := remoteRes.(*relaxedMailboxesRemote).conn
		if firstConn == nil {
			firstConn = conn
		} else if conn != firstConn {
			redialedAt = i
		}
	}
	if redialedAt == 0 {
		t.Skipf("inconclusive: %d messages of 64KiB fitted into the TCP buffers without a write timeout", sent)
	}
	t.Logf("sections 1..%d committed over the first connection; section %d timed out once on write, was retried and committed over a second connection", redialedAt-1, redialedAt)
	if redialedAt < 6 {
		t.Skipf("inconclusive: write timeout came too early (message %d)", redialedAt)
	}

	// Phase 2: wait until the receive loops of both connections hold a message and wait for room.
	deadline := time.Now().Add(20 * time.Second)
	for countBlockedHandleConn() < 2 && time.Now().Before(deadline) {
		time.Sleep(10 * time.Millisecond)
	}

	// Phase 3: now let the receiver run and look at what its committed sections obtained.
	var got []int32
	for len(got) < sent {
		select {
		case v := <-out:
			got = append(got, v.AsNumber())
		case err := <-rcvErr:
			t.Fatalf("receiver archetype ended: %v", err)
		case <-time.After(30 * time.Second):
			t.Fatalf("C06 violated (nothing lost): receiver obtained only %d of the %d messages sent by committed sections: %v", len(got), sent, got)
		}
	}
	for i, n := range got {
		if n != int32(i+1) {
			lo, hi := i-3, i+4
			if lo < 0 {
				lo = 0
			}
			if hi > len(got) {
				hi = len(got)
			}
			t.Fatalf("C06 violated (FIFO / nothing reordered): with no connection failure, the sender's committed sections sent 1..%d in order, "+
				"but the receiver's committed sections obtained ... %v ... (positions %d..%d): message %d arrived where message %d was due; "+
				"the write timeout of section %d did not just abort that section, its retry overtook messages %d..%d that earlier committed sections had sent",
				sent, got[lo:hi], lo+1, hi, n, i+1, redialedAt, i+1, redialedAt-1)
		}
	}
}

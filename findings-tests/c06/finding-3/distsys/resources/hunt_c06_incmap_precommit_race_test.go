package resources

import (
	"log"
	"os"
	"os/exec"
	"runtime"
	"strings"
	"testing"
	"time"

	"github.com/DistCompiler/pgo/distsys"
	"github.com/DistCompiler/pgo/distsys/tla"
)

// A hand-written archetype in the exact shape PGo generates.
//
//	archetype ABcast(ref net[_], ref in, ref done) {
//	s:  while (TRUE) { with (v = in) { net[1] := v; net[2] := v; done := v; }; };
//	}
var huntC06BcastJumpTable = distsys.MakeMPCalJumpTable(
	distsys.MPCalCriticalSection{
		Name: "ABcast.s",
		Body: func(iface distsys.ArchetypeInterface) error {
			in, err := iface.RequireArchetypeResourceRef("ABcast.in")
			if err != nil {
				return err
			}
			net, err := iface.RequireArchetypeResourceRef("ABcast.net")
			if err != nil {
				return err
			}
			done, err := iface.RequireArchetypeResourceRef("ABcast.done")
			if err != nil {
				return err
			}
			v, err := iface.Read(in, nil)
			if err != nil {
				return err
			}
			err = iface.Write(net, []tla.Value{tla.MakeNumber(1)}, v)
			if err != nil {
				return err
			}
			err = iface.Write(net, []tla.Value{tla.MakeNumber(2)}, v)
			if err != nil {
				return err
			}
			err = iface.Write(done, nil, v)
			if err != nil {
				return err
			}
			return iface.Goto("ABcast.s")
		},
	},
)

var huntC06Bcast = distsys.MPCalArchetype{
	Name:              "ABcast",
	Label:             "ABcast.s",
	RequiredRefParams: []string{"ABcast.net", "ABcast.in", "ABcast.done"},
	RequiredValParams: []string{},
	JumpTable:         huntC06BcastJumpTable,
	ProcTable:         distsys.MakeMPCalProcTable(),
	PreAmble:          func(iface distsys.ArchetypeInterface) {},
}

const huntC06BcastChildEnv = "HUNT_C06_BCAST_CHILD"

// TestHuntC06BroadcastPreCommitTimeoutsCrashSender
//
// One sender broadcasting to two receivers over TCP mailboxes, both receivers
// stopped (they listen, their process does not read its mailbox). No
// connection fails. C06: "Timeouts and full buffers only abort the section in
// flight": the attempts of the section that cannot get its acks must simply
// abort and be retried.
//
// The schedule ends in a panic on a goroutine of the resource, which no test
// can recover, so the schedule runs in a child process and the parent reports.
func TestHuntC06BroadcastPreCommitTimeoutsCrashSender(t *testing.T) {
	if os.Getenv(huntC06BcastChildEnv) == "1" {
		huntC06BcastChild()
		return
	}
	cmd := exec.Command(os.Args[0], "-test.run=^TestHuntC06BroadcastPreCommitTimeoutsCrashSender$", "-test.count=1")
	cmd.Env = append(os.Environ(), huntC06BcastChildEnv+"=1")
	outBytes, err := cmd.CombinedOutput()
	out := string(outBytes)
	if !strings.Contains(out, "HUNT: section 3 is in flight") {
		t.Fatalf("harness problem: the child did not reach the schedule (err=%v):\n%s", err, out)
	}
	if err != nil {
		lines := strings.Split(strings.TrimSpace(out), "\n")
		if len(lines) > 16 {
			lines = lines[:16]
		}
		t.Fatalf("C06 violated (timeouts only abort the section in flight): with two stopped receivers and no connection failure, the pre-commit "+
			"timeouts of a broadcast section did not just abort that section, they killed the sender process (%v):\n%s", err, strings.Join(lines, "\n"))
	}
}

// huntC06GateWriter is installed as the output of the standard logger in the child. It passes everything on to
// stderr, and it is the one gate of the schedule: the resource logs before it cleans up after an error, so the
// goroutine that finds its connection closed under it can be held inside its log call until the goroutine that
// closed the connection has finished its own clean-up and gone.
type huntC06GateWriter struct{}

func (huntC06GateWriter) Write(p []byte) (int, error) {
	n, err := os.Stderr.Write(p)
	msg := string(p)
	if strings.Contains(msg, "pre-commit handshake") && strings.Contains(msg, "use of closed network connection") {
		deadline := time.Now().Add(10 * time.Second)
		for huntC06CountPreCommitGoroutines() > 1 && time.Now().Before(deadline) {
			time.Sleep(time.Millisecond)
		}
	}
	return n, err
}

// huntC06CountPreCommitGoroutines counts the live goroutines started by tcpMailboxesRemote.PreCommit.
func huntC06CountPreCommitGoroutines() int {
	buf := make([]byte, 1<<20)
	buf = buf[:runtime.Stack(buf, true)]
	count := 0
	for _, g := range strings.Split(string(buf), "\n\n") {
		if strings.Contains(g, "(*tcpMailboxesRemote).PreCommit.func1") {
			count++
		}
	}
	return count
}

func huntC06BcastChild() {
	log.SetOutput(huntC06GateWriter{})

	// two stopped receivers: their mailboxes listen and speak the protocol, but nobody reads from them
	newStoppedReceiver := func() string {
		local := newTCPMailboxesLocal("127.0.0.1:0", WithMailboxesReceiveChanSize(1)).(*tcpMailboxesLocal)
		return local.listener.Addr().String()
	}
	addr1, addr2 := newStoppedReceiver(), newStoppedReceiver()

	// The sender's network. Both destinations have a write timeout; the one for receiver 2 is the longer one.
	// (With equal timeouts the same thing happens whenever the second timeout is handled late enough.)
	sndNet := &Mailboxes{NewIncMap(func(index tla.Value) distsys.ArchetypeResource {
		switch index.AsNumber() {
		case 1:
			return newTCPMailboxesRemote(addr1, WithMailboxesWriteTimeout(100*time.Millisecond))
		case 2:
			return newTCPMailboxesRemote(addr2, WithMailboxesWriteTimeout(1000*time.Millisecond))
		default:
			panic("unknown index")
		}
	})}
	in := make(chan tla.Value)
	done := make(chan tla.Value, 16)
	ctx := distsys.NewMPCalContext(tla.MakeNumber(0), huntC06Bcast,
		distsys.EnsureArchetypeRefParam("net", sndNet),
		distsys.EnsureArchetypeRefParam("in", NewInputChan(in)),
		distsys.EnsureArchetypeRefParam("done", NewOutputChan(done)))
	runErr := make(chan error, 1)
	go func() { runErr <- ctx.Run() }()

	// sections 1 and 2 fit into the stopped receivers (one message in msgChannel, one held by the receive loop)
	for i := int32(1); i <= 2; i++ {
		in <- tla.MakeNumber(i)
		if d := <-done; d.AsNumber() != i {
			log.Fatalf("harness problem: %v", d)
		}
	}
	// section 3 cannot get its pre-commit acks on the established connections: its attempts abort on timeouts
	// (first after 100ms, the timeout of receiver 1) and are retried; a retry may well commit over fresh
	// connections, or the section may abort for ever: both are fine. Nothing else may happen.
	in <- tla.MakeNumber(3)
	log.Printf("HUNT: section 3 is in flight; from here on its attempts can only time out and abort, or commit")
	select {
	case d := <-done:
		if d.AsNumber() != 3 {
			log.Fatalf("harness problem: %v", d)
		}
		log.Printf("HUNT: section 3 committed after its timeouts")
	case err := <-runErr:
		log.Fatalf("sender archetype ended: %v", err)
	case <-time.After(8 * time.Second): // several multiples of the longest timeout
	}
	log.Printf("HUNT: the sender survived its timeouts")
	go func() {
		for range done {
		}
	}()
	ctx.Stop()
}

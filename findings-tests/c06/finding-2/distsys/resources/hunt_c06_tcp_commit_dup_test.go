package resources

import (
	"bufio"
	"fmt"
	"io"
	"net"
	"sync"
	"testing"
	"time"

	"github.com/DistCompiler/pgo/distsys"
	"github.com/DistCompiler/pgo/distsys/tla"
)

// Two hand-written archetypes in the exact shape PGo generates.
//
//	archetype ADupSender(ref net[_], ref in, ref done) {
//	s:  while (TRUE) { with (v = in) { if (v # 0) { net[1] := v; }; done := v; }; };
//	}
//
//	archetype ADupReceiver(ref net[_], ref out) {
//	r:  while (TRUE) { out := net[self]; };
//	}
var huntC06DupJumpTable = distsys.MakeMPCalJumpTable(
	distsys.MPCalCriticalSection{
		Name: "ADupSender.s",
		Body: func(iface distsys.ArchetypeInterface) error {
			in, err := iface.RequireArchetypeResourceRef("ADupSender.in")
			if err != nil {
				return err
			}
			net, err := iface.RequireArchetypeResourceRef("ADupSender.net")
			if err != nil {
				return err
			}
			done, err := iface.RequireArchetypeResourceRef("ADupSender.done")
			if err != nil {
				return err
			}
			v, err := iface.Read(in, nil)
			if err != nil {
				return err
			}
			if !v.Equal(tla.MakeNumber(0)) {
				err = iface.Write(net, []tla.Value{tla.MakeNumber(1)}, v)
				if err != nil {
					return err
				}
			}
			err = iface.Write(done, nil, v)
			if err != nil {
				return err
			}
			return iface.Goto("ADupSender.s")
		},
	},
	distsys.MPCalCriticalSection{
		Name: "ADupReceiver.r",
		Body: func(iface distsys.ArchetypeInterface) error {
			net, err := iface.RequireArchetypeResourceRef("ADupReceiver.net")
			if err != nil {
				return err
			}
			out, err := iface.RequireArchetypeResourceRef("ADupReceiver.out")
			if err != nil {
				return err
			}
			v, err := iface.Read(net, []tla.Value{iface.Self()})
			if err != nil {
				return err
			}
			err = iface.Write(out, nil, v)
			if err != nil {
				return err
			}
			return iface.Goto("ADupReceiver.r")
		},
	},
)

var huntC06DupSender = distsys.MPCalArchetype{
	Name:              "ADupSender",
	Label:             "ADupSender.s",
	RequiredRefParams: []string{"ADupSender.net", "ADupSender.in", "ADupSender.done"},
	RequiredValParams: []string{},
	JumpTable:         huntC06DupJumpTable,
	ProcTable:         distsys.MakeMPCalProcTable(),
	PreAmble:          func(iface distsys.ArchetypeInterface) {},
}

var huntC06DupReceiver = distsys.MPCalArchetype{
	Name:              "ADupReceiver",
	Label:             "ADupReceiver.r",
	RequiredRefParams: []string{"ADupReceiver.net", "ADupReceiver.out"},
	RequiredValParams: []string{},
	JumpTable:         huntC06DupJumpTable,
	ProcTable:         distsys.MakeMPCalProcTable(),
	PreAmble:          func(iface distsys.ArchetypeInterface) {},
}

// huntSlowLink is a loss-free, order-preserving TCP relay between the sender
// and the receiver's mailbox. It never drops or closes anything on its own; all
// it can do is deliver the receiver's answer to ONE Commit late. It stands for a
// slow receiver host / slow return path: no connection fails.
//
// Bytes are copied verbatim in both directions. receiver -> sender traffic of
// the TCP mailbox protocol is a gob stream of "pre-commit acks" (struct{}) and
// "commit acks" (bool); the relay looks at the gob framing only to tell the two
// apart.
type huntSlowLink struct {
	listener net.Listener
	target   string

	lock           sync.Mutex
	holdNextCommit bool          // delay the next commit ack
	held           chan struct{} // closed when an ack is being held
	release        chan struct{} // closed to let the held ack go
	conns          int
}

func newHuntSlowLink(t *testing.T, target string) *huntSlowLink {
	l, err := net.Listen("tcp", "127.0.0.1:0")
	if err != nil {
		t.Fatal(err)
	}
	link := &huntSlowLink{listener: l, target: target, held: make(chan struct{}), release: make(chan struct{})}
	go func() {
		for {
			c, err := l.Accept()
			if err != nil {
				return
			}
			s, err := net.Dial("tcp", target)
			if err != nil {
				panic(err)
			}
			link.lock.Lock()
			link.conns++
			link.lock.Unlock()
			go func() { // sender -> receiver, verbatim
				_, _ = io.Copy(s, c)
				// the sender closed its side: pass the FIN on, keep the other direction as it is
				_ = s.(*net.TCPConn).CloseWrite()
			}()
			go func() { // receiver -> sender, verbatim, frame by frame
				defer c.Close()
				defer s.Close()
				r := bufio.NewReader(s)
				for {
					// a gob message is <length> <payload>; every message of this protocol is shorter than 128 bytes,
					// so its length is a single byte. The payload starts with the type id: 0x02 is the predeclared
					// bool (the commit ack); anything else is the struct{} pre-commit ack or its type definition.
					length, err := r.ReadByte()
					if err != nil {
						return
					}
					if length >= 128 {
						panic("harness problem: unexpectedly long gob message from the receiver")
					}
					frame := make([]byte, 1+int(length))
					frame[0] = length
					if _, err := io.ReadFull(r, frame[1:]); err != nil {
						return
					}
					if frame[1] == 0x02 { // commit ack
						link.lock.Lock()
						hold := link.holdNextCommit
						link.holdNextCommit = false
						link.lock.Unlock()
						if hold {
							close(link.held)
							<-link.release // late, not lost
						}
					}
					if _, err := c.Write(frame); err != nil {
						return
					}
				}
			}()
		}
	}()
	return link
}

// TestHuntC06TCPMailboxesLateCommitAckDuplicatesSection
//
// One sender, one receiver, TCP (transactional) mailboxes, every section
// commits, nobody aborts, no connection fails. The only adversity: the
// receiver's answer to the Commit of section 2 reaches the sender later than
// the sender's write timeout. C06: "nothing lost, duplicated, reordered or
// invented"; "timeouts ... only abort the section in flight".
func TestHuntC06TCPMailboxesLateCommitAckDuplicatesSection(t *testing.T) {
	const receiverIdx = 1
	opts := []MailboxesOption{
		WithMailboxesWriteTimeout(300 * time.Millisecond),
		WithMailboxesReadTimeout(50 * time.Millisecond),
	}

	rcvNet := NewTCPMailboxes(func(index tla.Value) (MailboxKind, string) {
		return MailboxesLocal, "127.0.0.1:0"
	}, opts...)
	rcvLocalRes, err := rcvNet.Index(distsys.ArchetypeInterface{}, tla.MakeNumber(receiverIdx))
	if err != nil {
		t.Fatal(err)
	}
	rcvAddr := rcvLocalRes.(*tcpMailboxesLocal).listener.Addr().String()

	link := newHuntSlowLink(t, rcvAddr)
	defer link.listener.Close()

	out := make(chan tla.Value, 16)
	rcvCtx := distsys.NewMPCalContext(tla.MakeNumber(receiverIdx), huntC06DupReceiver,
		distsys.EnsureArchetypeRefParam("net", rcvNet),
		distsys.EnsureArchetypeRefParam("out", NewOutputChan(out)))
	rcvErr := make(chan error, 1)
	go func() { rcvErr <- rcvCtx.Run() }()
	defer rcvCtx.Stop()

	sndNet := NewTCPMailboxes(func(index tla.Value) (MailboxKind, string) {
		return MailboxesRemote, link.listener.Addr().String()
	}, opts...)
	in := make(chan tla.Value)
	done := make(chan tla.Value, 16)
	sndCtx := distsys.NewMPCalContext(tla.MakeNumber(0), huntC06DupSender,
		distsys.EnsureArchetypeRefParam("net", sndNet),
		distsys.EnsureArchetypeRefParam("in", NewInputChan(in)),
		distsys.EnsureArchetypeRefParam("done", NewOutputChan(done)))
	sndErr := make(chan error, 1)
	go func() { sndErr <- sndCtx.Run() }()
	defer sndCtx.Stop()

	runSection := func(i int32) {
		in <- tla.MakeNumber(i) // unbuffered: accepted only once the sender's previous section has completely committed
		select {
		case d := <-done: // OutputChan only emits in the commit phase: the section is past the point of no return
			if d.AsNumber() != i {
				t.Fatalf("harness problem: sender reported %v, expected %d", d, i)
			}
		case err := <-sndErr:
			t.Fatalf("sender archetype ended: %v", err)
		case <-time.After(2 * time.Minute):
			t.Fatalf("harness problem: section for input %d never reached its commit phase", i)
		}
	}
	// input 0 makes the sender run a section without network traffic; once it is accepted, everything before it
	// has completely committed
	barrier := func() { runSection(0) }

	runSection(1)
	barrier() // section 1 has completely committed, including its commit ack

	link.lock.Lock()
	link.holdNextCommit = true
	link.lock.Unlock()
	runSection(2) // its commit ack is late: Commit times out reading it and, as Commit must complete, carries on
	barrier()     // section 2 has completely committed
	select {
	case <-link.held:
	default:
		t.Fatal("harness problem: the commit ack of section 2 was not held")
	}
	close(link.release) // the late ack is let through now, it was never lost

	runSection(3)
	barrier()

	link.lock.Lock()
	conns := link.conns
	link.lock.Unlock()
	t.Logf("the sender used %d connections; none of them failed, the sender itself closed the first one after its timeout", conns)

	want := []int32{1, 2, 3}
	var got []int32
	for len(got) < len(want) {
		select {
		case v := <-out:
			got = append(got, v.AsNumber())
		case err := <-rcvErr:
			t.Fatalf("receiver archetype ended: %v", err)
		case <-time.After(30 * time.Second):
			t.Fatalf("C06 violated (nothing lost): receiver obtained only %v", got)
		}
	}
	if fmt.Sprint(got) != fmt.Sprint(want) {
		t.Fatalf("C06 violated (exactly-once / nothing duplicated): with no connection failure and no abort, the sender's committed sections "+
			"sent %v, but the first %d messages the receiver's committed sections obtained are %v; the section whose commit ack arrived "+
			"after the write timeout was delivered twice", want, len(want), got)
	}
}

package resources

import (
	"errors"
	"fmt"
	"os"
	"os/exec"
	"strings"
	"testing"
	"time"

	"github.com/DistCompiler/pgo/distsys"
	"github.com/DistCompiler/pgo/distsys/tla"
)

// C17 finding 2: when the nested system of a nested-archetype resource ends (here: by a failed assertion) between
// acknowledging the pre-commit and acknowledging the commit, the goroutine started by nestedArchetype.Commit panics
// with ErrNestedArchetypeStopped. A panic on that goroutine cannot be recovered by anyone: the whole process dies,
// the outer Run never returns (so it reports nothing), no resource is closed, no Stop returns.
//
// Because the defect kills the process, the scenario runs in a child process (this test binary re-executed).

func c17f2Scenario() {
	tpeKey := nestedArchetypeConstants.tpe
	ack := func(tpe tla.Value) tla.Value {
		return tla.MakeRecord([]tla.RecordField{{Key: tpeKey, Value: tpe}})
	}
	impl := distsys.MPCalArchetype{
		Name:              "N",
		Label:             "N.loop",
		RequiredRefParams: []string{"N.in", "N.out"},
		JumpTable: distsys.MakeMPCalJumpTable(
			distsys.MPCalCriticalSection{Name: "N.loop", Body: func(iface distsys.ArchetypeInterface) error {
				in, err := iface.RequireArchetypeResourceRef("N.in")
				if err != nil {
					return err
				}
				out, err := iface.RequireArchetypeResourceRef("N.out")
				if err != nil {
					return err
				}
				req, err := iface.Read(in, nil)
				if err != nil {
					return err
				}
				tpe := req.ApplyFunction(tpeKey)
				var resp tla.Value
				switch {
				case tpe.Equal(nestedArchetypeWriteReq):
					resp = ack(nestedArchetypeWriteAck)
				case tpe.Equal(nestedArchetypePreCommitReq):
					resp = ack(nestedArchetypePreCommitAck)
				case tpe.Equal(nestedArchetypeAbortReq):
					resp = ack(nestedArchetypeAbortAck)
				case tpe.Equal(nestedArchetypeCommitReq):
					// the nested implementation fails here, as any archetype may
					return fmt.Errorf("%w: nested implementation cannot commit", distsys.ErrAssertionFailed)
				default:
					return errors.New("unexpected request")
				}
				if err = iface.Write(out, nil, resp); err != nil {
					return err
				}
				return iface.Goto("N.loop")
			}},
		),
		ProcTable: distsys.MakeMPCalProcTable(),
		PreAmble:  func(distsys.ArchetypeInterface) {},
	}
	nested := NewNested(func(sendCh chan<- tla.Value, receiveCh <-chan tla.Value) []*distsys.MPCalContext {
		return []*distsys.MPCalContext{
			distsys.NewMPCalContext(tla.MakeString("nested"), impl,
				distsys.EnsureArchetypeRefParam("in", NewInputChan(receiveCh, WithInputChanReadTimeout(5*time.Millisecond))),
				distsys.EnsureArchetypeRefParam("out", NewOutputChan(sendCh))),
		}
	})
	outer := distsys.MPCalArchetype{
		Name:              "O",
		Label:             "O.w",
		RequiredRefParams: []string{"O.res"},
		JumpTable: distsys.MakeMPCalJumpTable(
			distsys.MPCalCriticalSection{Name: "O.w", Body: func(iface distsys.ArchetypeInterface) error {
				res, err := iface.RequireArchetypeResourceRef("O.res")
				if err != nil {
					return err
				}
				if err = iface.Write(res, nil, tla.MakeNumber(1)); err != nil {
					return err
				}
				return iface.Goto("O.Done")
			}},
			distsys.MPCalCriticalSection{Name: "O.Done", Body: func(distsys.ArchetypeInterface) error { return distsys.ErrDone }},
		),
		ProcTable: distsys.MakeMPCalProcTable(),
		PreAmble:  func(distsys.ArchetypeInterface) {},
	}
	ctx := distsys.NewMPCalContext(tla.MakeString("outer"), outer, distsys.EnsureArchetypeRefParam("res", nested))
	err := ctx.Run()
	fmt.Printf("C17F2_RUN_RETURNED isAssertion=%v isStopped=%v err=%v\n",
		errors.Is(err, distsys.ErrAssertionFailed), errors.Is(err, ErrNestedArchetypeStopped), err)
	ctx.Stop()
	fmt.Println("C17F2_STOP_RETURNED")
}

func TestC17NestedSystemEndsDuringCommit(t *testing.T) {
	if os.Getenv("C17F2_CHILD") == "1" {
		c17f2Scenario()
		return
	}
	cmd := exec.Command(os.Args[0], "-test.run", "^TestC17NestedSystemEndsDuringCommit$", "-test.count=1")
	cmd.Env = append(os.Environ(), "C17F2_CHILD=1")
	out, err := cmd.CombinedOutput()
	if !strings.Contains(string(out), "C17F2_RUN_RETURNED") || !strings.Contains(string(out), "C17F2_STOP_RETURNED") {
		t.Fatalf("C17 violated (when a started run ends for any reason every configured resource is closed and Run "+
			"reports a resource error): the nested system failed while the outer section was committing, and instead "+
			"of Run returning an error the process died (%v):\n%s", err, out)
	}
	if strings.Contains(string(out), "err=<nil>") {
		t.Fatalf("C17 violated: Run reported normal termination although the nested system had failed:\n%s", out)
	}
}

package resources

import (
	"errors"
	"testing"
	"time"

	"github.com/DistCompiler/pgo/distsys"
	"github.com/DistCompiler/pgo/distsys/tla"
)

// C17 finding 3: a read of a nested-archetype resource times out (the nested system is slow), the nested system
// then answers and ends (Done), and only then the outer context aborts its section. nestedArchetype.Abort selects
// on {sendCh, receiveCh, ctxHasStopped}; receiveCh (the late answer) and ctxHasStopped are both ready and select
// picks at random. When it picks ctxHasStopped the abort "completes" but the late answer stays in receiveCh, and the
// next operation on the resource does not report ErrNestedArchetypeStopped (as the comment in Abort promises): it
// panics in assertSanity. So a run that ends because its nested system ended makes Run panic, instead of Run
// returning the resource error.
//
// The only non-determinism left is select's coin, so the scenario is repeated: 40 rounds all picking the good
// branch has probability 2^-40.
func TestC17NestedEndsLeavingLateAnswer(t *testing.T) {
	tpeKey := nestedArchetypeConstants.tpe
	for attempt := 1; attempt <= 40; attempt++ {
		release := make(chan struct{})
		impl := distsys.MPCalArchetype{
			Name:              "N",
			Label:             "N.loop",
			RequiredRefParams: []string{"N.in", "N.out"},
			JumpTable: distsys.MakeMPCalJumpTable(
				distsys.MPCalCriticalSection{Name: "N.loop", Body: func(iface distsys.ArchetypeInterface) error {
					in, err := iface.RequireArchetypeResourceRef("N.in")
					if err != nil {
						return err
					}
					out, err := iface.RequireArchetypeResourceRef("N.out")
					if err != nil {
						return err
					}
					req, err := iface.Read(in, nil)
					if err != nil {
						return err
					}
					if !req.ApplyFunction(tpeKey).Equal(nestedArchetypeReadReq) {
						return errors.New("unexpected request")
					}
					<-release // a slow nested system: it answers only after the outer read has timed out
					err = iface.Write(out, nil, tla.MakeRecord([]tla.RecordField{
						{Key: tpeKey, Value: nestedArchetypeReadAck},
						{Key: nestedArchetypeConstants.value, Value: tla.MakeNumber(7)},
					}))
					if err != nil {
						return err
					}
					return iface.Goto("N.Done")
				}},
				distsys.MPCalCriticalSection{Name: "N.Done", Body: func(distsys.ArchetypeInterface) error { return distsys.ErrDone }},
			),
			ProcTable: distsys.MakeMPCalProcTable(),
			PreAmble:  func(distsys.ArchetypeInterface) {},
		}
		nested := NewNested(func(sendCh chan<- tla.Value, receiveCh <-chan tla.Value) []*distsys.MPCalContext {
			return []*distsys.MPCalContext{
				distsys.NewMPCalContext(tla.MakeString("nested"), impl,
					distsys.EnsureArchetypeRefParam("in", NewInputChan(receiveCh, WithInputChanReadTimeout(5*time.Millisecond))),
					distsys.EnsureArchetypeRefParam("out", NewOutputChan(sendCh))),
			}
		}).(*nestedArchetype)

		first := true
		outer := distsys.MPCalArchetype{
			Name:              "O",
			Label:             "O.r",
			RequiredRefParams: []string{"O.res"},
			JumpTable: distsys.MakeMPCalJumpTable(
				distsys.MPCalCriticalSection{Name: "O.r", Body: func(iface distsys.ArchetypeInterface) error {
					res, err := iface.RequireArchetypeResourceRef("O.res")
					if err != nil {
						return err
					}
					_, err = iface.Read(res, nil)
					if err == distsys.ErrCriticalSectionAborted && first {
						// force the schedule: the read has timed out; before the context gets to abort the
						// section, the nested system answers and ends
						first = false
						close(release)
						<-nested.ctxHasStopped
					}
					if err != nil {
						return err
					}
					return iface.Goto("O.Done")
				}},
				distsys.MPCalCriticalSection{Name: "O.Done", Body: func(distsys.ArchetypeInterface) error { return distsys.ErrDone }},
			),
			ProcTable: distsys.MakeMPCalProcTable(),
			PreAmble:  func(distsys.ArchetypeInterface) {},
		}
		ctx := distsys.NewMPCalContext(tla.MakeString("outer"), outer, distsys.EnsureArchetypeRefParam("res", nested))

		type outcome struct {
			err      error
			panicked interface{}
		}
		outCh := make(chan outcome, 1)
		go func() {
			var o outcome
			defer func() {
				o.panicked = recover()
				outCh <- o
			}()
			o.err = ctx.Run()
		}()
		o := <-outCh
		if o.panicked != nil {
			t.Fatalf("C17 violated (Run reports a resource error distinctly): round %d: the nested system ended, and "+
				"instead of returning ErrNestedArchetypeStopped Run panicked: %v", attempt, o.panicked)
		}
		if !errors.Is(o.err, ErrNestedArchetypeStopped) {
			t.Fatalf("round %d: Run returned %v, expected ErrNestedArchetypeStopped", attempt, o.err)
		}
	}
}

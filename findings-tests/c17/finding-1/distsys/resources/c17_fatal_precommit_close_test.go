package resources

import (
	"errors"
	"testing"
	"time"

	"github.com/DistCompiler/pgo/distsys"
	"github.com/DistCompiler/pgo/distsys/tla"
)

// C17 finding 1: a run that ends by a resource error raised in the pre-commit phase closes its resources while they
// are still inside the critical section (MPCalContext.Run never aborts the section in flight before cleaning up).
// A 2PC resource that has pre-committed panics in Close; the panic escapes Run's finaliser before it closes
// awaitExit, so Run panics instead of reporting the resource error, the remaining resources are not closed, and
// every later Stop blocks forever.

// c17f1FailingPreCommit is a minimal leaf resource whose PreCommit reports a fatal (non-abort) error, which the
// ArchetypeResource interface allows ("If the error is nil, Commit may go ahead. Otherwise, it may not.").
type c17f1FailingPreCommit struct {
	distsys.ArchetypeResourceLeafMixin
	err error
}

func (res *c17f1FailingPreCommit) Abort(distsys.ArchetypeInterface) chan struct{} { return nil }
func (res *c17f1FailingPreCommit) PreCommit(distsys.ArchetypeInterface) chan error {
	ch := make(chan error, 1)
	ch <- res.err
	return ch
}
func (res *c17f1FailingPreCommit) Commit(distsys.ArchetypeInterface) chan struct{} { return nil }
func (res *c17f1FailingPreCommit) ReadValue(distsys.ArchetypeInterface) (tla.Value, error) {
	return tla.MakeNumber(0), nil
}
func (res *c17f1FailingPreCommit) WriteValue(distsys.ArchetypeInterface, tla.Value) error { return nil }
func (res *c17f1FailingPreCommit) Close() error                                            { return nil }

// c17f1Outer is an archetype with two ref parameters a and b: its only label writes 1 to both (calling between, if
// given, before finishing the section) and goes to Done.
func c17f1Outer(between func()) distsys.MPCalArchetype {
	return distsys.MPCalArchetype{
		Name:              "O",
		Label:             "O.w",
		RequiredRefParams: []string{"O.a", "O.b"},
		JumpTable: distsys.MakeMPCalJumpTable(
			distsys.MPCalCriticalSection{Name: "O.w", Body: func(iface distsys.ArchetypeInterface) error {
				a, err := iface.RequireArchetypeResourceRef("O.a")
				if err != nil {
					return err
				}
				b, err := iface.RequireArchetypeResourceRef("O.b")
				if err != nil {
					return err
				}
				if err = iface.Write(a, nil, tla.MakeNumber(1)); err != nil {
					return err
				}
				if err = iface.Write(b, nil, tla.MakeNumber(1)); err != nil {
					return err
				}
				if between != nil {
					between()
				}
				return iface.Goto("O.Done")
			}},
			distsys.MPCalCriticalSection{Name: "O.Done", Body: func(distsys.ArchetypeInterface) error { return distsys.ErrDone }},
		),
		ProcTable: distsys.MakeMPCalProcTable(),
		PreAmble:  func(distsys.ArchetypeInterface) {},
	}
}

// c17f1RunThenStop runs ctx to its end, and only then calls Stop: a Stop after the run has nothing to wait for.
func c17f1RunThenStop(ctx *distsys.MPCalContext) (runErr error, runPanic interface{}, stopReturned bool) {
	type outcome struct {
		err      error
		panicked interface{}
	}
	outCh := make(chan outcome, 1)
	go func() {
		var o outcome
		defer func() {
			o.panicked = recover()
			outCh <- o
		}()
		o.err = ctx.Run()
	}()
	o := <-outCh
	stopCh := make(chan struct{})
	go func() {
		ctx.Stop()
		close(stopCh)
	}()
	select {
	case <-stopCh:
		stopReturned = true
	case <-time.After(5 * time.Second):
	}
	return o.err, o.panicked, stopReturned
}

func c17f1Check(t *testing.T, expected error, err error, panicked interface{}, stopReturned bool) {
	if panicked != nil {
		t.Errorf("C17 violated (Run reports a resource error distinctly; every configured resource is closed): "+
			"the run ended by a resource error in the pre-commit phase, but Run panicked in its clean-up: %v", panicked)
	} else if !errors.Is(err, expected) {
		t.Errorf("C17 violated: Run returned %v, expected the resource error %v", err, expected)
	}
	if !stopReturned {
		t.Errorf("C17 violated (every Stop call returns once the archetype has stopped; never deadlocks): " +
			"Stop called after the run had ended was still blocked after 5s")
	}
}

// The fatal pre-commit error comes from a minimal user-defined resource.
func TestC17FatalPreCommitErrorWithTwoPC(t *testing.T) {
	diskFull := errors.New("disk full")
	ctx := distsys.NewMPCalContext(tla.MakeString("outer"), c17f1Outer(nil),
		distsys.EnsureArchetypeRefParam("a", makeUnreplicatedTwoPC(tla.MakeNumber(0))),
		distsys.EnsureArchetypeRefParam("b", &c17f1FailingPreCommit{err: diskFull}))
	err, panicked, stopReturned := c17f1RunThenStop(ctx)
	c17f1Check(t, diskFull, err, panicked, stopReturned)
}

// Library resources only: the fatal pre-commit error is ErrNestedArchetypeStopped, from a nested-archetype resource
// whose nested system reached Done right after acknowledging the write.
func TestC17NestedStoppedAtPreCommitWithTwoPC(t *testing.T) {
	tpeKey := nestedArchetypeConstants.tpe
	impl := distsys.MPCalArchetype{
		Name:              "N",
		Label:             "N.loop",
		RequiredRefParams: []string{"N.in", "N.out"},
		JumpTable: distsys.MakeMPCalJumpTable(
			distsys.MPCalCriticalSection{Name: "N.loop", Body: func(iface distsys.ArchetypeInterface) error {
				in, err := iface.RequireArchetypeResourceRef("N.in")
				if err != nil {
					return err
				}
				out, err := iface.RequireArchetypeResourceRef("N.out")
				if err != nil {
					return err
				}
				req, err := iface.Read(in, nil)
				if err != nil {
					return err
				}
				if !req.ApplyFunction(tpeKey).Equal(nestedArchetypeWriteReq) {
					return errors.New("unexpected request")
				}
				err = iface.Write(out, nil, tla.MakeRecord([]tla.RecordField{{Key: tpeKey, Value: nestedArchetypeWriteAck}}))
				if err != nil {
					return err
				}
				return iface.Goto("N.Done")
			}},
			distsys.MPCalCriticalSection{Name: "N.Done", Body: func(distsys.ArchetypeInterface) error { return distsys.ErrDone }},
		),
		ProcTable: distsys.MakeMPCalProcTable(),
		PreAmble:  func(distsys.ArchetypeInterface) {},
	}
	nested := NewNested(func(sendCh chan<- tla.Value, receiveCh <-chan tla.Value) []*distsys.MPCalContext {
		return []*distsys.MPCalContext{
			distsys.NewMPCalContext(tla.MakeString("nested"), impl,
				distsys.EnsureArchetypeRefParam("in", NewInputChan(receiveCh, WithInputChanReadTimeout(5*time.Millisecond))),
				distsys.EnsureArchetypeRefParam("out", NewOutputChan(sendCh))),
		}
	}).(*nestedArchetype)
	ctx := distsys.NewMPCalContext(tla.MakeString("outer"),
		// force the schedule: the nested system has ended before the outer section reaches its pre-commit phase
		c17f1Outer(func() { <-nested.ctxHasStopped }),
		distsys.EnsureArchetypeRefParam("a", makeUnreplicatedTwoPC(tla.MakeNumber(0))),
		distsys.EnsureArchetypeRefParam("b", nested))
	err, panicked, stopReturned := c17f1RunThenStop(ctx)
	c17f1Check(t, ErrNestedArchetypeStopped, err, panicked, stopReturned)
}

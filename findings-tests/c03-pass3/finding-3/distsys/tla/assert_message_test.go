package tla

import (
	"strings"
	"testing"
)

// C03: an operator evaluates "to the value TLA+ semantics and TLC give, or fails loudly ... always where TLC reports
// an error ... and otherwise only for the fragment's documented restrictions".
//
// TLC!Assert(val, out) is TRUE when val is TRUE, for ANY value out (the TLC module says "out" is printed; the usual
// idiom is Assert(cond, <<"message", x, y>>)).  ModuleAssert evaluates msg.AsString() unconditionally (it is an
// argument of fmt.Sprintf), so a non-string message is a "TLA+ type error: is not a string" even when the assertion
// holds.

func assertCatch(f func() Value) (v Value, err interface{}) {
	defer func() { err = recover() }()
	return f(), nil
}

// TLC: Assert(TRUE, <<"x must be positive", 1>>) = TRUE ; Assert(TRUE, 42) = TRUE
func TestAssertTrueWithNonStringMessage(t *testing.T) {
	for _, msg := range []Value{
		MakeTuple(MakeString("x must be positive"), MakeNumber(1)),
		MakeNumber(42),
		MakeRecord([]RecordField{{MakeString("x"), MakeNumber(1)}}),
	} {
		v, err := assertCatch(func() Value { return ModuleAssert(ModuleTRUE, msg) })
		if err != nil {
			t.Fatalf("C03 violated (fails loudly where TLC does not, outside the documented restrictions): "+
				"Assert(TRUE, %v) is TRUE in TLC, the runtime failed with: %v", msg, err)
		}
		if !v.Equal(ModuleTRUE) {
			t.Fatalf("C03 violated: Assert(TRUE, %v) gave %v, TLC gives TRUE", msg, v)
		}
	}
}

// TLC: Assert(FALSE, <<"x must be positive", 1>>) fails with the assertion failure and prints the message value;
// the runtime fails too, but with "is not a string" - the assertion and its message are lost.
func TestAssertFalseWithNonStringMessageReportsTheAssertion(t *testing.T) {
	msg := MakeTuple(MakeString("x must be positive"), MakeNumber(1))
	_, err := assertCatch(func() Value { return ModuleAssert(ModuleFALSE, msg) })
	if err == nil {
		t.Fatalf("Assert(FALSE, ...) must fail")
	}
	text, _ := err.(error)
	if text == nil || !strings.Contains(text.Error(), "assertion") {
		t.Fatalf("C03: Assert(FALSE, %v) must fail as an assertion failure carrying the message (TLC: \"The first "+
			"argument of Assert evaluated to FALSE; the second argument was: <<...>>\"), the runtime failed with: %v", msg, err)
	}
}

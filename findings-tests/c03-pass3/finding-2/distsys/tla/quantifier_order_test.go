package tla

import (
	"testing"
)

// C03: "... or fails loudly with a TLA+ type error: always where TLC reports an error (type error, out-of-domain
// application, division by zero, overflow) and otherwise only for the fragment's documented restrictions".
//
// TLC evaluates the body of \A and \E on the elements of the (normalized) set in increasing order and stops at the
// first element that decides the quantifier.  QuantifiedUniversal / QuantifiedExistential stop at the first deciding
// element as well, but walk the set in the iteration order of the immutable map: insertion order up to 8 elements,
// hash order above.  So whether an element on which the body is an error is reached depends on how the set was
// built, not on its value, and differs from TLC in both directions.

func quantCatch(f func() Value) (v Value, err interface{}) {
	defer func() { err = recover() }()
	return f(), nil
}

// \A x \in S : 10 \div x > 100, as the compiler emits it
func forallDivBig(set Value) (Value, interface{}) {
	return quantCatch(func() Value {
		return QuantifiedUniversal([]Value{set}, func(args []Value) bool {
			var x Value = args[0]
			_ = x
			return ModuleGreaterThanSymbol(ModuleDivSymbol(MakeNumber(10), x), MakeNumber(100)).AsBool()
		})
	})
}

// TLC: \A x \in {1, 0} : 10 \div x > 100   -->  error "The second argument of \div is 0." (0 is tried first)
func TestForallReportsTheErrorTLCReports(t *testing.T) {
	set := MakeSet(MakeNumber(1), MakeNumber(0)) // the literal {1, 0}
	v, err := forallDivBig(set)
	if err == nil {
		t.Fatalf("C03 violated (must fail loudly \"always where TLC reports an error ... division by zero\"): "+
			"\\A x \\in {1, 0} : 10 \\div x > 100 is a division-by-zero error in TLC, the runtime silently returned %v", v)
	}
}

// TLC: \A x \in {0, -1} : 10 \div x > 100  -->  FALSE (-1 is tried first and decides)
func TestForallDoesNotFailWhereTLCGivesAValue(t *testing.T) {
	set := MakeSet(MakeNumber(0), MakeNumber(-1)) // the literal {0, -1}
	v, err := forallDivBig(set)
	if err != nil {
		t.Fatalf("C03 violated (fails loudly where TLC does not, outside the documented restrictions): "+
			"\\A x \\in {0, -1} : 10 \\div x > 100 is FALSE in TLC, the runtime failed with: %v", err)
	}
	if !v.Equal(ModuleFALSE) {
		t.Fatalf("C03 violated: got %v, TLC gives FALSE", v)
	}
}

// the result of \A must be a function of the VALUE of the set: {0, -1} = {-1, 0}
func TestForallIsAFunctionOfTheSetValue(t *testing.T) {
	a := MakeSet(MakeNumber(0), MakeNumber(-1))
	b := MakeSet(MakeNumber(-1), MakeNumber(0))
	if !a.Equal(b) {
		t.Fatalf("test premise: the sets are equal")
	}
	va, erra := forallDivBig(a)
	vb, errb := forallDivBig(b)
	if (erra == nil) != (errb == nil) {
		t.Fatalf("C03 violated (an operator evaluates to the value TLA+/TLC give or fails; it cannot do both for one "+
			"argument value): \\A x \\in S : 10 \\div x > 100 on S = {0, -1} gave (%v, error %v) and on the equal set "+
			"{-1, 0} gave (%v, error %v)", va, erra, vb, errb)
	}
}

// s == <<"a", "x", "b">>
// TLC: \E i \in 1..20 : s[i] = "x"   -->  TRUE (i = 1, 2 are tried, 2 decides)
func TestExistsOverIntervalDoesNotFailWhereTLCGivesAValue(t *testing.T) {
	s := MakeTuple(MakeString("a"), MakeString("x"), MakeString("b"))
	var tried []string
	v, err := quantCatch(func() Value {
		return QuantifiedExistential([]Value{ModuleDotDotSymbol(MakeNumber(1), MakeNumber(20))}, func(args []Value) bool {
			var i Value = args[0]
			_ = i
			tried = append(tried, i.String())
			return ModuleEqualsSymbol(s.ApplyFunction(i), MakeString("x")).AsBool()
		})
	})
	if err != nil {
		t.Fatalf("C03 violated (fails loudly where TLC does not, outside the documented restrictions): "+
			"\\E i \\in 1..20 : s[i] = \"x\" with s = <<\"a\", \"x\", \"b\">> is TRUE in TLC, the runtime tried i = %v "+
			"(hash order of the set 1..20) and failed with: %v", tried, err)
	}
	if !v.Equal(ModuleTRUE) {
		t.Fatalf("C03 violated: got %v, TLC gives TRUE", v)
	}
}

// TLC: \E x \in {1, 0} : 10 \div x = 10  -->  error (0 is tried first)
func TestExistsReportsTheErrorTLCReports(t *testing.T) {
	set := MakeSet(MakeNumber(1), MakeNumber(0))
	v, err := quantCatch(func() Value {
		return QuantifiedExistential([]Value{set}, func(args []Value) bool {
			var x Value = args[0]
			_ = x
			return ModuleEqualsSymbol(ModuleDivSymbol(MakeNumber(10), x), MakeNumber(10)).AsBool()
		})
	})
	if err == nil {
		t.Fatalf("C03 violated (must fail loudly \"always where TLC reports an error ... division by zero\"): "+
			"\\E x \\in {1, 0} : 10 \\div x = 10 is a division-by-zero error in TLC, the runtime silently returned %v", v)
	}
}

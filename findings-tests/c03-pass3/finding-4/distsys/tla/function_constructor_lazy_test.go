package tla

import (
	"testing"
)

// C03: an operator evaluates "to the value TLA+ semantics and TLC give, or fails loudly ... always where TLC reports
// an error ... and otherwise only for the fragment's documented restrictions".
//
// [x \in S |-> e] is a function whatever e is on the individual elements of S; applying it to a evaluates e at a
// only (TLA+: f[a] = e(a); TLC: the constructor gives a lazy FcnLambdaValue).  MakeFunction evaluates the body on the
// whole domain at construction, so an error of e at an element that is never applied kills the evaluation.

// s == <<"a", "x", "b">>
// [i \in 1..5 |-> s[i]][2]             TLC: "x"
func TestFunctionConstructorAppliedInsideTheGoodPartOfItsDomain(t *testing.T) {
	s := MakeTuple(MakeString("a"), MakeString("x"), MakeString("b"))
	var v Value
	var err interface{}
	func() {
		defer func() { err = recover() }()
		v = MakeFunction([]Value{ModuleDotDotSymbol(MakeNumber(1), MakeNumber(5))}, func(args []Value) Value {
			var i Value = args[0]
			_ = i
			return s.ApplyFunction(i)
		}).ApplyFunction(MakeNumber(2))
	}()
	if err != nil {
		t.Fatalf("C03 violated (fails loudly where TLC does not, outside the documented restrictions): "+
			"[i \\in 1..5 |-> s[i]][2] with s = <<\"a\", \"x\", \"b\">> is \"x\" in TLA+ and in TLC, the runtime failed with: %v", err)
	}
	if !v.Equal(MakeString("x")) {
		t.Fatalf("C03 violated: got %v, TLC gives \"x\"", v)
	}
}

package tla

import (
	"testing"
)

// C03: every operator "evaluates ... to the value TLA+ semantics and TLC give ... never silently returns a different
// value".  TLC!ToString(v) is TLC's printed form of v; for records and functions the runtime returns another string
// (its own re-parseable form with every key and value parenthesised), so e.g. ToString(r) = "[a |-> 1]" is TRUE in
// TLC and FALSE in the compiled system, and two implementations exchanging ToString'd keys disagree.
//
// expected strings: output of TLC 2 (tla2tools 1.8.0), `ASSUME PrintT(ToString(...))`
func TestToStringOfRecordsAndFunctionsIsTLCs(t *testing.T) {
	for _, c := range []struct {
		expr string
		v    Value
		tlc  string
	}{
		{`[a |-> 1, b |-> "x"]`, MakeRecord([]RecordField{{MakeString("a"), MakeNumber(1)}, {MakeString("b"), MakeString("x")}}), `[a |-> 1, b |-> "x"]`},
		{`2 :> 3`, ModuleColonGreaterThanSymbol(MakeNumber(2), MakeNumber(3)), `(2 :> 3)`},
		{`[x \in {2, 3} |-> x]`, MakeFunction([]Value{MakeSet(MakeNumber(2), MakeNumber(3))}, func(args []Value) Value { return args[0] }), `(2 :> 2 @@ 3 :> 3)`},
		// (control: these agree)
		{`{<<1, 2>>, <<>>}`, MakeSet(MakeTuple(MakeNumber(1), MakeNumber(2)), MakeTuple()), `{<<>>, <<1, 2>>}`},
		{`-5`, MakeNumber(-5), `-5`},
		{`"a"`, MakeString("a"), `"a"`},
	} {
		got := ModuleToString(c.v)
		if !got.Equal(MakeString(c.tlc)) {
			t.Errorf("C03 violated (silently returns a different value): ToString(%s) = %v, TLC gives %v", c.expr, got, MakeString(c.tlc))
		}
	}
}

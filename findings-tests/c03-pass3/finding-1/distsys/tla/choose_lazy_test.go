package tla

import (
	"testing"
)

// C03: an operator "fails loudly ... always where TLC reports an error ... and otherwise only for the fragment's
// documented restrictions".  TLC (and the pre-f3f13e86 runtime) evaluate the predicate of CHOOSE on the elements in
// order and stop at the first one that satisfies it; the repaired Choose evaluates the predicate on EVERY element,
// so a predicate that is an error on an element after the chosen one now kills the evaluation.

func chooseCatch(f func() Value) (v Value, err interface{}) {
	defer func() { err = recover() }()
	return f(), nil
}

// s == <<"a", "x", "b">>
// CHOOSE i \in 1..5 : s[i] = "x"        TLC: 2
func TestChooseDoesNotEvaluatePredicateBeyondChosenElement_Index(t *testing.T) {
	s := MakeTuple(MakeString("a"), MakeString("x"), MakeString("b"))
	var evaluated []string
	v, err := chooseCatch(func() Value {
		// exactly what the compiler emits for the expression above
		return Choose(ModuleDotDotSymbol(MakeNumber(1), MakeNumber(5)), func(element Value) bool {
			var i Value = element
			_ = i
			evaluated = append(evaluated, i.String())
			return ModuleEqualsSymbol(s.ApplyFunction(i), MakeString("x")).AsBool()
		})
	})
	if err != nil {
		t.Fatalf("C03 violated (fails loudly where TLC does not, outside the documented restrictions): "+
			"CHOOSE i \\in 1..5 : s[i] = \"x\" with s = <<\"a\", \"x\", \"b\">> is 2 in TLC (the predicate is never "+
			"evaluated at 4), but the runtime evaluated the predicate at %v and failed with: %v", evaluated, err)
	}
	if !v.Equal(MakeNumber(2)) {
		t.Fatalf("C03 violated: CHOOSE gave %v, TLC gives 2", v)
	}
}

// CHOOSE x \in {-1, 0} : 10 \div x < 0     TLC: -1
func TestChooseDoesNotEvaluatePredicateBeyondChosenElement_Div(t *testing.T) {
	for _, set := range []Value{
		MakeSet(MakeNumber(-1), MakeNumber(0)),
		MakeSet(MakeNumber(0), MakeNumber(-1)),
	} {
		v, err := chooseCatch(func() Value {
			return Choose(set, func(element Value) bool {
				var x Value = element
				_ = x
				return ModuleLessThanSymbol(ModuleDivSymbol(MakeNumber(10), x), MakeNumber(0)).AsBool()
			})
		})
		if err != nil {
			t.Fatalf("C03 violated (fails loudly where TLC does not): CHOOSE x \\in {-1, 0} : 10 \\div x < 0 is -1 in TLC "+
				"(-1 is the least element and satisfies the predicate, 0 is never tried), the runtime failed with: %v", err)
		}
		if !v.Equal(MakeNumber(-1)) {
			t.Fatalf("C03 violated: CHOOSE gave %v, TLC gives -1", v)
		}
	}
}

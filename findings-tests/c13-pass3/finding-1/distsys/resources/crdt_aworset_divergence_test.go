package resources

import (
	"fmt"
	"io"
	"net"
	"sync"
	"testing"
	"time"

	"github.com/DistCompiler/pgo/distsys"
	"github.com/DistCompiler/pgo/distsys/tla"
)

// C13: "every update of a committed critical section eventually reaches every connected peer and all
// replicas read equal values once updates stop".
//
// Three real CRDT resources (NewCRDT, real TCP/RPC, real broadcast(), real merger) share an AWORSet, the
// set CRDT of systems/shopcart.  The only thing the test controls is WHEN things happen: broadcast ticks
// are triggered by calling broadcast() (the ticker interval is set to one hour), and every directed link
// i->j runs through a byte forwarder with a gate, so that a ReceiveValue call can be held back in the
// network for a while (nothing is dropped, reordered or timed out: sendTimeout is one hour as well).
//
//	A: add x ; remove x        B: add x ; remove x        C: add y
//
// Every add of x is followed by a committed remove of x on the same node, all links work, every
// broadcast round is acknowledged by every peer.  After the last round nobody owes anybody a broadcast
// (needBroadcastCount == 0 everywhere), A and B read {y} - and C reads {x, y} forever.

// ---- a gated one-directional link --------------------------------------------------------------------

type c13Link struct {
	name   string
	ln     net.Listener
	target string

	mu      sync.Mutex
	cond    *sync.Cond
	open    bool
	pending int // chunks of client->server bytes that are waiting at the gate
	seen    int // chunks of client->server bytes that ever arrived
}

func newC13Link(t *testing.T, name, target string) *c13Link {
	ln, err := net.Listen("tcp", "127.0.0.1:0")
	if err != nil {
		t.Fatalf("setup: %v", err)
	}
	l := &c13Link{name: name, ln: ln, target: target}
	l.cond = sync.NewCond(&l.mu)
	go func() {
		for {
			conn, err := ln.Accept()
			if err != nil {
				return
			}
			go l.serve(conn)
		}
	}()
	return l
}

func (l *c13Link) addr() string { return l.ln.Addr().String() }

func (l *c13Link) serve(client net.Conn) {
	server, err := net.Dial("tcp", l.target)
	if err != nil {
		_ = client.Close()
		return
	}
	// replies travel freely
	go func() {
		_, _ = io.Copy(client, server)
		_ = client.Close()
	}()
	// requests wait at the gate
	buf := make([]byte, 64*1024)
	for {
		n, err := client.Read(buf)
		if n > 0 {
			l.mu.Lock()
			l.pending++
			l.seen++
			l.cond.Broadcast()
			for !l.open {
				l.cond.Wait()
			}
			l.pending--
			l.mu.Unlock()
			if _, werr := server.Write(buf[:n]); werr != nil {
				return
			}
		}
		if err != nil {
			_ = server.Close()
			return
		}
	}
}

func (l *c13Link) Open() {
	l.mu.Lock()
	l.open = true
	l.cond.Broadcast()
	l.mu.Unlock()
}

func (l *c13Link) hasSeenRequest() bool {
	l.mu.Lock()
	defer l.mu.Unlock()
	return l.seen > 0
}

// ---- helpers -----------------------------------------------------------------------------------------

func c13FreeAddr(t *testing.T) string {
	ln, err := net.Listen("tcp", "127.0.0.1:0")
	if err != nil {
		t.Fatalf("setup: %v", err)
	}
	addr := ln.Addr().String()
	_ = ln.Close()
	return addr
}

func c13Req(cmd int32, elem tla.Value) tla.Value {
	return tla.MakeRecord([]tla.RecordField{
		{Key: cmdKey, Value: tla.MakeNumber(cmd)},
		{Key: elemKey, Value: elem},
	})
}

// c13Section runs one committed critical section that performs a single write.
func c13Section(t *testing.T, res *crdt, cmd int32, elem tla.Value) {
	var iface distsys.ArchetypeInterface
	if err := res.WriteValue(iface, c13Req(cmd, elem)); err != nil {
		t.Fatalf("setup: write failed: %v", err)
	}
	if ch := res.PreCommit(iface); ch != nil {
		if err := <-ch; err != nil {
			t.Fatalf("setup: pre-commit failed: %v", err)
		}
	}
	if ch := res.Commit(iface); ch != nil {
		<-ch
	}
}

func c13State(res *crdt) AWORSet {
	res.stateLock.RLock()
	defer res.stateLock.RUnlock()
	return res.value.(AWORSet)
}

func c13Read(t *testing.T, res *crdt) tla.Value {
	var iface distsys.ArchetypeInterface
	v, err := res.ReadValue(iface)
	if err != nil {
		t.Fatalf("read failed: %v", err)
	}
	return v
}

func c13Owed(res *crdt) int {
	res.needBroadcastLock.Lock()
	defer res.needBroadcastLock.Unlock()
	return res.needBroadcastCount
}

// c13WaitFor waits for a condition that the schedule built so far guarantees to become true; it is a
// synchronisation point, not a timing assumption (the deadline only turns a hang into a failure).
func c13WaitFor(t *testing.T, what string, cond func() bool) {
	t.Helper()
	deadline := time.Now().Add(120 * time.Second)
	for !cond() {
		if time.Now().After(deadline) {
			t.Fatalf("setup: schedule could not be built, still waiting for: %s", what)
		}
		time.Sleep(time.Millisecond)
	}
}

// c13Tick is one broadcast tick of the resource (the body of the runBroadcasts loop).
func c13Tick(res *crdt) chan struct{} {
	done := make(chan struct{})
	go func() {
		res.broadcast()
		close(done)
	}()
	return done
}

func c13WaitDone(t *testing.T, what string, done chan struct{}) {
	t.Helper()
	select {
	case <-done:
	case <-time.After(120 * time.Second):
		t.Fatalf("setup: %s did not finish", what)
	}
}

// ---- the test ----------------------------------------------------------------------------------------

func TestC13_AWORSetReplicasDivergeForever(t *testing.T) {
	ids := []tla.Value{tla.MakeNumber(1), tla.MakeNumber(2), tla.MakeNumber(3)} // A, B, C
	names := []string{"A", "B", "C"}
	real := make([]string, 3)
	for i := range real {
		real[i] = c13FreeAddr(t)
	}
	// links[i][j]: the way from node i to node j
	links := make([][]*c13Link, 3)
	for i := range links {
		links[i] = make([]*c13Link, 3)
		for j := range links[i] {
			if i != j {
				links[i][j] = newC13Link(t, names[i]+"->"+names[j], real[j])
			}
		}
	}
	nodes := make([]*crdt, 3)
	for i := range nodes {
		i := i
		var peers []tla.Value
		for j := range ids {
			if j != i {
				peers = append(peers, ids[j])
			}
		}
		nodes[i] = NewCRDT(ids[i], peers, func(id tla.Value) string {
			j := int(id.AsNumber()) - 1
			if j == i {
				return real[i]
			}
			return links[i][j].addr()
		}, AWORSet{},
			WithCRDTBroadcastInterval(time.Hour), // ticks are given by c13Tick
			WithCRDTSendTimeout(time.Hour),       // a held call is slow, never lost
		).(*crdt)
	}
	defer func() {
		for i := range nodes {
			_ = nodes[i].listener.Close()
			for j := range nodes {
				if links[i][j] != nil {
					_ = links[i][j].ln.Close()
					links[i][j].Open()
				}
			}
		}
	}()
	const A, B, C = 0, 1, 2
	x, y := tla.MakeString("x"), tla.MakeString("y")

	xAddClockLen := func(n int) int {
		if vc, ok := c13State(nodes[n]).addMap.Get(x); ok {
			return vc.Len()
		}
		return 0
	}
	xRemClockLen := func(n int) int {
		if vc, ok := c13State(nodes[n]).remMap.Get(x); ok {
			return vc.Len()
		}
		return 0
	}

	// 1. C adds y, A adds x (two committed sections on two nodes).
	c13Section(t, nodes[C], addOp, y)
	c13Section(t, nodes[A], addOp, x)

	// 2. C's broadcast tick: its state {y} goes to A at once, the call to B is slow.
	//    A's reply carries A's committed state (x added by A), which C merges.
	links[C][A].Open()
	roundC := c13Tick(nodes[C])
	c13WaitFor(t, "C merges A's reply (x added by A)", func() bool { return xAddClockLen(C) == 1 })
	c13WaitFor(t, "C's call to B is on the wire", links[C][B].hasSeenRequest)

	// 3. A removes x again (committed).  B, which has heard of nothing yet, adds x (committed).
	c13Section(t, nodes[A], remOp, x)
	c13Section(t, nodes[B], addOp, x)

	// 4. C's slow call reaches B; B's reply carries B's committed state (x added by B), which C merges.
	links[C][B].Open()
	c13WaitDone(t, "C's broadcast round", roundC)
	c13WaitFor(t, "C merges B's reply (x added by B)", func() bool { return xAddClockLen(C) == 2 })

	// 5. B removes x again (committed).  From here on there are no more updates.
	c13Section(t, nodes[B], remOp, x)

	// 6. A and B both have a broadcast tick; both rounds snapshot the committed state (x removed) and
	//    put their calls on the wire.
	roundA := c13Tick(nodes[A])
	roundB := c13Tick(nodes[B])
	for _, l := range []*c13Link{links[A][B], links[A][C], links[B][A], links[B][C]} {
		l := l
		c13WaitFor(t, "call "+l.name+" is on the wire", l.hasSeenRequest)
	}

	// 7. The calls arrive one after the other: A->B, A->C, B->A, B->C.
	links[A][B].Open()
	c13WaitFor(t, "B merges A's remove", func() bool { return xRemClockLen(B) == 2 })
	c13WaitFor(t, "A merges B's reply", func() bool { return xRemClockLen(A) == 2 })
	links[A][C].Open()
	c13WaitDone(t, "A's broadcast round", roundA)
	links[B][A].Open()
	links[B][C].Open()
	c13WaitDone(t, "B's broadcast round", roundB)

	// 8. Quiescence.  Every round has been acknowledged by every peer; nobody owes a broadcast any more,
	//    so no further ReceiveValue call will ever be made.
	for i := range nodes {
		if owed := c13Owed(nodes[i]); owed != 0 {
			t.Fatalf("setup: node %s still owes %d broadcasts", names[i], owed)
		}
	}
	//    Flush the merge queues: the queue is FIFO and has a single consumer, so once a marker state
	//    (one unrelated element, the same on every node) is visible everything received before it has
	//    been merged.
	marker := tla.MakeString("marker")
	markerState := AWORSet{}.Init().Write(tla.MakeString("flush"), c13Req(addOp, marker))
	for i := range nodes {
		i := i
		nodes[i].prepMerge(markerState)
		c13WaitFor(t, "merge queue of "+names[i]+" is drained", func() bool {
			_, ok := c13State(nodes[i]).addMap.Get(marker)
			return ok
		})
	}

	readA, readB, readC := c13Read(t, nodes[A]), c13Read(t, nodes[B]), c13Read(t, nodes[C])
	t.Logf("final states:\n  A: %v\n  B: %v\n  C: %v", c13State(nodes[A]), c13State(nodes[B]), c13State(nodes[C]))
	if !readA.Equal(readB) || !readA.Equal(readC) {
		t.Fatalf("C13 violated: \"all replicas read equal values once updates stop\": updates have stopped, every "+
			"broadcast round was acknowledged by every peer and nobody owes a broadcast any more, but A reads %v, "+
			"B reads %v and C reads %v (%s)", readA, readB, readC,
			fmt.Sprintf("the committed removes of x by A and by B were delivered to C and had no effect there: C's entry for x is %v",
				func() interface{} { vc, _ := c13State(nodes[C]).addMap.Get(x); return vc }()))
	}
}

package tla

import (
	"testing"
)

// C05, clause "Equality on TLA+ values is an equivalence": tla.ModuledefaultInitValue (the zero Value, printed
// `defaultInitValue`, the TLC model value every PlusCal variable without an initialiser holds and that generated
// code writes explicitly, e.g. ProcedureSpaghetti.go `iface.Write(c, nil, tla.ModuledefaultInitValue)`) is a member of
// the value domain: Value.Equal, Value.Hash and Value.String all special-case it, and it is equal to itself on its
// own, as a set element and as a record field.  As a tuple component it is not: valueTuple.Equal bypasses
// Value.Equal and calls elem.data.Equal on the nil impl.

func equalOrPanic(a, b Value) (result bool, panicked interface{}) {
	defer func() {
		if r := recover(); r != nil {
			panicked = r
		}
	}()
	return a.Equal(b), nil
}

func TestHunt3C05TupleOfDefaultInitValueIsEqualToItself(t *testing.T) {
	d := ModuledefaultInitValue

	// the same value nested one level deep in each kind of container; only the tuple misbehaves
	containers := []struct {
		name string
		mk   func() Value
	}{
		{"{defaultInitValue}", func() Value { return MakeSet(d) }},
		{"[f |-> defaultInitValue]", func() Value { return MakeRecord([]RecordField{{MakeString("f"), d}}) }},
		{"<<defaultInitValue>>", func() Value { return MakeTuple(d) }},
		{"<<1, defaultInitValue>>", func() Value { return MakeTuple(MakeNumber(1), d) }},
		{"Append(<<>>, defaultInitValue)", func() Value { return ModuleAppend(MakeTuple(), d) }},
	}
	if eq, p := equalOrPanic(d, d); p != nil || !eq {
		t.Fatalf("defaultInitValue = defaultInitValue gave %v (panic %v)", eq, p)
	}
	for _, c := range containers {
		a, b := c.mk(), c.mk()
		if a.Hash() != b.Hash() {
			t.Errorf("%s: two constructions hash differently", c.name)
		}
		eq, p := equalOrPanic(a, b)
		if p != nil {
			t.Errorf("C05 violated (equality is an equivalence, hence reflexive, on values nested to any depth): "+
				"%s = %s does not evaluate to TRUE, Equal panicked: %v", c.name, a.String(), p)
		} else if !eq {
			t.Errorf("C05 violated (equality is reflexive): %s = %s is FALSE", c.name, a.String())
		}
		// x = x on the very same Go value
		if _, p := equalOrPanic(a, a); p != nil {
			t.Errorf("C05 violated (reflexivity): v.Equal(v) panicked for v = %s: %v", a.String(), p)
		}
	}

	// consequence for the clause "set membership, function lookup ... agree with equality": a set or a function
	// domain that holds two such tuples with the same hash cannot be searched
	func() {
		defer func() {
			if r := recover(); r != nil {
				t.Errorf("C05 violated (set membership agrees with equality): <<defaultInitValue>> \\in {<<defaultInitValue>>} panicked: %v", r)
			}
		}()
		set := MakeSet(MakeTuple(d))
		if !ModuleInSymbol(MakeTuple(d), set).AsBool() {
			t.Errorf("C05 violated: <<defaultInitValue>> \\notin {<<defaultInitValue>>}")
		}
	}()
}

// Same value, clause "equivalence ... with and without causal (vector-clock) wrapping": a causally wrapped
// defaultInitValue (what LocalArchetypeResource.ReadValue returns for an uninitialised variable when tracing is on)
// is not even equal to itself, and - unlike every other value - not equal to its bare self.
func TestHunt3C05WrappedDefaultInitValueEqualsItself(t *testing.T) {
	old := vClocksEnabled
	vClocksEnabled = true
	defer func() { vClocksEnabled = old }()

	clock := VClock{}.Inc("AClient", MakeNumber(1))
	d := ModuledefaultInitValue
	w := WrapCausal(d, clock)
	if w.GetVClock() == nil {
		t.Fatalf("test setup: value was not wrapped")
	}
	// for comparison: every other value is equal to its wrapped self, in both directions, and the wrapped one to itself
	for _, v := range []Value{MakeNumber(0), MakeString(""), MakeSet(), MakeTuple(), MakeRecord(nil), ModuleFALSE} {
		wv := WrapCausal(v, clock)
		if !wv.Equal(v) || !v.Equal(wv) || !wv.Equal(wv) {
			t.Errorf("unexpected: %v and its wrapped self are not equal in both directions", v)
		}
	}
	if w.Hash() != d.Hash() {
		t.Errorf("wrapped and bare defaultInitValue hash differently")
	}
	if !w.Equal(w) {
		t.Errorf("C05 violated (equality is reflexive, with and without causal wrapping): v.Equal(v) = false for v = causally wrapped %v", w)
	}
	if !w.Equal(d) || !d.Equal(w) {
		t.Errorf("C05 violated (equality ignores causal wrapping): wrapped(%v).Equal(%v) = %v, %v.Equal(wrapped(%v)) = %v",
			w, d, w.Equal(d), d, w, d.Equal(w))
	}
	if !ModuleInSymbol(w, MakeSet(w)).AsBool() {
		t.Errorf("C05 violated (set membership agrees with equality): v \\notin {v} for v = causally wrapped %v", w)
	}
}

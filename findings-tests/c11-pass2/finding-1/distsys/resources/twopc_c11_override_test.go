package resources

// C11 second-pass finding 1: a replica that has accepted (promised) the PreCommit of proposer P for
// version k forgets that promise when a PreCommit for a higher version k+1 arrives from another
// proposer, although it has not installed version k. When the overriding proposal is then aborted
// (or rejected for lack of a majority) the replica is released at version k-1, unlocked, and accepts
// a second proposal for version k: two proposers win version k and the replicas install different
// values for it.
//
// The schedule only uses what the quantifier of C11 allows: 5 replicas, message delay (test 1) and
// delay plus RPC timeouts (test 2), over both ReplicaHandle transports. All ordering is forced by
// gates in front of the transports; nothing depends on timing.

import (
	"errors"
	"fmt"
	"sync"
	"testing"
	"time"

	"github.com/DistCompiler/pgo/distsys"
	"github.com/DistCompiler/pgo/distsys/tla"
)

// c11Net decides, per (from, to, message type), whether a message is delivered at once, delayed until
// the test opens a gate, or lost (the sender sees "RPC timeout"), and records deliveries.
type c11Net struct {
	mu        sync.Mutex
	cond      *sync.Cond
	delivered map[string]int
	hold      map[string]chan struct{}
	drop      map[string]bool
}

func newC11Net() *c11Net {
	n := &c11Net{
		delivered: make(map[string]int),
		hold:      make(map[string]chan struct{}),
		drop:      make(map[string]bool),
	}
	n.cond = sync.NewCond(&n.mu)
	return n
}

func c11Key(from, to string, typ TwoPCRequestType) string {
	return fmt.Sprintf("%s>%s:%s", from, to, typ)
}

// delay makes the messages of that kind wait until the returned gate is closed.
func (n *c11Net) delay(gate chan struct{}, from string, typ TwoPCRequestType, tos ...string) {
	n.mu.Lock()
	defer n.mu.Unlock()
	for _, to := range tos {
		n.hold[c11Key(from, to, typ)] = gate
	}
}

// lose makes the messages of that kind time out at the sender (after the gate, if one is set).
func (n *c11Net) lose(from string, typ TwoPCRequestType, tos ...string) {
	n.mu.Lock()
	defer n.mu.Unlock()
	for _, to := range tos {
		n.drop[c11Key(from, to, typ)] = true
	}
}

func (n *c11Net) awaitDelivered(t *testing.T, from string, typ TwoPCRequestType, tos ...string) {
	t.Helper()
	for _, to := range tos {
		key := c11Key(from, to, typ)
		ok := make(chan struct{})
		go func() {
			n.mu.Lock()
			for n.delivered[key] == 0 {
				n.cond.Wait()
			}
			n.mu.Unlock()
			close(ok)
		}()
		select {
		case <-ok:
		case <-time.After(2 * time.Minute): // guard only: the schedule never needs it
			t.Fatalf("harness: message %s was never delivered", key)
		}
	}
}

type c11Handle struct {
	net      *c11Net
	from, to string
	inner    ReplicaHandle
}

func (h c11Handle) Close() error { return nil }

func (h c11Handle) Send(request TwoPCRequest, reply *TwoPCResponse) chan error {
	key := c11Key(h.from, h.to, request.RequestType)
	h.net.mu.Lock()
	gate := h.net.hold[key]
	drop := h.net.drop[key]
	h.net.mu.Unlock()
	if gate != nil {
		<-gate
	}
	out := make(chan error, 1)
	if drop {
		out <- errors.New("RPC timeout")
		return out
	}
	err := <-h.inner.Send(request, reply)
	h.net.mu.Lock()
	h.net.delivered[key]++
	h.net.cond.Broadcast()
	h.net.mu.Unlock()
	out <- err
	return out
}

type c11Cluster struct {
	net   *c11Net
	nodes map[string]*TwoPCArchetypeResource
}

// makeC11Cluster builds the named replicas, fully connected through gated handles that wrap the real
// in-process or the real RPC transport.
func makeC11Cluster(t *testing.T, overRPC bool, names ...string) *c11Cluster {
	c := &c11Cluster{net: newC11Net(), nodes: make(map[string]*TwoPCArchetypeResource)}
	addrs := make(map[string]string)
	for _, name := range names {
		node := makeUnreplicatedTwoPCNamed(tla.MakeNumber(0), name)
		c.nodes[name] = node
		if overRPC {
			receiver := makeTwoPCReceiver(node, "127.0.0.1:0")
			node.receiver = &receiver
			if err := receiver.listenAndServe(); err != nil {
				t.Fatalf("harness: listen: %v", err)
			}
			addrs[name] = receiver.listener.Addr().String()
			t.Cleanup(func() { receiver.listener.Close() })
		}
	}
	for _, from := range names {
		var handles []ReplicaHandle
		for _, to := range names {
			if to == from {
				continue
			}
			var inner ReplicaHandle
			if overRPC {
				rpcHandle := MakeRPCReplicaHandle(addrs[to], c.nodes[to].archetypeID)
				inner = &rpcHandle
			} else {
				inner = makeLocalReplicaHandle(c.nodes[to])
			}
			handles = append(handles, c11Handle{net: c.net, from: from, to: to, inner: inner})
		}
		c.nodes[from].SetReplicas(handles)
	}
	return c
}

type c11Snapshot struct {
	version int
	value   tla.Value
	locked  bool
	lockedV int
	lockedS tla.Value
}

func (c *c11Cluster) snapshot(name string) c11Snapshot {
	node := c.nodes[name]
	var s c11Snapshot
	node.inMutex("c11snapshot", read, func() {
		s.version = node.version
		s.value = node.oldValue
		s.locked = node.twoPCState == acceptedPreCommit
		s.lockedV = node.acceptedPreCommit.Version
		s.lockedS = node.acceptedPreCommit.Sender
	})
	return s
}

// runC11Override drives the schedule. abortedAfterPreCommit selects how the overriding proposal (A's,
// for version 2) ends: true = it pre-commits successfully and its critical section is then aborted
// (delay only); false = it gets no majority because two of its PreCommits time out.
func runC11Override(t *testing.T, overRPC bool, abortedAfterPreCommit bool) {
	iface := distsys.ArchetypeInterface{}
	c := makeC11Cluster(t, overRPC, "P", "A", "B", "C", "D")
	P, A, B, D := c.nodes["P"], c.nodes["A"], c.nodes["B"], c.nodes["D"]
	_ = B

	late := make(chan struct{}) // opened at the very end: everything behind it is "still in flight"
	var lateOnce sync.Once
	openLate := func() { lateOnce.Do(func() { close(late) }) }
	t.Cleanup(openLate)

	// --- P wins version 1 (value 10) with the majority {P, A, B}
	if abortedAfterPreCommit {
		c.net.delay(late, "P", PreCommit, "C", "D")
	} else {
		c.net.lose("P", PreCommit, "C", "D")
	}
	c.net.delay(late, "P", Commit, "B", "C", "D") // P's Commit reaches A at once, the others late
	if _, err := P.ReadValue(iface); err != nil {
		t.Fatalf("P read: %v", err)
	}
	if err := P.WriteValue(iface, tla.MakeNumber(10)); err != nil {
		t.Fatalf("P write: %v", err)
	}
	if err := <-P.PreCommit(iface); err != nil {
		t.Fatalf("P pre-commit: %v", err)
	}
	if s := c.snapshot("B"); !s.locked || s.lockedV != 1 || !s.lockedS.Equal(P.archetypeID) {
		t.Fatalf("harness: B should hold P's PreCommit for version 1, has %+v", s)
	}
	pCommitted := make(chan struct{})
	go func() {
		P.Commit(iface) // decided: P pre-committed on a majority. Blocks for its second acknowledgement.
		close(pCommitted)
	}()
	c.net.awaitDelivered(t, "P", Commit, "A")
	if s := c.snapshot("A"); s.version != 1 || !s.value.Equal(tla.MakeNumber(10)) {
		t.Fatalf("harness: A should have installed version 1 = 10, has %+v", s)
	}

	// --- A (at version 1) proposes version 2; B accepts it, dropping its promise to P
	gateA := make(chan struct{})
	if !abortedAfterPreCommit {
		c.net.delay(gateA, "A", PreCommit, "C", "D")
		c.net.lose("A", PreCommit, "C", "D")
	}
	if v, err := A.ReadValue(iface); err != nil || !v.Equal(tla.MakeNumber(10)) {
		t.Fatalf("A read: %v %v", v, err)
	}
	if err := A.WriteValue(iface, tla.MakeNumber(11)); err != nil {
		t.Fatalf("A write: %v", err)
	}
	aPreCommit := A.PreCommit(iface)
	c.net.awaitDelivered(t, "A", PreCommit, "B", "P")
	if abortedAfterPreCommit {
		c.net.awaitDelivered(t, "A", PreCommit, "C", "D")
		if err := <-aPreCommit; err != nil {
			t.Fatalf("A pre-commit: %v", err)
		}
		// the critical section of A is aborted after its pre-commit (e.g. another resource of the same
		// critical section failed to pre-commit): MPCalContext.abort calls Abort on every resource
		A.Abort(iface)
	} else {
		close(gateA) // now A's PreCommits to C and D time out: P rejected, B accepted: no majority
		if err := <-aPreCommit; err != distsys.ErrCriticalSectionAborted {
			t.Fatalf("A pre-commit: expected abort, got %v", err)
		}
		A.Abort(iface)
	}
	c.net.awaitDelivered(t, "A", Abort, "B", "C", "D", "P")
	sB := c.snapshot("B")
	t.Logf("after A's proposal for version 2 was released: B is at version %d, holds a PreCommit: %v "+
		"(it had promised version 1 to P, and P's Commit for version 1 is still in flight)", sB.version, sB.locked)

	// --- D (still at version 0) proposes version 1 with another value; B and C accept
	gateD := make(chan struct{})
	var gateDOnce sync.Once
	openGateD := func() { gateDOnce.Do(func() { close(gateD) }) }
	t.Cleanup(openGateD)
	c.net.delay(gateD, "D", PreCommit, "P", "A")
	c.net.delay(late, "D", Commit, "P", "A")
	if v, err := D.ReadValue(iface); err != nil || !v.Equal(tla.MakeNumber(0)) {
		t.Fatalf("D read: %v %v", v, err)
	}
	if err := D.WriteValue(iface, tla.MakeNumber(1)); err != nil {
		t.Fatalf("D write: %v", err)
	}
	dPreCommit := D.PreCommit(iface)
	c.net.awaitDelivered(t, "D", PreCommit, "B", "C")
	if sB, sC := c.snapshot("B"), c.snapshot("C"); !(sB.locked && sB.lockedS.Equal(D.archetypeID) &&
		sC.locked && sC.lockedS.Equal(D.archetypeID)) {
		// (only on a repaired tree) D has no majority yet: let its PreCommits to P and A arrive as well
		openGateD()
	}
	dErr := <-dPreCommit
	if dErr == nil {
		D.Commit(iface)
		c.net.awaitDelivered(t, "D", Commit, "B", "C")
	} else {
		D.Abort(iface)
	}

	sA, sB, sC := c.snapshot("A"), c.snapshot("B"), c.snapshot("C")
	if dErr == nil {
		t.Errorf("C11 violated (at most one proposer wins each version): P pre-committed version 1 on the " +
			"majority {P,A,B} and is committing it, yet D's PreCommit for version 1 also succeeded, on {D,B,C}")
	}
	if sA.version == 1 && sB.version == 1 && !sA.value.Equal(sB.value) {
		t.Errorf("C11 violated (every replica installs the same value for each version): version 1 is %v at "+
			"replica A (committed by P) but %v at replica B and %v at replica C (committed by D)",
			sA.value, sB.value, sC.value)
	}

	// --- aftermath: let everything that was in flight arrive
	openLate()
	select {
	case <-pCommitted:
	case <-time.After(2 * time.Minute):
		t.Fatalf("harness: P's Commit never returned")
	}
	sP := c.snapshot("P")
	if !sP.value.Equal(tla.MakeNumber(10)) && sP.version == 1 {
		t.Errorf("C11 violated (behaves as a single copy): P's Commit of version 1 = 10 returned normally, "+
			"but P itself now holds version %d = %v: its committed write is lost", sP.version, sP.value)
	}
}

func TestC11HigherVersionPreCommitDropsPromise_DelayOnly_Local(t *testing.T) {
	runC11Override(t, false, true)
}

func TestC11HigherVersionPreCommitDropsPromise_DelayOnly_RPC(t *testing.T) {
	runC11Override(t, true, true)
}

func TestC11HigherVersionPreCommitDropsPromise_Timeouts_Local(t *testing.T) {
	runC11Override(t, false, false)
}

func TestC11HigherVersionPreCommitDropsPromise_Timeouts_RPC(t *testing.T) {
	runC11Override(t, true, false)
}

package tla

import (
	"testing"
	"time"
)

// Audit of 29e98b34 (\A and \E now sort their sets with compareCanonical before visiting them) and of 40f40a98
// (CHOOSE compares candidates with compareCanonical).
//
// compareCanonical(a, b) on two sets calls canonicalElems(a) and canonicalElems(b), i.e. it SORTS both operands -
// on every single comparison, before even looking at their sizes - and each comparison made by those sorts does the
// same one level further down.  Every level of nesting therefore multiplies the work per element by about
// 2*log2(n)+1 instead of adding to it: the cost of visiting a set of sets of sets ... is (2 log n)^depth per leaf.
// This is the class of defect 30f9e1bf removed from Equal ("set equality was exponential in the nesting depth").
// Before 29e98b34, \A x \in S : TRUE did no comparison at all; before 40f40a98, CHOOSE compared printed forms, which
// is linear in the size of the candidates.
//
// The test counts, deterministically, how many times the numbers at the leaves of a nested set are read by the
// order (no timing involved).  An order that sorts every nested set once reads each leaf at most about
// 2 * depth * log2(branch) times (24 for depth 4, branch 8).

type auditCountingNumber struct {
	*valueNumber
	reads *int
}

func (c *auditCountingNumber) AsNumber() int32    { *c.reads++; return c.valueNumber.V }
func (c *auditCountingNumber) StripVClock() Value { return Value{c} }

type auditNestedBuilder struct {
	seed   uint32
	reads  int
	leaves int
}

func (b *auditNestedBuilder) build(depth, branch int) Value {
	if depth == 0 {
		b.leaves++
		b.seed = b.seed*1664525 + 1013904223 // (fixed pseudo-random sequence: the elements are not pre-sorted)
		return Value{&auditCountingNumber{&valueNumber{V: int32((b.seed >> 8) % (1 << 20))}, &b.reads}}
	}
	var elems []Value
	for i := 0; i < branch; i++ {
		elems = append(elems, b.build(depth-1, branch))
	}
	return MakeSet(elems...)
}

const auditMaxReadsPerLeaf = 64

func auditMeasure(t *testing.T, what string, op func(set Value)) {
	type row struct {
		depth, leaves, reads int
		elapsed, equal       time.Duration
	}
	var rows []row
	for depth := 1; depth <= 4; depth++ {
		b := &auditNestedBuilder{seed: 1}
		set := b.build(depth, 8)
		other := (&auditNestedBuilder{seed: 1}).build(depth, 8)
		start := time.Now()
		if !set.Equal(other) {
			t.Fatalf("the two builds must be equal")
		}
		equal := time.Since(start)
		b.reads = 0
		start = time.Now()
		op(set)
		rows = append(rows, row{depth, b.leaves, b.reads, time.Since(start), equal})
	}
	for _, r := range rows {
		t.Logf("%s, sets nested %d deep with 8 elements each (%d numbers): the numbers were read %d times (%d per number), %v (Equal on the same value: %v)",
			what, r.depth, r.leaves, r.reads, r.reads/r.leaves, r.elapsed, r.equal)
	}
	last := rows[len(rows)-1]
	if last.reads > auditMaxReadsPerLeaf*last.leaves {
		t.Errorf("%s over a set of %d numbers nested %d deep read the numbers %d times = %d times each (limit for this test: %d each; "+
			"an order that sorts every nested set once needs about 24); the cost per number is multiplied at every level of nesting "+
			"(%d, %d, %d, %d per number at depth 1, 2, 3, 4) because compareCanonical re-sorts both operands on every comparison",
			what, last.leaves, last.depth, last.reads, last.reads/last.leaves, auditMaxReadsPerLeaf,
			rows[0].reads/rows[0].leaves, rows[1].reads/rows[1].leaves, rows[2].reads/rows[2].leaves, rows[3].reads/rows[3].leaves)
	}
}

// regression of 29e98b34: passes on its parent (no comparisons at all there)
func TestAuditQuantifierCostOverNestedSets(t *testing.T) {
	auditMeasure(t, "\\A x \\in S : TRUE", func(set Value) {
		if !QuantifiedUniversal([]Value{set}, func([]Value) bool { return true }).AsBool() {
			t.Fatalf("\\A x \\in S : TRUE must be TRUE")
		}
	})
	auditMeasure(t, "\\E x \\in S : FALSE", func(set Value) {
		if QuantifiedExistential([]Value{set}, func([]Value) bool { return false }).AsBool() {
			t.Fatalf("\\E x \\in S : FALSE must be FALSE")
		}
	})
}

// regression of 40f40a98: passes on its parent (printed forms there)
func TestAuditChooseCostOverNestedSets(t *testing.T) {
	auditMeasure(t, "CHOOSE x \\in S : TRUE", func(set Value) {
		Choose(set, func(Value) bool { return true })
	})
}

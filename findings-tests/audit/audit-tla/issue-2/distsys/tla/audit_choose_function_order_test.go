package tla

import (
	"fmt"
	"testing"
)

// Audit of 40f40a98 ("CHOOSE ... now use an order on values - ... tuples and functions component by component -
// that agrees with TLC's wherever TLC's order is a function of the values"), order inherited by 29e98b34 (CHOOSE,
// \E and \A visit the elements in compareCanonical order, "as TLC does").
//
// For functions (and records) compareCanonical compares key1, value1, key2, value2, ... interleaved.  TLC compares
// the whole DOMAIN first and only then the values (FcnRcdValue.compareTo).  The two differ as soon as two functions
// of the same size have different domains - and then TLC's order is a function of the values alone (numbers, sets
// of numbers as keys), i.e. exactly the case the commit claims to cover.
//
// TLC 2 (tla2tools.jar on this machine), module T EXTENDS Integers, TLC:
//   f == (1 :> 5 @@ 3 :> 0)      g == (1 :> 4 @@ 4 :> 0)
//   h1 == ({1} :> 5 @@ {3} :> 0) h2 == ({1} :> 4 @@ {4} :> 0)
//   CHOOSE x \in {f, g} : TRUE     = (1 :> 5 @@ 3 :> 0)         (also for {g, f})
//   CHOOSE x \in {h1, h2} : TRUE   = ({1} :> 5 @@ {3} :> 0)
//   \E x \in {f, g} : x[3] = 0     = TRUE
//   \E x \in {f, g} : x[4] = 0     fails: "Attempted to apply function (1 :> 5 @@ 3 :> 0) to argument 4, which is
//                                          not in the domain of the function."
//   ToString({g, f})               = "{(1 :> 5 @@ 3 :> 0), (1 :> 4 @@ 4 :> 0)}"
//   CHOOSE x \in {(1 :> 1 @@ 2 :> 9 @@ 7 :> 0), (1 :> 1 @@ 2 :> 8 @@ 9 :> 0), (1 :> 0 @@ 2 :> 8 @@ 10 :> 0)} : TRUE
//                                  = (1 :> 1 @@ 2 :> 9 @@ 7 :> 0)

func auditFn(pairs ...int32) Value {
	var fields []RecordField
	for i := 0; i < len(pairs); i += 2 {
		fields = append(fields, RecordField{Key: MakeNumber(pairs[i]), Value: MakeNumber(pairs[i+1])})
	}
	return MakeRecord(fields)
}

func auditCatch2(f func()) (panicked interface{}) {
	defer func() { panicked = recover() }()
	f()
	return nil
}

func TestAuditChooseAmongFunctionsWithDifferentDomains(t *testing.T) {
	f := auditFn(1, 5, 3, 0)
	g := auditFn(1, 4, 4, 0)
	for _, set := range []Value{MakeSet(f, g), MakeSet(g, f)} {
		chosen := Choose(set, func(Value) bool { return true })
		if !chosen.Equal(f) {
			t.Errorf("CHOOSE x \\in %v : TRUE gave %v; TLC gives %v: it orders functions by their domains first "+
				"({1,3} before {1,4}), and only functions with equal domains by their values", set, chosen, f)
		}
	}

	h1 := MakeRecord([]RecordField{{Key: MakeSet(MakeNumber(1)), Value: MakeNumber(5)}, {Key: MakeSet(MakeNumber(3)), Value: MakeNumber(0)}})
	h2 := MakeRecord([]RecordField{{Key: MakeSet(MakeNumber(1)), Value: MakeNumber(4)}, {Key: MakeSet(MakeNumber(4)), Value: MakeNumber(0)}})
	if chosen := Choose(MakeSet(h1, h2), func(Value) bool { return true }); !chosen.Equal(h1) {
		t.Errorf("CHOOSE x \\in {h1, h2} : TRUE gave %v; TLC gives %v", chosen, h1)
	}

	a := auditFn(1, 1, 2, 9, 7, 0)
	b := auditFn(1, 1, 2, 8, 9, 0)
	c := auditFn(1, 0, 2, 8, 10, 0)
	if chosen := Choose(MakeSet(a, b, c), func(Value) bool { return true }); !chosen.Equal(a) {
		t.Errorf("CHOOSE x \\in {a, b, c} : TRUE gave %v; TLC gives %v (domain {1,2,7} is the least)", chosen, a)
	}
}

func TestAuditToStringOrdersFunctionsLikeTLC(t *testing.T) {
	f := auditFn(1, 5, 3, 0)
	g := auditFn(1, 4, 4, 0)
	// TLC: ToString({g, f}) = "{(1 :> 5 @@ 3 :> 0), (1 :> 4 @@ 4 :> 0)}" (f first); the runtime's syntax differs
	// (parentheses), the element order must not
	expected := "{" + f.String() + ", " + g.String() + "}"
	if actual := ModuleToString(MakeSet(g, f)).AsString(); actual != expected {
		t.Errorf("ToString({g, f}) = %s; in TLC's element order it is %s", actual, expected)
	}
}

// \E x \in {f, g} : x[3] = 0      TLC: visits f first, f[3] = 0 -> TRUE.   Runtime: visits g first, g[3] fails.
func TestAuditExistentialOverFunctionsGivesErrorWhereTLCGivesTrue(t *testing.T) {
	f := auditFn(1, 5, 3, 0)
	g := auditFn(1, 4, 4, 0)
	var result Value
	err := auditCatch2(func() {
		result = QuantifiedExistential([]Value{MakeSet(f, g)}, func(args []Value) bool {
			return ModuleEqualsSymbol(args[0].ApplyFunction(MakeNumber(3)), MakeNumber(0)).AsBool()
		})
	})
	if err != nil {
		t.Fatalf("\\E x \\in {f, g} : x[3] = 0 failed with %q; TLC gives TRUE (it visits f = %v, whose domain {1,3} is "+
			"smaller than g's {1,4}, first)", fmt.Sprint(err), f)
	}
	if !result.Equal(ModuleTRUE) {
		t.Fatalf("expected TRUE, got %v", result)
	}
}

// \E x \in {f, g} : x[4] = 0      TLC: visits f first, f[4] fails.   Runtime: visits g first, g[4] = 0 -> TRUE.
func TestAuditExistentialOverFunctionsGivesTrueWhereTLCFails(t *testing.T) {
	f := auditFn(1, 5, 3, 0)
	g := auditFn(1, 4, 4, 0)
	var result Value
	err := auditCatch2(func() {
		result = QuantifiedExistential([]Value{MakeSet(f, g)}, func(args []Value) bool {
			return ModuleEqualsSymbol(args[0].ApplyFunction(MakeNumber(4)), MakeNumber(0)).AsBool()
		})
	})
	if err == nil {
		t.Fatalf("\\E x \\in {f, g} : x[4] = 0 gave %v; TLC fails (\"Attempted to apply function (1 :> 5 @@ 3 :> 0) to "+
			"argument 4, which is not in the domain of the function\": it visits f before g)", result)
	}
}

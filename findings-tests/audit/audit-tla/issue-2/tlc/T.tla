---- MODULE T ----
EXTENDS Integers, TLC
f == (1 :> 5 @@ 3 :> 0)
g == (1 :> 4 @@ 4 :> 0)
h1 == ({1} :> 5 @@ {3} :> 0)
h2 == ({1} :> 4 @@ {4} :> 0)
ASSUME PrintT(<<"choose fg", CHOOSE x \in {f, g} : TRUE>>)
ASSUME PrintT(<<"choose gf", CHOOSE x \in {g, f} : TRUE>>)
ASSUME PrintT(<<"choose h", CHOOSE x \in {h1, h2} : TRUE>>)
ASSUME PrintT(<<"choose abc", CHOOSE x \in {(1 :> 1 @@ 2 :> 9 @@ 7 :> 0), (1 :> 1 @@ 2 :> 8 @@ 9 :> 0), (1 :> 0 @@ 2 :> 8 @@ 10 :> 0)} : TRUE>>)
ASSUME PrintT(<<"same domain: by values", CHOOSE x \in {(1 :> 5 @@ 3 :> 0), (1 :> 4 @@ 3 :> 7)} : TRUE>>)
ASSUME PrintT(<<"ToString", ToString({g, f})>>)
ASSUME PrintT(<<"E", \E x \in {f, g} : x[3] = 0>>)
ASSUME PrintT(<<"E2", \E x \in {f, g} : x[4] = 0>>)
====

package tla

import (
	"fmt"
	"reflect"
	"testing"
)

// Audit of 29e98b34 ("... quantifiers visited sets in map order ... All three now visit the elements in the order
// of values, as TLC does").  With more than one bound (\E x \in S, y \in T : P) TLC enumerates the FIRST bound
// fastest: (S[1],T[1]), (S[2],T[1]), ..., (S[1],T[2]), ...   The runtime enumerates the LAST bound fastest.  So which
// combination is reached first - the very thing the commit set out to align with TLC - is still different, and a
// predicate that fails on some combinations gives a value where TLC reports an error, and the other way round.
//
// TLC 2 (tla2tools.jar on this machine), module T EXTENDS Integers, TLC:
//   ASSUME PrintT(\E x \in {1,2}, y \in {3,4} : PrintT(<<x,y>>) /\ FALSE)
//     prints <<1, 3>>  <<2, 3>>  <<1, 4>>  <<2, 4>>  FALSE
//   ASSUME PrintT(\E x \in {0,1}, y \in {0,1} : (10 \div (1 - y)) = 10 /\ x = 1)     prints TRUE
//   ASSUME PrintT(\A x \in {0,1}, y \in {0,1} : ~((10 \div (1 - y)) = 10 /\ x = 1))  prints FALSE
//   ASSUME PrintT(\E x \in {0,1}, y \in {0,1} : (10 \div (1 - x)) = 10 /\ y = 1)
//     fails: "The second argument of \div is 0."

func auditNum(i int32) Value { return MakeNumber(i) }

func auditCatch(f func()) (panicked interface{}) {
	defer func() { panicked = recover() }()
	f()
	return nil
}

func TestAuditQuantifierMultiBoundVisitOrder(t *testing.T) {
	// TLC: <<1, 3>> <<2, 3>> <<1, 4>> <<2, 4>>
	expected := []string{"<<1, 3>>", "<<2, 3>>", "<<1, 4>>", "<<2, 4>>"}
	s, u := MakeSet(auditNum(1), auditNum(2)), MakeSet(auditNum(3), auditNum(4))

	var visitedE []string
	QuantifiedExistential([]Value{s, u}, func(args []Value) bool {
		visitedE = append(visitedE, MakeTuple(args...).String())
		return false
	})
	if !reflect.DeepEqual(visitedE, expected) {
		t.Errorf("\\E x \\in {1,2}, y \\in {3,4} : P(x, y) evaluated P in the order %v; TLC evaluates it in the order %v "+
			"(first bound fastest), so a P that fails on some combination fails in one and not in the other", visitedE, expected)
	}

	var visitedA []string
	QuantifiedUniversal([]Value{s, u}, func(args []Value) bool {
		visitedA = append(visitedA, MakeTuple(args...).String())
		return true
	})
	if !reflect.DeepEqual(visitedA, expected) {
		t.Errorf("\\A x \\in {1,2}, y \\in {3,4} : P(x, y) evaluated P in the order %v; TLC evaluates it in the order %v",
			visitedA, expected)
	}
}

// \E x \in {0,1}, y \in {0,1} : (10 \div (1 - y)) = 10 /\ x = 1
// TLC: (0,0) FALSE, (1,0) TRUE -> TRUE.  Runtime: (0,0) FALSE, (0,1) -> division by zero.
func TestAuditExistentialMultiBoundGivesErrorWhereTLCGivesTrue(t *testing.T) {
	s := MakeSet(auditNum(0), auditNum(1))
	var result Value
	err := auditCatch(func() {
		result = QuantifiedExistential([]Value{s, s}, func(args []Value) bool {
			x, y := args[0], args[1]
			return ModuleEqualsSymbol(ModuleDivSymbol(auditNum(10), ModuleMinusSymbol(auditNum(1), y)), auditNum(10)).AsBool() &&
				ModuleEqualsSymbol(x, auditNum(1)).AsBool()
		})
	})
	if err != nil {
		t.Fatalf("\\E x \\in {0,1}, y \\in {0,1} : (10 \\div (1 - y)) = 10 /\\ x = 1 failed with %q; TLC gives TRUE "+
			"(it reaches (x,y) = (1,0), which satisfies the predicate, before (0,1), where the predicate fails)", fmt.Sprint(err))
	}
	if !result.Equal(ModuleTRUE) {
		t.Fatalf("expected TRUE, got %v", result)
	}
}

// \A x \in {0,1}, y \in {0,1} : ~((10 \div (1 - y)) = 10 /\ x = 1)
// TLC: (0,0) TRUE, (1,0) FALSE -> FALSE.  Runtime: (0,0) TRUE, (0,1) -> division by zero.
func TestAuditUniversalMultiBoundGivesErrorWhereTLCGivesFalse(t *testing.T) {
	s := MakeSet(auditNum(0), auditNum(1))
	var result Value
	err := auditCatch(func() {
		result = QuantifiedUniversal([]Value{s, s}, func(args []Value) bool {
			x, y := args[0], args[1]
			return !(ModuleEqualsSymbol(ModuleDivSymbol(auditNum(10), ModuleMinusSymbol(auditNum(1), y)), auditNum(10)).AsBool() &&
				ModuleEqualsSymbol(x, auditNum(1)).AsBool())
		})
	})
	if err != nil {
		t.Fatalf("\\A x \\in {0,1}, y \\in {0,1} : ~((10 \\div (1 - y)) = 10 /\\ x = 1) failed with %q; TLC gives FALSE "+
			"(it reaches the counterexample (1,0) before (0,1), where the predicate fails)", fmt.Sprint(err))
	}
	if !result.Equal(ModuleFALSE) {
		t.Fatalf("expected FALSE, got %v", result)
	}
}

// \E x \in {0,1}, y \in {0,1} : (10 \div (1 - x)) = 10 /\ y = 1
// TLC: (0,0) FALSE, (1,0) -> "The second argument of \div is 0."  Runtime: (0,0) FALSE, (0,1) TRUE -> TRUE.
func TestAuditExistentialMultiBoundGivesTrueWhereTLCFails(t *testing.T) {
	s := MakeSet(auditNum(0), auditNum(1))
	var result Value
	err := auditCatch(func() {
		result = QuantifiedExistential([]Value{s, s}, func(args []Value) bool {
			x, y := args[0], args[1]
			return ModuleEqualsSymbol(ModuleDivSymbol(auditNum(10), ModuleMinusSymbol(auditNum(1), x)), auditNum(10)).AsBool() &&
				ModuleEqualsSymbol(y, auditNum(1)).AsBool()
		})
	})
	if err == nil {
		t.Fatalf("\\E x \\in {0,1}, y \\in {0,1} : (10 \\div (1 - x)) = 10 /\\ y = 1 gave %v; TLC reports \"The second "+
			"argument of \\div is 0\" (it reaches (1,0) before the satisfying (0,1)): the runtime commits a step the "+
			"specification cannot take", result)
	}
}

---- MODULE T ----
EXTENDS Integers, TLC
ASSUME PrintT(<<"E order", \E x \in {1,2}, y \in {3,4} : PrintT(<<x,y>>) /\ FALSE>>)
ASSUME PrintT(<<"A order", \A x \in {1,2}, y \in {3,4} : PrintT(<<x,y>>)>>)
ASSUME PrintT(<<"E", \E x \in {0,1}, y \in {0,1} : (10 \div (1 - y)) = 10 /\ x = 1>>)
ASSUME PrintT(<<"A", \A x \in {0,1}, y \in {0,1} : ~((10 \div (1 - y)) = 10 /\ x = 1)>>)
ASSUME PrintT(<<"E2", \E x \in {0,1}, y \in {0,1} : (10 \div (1 - x)) = 10 /\ y = 1>>)
====

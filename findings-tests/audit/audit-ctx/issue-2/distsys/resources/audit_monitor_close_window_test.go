package resources_test

import (
	"bytes"
	"log"
	"os"
	"testing"

	"github.com/DistCompiler/pgo/distsys/resources"
)

// closeOnListenLog makes the schedule deterministic: ListenAndServe logs "Monitor: started listening"
// between creating its listener and entering the accept loop; the writer runs Close at exactly that point,
// i.e. the schedule "Close lands right after the listener was created".
type closeOnListenLog struct {
	m      *resources.Monitor
	closed bool
}

func (w *closeOnListenLog) Write(p []byte) (int, error) {
	if !w.closed && bytes.Contains(p, []byte("Monitor: started listening")) {
		w.closed = true
		_ = w.m.Close()
	}
	return len(p), nil
}

func TestAuditMonitorCloseRightAfterListen(t *testing.T) {
	m := resources.NewMonitor("localhost:0")
	log.SetOutput(&closeOnListenLog{m: m})
	defer log.SetOutput(os.Stderr)

	var err error
	var panicked interface{}
	func() {
		defer func() { panicked = recover() }()
		err = m.ListenAndServe()
	}()
	if panicked != nil {
		t.Fatalf("ListenAndServe panicked (%v) when Close ran between the creation of the listener and the accept loop: "+
			"the loop's local copy is taken from m.listener, which Close has already set to nil", panicked)
	}
	if err != nil {
		t.Fatalf("ListenAndServe of a closed monitor returned %v, expected nil", err)
	}
}

package resources_test

import (
	"errors"
	"testing"
	"time"

	"github.com/DistCompiler/pgo/distsys"
	"github.com/DistCompiler/pgo/distsys/resources"
	"github.com/DistCompiler/pgo/distsys/tla"
)

// APanic reads the shared variable x (taking its lock) and then hits a TLA+ evaluation error, which
// this runtime raises as a panic (here: a string used as a number).
func auditPanicAfterRead() distsys.MPCalArchetype {
	jumpTable := distsys.MakeMPCalJumpTable(
		distsys.MPCalCriticalSection{
			Name: "APanic.l",
			Body: func(iface distsys.ArchetypeInterface) error {
				x, err := iface.RequireArchetypeResourceRef("APanic.x")
				if err != nil {
					return err
				}
				v, err := iface.Read(x, nil)
				if err != nil {
					return err
				}
				_ = tla.ModulePlusSymbol(v, tla.MakeNumber(1)) // v is a string: panics
				return iface.Goto("APanic.Done")
			},
		},
		distsys.MPCalCriticalSection{
			Name: "APanic.Done",
			Body: func(distsys.ArchetypeInterface) error { return distsys.ErrDone },
		},
	)
	return distsys.MPCalArchetype{
		Name:              "APanic",
		Label:             "APanic.l",
		RequiredRefParams: []string{"APanic.x"},
		JumpTable:         jumpTable,
		ProcTable:         distsys.MakeMPCalProcTable(),
		PreAmble:          func(distsys.ArchetypeInterface) {},
	}
}

var errAuditStillLocked = errors.New("the shared variable is still locked by the archetype that has ended")

// AReader reads the shared variable x and ends. It gives up (with errAuditStillLocked) when the lock could
// not be taken in 10 consecutive attempts: nobody else is running, so the lock should be free at once.
func auditReader(attempts *int) distsys.MPCalArchetype {
	jumpTable := distsys.MakeMPCalJumpTable(
		distsys.MPCalCriticalSection{
			Name: "AReader.l",
			Body: func(iface distsys.ArchetypeInterface) error {
				*attempts++
				if *attempts > 10 {
					return errAuditStillLocked
				}
				x, err := iface.RequireArchetypeResourceRef("AReader.x")
				if err != nil {
					return err
				}
				_, err = iface.Read(x, nil)
				if err != nil {
					return err
				}
				return iface.Goto("AReader.Done")
			},
		},
		distsys.MPCalCriticalSection{
			Name: "AReader.Done",
			Body: func(distsys.ArchetypeInterface) error { return distsys.ErrDone },
		},
	)
	return distsys.MPCalArchetype{
		Name:              "AReader",
		Label:             "AReader.l",
		RequiredRefParams: []string{"AReader.x"},
		JumpTable:         jumpTable,
		ProcTable:         distsys.MakeMPCalProcTable(),
		PreAmble:          func(distsys.ArchetypeInterface) {},
	}
}

func TestAuditPanicInSectionLeavesSharedVariableLocked(t *testing.T) {
	shared := resources.NewLocalSharedManager(tla.MakeString("not a number"),
		resources.WithLocalSharedResourceTimeout(time.Millisecond))

	// the standard deployment: archetypes run under a Monitor, which recovers a panicking archetype,
	// marks it failed and lets the other archetypes of the process go on
	mon := resources.NewMonitor("unused:0")
	ctxA := distsys.NewMPCalContext(tla.MakeNumber(1), auditPanicAfterRead(),
		distsys.EnsureArchetypeRefParam("x", shared.MakeLocalShared()))
	err := mon.RunArchetype(ctxA)
	if err == nil {
		t.Fatalf("test set-up: APanic was expected to end by a (recovered) panic")
	}

	attempts := 0
	ctxB := distsys.NewMPCalContext(tla.MakeNumber(2), auditReader(&attempts),
		distsys.EnsureArchetypeRefParam("x", shared.MakeLocalShared()))
	err = ctxB.Run()
	if errors.Is(err, errAuditStillLocked) {
		t.Fatalf("after APanic's run ended (its resources were closed), AReader could not take the lock of the shared " +
			"variable in 10 attempts: Run closed APanic's resources in the middle of the critical section " +
			"that panicked, without rolling it back, so the lock is held for ever")
	}
	if err != nil {
		t.Fatalf("AReader: unexpected error %v", err)
	}
}

package resources_test

import (
	"errors"
	"fmt"
	"testing"

	"github.com/DistCompiler/pgo/distsys"
	"github.com/DistCompiler/pgo/distsys/resources"
	"github.com/DistCompiler/pgo/distsys/tla"
)

// An archetype whose only section sends one value through a SingleOutputChan and then fails an assertion.
// Run is documented to return ErrAssertionFailed in that case.
func auditSendThenAssert() distsys.MPCalArchetype {
	jumpTable := distsys.MakeMPCalJumpTable(
		distsys.MPCalCriticalSection{
			Name: "ASend.l",
			Body: func(iface distsys.ArchetypeInterface) error {
				out, err := iface.RequireArchetypeResourceRef("ASend.out")
				if err != nil {
					return err
				}
				err = iface.Write(out, nil, tla.MakeNumber(1))
				if err != nil {
					return err
				}
				return fmt.Errorf("%w: FALSE", distsys.ErrAssertionFailed)
			},
		},
		distsys.MPCalCriticalSection{
			Name: "ASend.Done",
			Body: func(distsys.ArchetypeInterface) error { return distsys.ErrDone },
		},
	)
	return distsys.MPCalArchetype{
		Name:              "ASend",
		Label:             "ASend.l",
		RequiredRefParams: []string{"ASend.out"},
		JumpTable:         jumpTable,
		ProcTable:         distsys.MakeMPCalProcTable(),
		PreAmble:          func(distsys.ArchetypeInterface) {},
	}
}

func TestAuditFatalErrorAfterSingleOutputChanSend(t *testing.T) {
	ch := make(chan tla.Value, 1) // room for the one value: the write succeeds at once
	ctx := distsys.NewMPCalContext(tla.MakeString("self"), auditSendThenAssert(),
		distsys.EnsureArchetypeRefParam("out", resources.NewSingleOutputChan(ch)))

	var err error
	var panicked interface{}
	func() {
		defer func() { panicked = recover() }()
		err = ctx.Run()
	}()

	if panicked != nil {
		t.Fatalf("Run panicked (%v) instead of returning the assertion failure: the fatal-error path now calls "+
			"Abort on every resource of the section, and SingleOutputChan.Abort panics once a value was sent", panicked)
	}
	if !errors.Is(err, distsys.ErrAssertionFailed) {
		t.Fatalf("Run returned %v, expected ErrAssertionFailed", err)
	}
}

package resources

import (
	"errors"
	"sync/atomic"
	"testing"
	"time"

	"github.com/DistCompiler/pgo/distsys"
	"github.com/DistCompiler/pgo/distsys/tla"
)

// auditFlakyOnceHandle forwards to inner, except that the first message of type failType is
// not delivered: Send waits until gate is closed and then reports a transport error, exactly
// like RPCReplicaHandle.Send does for its first call after the connection broke
// (rpc.ErrShutdown: "Restart the client now, returning the original error") or for an RPC
// timeout. Every later message is delivered normally.
type auditFlakyOnceHandle struct {
	inner    ReplicaHandle
	failType TwoPCRequestType
	gate     chan struct{}
	failed   atomic.Bool
	sends    atomic.Int32 // number of messages of type failType handed to Send
}

func (h *auditFlakyOnceHandle) Close() error { return nil }

func (h *auditFlakyOnceHandle) Send(request TwoPCRequest, reply *TwoPCResponse) chan error {
	if request.RequestType == h.failType {
		h.sends.Add(1)
		if h.failed.CompareAndSwap(false, true) {
			<-h.gate
			ch := make(chan error, 1)
			ch <- errors.New("connection is shut down")
			return ch
		}
	}
	return h.inner.Send(request, reply)
}

// Audit of 15a7dfab ("2PC resource did not send Commit/Abort to replicas whose sender
// goroutine ran after the version moved on ... stayed locked on the accepted PreCommit").
//
// The commit makes the first send unconditional, but a retry after a failed send is still
// only made while the proposer's version is unchanged. Commit() bumps the version as soon as
// a majority has answered, so a replica whose (only) Commit send hit a transient transport
// error is never told about the decision: it stays on the old version, locked on the accepted
// PreCommit, and every PreCommit of its own archetype fails from then on.
func TestAuditCommitIsRetriedAfterTransientSendError(t *testing.T) {
	initialValue := tla.MakeNumber(42)
	committed := tla.MakeNumber(50)
	iface := distsys.ArchetypeInterface{}

	p := makeUnreplicatedTwoPCNamed(initialValue, "p")
	r1 := makeUnreplicatedTwoPCNamed(initialValue, "r1")
	r2 := makeUnreplicatedTwoPCNamed(initialValue, "r2")

	gate := make(chan struct{})
	flaky := &auditFlakyOnceHandle{inner: makeLocalReplicaHandle(r2), failType: Commit, gate: gate}
	p.SetReplicas([]ReplicaHandle{makeLocalReplicaHandle(r1), flaky})
	r1.SetReplicas([]ReplicaHandle{makeLocalReplicaHandle(p), makeLocalReplicaHandle(r2)})
	r2.SetReplicas([]ReplicaHandle{makeLocalReplicaHandle(p), makeLocalReplicaHandle(r1)})

	// p runs one critical section: both replicas accept the PreCommit
	if err := p.WriteValue(iface, committed); err != nil {
		t.Fatalf("unexpected WriteValue error: %v", err)
	}
	if err := <-p.PreCommit(iface); err != nil {
		t.Fatalf("unexpected PreCommit error: %v", err)
	}
	if r2.twoPCState != acceptedPreCommit {
		t.Fatalf("test setup: r2 should have accepted p's PreCommit, its 2PC state is %s", r2.twoPCState)
	}
	// Commit returns once a majority (r1) has acknowledged; the send to r2 is still pending
	p.Commit(iface)
	if p.version != 1 {
		t.Fatalf("test setup: p should be at version 1 after Commit, is at %d", p.version)
	}
	// now the pending send to r2 fails once with a transport error
	close(gate)
	// once no request of p is in flight any more, whatever p is going to do about r2 has been done
	// (this is a terminal condition, not a timing assumption: the sender goroutine of r2 ends either
	// after it has delivered the Commit or after it has given up)
	deadline := time.Now().Add(60 * time.Second)
	for {
		p.enterMutex("audit", read)
		inFlight := p.numInFlightRequests
		p.leaveMutex("audit", read)
		if inFlight == 0 {
			break
		}
		if time.Now().After(deadline) {
			t.Fatalf("p still has %d requests in flight", inFlight)
		}
		time.Sleep(10 * time.Millisecond)
	}

	r2.enterMutex("audit", read)
	version, value, state := r2.version, r2.value, r2.twoPCState
	r2.leaveMutex("audit", read)
	if version != 1 || !value.Equal(committed) || state != initial {
		t.Errorf("p committed %v as version 1 with r2's accepted PreCommit, the one Commit send to r2 failed "+
			"with a transient transport error, and p never retried it (Commit messages handed to r2's "+
			"handle: %d) because p's own version had already moved on: r2 is at version %d with value %v "+
			"in 2PC state %s (want version 1, value %v, state initial)",
			committed, flaky.sends.Load(), version, value, state, committed)
	}

	// consequence: r2's own archetype can never commit anything again (livelock: it retries forever)
	for attempt := 1; attempt <= 3; attempt++ {
		v, err := r2.ReadValue(iface)
		if err == nil {
			err = r2.WriteValue(iface, tla.MakeNumber(v.AsNumber()+1))
		}
		if err == nil {
			err = <-r2.PreCommit(iface)
		}
		if err != nil {
			r2.Abort(iface)
			if attempt == 3 {
				t.Errorf("r2's own critical section was aborted %d times in a row (%v) although no other "+
					"proposal is in progress: r2 is still locked on p's PreCommit of the already committed version 1",
					attempt, err)
			}
			continue
		}
		r2.Commit(iface)
		break
	}
}

package resources

import (
	"net"
	"net/rpc"
	"sync/atomic"
	"testing"
	"time"

	"github.com/DistCompiler/pgo/distsys"
	"github.com/DistCompiler/pgo/distsys/tla"
)

// gatedCRDTReceiver stands between node A and the real node B. It is registered under the RPC
// service name of the real receiver and forwards every call to B's real receiver, but lets the test
// hold one call "on the wire" so that a chosen step of A's schedule happens while A's broadcast
// round is in flight.
type gatedCRDTReceiver struct {
	target  *CRDTRPCReceiver
	hold    atomic.Bool
	entered chan struct{}
	release chan struct{}
	calls   atomic.Int32
}

func (g *gatedCRDTReceiver) ReceiveValue(args ReceiveValueArgs, reply *ReceiveValueResp) error {
	g.calls.Add(1)
	if g.hold.CompareAndSwap(true, false) {
		g.entered <- struct{}{}
		<-g.release
	}
	return g.target.ReceiveValue(args, reply)
}

func freeLocalAddr(t *testing.T) string {
	l, err := net.Listen("tcp", "127.0.0.1:0")
	if err != nil {
		t.Fatal(err)
	}
	defer l.Close()
	return l.Addr().String()
}

// A committed section that lands while a broadcast round of the same node is in flight must still
// be broadcast by a later round (C13: every committed update eventually reaches every connected peer).
func TestCRDTCommitDuringInFlightBroadcast(t *testing.T) {
	idA, idB := tla.MakeNumber(1), tla.MakeNumber(2)
	addrA, addrB, addrGate := freeLocalAddr(t), freeLocalAddr(t), freeLocalAddr(t)
	never := WithCRDTBroadcastInterval(24 * time.Hour) // the test drives the broadcast rounds itself

	// node B: a real CRDT resource whose only peer is A
	b := NewCRDT(idB, []tla.Value{idA}, func(id tla.Value) string {
		if id.Equal(idA) {
			return addrA
		}
		return addrB
	}, GCounter{}, never).(*crdt)

	// the gate in front of B
	gate := &gatedCRDTReceiver{
		target:  &CRDTRPCReceiver{crdt: b},
		entered: make(chan struct{}),
		release: make(chan struct{}),
	}
	gateServer := rpc.NewServer()
	if err := gateServer.RegisterName("CRDTRPCReceiver", gate); err != nil {
		t.Fatal(err)
	}
	gateListener, err := net.Listen("tcp", addrGate)
	if err != nil {
		t.Fatal(err)
	}
	defer gateListener.Close()
	go gateServer.Accept(gateListener)

	// node A: a real CRDT resource whose only peer is B, reached through the gate
	a := NewCRDT(idA, []tla.Value{idB}, func(id tla.Value) string {
		if id.Equal(idB) {
			return addrGate
		}
		return addrA
	}, GCounter{}, never).(*crdt)

	// (*crdt).Close waits for the next broadcast tick, which never comes here: only free the ports
	defer a.listener.Close()
	defer b.listener.Close()

	iface := distsys.ArchetypeInterface{}
	section := func(res *crdt) {
		if err := res.WriteValue(iface, tla.MakeNumber(1)); err != nil {
			t.Fatal(err)
		}
		if ch := res.PreCommit(iface); ch != nil {
			if err := <-ch; err != nil {
				t.Fatal(err)
			}
		}
		if ch := res.Commit(iface); ch != nil {
			<-ch
		}
	}

	// 1. A commits a first increment
	section(a)

	// 2. a broadcast tick on A; its RPC to B is held on the wire
	gate.hold.Store(true)
	roundDone := make(chan struct{})
	go func() {
		a.broadcast()
		close(roundDone)
	}()
	<-gate.entered

	// 3. while that round is in flight, A commits a second increment
	section(a)

	// 4. the held RPC is delivered and acknowledged, the round ends
	close(gate.release)
	<-roundDone

	// 5. updates have stopped; let plenty of further broadcast ticks happen on both nodes
	for i := 0; i < 5; i++ {
		a.broadcast()
		b.broadcast()
	}

	want := tla.MakeNumber(2)
	read := func(res *crdt) tla.Value {
		v, err := res.ReadValue(iface)
		if err != nil {
			t.Fatal(err)
		}
		return v
	}
	if got := read(a); !got.Equal(want) {
		t.Fatalf("node A reads %v, expected %v", got, want)
	}
	// B's merger goroutine applies received states asynchronously: give it time (it needs none
	// when nothing was sent)
	deadline := time.Now().Add(3 * time.Second)
	for !read(b).Equal(want) && time.Now().Before(deadline) {
		time.Sleep(5 * time.Millisecond)
	}
	if got := read(b); !got.Equal(want) {
		t.Fatalf("committed update lost: after updates stopped and %d RPCs from A reached B, node A reads %v but node B reads %v",
			gate.calls.Load(), read(a), got)
	}

}

//go:build verif

package distsys

// Accessors for the Run/Stop lifecycle check (C17).  Added by /verif through a build overlay; never
// compiled without the verif tag.  Nothing here changes the behaviour of the code under test.

// VerifRunStateLockHeld reports whether runStateLock is held right now (TryLock probe, released at
// once).  Only called by the C17 scheduler while every goroutine of the execution is blocked, so
// a held lock means: held by a goroutine that is blocked while holding it.
func (ctx *MPCalContext) VerifRunStateLockHeld() bool {
	if ctx.runStateLock.TryLock() {
		ctx.runStateLock.Unlock()
		return false
	}
	return true
}

// VerifDrainRequestExit is a teardown seam: it takes one pending token out of requestExit (if
// any) so that a Stop call stuck on the full channel can finish and the goroutines of an execution
// that has ALREADY been judged can exit.  Never called before the verdict of an execution.
func (ctx *MPCalContext) VerifDrainRequestExit() bool {
	ch := ctx.requestExit
	if ch == nil {
		return false
	}
	select {
	case <-ch:
		return true
	default:
		return false
	}
}

//go:build verif

package resources

import "github.com/DistCompiler/pgo/distsys/tla"

// VerifBuffered is a read-only view of an InputChan's private queues: buffer = inputs handed back by aborted
// sections and not yet re-read, backlog = inputs consumed by the section in flight.  Added by /verif through a
// build overlay (harness C01/C18); never compiled without the verif tag.  Must only be called while the
// archetype's Run goroutine is parked or has returned.
func (res *InputChan) VerifBuffered() (buffer, backlog []tla.Value) {
	return append([]tla.Value(nil), res.buffer...), append([]tla.Value(nil), res.backlogBuffer...)
}

// VerifLocked tells whether the shared variable's lock is currently held by some localShared handle.
func (sv *LocalSharedManager) VerifLocked() bool { return len(sv.lockCh) > 0 }

// VerifC01State is a read-only view of the 2PC variable behind a receiver: current and last committed value and
// whether a critical section is open (harness C01).
func (rcvr *TwoPCReceiver) VerifC01State() (value, oldValue tla.Value, inCriticalSection bool) {
	t := rcvr.twopc
	t.enterMutex("VerifC01State", read)
	defer t.leaveMutex("VerifC01State", read)
	return t.value, t.oldValue, t.criticalSectionState != notInCriticalSection
}

// VerifPendingAnswers is the number of answers of the nested system that wait in the resource's receive buffer
// (capacity 1): lets harness C01 see that a late answer to a timed-out request is already buffered.
func (res *nestedArchetype) VerifPendingAnswers() int { return len(res.receiveCh) }

//go:build verif

package resources

// Read-only accessors and a teardown seam for the TCP / relaxed mailboxes (C06).  Added by /verif
// through a build overlay; never compiled without the verif tag.  The dumps only read fields
// (the caller guarantees no receiver-side operation is in flight; len() of a channel is always safe);
// VerifMboxShutdown is a teardown that skips the 500 ms sleep of tcpMailboxesLocal.Close and is
// only ever called after the last judged operation of an execution.

import (
	"github.com/DistCompiler/pgo/distsys"
	"github.com/DistCompiler/pgo/distsys/tla"
)

// VerifMboxDump is the receiver-side state of one local mailbox.
type VerifMboxDump struct {
	Kind       string // "tcp" | "relaxed"
	Addr       string // the address the listener is really bound to
	ChanLen    int    // committed, undelivered batches (tcp) / messages (relaxed) in msgChannel
	ChanCap    int
	Backlog    []tla.Value // to redeliver first
	InProgress []tla.Value // consumed by the section in flight
}

// VerifMboxLocal dumps a local mailbox (an element of a Mailboxes collection).
func VerifMboxLocal(res distsys.ArchetypeResource) (d VerifMboxDump, ok bool) {
	switch r := res.(type) {
	case *tcpMailboxesLocal:
		d = VerifMboxDump{Kind: "tcp", Addr: r.listener.Addr().String(), ChanLen: len(r.msgChannel), ChanCap: cap(r.msgChannel)}
		d.Backlog = append(d.Backlog, r.readBacklog...)
		d.InProgress = append(d.InProgress, r.readsInProgress...)
		return d, true
	case *relaxedMailboxesLocal:
		d = VerifMboxDump{Kind: "relaxed", Addr: r.listener.Addr().String(), ChanLen: len(r.msgChannel), ChanCap: cap(r.msgChannel)}
		d.Backlog = append(d.Backlog, r.readBacklog...)
		d.InProgress = append(d.InProgress, r.readsInProgress...)
		return d, true
	}
	return d, false
}

// VerifMboxChanLen is the one accessor that may be called while a receiver operation is in flight.
func VerifMboxChanLen(res distsys.ArchetypeResource) int {
	switch r := res.(type) {
	case *tcpMailboxesLocal:
		return len(r.msgChannel)
	case *relaxedMailboxesLocal:
		return len(r.msgChannel)
	}
	return -1
}

// VerifMboxRemote dumps the sender-side record of the batch in flight.
func VerifMboxRemote(res distsys.ArchetypeResource) (connOpen, inCriticalSection bool, resendLen int, ok bool) {
	switch r := res.(type) {
	case *tcpMailboxesRemote:
		return r.conn != nil, r.inCriticalSection, len(r.resendBuffer), true
	case *relaxedMailboxesRemote:
		return r.conn != nil, r.hasSent, 0, true
	}
	return false, false, 0, false
}

// VerifMboxShutdown tears a local mailbox down without the 500 ms grace sleep of
// tcpMailboxesLocal.Close (signal done, then close the listener - the same two steps Close performs).
func VerifMboxShutdown(res distsys.ArchetypeResource) {
	switch r := res.(type) {
	case *tcpMailboxesLocal:
		r.lock.Lock()
		r.closing = true
		r.lock.Unlock()
		close(r.done)
		_ = r.listener.Close()
	case *relaxedMailboxesLocal:
		close(r.done)
		_ = r.listener.Close()
	}
}

//go:build verif

package resources

// Read-only accessors for the failure detector (C19).  Added by /verif through a build overlay;
// never compiled without the verif tag.  Nothing here changes the behaviour of the code under test.

import "github.com/DistCompiler/pgo/distsys"

// VerifFDState returns the last poll outcome of a single failure detector
// ("uninitialized", "alive", "failed", "finished", "unknown"), read under the detector's own lock.
func VerifFDState(res distsys.ArchetypeResource) string {
	fd, ok := res.(*SingleFailureDetector)
	if !ok {
		return "<not a SingleFailureDetector>"
	}
	return fd.getState().String()
}

// VerifMonitorState returns what the monitor currently records for an archetype ("" when unknown).
func VerifMonitorState(m *Monitor, id interface{ String() string }) string {
	m.lock.RLock()
	defer m.lock.RUnlock()
	for _, k := range m.states.Keys() {
		if k.String() == id.String() {
			st, _ := m.states.Get(k)
			return st.String()
		}
	}
	return ""
}

// VerifFDConnected reports whether the detector's poll loop has established a connection to its monitor.
// (An unsynchronised one-word read of a pointer that only the poll loop writes; used only to serialise the driver.)
func VerifFDConnected(res distsys.ArchetypeResource) bool {
	fd, ok := res.(*SingleFailureDetector)
	return ok && fd.client != nil
}

// VerifFDClosed reports whether Close has been called on the detector (its poll loop has been told to exit).
func VerifFDClosed(res distsys.ArchetypeResource) bool {
	fd, ok := res.(*SingleFailureDetector)
	if !ok {
		return false
	}
	if !fd.execLock.TryRLock() {
		return true // Close holds the lock while it waits for the poll loop to exit
	}
	defer fd.execLock.RUnlock()
	return fd.closing
}

//go:build verif

package resources

// Read-only accessors and test seams for the CRDT value types and the CRDT resource (C12, C13).
// Added by /verif through a build overlay; never compiled without the verif tag.  Nothing here
// changes the behaviour of the code under test: canonical renderings only read state, the dump
// only reads state under the resource's own locks, VerifCRDTBroadcastOnce calls the unchanged
// private broadcast() exactly as the ticker loop does, and VerifCRDTShutdown is a teardown that
// does not wait for the ticker (crdt.Close would block until the next tick).

import (
	"fmt"
	"sort"
	"strings"
	"time"

	"github.com/DistCompiler/pgo/distsys"
	"github.com/DistCompiler/pgo/distsys/tla"
	"github.com/benbjohnson/immutable"
)

func verifCanonGCounter(c GCounter) string {
	if c.Map == nil {
		return "<nil>"
	}
	var parts []string
	it := c.Iterator()
	for !it.Done() {
		k, v, _ := it.Next()
		parts = append(parts, fmt.Sprintf("%s:%d", k.String(), v))
	}
	sort.Strings(parts)
	return "{" + strings.Join(parts, ",") + "}"
}

func verifCanonVCMap(m *immutable.Map[tla.Value, vclock]) string {
	if m == nil {
		return "<nil>"
	}
	var parts []string
	it := m.Iterator()
	for !it.Done() {
		k, v, _ := it.Next()
		parts = append(parts, k.String()+"="+verifCanonGCounter(v))
	}
	sort.Strings(parts)
	return "[" + strings.Join(parts, " ") + "]"
}

// VerifLWWEntry is one element of an LWWSet's add or remove map.
type VerifLWWEntry struct {
	Elem string
	Nano int64
}

func verifLWWEntries(s LWWSet, add bool) []VerifLWWEntry {
	m := s.remSet
	if add {
		m = s.addSet
	}
	var out []VerifLWWEntry
	if m == nil {
		return out
	}
	it := m.Iterator()
	for !it.Done() {
		k, v, _ := it.Next()
		out = append(out, VerifLWWEntry{Elem: k.String(), Nano: v.UnixNano()})
	}
	sort.Slice(out, func(i, j int) bool { return out[i].Elem < out[j].Elem })
	return out
}

// VerifLWWEntries returns the (element, timestamp) pairs of the add map and of the remove map, sorted by element.
func VerifLWWEntries(v CRDTValue) (add, rem []VerifLWWEntry) {
	s := v.(LWWSet)
	return verifLWWEntries(s, true), verifLWWEntries(s, false)
}

// VerifCRDTCanon renders the complete internal state of a CRDT value in a canonical
// (iteration-order independent) form.  Two values have the same rendering iff their internal
// maps have the same content.
func VerifCRDTCanon(v CRDTValue) string {
	switch x := v.(type) {
	case nil:
		return "<nil>"
	case GCounter:
		return "G" + verifCanonGCounter(x)
	case AWORSet:
		return "A add" + verifCanonVCMap(x.addMap) + " rem" + verifCanonVCMap(x.remMap)
	case LWWSet:
		var b strings.Builder
		b.WriteString("L add[")
		for i, e := range verifLWWEntries(x, true) {
			if i > 0 {
				b.WriteString(" ")
			}
			fmt.Fprintf(&b, "%s@%d", e.Elem, e.Nano)
		}
		b.WriteString("] rem[")
		for i, e := range verifLWWEntries(x, false) {
			if i > 0 {
				b.WriteString(" ")
			}
			fmt.Fprintf(&b, "%s@%d", e.Elem, e.Nano)
		}
		b.WriteString("]")
		return b.String()
	default:
		return fmt.Sprintf("?%T:%v", v, v)
	}
}

// VerifCRDTDump is a snapshot of the private state of a CRDT resource.
type VerifCRDTDump struct {
	Value              CRDTValue
	OldValue           CRDTValue
	HasOldValue        bool
	NeedBroadcastCount int
	MergeQueueLen      int
	Peers              int
}

// VerifCRDTDumpOf reads the private state of a resource created by NewCRDT (values are immutable).
func VerifCRDTDumpOf(r distsys.ArchetypeResource) VerifCRDTDump {
	res := r.(*crdt)
	var d VerifCRDTDump
	res.stateLock.RLock()
	d.Value, d.OldValue, d.HasOldValue = res.value, res.oldValue, res.hasOldValue
	res.stateLock.RUnlock()
	res.needBroadcastLock.Lock()
	d.NeedBroadcastCount = res.needBroadcastCount
	res.needBroadcastLock.Unlock()
	d.MergeQueueLen = len(res.mergeValues)
	d.Peers = len(res.peerIds)
	return d
}

// VerifCRDTMergeQueueLen is len(mergeValues): received states not yet taken by the merger goroutine.
func VerifCRDTMergeQueueLen(r distsys.ArchetypeResource) int { return len(r.(*crdt).mergeValues) }

// VerifCRDTBroadcastOnce is one broadcast tick: exactly what runBroadcasts does when its ticker fires.
func VerifCRDTBroadcastOnce(r distsys.ArchetypeResource) { r.(*crdt).broadcast() }

// VerifCRDTShutdown tears an instance down without waiting for the broadcast ticker: it stops the
// merger goroutine and closes the listener and the client connections.  The runBroadcasts goroutine
// stays parked on its ticker and is abandoned (the harness worker process exits soon after).
func VerifCRDTShutdown(r distsys.ArchetypeResource) {
	res := r.(*crdt)
	defer func() { _ = recover() }()
	close(res.closeChan)
	_ = res.listener.Close()
	for _, id := range res.conns.Keys() {
		if cl, ok := res.conns.Get(id); ok && cl != nil {
			_ = cl.Close()
		}
	}
}

// VerifCRDTReceiver returns the RPC receiver NewCRDT registers for the instance (the same type and
// the same instance state), so that a harness can put a gate in front of a real peer: the gate is an
// RPC service that forwards every call to this receiver's unchanged ReceiveValue.
func VerifCRDTReceiver(r distsys.ArchetypeResource) *CRDTRPCReceiver {
	return &CRDTRPCReceiver{crdt: r.(*crdt)}
}

// VerifLWWShift returns a copy of an LWWSet in which every time stamp is moved by d.  A replica whose
// clock is d ahead is emulated as shift(+d) . Write . shift(-d): Write itself (and its time.Now()) is
// the unchanged code.
func VerifLWWShift(v CRDTValue, d time.Duration) CRDTValue {
	s := v.(LWWSet)
	shift := func(m *immutable.Map[tla.Value, time.Time]) *immutable.Map[tla.Value, time.Time] {
		b := immutable.NewMapBuilder[tla.Value, time.Time](tla.ValueHasher{})
		it := m.Iterator()
		for !it.Done() {
			k, t, _ := it.Next()
			b.Set(k, t.Add(d))
		}
		return b.Map()
	}
	return LWWSet{addSet: shift(s.addSet), remSet: shift(s.remSet)}
}

//go:build verif

package resources

// Test seam for the Run/Stop/Close lifecycle check (C17).  Added by /verif through a build overlay; never
// compiled without the verif tag.  Nothing here changes the behaviour of the code under test.

import (
	"time"

	"github.com/DistCompiler/pgo/distsys/tla"
)

// VerifNewUnreplicatedTwoPC builds a 2PC resource without replicas and WITHOUT the RPC listener that NewTwoPC
// starts (a listener cannot live inside a synctest bubble); field for field what the repository's own tests do in
// makeUnreplicatedTwoPCNamed.  All resource methods are the unchanged ones.
func VerifNewUnreplicatedTwoPC(value tla.Value, name string) *TwoPCArchetypeResource {
	return &TwoPCArchetypeResource{
		value:                value,
		oldValue:             value,
		criticalSectionState: notInCriticalSection,
		twoPCState:           initial,
		replicas:             []ReplicaHandle{},
		logLevel:             defaultLogLevel,
		archetypeID:          tla.MakeString(name),
		timers:               make(map[string]time.Time),
		version:              0,
		senderTimes:          make(map[tla.Value]int64),
	}
}

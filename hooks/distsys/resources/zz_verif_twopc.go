//go:build verif

package resources

// Read-only accessors and one additive seam for the two-phase-commit resource (C11).
// Added by /verif through a build overlay; never compiled without the verif tag.  Nothing here
// changes the behaviour of the code under test:
//   - VerifTwoPCDumpOf only reads private state under the resource's own read lock;
//   - VerifTwoPCLocalHandle builds the unchanged LocalReplicaHandle (its only field is private, so
//     a harness outside this package cannot construct the real in-process transport otherwise);
//   - VerifTwoPCResource returns the resource behind a receiver (what NewTwoPC already returns).

import (
	"github.com/DistCompiler/pgo/distsys/tla"
)

// VerifTwoPCDump is a snapshot of the private protocol state of one 2PC node.
type VerifTwoPCDump struct {
	Version           int
	Value             tla.Value
	OldValue          tla.Value
	CSState           string
	TwoPCState        string
	AcceptedPreCommit bool         // TwoPCState == acceptedPreCommit
	Accepted          TwoPCRequest // the accepted pre-commit message (meaningful only if AcceptedPreCommit)
	PrecommitAttempts int
	NumInFlight       int
	Closed            bool
}

// VerifTwoPCDumpOf reads the private state of the node behind rcvr.
func VerifTwoPCDumpOf(rcvr *TwoPCReceiver) VerifTwoPCDump {
	res := rcvr.twopc
	res.mutex.RLock()
	defer res.mutex.RUnlock()
	d := VerifTwoPCDump{
		Version:           res.version,
		Value:             res.value,
		OldValue:          res.oldValue,
		CSState:           res.criticalSectionState.String(),
		TwoPCState:        res.twoPCState.String(),
		AcceptedPreCommit: res.twoPCState == acceptedPreCommit,
		Accepted:          res.acceptedPreCommit,
		PrecommitAttempts: res.precommitAttempts,
		NumInFlight:       res.numInFlightRequests,
		Closed:            res.closed,
	}
	return d
}

// VerifTwoPCSenderTimeMax returns the largest time recorded in senderTimes under a key that is
// Equal (TLA+ equality) to sender; the real lookup in Receive is by Go map-key identity of tla.Value,
// which this does not emulate (it is used for state fingerprints only).
func VerifTwoPCSenderTimeMax(rcvr *TwoPCReceiver, sender tla.Value) (int64, bool) {
	res := rcvr.twopc
	res.mutex.RLock()
	defer res.mutex.RUnlock()
	var max int64
	found := false
	for k, t := range res.senderTimes {
		if k.Equal(sender) && (!found || t > max) {
			max, found = t, true
		}
	}
	return max, found
}

// VerifTwoPCResource returns the resource served by rcvr.
func VerifTwoPCResource(rcvr *TwoPCReceiver) *TwoPCArchetypeResource { return rcvr.twopc }

// VerifTwoPCLocalHandle returns the repository's in-process transport to the node behind rcvr.
func VerifTwoPCLocalHandle(rcvr *TwoPCReceiver) ReplicaHandle {
	return LocalReplicaHandle{receiver: rcvr.twopc}
}

// VerifTwoPCFilterHalf and VerifTwoPCInternalHalf let a harness run the two critical sections of
// receiveFiltered as two separate steps (two Receive calls that run concurrently on one replica interleave
// exactly there: the first section ends with leaveMutex, the second starts with receiveInternal's
// enterMutex).  InternalHalf calls the unchanged receiveInternal.  FilterHalf is a transcription of the
// first section of receiveFiltered (the only code in this file that repeats repository code); the C11
// harness compares the text of receiveFiltered with the text this was transcribed from and skips its
// split-receive configurations when they differ (VerifTwoPCFilterHalfSource).
func VerifTwoPCFilterHalf(rcvr *TwoPCReceiver, arg TwoPCRequest, reply *TwoPCResponse) (ignoredAsOld bool) {
	twopc := rcvr.twopc
	twopc.enterMutex("CheckSenderTime", write)
	senderKey := twopc.senderKey(arg.Sender)
	if twopc.senderTimes[senderKey] > arg.SenderTime {
		twopc.log(infoLevel, "Ignore old message %v", arg)
		*reply = makeAccept()
		twopc.leaveMutex("CheckSenderTime", write)
		return true
	}
	twopc.senderTimes[senderKey] = arg.SenderTime
	twopc.leaveMutex("CheckSenderTime", write)
	return false
}

// VerifTwoPCInternalHalf is the second critical section of receiveFiltered.
func VerifTwoPCInternalHalf(rcvr *TwoPCReceiver, arg TwoPCRequest, reply *TwoPCResponse) error {
	return rcvr.twopc.receiveInternal(arg, reply)
}

// VerifTwoPCFilterHalfSource is the body of receiveFiltered that VerifTwoPCFilterHalf was transcribed from,
// comments and white space removed.
const VerifTwoPCFilterHalfSource = `func(twopc*TwoPCArchetypeResource)receiveFiltered(argTwoPCRequest,reply*TwoPCResponse)error{twopc.enterMutex("CheckSenderTime",write)senderKey:=twopc.senderKey(arg.Sender)iftwopc.senderTimes[senderKey]>arg.SenderTime{twopc.log(infoLevel,"Ignoreoldmessage%v",arg)*reply=makeAccept()twopc.leaveMutex("CheckSenderTime",write)returnnil}else{twopc.senderTimes[senderKey]=arg.SenderTimetwopc.leaveMutex("CheckSenderTime",write)}returntwopc.receiveInternal(arg,reply)}`

// VerifTwoPCRollbackWithWindow is a transcription of rollback() with a callback between its two steps
// (the Abort is built under the read lock; broadcastAbortOrCommit then reads res.version again without
// the lock).  Used only by a development test that shows what happens when a Commit is installed in that
// window; no configuration of the C11 check uses it.
func VerifTwoPCRollbackWithWindow(rcvr *TwoPCReceiver, window func()) {
	res := rcvr.twopc
	res.enterMutex("rollback", read)
	request := res.makeAbort()
	res.leaveMutex("rollback", read)
	window()
	res.broadcastAbortOrCommit(request)
}

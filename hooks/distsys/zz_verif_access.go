//go:build verif

package distsys

import "github.com/DistCompiler/pgo/distsys/tla"

// VerifLocals is a read-only dump of every local state variable (LocalArchetypeResource) of the
// context, including ".pc" and ".stack".  Added by /verif through a build overlay; never compiled
// without the verif tag.  Must only be called while the Run goroutine is parked or has returned.
func (ctx *MPCalContext) VerifLocals() map[string]tla.Value {
	out := make(map[string]tla.Value, len(ctx.resources))
	for h, r := range ctx.resources {
		if l, ok := r.(*LocalArchetypeResource); ok {
			out[string(h)] = l.value
		}
	}
	return out
}

// VerifDirtyCount reports how many resources are marked as touched by the section in flight.
func (ctx *MPCalContext) VerifDirtyCount() int { return len(ctx.dirtyResourceHandles) }

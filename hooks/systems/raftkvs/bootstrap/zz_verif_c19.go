//go:build verif

package bootstrap

// Read-only accessors for C19's shared-detector configurations.  Added by /verif through a build overlay; never compiled
// without the verif tag.  Nothing here changes the behaviour of the code under test.

import (
	"github.com/DistCompiler/pgo/distsys"
	"github.com/DistCompiler/pgo/distsys/resources"
	"github.com/DistCompiler/pgo/distsys/tla"
	"github.com/DistCompiler/pgo/systems/raftkvs/configs"
)

// VerifClientDetector returns the failure detector object that getFailureDetector hands to every client archetype of
// the process for server idx (nil if none has been created yet).
func VerifClientDetector(idx tla.Value) distsys.ArchetypeResource {
	lock.Lock()
	defer lock.Unlock()
	res, ok := fdMap.Get(idx)
	if !ok {
		return nil
	}
	return res
}

// VerifNewSingleFD is newSingleFD: a fresh, private detector built exactly as the bootstrap code builds them (control).
func VerifNewSingleFD(c configs.Root, idx tla.Value) *resources.SingleFailureDetector {
	return newSingleFD(c, idx)
}

//go:build verif

package raftkvs

import "github.com/DistCompiler/pgo/distsys/tla"

// VerifBuffered is a read-only view of a CustomInChan's private queues (see the accessor of the same name on
// resources.InputChan).  Added by /verif through a build overlay (harness C01); never compiled without the verif tag.
func (res *CustomInChan) VerifBuffered() (buffer, backlog []tla.Value) {
	return append([]tla.Value(nil), res.buffer...), append([]tla.Value(nil), res.backlogBuffer...)
}

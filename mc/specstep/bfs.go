package specstep

import (
	"os"
	"fmt"
	"sort"
	"strings"
	"sync"
	"sync/atomic"
	"time"
)

// Move identifies one transition: process index + the picks at its choice points.
type Move struct {
	P     int
	Picks []uint8
}

func (m Move) ints() []int {
	r := make([]int, len(m.Picks))
	for i, x := range m.Picks {
		r[i] = int(x)
	}
	return r
}

// Violation found by the search.
type Violation struct {
	Key   string
	What  string
	Path  []Move   // from the initial state
	Trace []string // rendered steps
}

// BFSOptions bound and instrument a search.
type BFSOptions struct {
	Workers    int
	MaxStates  int
	MaxDepth   int
	Deadline   time.Time
	Constraint func(s *State) bool                          // expand only states satisfying it (nil = all)
	Invariants []func(s *State) (key, what string)           // state invariants ("" = holds)
	EdgeInvs   []func(s *State, p int, a *Attempt) (key, what string) // transition predicates (a.Kind==Commit or Failed)
	FailedIsViolation bool                                  // an error/panic edge is itself a violation (assertions of the spec)
	KeepGraph  bool                                         // record states and edges (for graph comparison)
	MaxViol    int
	NoMemo     bool // execute the real code for every attempt (no transition memoisation)
	MaxDev     int // deviation budget per execution (0 = default environment answers only); the search is breadth first over (state, deviations used)
}

// Edge of the recorded graph.
type Edge struct {
	From, To int32
	P        int
	Err      string // non-empty: error edge (To = -1)
}

// BFSResult is what a search covered.
type BFSResult struct {
	States, Transitions, Disabled, ErrorEdges int64
	Depth                                     int
	Exhaustive                                bool
	Cap                                       string
	Violations                                []*Violation
	Leaves                                    []int32 // ids of BFS-tree leaves (for conformance replay)
	parent                                    []int32
	move                                      []Move
	GraphStates                               []*State // if KeepGraph
	GraphEdges                                []Edge
	NotExpanded                               int64 // states outside the constraint
	DistinctStates                            int64 // delay-bounded search: distinct system states among the nodes
	DevRounds                                 []int64 // states first reached with exactly d deviations
	Reexpanded                                int64   // states reached again with fewer deviations (expanded again)
	OverBudget                                int64   // transitions not taken because they exceed MaxDev
	MemoHits, MemoMisses, MemoChecks, MemoMismatch int64
	MemoFirstMismatch                         string
	Unconfirmed                               int64 // violations that did not reproduce on the real code without the memo (never reported)
	WallS                                     float64
	sys                                       *System
}

type shardT struct {
	mu sync.Mutex
	m  map[[16]byte]int32
}

// BFS explores all states reachable from sys.Init (= sys.Root unless Seed moved it).
func (sys *System) BFS(opt BFSOptions) *BFSResult {
	if opt.Workers <= 0 {
		opt.Workers = 1
	}
	if opt.MaxViol == 0 {
		opt.MaxViol = 20
	}
	start := time.Now()
	res := &BFSResult{sys: sys, Exhaustive: true}
	shards := make([]shardT, 256)
	for i := range shards {
		shards[i].m = map[[16]byte]int32{}
	}
	var idMu sync.Mutex
	var viol sync.Map
	var nviol atomic.Int64
	// addState registers s reached with dev deviations.  fresh = never seen, or seen only with more
	// deviations (then it has more budget left now and is expanded again; its tree path is replaced
	// by the cheaper one - deviations never decrease along a path, so this cannot create a cycle).
	var devOf []int8
	addState := func(s *State, parent int32, mv Move, dev int) (int32, bool) {
		h := s.Hash()
		sh := &shards[h[0]]
		sh.mu.Lock()
		defer sh.mu.Unlock()
		if id, ok := sh.m[h]; ok {
			idMu.Lock()
			defer idMu.Unlock()
			if int(devOf[id]) <= dev {
				return id, false
			}
			devOf[id] = int8(dev)
			res.parent[id] = parent
			res.move[id] = mv
			res.Reexpanded++
			return id, true
		}
		idMu.Lock()
		id := int32(len(res.parent))
		res.parent = append(res.parent, parent)
		res.move = append(res.move, mv)
		devOf = append(devOf, int8(dev))
		for len(res.DevRounds) <= dev {
			res.DevRounds = append(res.DevRounds, 0)
		}
		res.DevRounds[dev]++
		if opt.KeepGraph {
			res.GraphStates = append(res.GraphStates, s)
		}
		idMu.Unlock()
		sh.m[h] = id
		return id, true
	}
	report := func(key, what string, id int32, extra *Move) {
		if _, dup := viol.LoadOrStore(key, true); dup {
			return
		}
		if nviol.Add(1) > int64(opt.MaxViol) {
			return
		}
		idMu.Lock()
		path := res.pathTo(id)
		idMu.Unlock()
		if extra != nil {
			path = append(path, *extra)
		}
		// believe nothing that does not reproduce on the real code, step by step, without the memo
		if !sys.confirm(key, path, &opt) {
			atomic.AddInt64(&res.Unconfirmed, 1)
			viol.Delete(key)
			nviol.Add(-1)
			return
		}
		v := &Violation{Key: key, What: what, Path: path}
		v.Trace = sys.Render(path)
		idMu.Lock()
		res.Violations = append(res.Violations, v)
		idMu.Unlock()
	}
	var memo *Memo
	if !opt.NoMemo && os.Getenv("VERIF_NOMEMO") == "" {
		memo = NewMemo()
	}
	type item struct {
		s  *State
		id int32
	}
	var edgeMu sync.Mutex
	type ditem struct {
		s   *State
		id  int32
		dev int
	}
	id0, _ := addState(sys.Init, -1, Move{}, 0)
	for _, inv := range opt.Invariants {
		if k, w := inv(sys.Init); k != "" {
			report(k, w, id0, nil)
		}
	}
	frontier := []ditem{{sys.Init, id0, 0}}
	for depth := 0; len(frontier) > 0; depth++ {
		res.Depth = depth
		if opt.MaxDepth > 0 && depth >= opt.MaxDepth {
			res.Exhaustive, res.Cap = false, "max_depth"
			break
		}
		var next []ditem
		var nextMu sync.Mutex
		var idx atomic.Int64
		var stop atomic.Bool
		var isLeaf = make([]bool, len(frontier))
		var wg sync.WaitGroup
		for w := 0; w < opt.Workers; w++ {
			wg.Add(1)
			go func() {
				defer wg.Done()
				var local []ditem
				for {
					i := int(idx.Add(1) - 1)
					if i >= len(frontier) || stop.Load() {
						break
					}
					if i%64 == 0 && !opt.Deadline.IsZero() && time.Now().After(opt.Deadline) {
						stop.Store(true)
						break
					}
					it := frontier[i]
					if opt.Constraint != nil && !opt.Constraint(it.s) {
						atomic.AddInt64(&res.NotExpanded, 1)
						isLeaf[i] = true
						continue
					}
					children := 0
					for p := range sys.Procs {
						var succ []Attempt
						if memo != nil {
							succ = sys.SuccMemo(memo, it.s, p)
						} else {
							succ = sys.Succ(it.s, p)
						}
						for _, a := range succ {
							a := a
							if a.Kind != Disabled && it.dev+a.Dev > opt.MaxDev {
								atomic.AddInt64(&res.OverBudget, 1)
								continue
							}
							switch a.Kind {
							case Disabled:
								atomic.AddInt64(&res.Disabled, 1)
								continue
							case Failed:
								atomic.AddInt64(&res.ErrorEdges, 1)
								mv := Move{P: p, Picks: toU8(a.Choices)}
								if opt.FailedIsViolation {
									report("error-edge/"+errClass(a.Err)+"@"+it.s.PC(p), fmt.Sprintf("process %s at %s: %s", sys.Procs[p].Name, it.s.PC(p), a.Err), it.id, &mv)
								}
								for _, ei := range opt.EdgeInvs {
									if k, w := ei(it.s, p, &a); k != "" {
										report(k, w, it.id, &mv)
									}
								}
								if opt.KeepGraph {
									edgeMu.Lock()
									res.GraphEdges = append(res.GraphEdges, Edge{From: it.id, To: -1, P: p, Err: a.Err})
									edgeMu.Unlock()
								}
								continue
							}
							atomic.AddInt64(&res.Transitions, 1)
							mv := Move{P: p, Picks: toU8(a.Choices)}
							for _, ei := range opt.EdgeInvs {
								if k, w := ei(it.s, p, &a); k != "" {
									report(k, w, it.id, &mv)
								}
							}
							id, fresh := addState(a.Next, it.id, mv, it.dev+a.Dev)
							if opt.KeepGraph {
								edgeMu.Lock()
								res.GraphEdges = append(res.GraphEdges, Edge{From: it.id, To: id, P: p})
								edgeMu.Unlock()
							}
							if fresh {
								children++
								for _, inv := range opt.Invariants {
									if k, w := inv(a.Next); k != "" {
										report(k, w, id, nil)
									}
								}
								local = append(local, ditem{a.Next, id, it.dev + a.Dev})
							}
						}
					}
					if children == 0 {
						isLeaf[i] = true
					}
				}
				nextMu.Lock()
				next = append(next, local...)
				nextMu.Unlock()
			}()
		}
		wg.Wait()
		for i, l := range isLeaf {
			if l {
				res.Leaves = append(res.Leaves, frontier[i].id)
			}
		}
		if stop.Load() {
			res.Exhaustive, res.Cap = false, "deadline"
			break
		}
		if opt.MaxStates > 0 && len(res.parent) >= opt.MaxStates {
			res.Exhaustive, res.Cap = false, "max_states"
			break
		}
		frontier = next
	}
	if memo != nil {
		res.MemoHits, res.MemoMisses, res.MemoChecks, res.MemoMismatch = memo.Hits.Load(), memo.Misses.Load(), memo.Checks.Load(), memo.Mismatch.Load()
		if v := memo.FirstMismatch.Load(); v != nil {
			res.MemoFirstMismatch = v.(string)
		}
	}
	res.States = int64(len(res.parent))
	res.WallS = time.Since(start).Seconds()
	sort.Slice(res.Violations, func(i, j int) bool { return res.Violations[i].Key < res.Violations[j].Key })
	return res
}

func toU8(cs []Choice) []uint8 {
	r := make([]uint8, len(cs))
	for i, c := range cs {
		r[i] = uint8(c.Pick)
	}
	return r
}

func errClass(e string) string {
	switch {
	case strings.Contains(e, "assertion failed"):
		return "assertion"
	case strings.Contains(e, "TLA+ type error"):
		return "tla-type-error"
	case strings.HasPrefix(e, "panic"):
		return "panic"
	case strings.Contains(e, "without reaching a return"):
		return "procedure-fallthrough"
	}
	return "error"
}

func (r *BFSResult) pathTo(id int32) []Move {
	var rev []Move
	for id > 0 || (id == 0 && false) {
		rev = append(rev, r.move[id])
		id = r.parent[id]
	}
	for i, j := 0, len(rev)-1; i < j; i, j = i+1, j-1 {
		rev[i], rev[j] = rev[j], rev[i]
	}
	// paths are always given from the true initial state: seed prefix + search-relative part
	return append(append([]Move{}, r.sys.Prefix...), rev...)
}

// confirm replays path on the real code (no memo) and tells whether violation key shows again.
func (sys *System) confirm(key string, path []Move, opt *BFSOptions) bool {
	states, last, ok := sys.Replay(path)
	if ok {
		fin := states[len(states)-1]
		for _, inv := range opt.Invariants {
			if k, _ := inv(fin); k == key {
				return true
			}
		}
		if len(states) >= 2 && last != nil {
			for _, ei := range opt.EdgeInvs {
				if k, _ := ei(states[len(states)-2], path[len(path)-1].P, last); k == key {
					return true
				}
			}
		}
		return false
	}
	if last != nil && last.Kind == Failed && len(states) == len(path) {
		pre := states[len(states)-1]
		p := path[len(path)-1].P
		if "error-edge/"+errClass(last.Err)+"@"+pre.PC(p) == key {
			return true
		}
		for _, ei := range opt.EdgeInvs {
			if k, _ := ei(pre, p, last); k == key {
				return true
			}
		}
	}
	return false
}

// PathTo returns the BFS-tree path to state id.
func (r *BFSResult) PathTo(id int32) []Move { return r.pathTo(id) }

// Replay re-executes a path by injection and returns the visited states (Init first).
// It stops early (ok=false) if a step is not a commit.
func (sys *System) Replay(path []Move) (states []*State, last *Attempt, ok bool) {
	s := sys.Root
	states = append(states, s)
	for _, m := range path {
		a := sys.Try(s, m.P, m.ints())
		last = &a
		if a.Kind != Commit {
			return states, last, false
		}
		s = a.Next
		states = append(states, s)
	}
	return states, last, true
}

// Render describes a path step by step.
func (sys *System) Render(path []Move) []string {
	var out []string
	s := sys.Root
	for _, m := range path {
		a := sys.Try(s, m.P, m.ints())
		var cs []string
		for _, c := range a.Choices {
			cs = append(cs, fmt.Sprintf("%s=%d/%d", c.Label, c.Pick, c.N))
		}
		line := fmt.Sprintf("%s @%s [%s] -> %s", sys.Procs[m.P].Name, s.PC(m.P), strings.Join(cs, " "), a.Kind)
		if a.Err != "" {
			line += ": " + a.Err
		}
		out = append(out, line)
		if a.Kind != Commit {
			break
		}
		s = a.Next
	}
	return out
}

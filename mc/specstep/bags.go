package specstep

import (
	"sort"

	"github.com/DistCompiler/pgo/distsys/tla"
	"github.com/benbjohnson/immutable"
)

// Bags (TLA+ Bags module) as functions element -> positive count; the empty bag is the empty
// function, which TLA+ identifies with <<>>.

func bagMap(b tla.Value) *immutable.Map[tla.Value, tla.Value] {
	if b.IsTuple() {
		if b.AsTuple().Len() != 0 {
			panic("specstep: non-empty tuple used as a bag")
		}
		return immutable.NewMap[tla.Value, tla.Value](tla.ValueHasher{})
	}
	return b.AsFunction()
}

// BagElems returns the distinct elements in canonical order.
func BagElems(b tla.Value) []tla.Value {
	m := bagMap(b)
	var el []tla.Value
	it := m.Iterator()
	for !it.Done() {
		k, _, _ := it.Next()
		el = append(el, k)
	}
	sort.Slice(el, func(i, j int) bool { return Canon(el[i]) < Canon(el[j]) })
	return el
}

// BagCardinality is the total number of copies.
func BagCardinality(b tla.Value) int {
	n := 0
	it := bagMap(b).Iterator()
	for !it.Done() {
		_, c, _ := it.Next()
		n += int(c.AsNumber())
	}
	return n
}

// BagAdd is b (+) SetToBag({e}).
func BagAdd(b, e tla.Value) tla.Value {
	m := bagMap(b)
	c := int32(0)
	if v, ok := m.Get(e); ok {
		c = v.AsNumber()
	}
	return tla.MakeRecordFromMap(m.Set(e, tla.MakeNumber(c+1)))
}

// BagRemove is b (-) SetToBag({e}).
func BagRemove(b, e tla.Value) tla.Value {
	m := bagMap(b)
	v, ok := m.Get(e)
	if !ok {
		return b
	}
	if v.AsNumber() <= 1 {
		m = m.Delete(e)
	} else {
		m = m.Set(e, tla.MakeNumber(v.AsNumber()-1))
	}
	if m.Len() == 0 {
		return tla.MakeTuple()
	}
	return tla.MakeRecordFromMap(m)
}

// SortedSet returns the members of a set in canonical order.
func SortedSet(s tla.Value) []tla.Value {
	var el []tla.Value
	it := s.AsSet().Iterator()
	for !it.Done() {
		k, _, _ := it.Next()
		el = append(el, k)
	}
	sort.Slice(el, func(i, j int) bool { return Canon(el[i]) < Canon(el[j]) })
	return el
}

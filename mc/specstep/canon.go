// Package specstep is engine E4: explicit-state search over *generated* archetypes.
// A state is (locals of every process incl. .pc/.stack, spec globals, observer); a transition
// injects the state into a fresh real MPCalContext and runs exactly one critical-section attempt
// of the generated code for every resolution of its choice points.
package specstep

import (
	"sort"
	"strconv"
	"strings"

	"github.com/DistCompiler/pgo/distsys/tla"
)

// Canon renders a value canonically: set members and function keys sorted, a function whose
// domain is 1..n (n>=0) rendered as the tuple it denotes in TLA+ (TLC prints it that way too).
func Canon(v tla.Value) string {
	var b strings.Builder
	canon(&b, v)
	return b.String()
}

func canon(b *strings.Builder, v tla.Value) {
	v = v.StripVClock()
	switch {
	case v.Equal(tla.Value{}):
		b.WriteString("defaultInitValue")
	case v.IsBool():
		if v.AsBool() {
			b.WriteString("TRUE")
		} else {
			b.WriteString("FALSE")
		}
	case v.IsNumber():
		b.WriteString(strconv.Itoa(int(v.AsNumber())))
	case v.IsString():
		b.WriteString(strconv.Quote(v.AsString()))
	case v.IsSet():
		var el []string
		it := v.AsSet().Iterator()
		for !it.Done() {
			k, _, _ := it.Next()
			el = append(el, Canon(k))
		}
		sort.Strings(el)
		b.WriteString("{")
		b.WriteString(strings.Join(el, ", "))
		b.WriteString("}")
	case v.IsTuple():
		b.WriteString("<<")
		l := v.AsTuple() // indexed access: List.Iterator() allocates a large iterator object
		for i, n := 0, l.Len(); i < n; i++ {
			if i > 0 {
				b.WriteString(", ")
			}
			canon(b, l.Get(i))
		}
		b.WriteString(">>")
	case v.IsFunction():
		f := v.AsFunction()
		n := f.Len()
		// domain 1..n ?
		seq := true
		for i := 1; i <= n; i++ {
			if _, ok := f.Get(tla.MakeNumber(int32(i))); !ok {
				seq = false
				break
			}
		}
		if seq {
			b.WriteString("<<")
			for i := 1; i <= n; i++ {
				if i > 1 {
					b.WriteString(", ")
				}
				e, _ := f.Get(tla.MakeNumber(int32(i)))
				canon(b, e)
			}
			b.WriteString(">>")
			return
		}
		type kv struct{ k, v string }
		var el []kv
		it := f.Iterator()
		for !it.Done() {
			k, e, _ := it.Next()
			el = append(el, kv{Canon(k), Canon(e)})
		}
		sort.Slice(el, func(i, j int) bool { return el[i].k < el[j].k })
		b.WriteString("(")
		for i, e := range el {
			if i > 0 {
				b.WriteString(" @@ ")
			}
			b.WriteString(e.k)
			b.WriteString(" :> ")
			b.WriteString(e.v)
		}
		b.WriteString(")")
	default:
		b.WriteString("?")
		b.WriteString(v.String())
	}
}

// FastEqual is structural equality of TLA+ values as the runtime builds them (tuples and
// functions are different kinds, as in tla.Value.Equal) without the iterator allocations of
// tla.Value.Equal; used on the memo's hot path only, where a false "different" merely costs a
// real execution.
func FastEqual(a, b tla.Value) bool {
	if sameValue(a, b) {
		return true
	}
	switch {
	case a.Equal(tla.Value{}) || b.Equal(tla.Value{}):
		return false
	case a.IsNumber():
		return b.IsNumber() && a.AsNumber() == b.AsNumber()
	case a.IsString():
		return b.IsString() && a.AsString() == b.AsString()
	case a.IsBool():
		return b.IsBool() && a.AsBool() == b.AsBool()
	case a.IsTuple():
		if !b.IsTuple() {
			return false
		}
		la, lb := a.AsTuple(), b.AsTuple()
		if la.Len() != lb.Len() {
			return false
		}
		for i, n := 0, la.Len(); i < n; i++ {
			if !FastEqual(la.Get(i), lb.Get(i)) {
				return false
			}
		}
		return true
	case a.IsFunction():
		if !b.IsFunction() {
			return false
		}
		fa, fb := a.AsFunction(), b.AsFunction()
		if fa.Len() != fb.Len() {
			return false
		}
		it := fa.Iterator()
		for !it.Done() {
			k, va, _ := it.Next()
			vb, ok := fb.Get(k)
			if !ok || !FastEqual(va, vb) {
				return false
			}
		}
		return true
	case a.IsSet():
		if !b.IsSet() {
			return false
		}
		sa, sb := a.AsSet(), b.AsSet()
		if sa.Len() != sb.Len() {
			return false
		}
		it := sa.Iterator()
		for !it.Done() {
			k, _, _ := it.Next()
			if _, ok := sb.Get(k); !ok {
				return false
			}
		}
		return true
	}
	return a.Equal(b)
}

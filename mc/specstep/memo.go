package specstep

import (
	"fmt"
	"sync"
	"sync/atomic"

	"github.com/DistCompiler/pgo/distsys/tla"
	"github.com/DistCompiler/pgo/distsys/trace"
)

// Transition memoisation.  One attempt of the generated code is a deterministic function of the
// process's locals, of the committed values it reads from the environment (before writing them)
// and of the picks at its choice points.  SuccMemo executes the real code once per distinct
// (process, locals, values read) and re-applies the recorded effect (new locals + the writes, at
// the granularity they were made) wherever the same inputs recur in another global context -
// which is what an interleaving explosion consists of.  Every Nth hit is re-executed on the real
// code and compared (MemoMismatch must stay 0), and every reported violation is replayed on the
// real code without the memo before it is believed.

type memoAttempt struct {
	kind    string
	err     string
	choices []Choice
	dev     int
	event   *trace.Event
	locals  map[string]tla.Value
	lhash   [16]byte
	wops    []wop
}

type memoEntry struct {
	reads    []readRec
	canon    []string // lazily computed canonical form of reads[i].v
	attempts []memoAttempt
	done     bool
}

type memoKey struct {
	p int
	h [16]byte
}

type memoShard struct {
	mu sync.RWMutex
	m  map[memoKey][]*memoEntry
}

// Memo is shared by all workers of one search.
type Memo struct {
	shards               [64]memoShard
	Hits, Misses, Checks atomic.Int64
	Mismatch             atomic.Int64
	FirstMismatch        atomic.Value // string
	CheckEvery           int64
}

func NewMemo() *Memo {
	m := &Memo{CheckEvery: 97}
	for i := range m.shards {
		m.shards[i].m = map[memoKey][]*memoEntry{}
	}
	return m
}

func elem(whole tla.Value, r *readRec) (v tla.Value, ok bool) {
	if !r.mapped {
		return whole, true
	}
	defer func() {
		if recover() != nil {
			ok = false
		}
	}()
	return whole.ApplyFunction(r.idx), true
}

func (e *memoEntry) matches(s *State) bool {
	for i := range e.reads {
		r := &e.reads[i]
		whole, ok := s.Globals[r.key.name]
		if !ok {
			return false
		}
		cur, ok := elem(whole, r)
		if !ok {
			return false
		}
		if FastEqual(cur, r.v) {
			continue
		}
		return false // (a structurally different but TLA-equal value only costs a real execution)
	}
	return true
}

func (s *State) localHash(p int) [16]byte {
	s.Hash()
	return s.lhash[p]
}

// SuccMemo is Succ through the memo.
func (sys *System) SuccMemo(m *Memo, s *State, p int) []Attempt {
	k := memoKey{p, s.localHash(p)}
	sh := &m.shards[k.h[0]%64]
	sh.mu.RLock()
	cands := sh.m[k]
	sh.mu.RUnlock()
	for _, e := range cands {
		if e.matches(s) {
			n := m.Hits.Add(1)
			out := sys.applyMemo(e, s, p)
			if m.CheckEvery > 0 && n%m.CheckEvery == 0 {
				m.Checks.Add(1)
				real := sys.Succ(s, p)
				if d := diffAttempts(out, real); d != "" {
					if m.Mismatch.Add(1) == 1 {
						m.FirstMismatch.Store(fmt.Sprintf("process %s at %s: %s", sys.Procs[p].Name, s.PC(p), d))
					}
					return real
				}
			}
			return out
		}
	}
	m.Misses.Add(1)
	real := sys.Succ(s, p)
	e := &memoEntry{}
	cache := true
	seen := map[rwKey]bool{}
	if real == nil {
		e.done = true
	}
	for i := range real {
		a := &real[i]
		if a.nocache {
			cache = false
			break
		}
		for _, r := range a.reads {
			if !seen[r.key] {
				seen[r.key] = true
				e.reads = append(e.reads, r)
			}
		}
		ma := memoAttempt{kind: a.Kind, err: a.Err, choices: a.Choices, dev: a.Dev, event: a.Event, wops: a.wops}
		if a.Kind == Commit {
			ma.locals = a.Next.Locals[p]
			ma.lhash = a.Next.localHash(p)
		}
		e.attempts = append(e.attempts, ma)
	}
	if cache {
		e.canon = make([]string, len(e.reads))
		sh.mu.Lock()
		sh.m[k] = append(sh.m[k], e)
		sh.mu.Unlock()
	}
	return real
}

func (sys *System) applyMemo(e *memoEntry, s *State, p int) []Attempt {
	if e.done {
		return nil
	}
	out := make([]Attempt, 0, len(e.attempts))
	for i := range e.attempts {
		ma := &e.attempts[i]
		a := Attempt{Kind: ma.kind, Err: ma.err, Choices: ma.choices, Dev: ma.dev}
		a.Event = ma.event
		if ma.kind == Commit {
			n := s.clone()
			s.Hash() // make sure the per-part caches exist before they are copied
			if n.lhash == nil {
				n.lhash = make([][16]byte, len(s.lhash))
				copy(n.lhash, s.lhash)
				n.gkey, n.gnames = s.gkey, s.gnames
			}
			n.Locals[p] = ma.locals
			n.lhash[p] = ma.lhash
			if len(ma.wops) > 0 {
				g := s.Globals.Clone()
				for _, w := range ma.wops {
					if w.mapped {
						nv := w.v
						g[w.name] = tla.FunctionSubstitution(g[w.name], []tla.FunctionSubstitutionRecord{{
							Keys:  []tla.Value{w.idx},
							Value: func(tla.Value) tla.Value { return nv },
						}})
					} else {
						g[w.name] = w.v
					}
				}
				n.Globals = g
			}
			if sys.Observe != nil {
				n.Obs = sys.Observe(s, p, a.Event, n)
			}
			a.Next = n
		}
		out = append(out, a)
	}
	return out
}

func diffAttempts(a, b []Attempt) string {
	if len(a) != len(b) {
		return fmt.Sprintf("memo gives %d attempts, the real code %d", len(a), len(b))
	}
	for i := range a {
		if a[i].Kind != b[i].Kind || a[i].Err != b[i].Err || a[i].Dev != b[i].Dev {
			return fmt.Sprintf("attempt %d: memo %s/%q/dev %d, real %s/%q/dev %d", i, a[i].Kind, a[i].Err, a[i].Dev, b[i].Kind, b[i].Err, b[i].Dev)
		}
		if a[i].Kind == Commit && a[i].Next.Hash() != b[i].Next.Hash() {
			return fmt.Sprintf("attempt %d: successor differs:\n memo: %s\n real: %s", i, a[i].Next.Key(), b[i].Next.Key())
		}
	}
	return ""
}

package specstep

import (
	"fmt"
	"sync"

	"github.com/DistCompiler/pgo/distsys"
	"github.com/DistCompiler/pgo/distsys/trace"
)

// Live runs the system on long-lived real contexts (real first label, real PreAmble, one
// MPCalContext.Run goroutine per process for the whole path) that are advanced one attempt at a
// time through a gating FairnessCounter.  It is the conformance side of E4: the states reached
// by state injection must equal the states reached this way.
type Live struct {
	sys     *System
	mu      sync.Mutex
	globals Globals
	procs   []*liveProc
}

type liveProc struct {
	ctx     *distsys.MPCalContext
	grant   chan []int
	parked  chan struct{}
	done    chan struct{}
	err     error
	panicV  any
	picks   []int
	npick   int
	ev      *trace.Event
	kill    bool
	started bool
}

type liveStop struct{}

func (lp *liveProc) BeginCriticalSection(pc string) {
	lp.parked <- struct{}{}
	p, ok := <-lp.grant
	if !ok || lp.kill {
		panic(liveStop{})
	}
	lp.picks, lp.npick, lp.ev = p, 0, nil
}

func (lp *liveProc) NextFairnessCounter(id string, ceiling uint) uint { return uint(lp.choose(int(ceiling), id)) }

func (lp *liveProc) choose(n int, label string) int {
	pick := 0
	if lp.npick < len(lp.picks) {
		pick = lp.picks[lp.npick]
	}
	lp.npick++
	if pick >= n {
		panic(fmt.Sprintf("live: pick %d of %d at %s", pick, n, label))
	}
	return pick
}

func (lp *liveProc) RecordEvent(e trace.Event) {
	c := e
	lp.ev = &c
}

// NewLive starts one context per process, each parked before its first attempt.
func (sys *System) NewLive() *Live {
	l := &Live{sys: sys, globals: sys.Root.Globals}
	for p := range sys.Procs {
		pd := &sys.Procs[p]
		lp := &liveProc{grant: make(chan []int), parked: make(chan struct{}, 1), done: make(chan struct{})}
		t := &Txn{
			base:   func() Globals { l.mu.Lock(); defer l.mu.Unlock(); return l.globals },
			apply:  func(g Globals) { l.mu.Lock(); l.globals = g; l.mu.Unlock() },
			choose: lp.choose, Self: pd.Self,
		}
		lp.ctx = sys.newContext(pd, pd.Arch, t, lp, lp)
		l.procs = append(l.procs, lp)
	}
	return l
}

func (l *Live) start(lp *liveProc) {
	lp.started = true
	go func() {
		defer close(lp.done)
		defer func() {
			if x := recover(); x != nil {
				if _, ok := x.(liveStop); !ok {
					lp.panicV = x
				}
			}
		}()
		lp.err = lp.ctx.Run()
	}()
	select {
	case <-lp.parked:
	case <-lp.done:
	}
}

// Step grants process p one attempt with the given picks and waits until it parks again or ends.
// It returns the attempt kind as E4 classifies it.
func (l *Live) Step(p int, picks []int) (kind string, errS string) {
	lp := l.procs[p]
	if !lp.started {
		l.start(lp)
	}
	select {
	case <-lp.done:
		return Done, ""
	default:
	}
	lp.grant <- picks
	select {
	case <-lp.parked:
	case <-lp.done:
		if lp.panicV != nil {
			return Failed, fmt.Sprintf("panic: %v", lp.panicV)
		}
		if lp.err != nil {
			return Failed, lp.err.Error()
		}
		if lp.ev == nil {
			return Done, ""
		}
	}
	if lp.ev == nil {
		return Done, ""
	}
	if lp.ev.IsAbort {
		return Disabled, ""
	}
	return Commit, ""
}

// State snapshots the live system (no observer component).
func (l *Live) State() *State {
	s := &State{Globals: l.globals}
	for p, lp := range l.procs {
		if !lp.started {
			s.Locals = append(s.Locals, l.sys.Root.Locals[p])
			continue
		}
		s.Locals = append(s.Locals, lp.ctx.VerifLocals())
	}
	return s
}

// Close unwinds every parked Run goroutine.
func (l *Live) Close() {
	for _, lp := range l.procs {
		if !lp.started {
			continue
		}
		select {
		case <-lp.done:
			continue
		default:
		}
		lp.kill = true
		close(lp.grant)
		<-lp.done
	}
}

// Conform replays path on live contexts and by injection in lockstep; it returns a description
// of the first difference, or "".
func (sys *System) Conform(path []Move) string {
	l := sys.NewLive()
	defer l.Close()
	s := sys.Root
	for i, m := range path {
		a := sys.Try(s, m.P, m.ints())
		kind, errS := l.Step(m.P, m.ints())
		if kind != a.Kind {
			return fmt.Sprintf("step %d (%s at %s): injected attempt is %q (%s) but the long-lived context's is %q (%s)", i, sys.Procs[m.P].Name, s.PC(m.P), a.Kind, a.Err, kind, errS)
		}
		if a.Kind != Commit {
			return ""
		}
		s = a.Next
		ls := l.State()
		ls.Obs = s.Obs
		if ls.Hash() != s.Hash() {
			return fmt.Sprintf("step %d (%s): state after the step differs:\n injected: %s\n live:     %s", i, sys.Procs[m.P].Name, s.KeyNoObs(), ls.KeyNoObs())
		}
	}
	return ""
}

package specstep

import (
	"fmt"

	"github.com/DistCompiler/pgo/distsys"
	"github.com/DistCompiler/pgo/distsys/tla"
)

// Globals are the spec's global variables (immutable values; the map is copied on write).
type Globals map[string]tla.Value

func (g Globals) Clone() Globals {
	n := make(Globals, len(g))
	for k, v := range g {
		n[k] = v
	}
	return n
}

// Txn is the transactional view of the globals that the environment resources of one
// critical-section attempt share: reads see the overlay, Commit applies it, Abort drops it.
type Txn struct {
	base    func() Globals     // committed globals (inject mode: the pre-state; live mode: the shared store)
	apply   func(Globals)      // install new committed globals
	overlay map[string]tla.Value
	choose  func(n int, label string) int
	Self    tla.Value
	Dev     int // deviations from the default environment answers made by this attempt

	// read/write tracking for transition memoisation (see memo.go)
	reads       []readRec
	readSeen    map[rwKey]bool
	written     map[rwKey]bool
	wops        []wop
	uncacheable bool
}

type rwKey struct{ name, idx string }

// readRec is an *input* of the attempt: the committed value of a global (idx zero Value) or of one
// element of an indexed global, read before the attempt wrote it.
type readRec struct {
	key    rwKey
	idx    tla.Value
	mapped bool
	v      tla.Value
}

// wop is one write of the attempt, at the granularity it was made.
type wop struct {
	name   string
	idx    tla.Value
	mapped bool
	v      tla.Value
}

func (t *Txn) getRaw(name string) tla.Value {
	if v, ok := t.overlay[name]; ok {
		return v
	}
	v, ok := t.base()[name]
	if !ok {
		panic(fmt.Sprintf("specstep: unknown global %q", name))
	}
	return v
}

func (t *Txn) setRaw(name string, v tla.Value) {
	if t.overlay == nil {
		t.overlay = map[string]tla.Value{}
	}
	t.overlay[name] = v
}

func (t *Txn) noteRead(k rwKey, idx tla.Value, mapped bool, v tla.Value) {
	if t.written[k] || t.written[rwKey{k.name, ""}] || t.readSeen[k] {
		return
	}
	if t.readSeen == nil {
		t.readSeen = map[rwKey]bool{}
	}
	t.readSeen[k] = true
	t.reads = append(t.reads, readRec{k, idx, mapped, v})
}

func (t *Txn) noteWrite(k rwKey, idx tla.Value, mapped bool, v tla.Value) {
	if t.written == nil {
		t.written = map[rwKey]bool{}
	}
	t.written[k] = true
	t.wops = append(t.wops, wop{k.name, idx, mapped, v})
}

// Get reads a whole global on behalf of a mapping macro (e.g. a macro that looks at other variables).
func (t *Txn) Get(name string) tla.Value {
	if _, dirty := t.overlay[name]; dirty && !t.written[rwKey{name, ""}] {
		t.uncacheable = true // whole read of a variable this attempt wrote element-wise
	}
	v := t.getRaw(name)
	t.noteRead(rwKey{name, ""}, tla.Value{}, false, v)
	return v
}

// Set writes a whole global on behalf of a mapping macro.
func (t *Txn) Set(name string, v tla.Value) {
	t.noteWrite(rwKey{name, ""}, tla.Value{}, false, v)
	t.setRaw(name, v)
}

// Choose resolves a `with x \in S` / either of a mapping macro (enumerated exhaustively by Succ).
func (t *Txn) Choose(n int, label string) int { return t.choose(n, label) }

// Deviate is Choose where every answer other than 0 (the default environment answer) costs one
// unit of the search's deviation budget.
func (t *Txn) Deviate(n int, label string) int {
	k := t.choose(n, label)
	if k != 0 {
		t.Dev++
	}
	return k
}

func (t *Txn) commit() {
	if len(t.overlay) == 0 {
		return
	}
	g := t.base().Clone()
	for k, v := range t.overlay {
		g[k] = v
	}
	t.overlay = nil
	t.apply(g)
}

func (t *Txn) abort() { t.overlay = nil }

// Result returns base+overlay without installing it (inject mode).
func (t *Txn) Result() Globals {
	g := t.base().Clone()
	for k, v := range t.overlay {
		g[k] = v
	}
	return g
}

// ErrAbort is what a macro returns for a false `await`.
var ErrAbort = distsys.ErrCriticalSectionAborted

// ReadFn / WriteFn implement a mapping macro.  cur is $variable (the global, or its element when
// the ref is indexed [_]); they return the new $variable (zero Value = unchanged) and, for reads,
// the yielded value.
type ReadFn func(t *Txn, cur tla.Value, index []tla.Value) (newVar tla.Value, yield tla.Value, err error)
type WriteFn func(t *Txn, cur tla.Value, index []tla.Value, value tla.Value) (newVar tla.Value, err error)

// PlainRead / PlainWrite are the identity mapping (unmapped ref parameter).
func PlainRead(t *Txn, cur tla.Value, _ []tla.Value) (tla.Value, tla.Value, error) {
	return tla.Value{}, cur, nil
}
func PlainWrite(t *Txn, cur tla.Value, _ []tla.Value, v tla.Value) (tla.Value, error) { return v, nil }

// envRes is an environment resource bound to global `name`.
type envRes struct {
	t      *Txn
	name   string
	mapped bool // declared with [_]: the macro applies to the element, Index required exactly once
	index  []tla.Value
	read   ReadFn
	write  WriteFn
}

// Var binds a ref parameter to global name with the given macro (nil = identity).
// indexed = the parameter is declared `ref name[_]` (macro applies per element).
func Var(t *Txn, name string, indexed bool, r ReadFn, w WriteFn) distsys.ArchetypeResource {
	if r == nil {
		r = PlainRead
	}
	if w == nil {
		w = PlainWrite
	}
	return &envRes{t: t, name: name, mapped: indexed, read: r, write: w}
}

func (e *envRes) cur() tla.Value {
	v := e.t.getRaw(e.name)
	if e.mapped {
		if len(e.index) == 0 {
			panic(fmt.Sprintf("specstep: %s[_] accessed without index", e.name))
		}
		v = v.ApplyFunction(e.index[0])
		e.t.noteRead(rwKey{e.name, Canon(e.index[0])}, e.index[0], true, v)
		// further indices (e.g. net[i][j]) are handled by the macro-free tail below
	} else {
		e.t.noteRead(rwKey{e.name, ""}, tla.Value{}, false, v)
	}
	return v
}

func (e *envRes) store(nv tla.Value) {
	if e.mapped {
		whole := e.t.getRaw(e.name)
		whole = tla.FunctionSubstitution(whole, []tla.FunctionSubstitutionRecord{{
			Keys:  []tla.Value{e.index[0]},
			Value: func(tla.Value) tla.Value { return nv },
		}})
		e.t.noteWrite(rwKey{e.name, Canon(e.index[0])}, e.index[0], true, nv)
		e.t.setRaw(e.name, whole)
	} else {
		e.t.noteWrite(rwKey{e.name, ""}, tla.Value{}, false, nv)
		e.t.setRaw(e.name, nv)
	}
}

func (e *envRes) tail() []tla.Value {
	if e.mapped {
		return e.index[1:]
	}
	return e.index
}

func (e *envRes) ReadValue(distsys.ArchetypeInterface) (tla.Value, error) {
	cur := e.cur()
	nv, y, err := e.read(e.t, cur, e.index)
	if err != nil {
		return tla.Value{}, err
	}
	if !nv.Equal(tla.Value{}) {
		e.store(nv)
	}
	for _, ix := range e.tail() {
		y = y.ApplyFunction(ix)
	}
	return y, nil
}

func (e *envRes) WriteValue(_ distsys.ArchetypeInterface, v tla.Value) error {
	v = v.StripVClock()
	cur := e.cur()
	if tl := e.tail(); len(tl) > 0 {
		// x[i][j] := v  on a plain variable: EXCEPT on the current value, then write through the macro
		v = tla.FunctionSubstitution(cur, []tla.FunctionSubstitutionRecord{{
			Keys:  tl,
			Value: func(tla.Value) tla.Value { return v },
		}})
	}
	nv, err := e.write(e.t, cur, e.index, v)
	if err != nil {
		return err
	}
	e.store(nv)
	return nil
}

func (e *envRes) Index(_ distsys.ArchetypeInterface, ix tla.Value) (distsys.ArchetypeResource, error) {
	n := *e
	n.index = append(append([]tla.Value{}, e.index...), ix)
	return &n, nil
}

func (e *envRes) PreCommit(distsys.ArchetypeInterface) chan error { return nil }
func (e *envRes) Commit(distsys.ArchetypeInterface) chan struct{} {
	e.t.commit()
	return nil
}
func (e *envRes) Abort(distsys.ArchetypeInterface) chan struct{} {
	e.t.abort()
	return nil
}
func (e *envRes) Close() error { return nil }

package specstep

import (
	"fmt"

	"github.com/DistCompiler/pgo/distsys"
	"github.com/DistCompiler/pgo/distsys/tla"
)

// Globals are the spec's global variables (immutable values; the map is copied on write).
type Globals map[string]tla.Value

func (g Globals) Clone() Globals {
	n := make(Globals, len(g))
	for k, v := range g {
		n[k] = v
	}
	return n
}

// Txn is the transactional view of the globals that the environment resources of one
// critical-section attempt share: reads see the overlay, Commit applies it, Abort drops it.
type Txn struct {
	base    func() Globals     // committed globals (inject mode: the pre-state; live mode: the shared store)
	apply   func(Globals)      // install new committed globals
	overlay map[string]tla.Value
	choose  func(n int, label string) int
	Self    tla.Value
}

func (t *Txn) Get(name string) tla.Value {
	if v, ok := t.overlay[name]; ok {
		return v
	}
	v, ok := t.base()[name]
	if !ok {
		panic(fmt.Sprintf("specstep: unknown global %q", name))
	}
	return v
}

func (t *Txn) Set(name string, v tla.Value) {
	if t.overlay == nil {
		t.overlay = map[string]tla.Value{}
	}
	t.overlay[name] = v
}

// Choose resolves a `with x \in S` / either of a mapping macro (enumerated exhaustively by Succ).
func (t *Txn) Choose(n int, label string) int { return t.choose(n, label) }

func (t *Txn) commit() {
	if len(t.overlay) == 0 {
		return
	}
	g := t.base().Clone()
	for k, v := range t.overlay {
		g[k] = v
	}
	t.overlay = nil
	t.apply(g)
}

func (t *Txn) abort() { t.overlay = nil }

// Result returns base+overlay without installing it (inject mode).
func (t *Txn) Result() Globals {
	g := t.base().Clone()
	for k, v := range t.overlay {
		g[k] = v
	}
	return g
}

// ErrAbort is what a macro returns for a false `await`.
var ErrAbort = distsys.ErrCriticalSectionAborted

// ReadFn / WriteFn implement a mapping macro.  cur is $variable (the global, or its element when
// the ref is indexed [_]); they return the new $variable (zero Value = unchanged) and, for reads,
// the yielded value.
type ReadFn func(t *Txn, cur tla.Value, index []tla.Value) (newVar tla.Value, yield tla.Value, err error)
type WriteFn func(t *Txn, cur tla.Value, index []tla.Value, value tla.Value) (newVar tla.Value, err error)

// PlainRead / PlainWrite are the identity mapping (unmapped ref parameter).
func PlainRead(t *Txn, cur tla.Value, _ []tla.Value) (tla.Value, tla.Value, error) {
	return tla.Value{}, cur, nil
}
func PlainWrite(t *Txn, cur tla.Value, _ []tla.Value, v tla.Value) (tla.Value, error) { return v, nil }

// envRes is an environment resource bound to global `name`.
type envRes struct {
	t      *Txn
	name   string
	mapped bool // declared with [_]: the macro applies to the element, Index required exactly once
	index  []tla.Value
	read   ReadFn
	write  WriteFn
}

// Var binds a ref parameter to global name with the given macro (nil = identity).
// indexed = the parameter is declared `ref name[_]` (macro applies per element).
func Var(t *Txn, name string, indexed bool, r ReadFn, w WriteFn) distsys.ArchetypeResource {
	if r == nil {
		r = PlainRead
	}
	if w == nil {
		w = PlainWrite
	}
	return &envRes{t: t, name: name, mapped: indexed, read: r, write: w}
}

func (e *envRes) cur() tla.Value {
	v := e.t.Get(e.name)
	if e.mapped {
		if len(e.index) == 0 {
			panic(fmt.Sprintf("specstep: %s[_] accessed without index", e.name))
		}
		v = v.ApplyFunction(e.index[0])
		// further indices (e.g. net[i][j]) are handled by the macro-free tail below
	}
	return v
}

func (e *envRes) store(nv tla.Value) {
	if e.mapped {
		whole := e.t.Get(e.name)
		whole = tla.FunctionSubstitution(whole, []tla.FunctionSubstitutionRecord{{
			Keys:  []tla.Value{e.index[0]},
			Value: func(tla.Value) tla.Value { return nv },
		}})
		e.t.Set(e.name, whole)
	} else {
		e.t.Set(e.name, nv)
	}
}

func (e *envRes) tail() []tla.Value {
	if e.mapped {
		return e.index[1:]
	}
	return e.index
}

func (e *envRes) ReadValue(distsys.ArchetypeInterface) (tla.Value, error) {
	cur := e.cur()
	nv, y, err := e.read(e.t, cur, e.index)
	if err != nil {
		return tla.Value{}, err
	}
	if !nv.Equal(tla.Value{}) {
		e.store(nv)
	}
	for _, ix := range e.tail() {
		y = y.ApplyFunction(ix)
	}
	return y, nil
}

func (e *envRes) WriteValue(_ distsys.ArchetypeInterface, v tla.Value) error {
	v = v.StripVClock()
	cur := e.cur()
	if tl := e.tail(); len(tl) > 0 {
		// x[i][j] := v  on a plain variable: EXCEPT on the current value, then write through the macro
		v = tla.FunctionSubstitution(cur, []tla.FunctionSubstitutionRecord{{
			Keys:  tl,
			Value: func(tla.Value) tla.Value { return v },
		}})
	}
	nv, err := e.write(e.t, cur, e.index, v)
	if err != nil {
		return err
	}
	e.store(nv)
	return nil
}

func (e *envRes) Index(_ distsys.ArchetypeInterface, ix tla.Value) (distsys.ArchetypeResource, error) {
	n := *e
	n.index = append(append([]tla.Value{}, e.index...), ix)
	return &n, nil
}

func (e *envRes) PreCommit(distsys.ArchetypeInterface) chan error { return nil }
func (e *envRes) Commit(distsys.ArchetypeInterface) chan struct{} {
	e.t.commit()
	return nil
}
func (e *envRes) Abort(distsys.ArchetypeInterface) chan struct{} {
	e.t.abort()
	return nil
}
func (e *envRes) Close() error { return nil }

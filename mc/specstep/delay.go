package specstep

import (
	"fmt"
	"os"
	"sort"
	"sync"
	"sync/atomic"
	"time"
)

// Delay-bounded search (Emmi, Qadeer, Rakamaric: "Delay-bounded scheduling"): a deterministic
// round-robin scheduler over the processes (in Order, one step per turn, disabled processes are
// skipped for free) plus a budget of MaxDelays *delays* - skipping a process that could have
// moved.  All executions within the budget are enumerated exhaustively, breadth first, together
// with every resolution of the data choices of each step and the environment deviation budget
// MaxDev.  It complements BFS: breadth-first search covers every interleaving but only to a small
// depth; the delay-bounded search covers few interleavings per depth (those close to round-robin)
// but reaches executions of hundreds of steps.

// DelayOptions bound a delay-bounded search.
type DelayOptions struct {
	MaxDelays  int
	MaxDev     int
	MaxDepth   int // steps per execution (0 = 400)
	Order      []int // process order of the round-robin scheduler (nil = 0..n-1)
	Workers    int
	Deadline   time.Time
	Constraint func(s *State) bool
	Invariants []func(s *State) (key, what string)
	EdgeInvs   []func(s *State, p int, a *Attempt) (key, what string)
	FailedIsViolation bool
	MaxViol    int
	KeepStates bool // record every distinct system state in BFSResult.GraphStates
}

type dnode struct {
	s      *State
	id     int32
	pos    int // index into Order of the process whose turn it is
	delays int
	dev    int
}

// DelayBounded explores from sys.Init; the result reuses BFSResult (States = distinct
// (state, turn, delays, deviations) nodes, Transitions = steps taken).
func (sys *System) DelayBounded(opt DelayOptions) *BFSResult {
	if opt.Workers <= 0 {
		opt.Workers = 1
	}
	if opt.MaxViol == 0 {
		opt.MaxViol = 20
	}
	if opt.MaxDepth == 0 {
		opt.MaxDepth = 400
	}
	order := opt.Order
	if order == nil {
		for p := range sys.Procs {
			order = append(order, p)
		}
	}
	n := len(order)
	start := time.Now()
	res := &BFSResult{sys: sys, Exhaustive: true}
	bopt := BFSOptions{Invariants: opt.Invariants, EdgeInvs: opt.EdgeInvs, FailedIsViolation: opt.FailedIsViolation}
	var memo *Memo
	if os.Getenv("VERIF_NOMEMO") == "" {
		memo = NewMemo()
	}
	type vkey struct {
		h      [16]byte
		pos    int16
		delays int8
		dev    int8
	}
	var mu sync.Mutex
	seen := map[vkey]bool{}
	distinct := map[[16]byte]bool{}
	var viol sync.Map
	var nviol atomic.Int64
	add := func(s *State, parent int32, mv Move, pos, delays, dev int) (int32, bool) {
		k := vkey{s.Hash(), int16(pos), int8(delays), int8(dev)}
		mu.Lock()
		defer mu.Unlock()
		if seen[k] {
			return 0, false
		}
		seen[k] = true
		if opt.KeepStates && !distinct[k.h] {
			res.GraphStates = append(res.GraphStates, s)
		}
		distinct[k.h] = true
		id := int32(len(res.parent))
		res.parent = append(res.parent, parent)
		res.move = append(res.move, mv)
		return id, true
	}
	report := func(key, what string, id int32, extra *Move) {
		if _, dup := viol.LoadOrStore(key, true); dup {
			return
		}
		if nviol.Add(1) > int64(opt.MaxViol) {
			return
		}
		mu.Lock()
		path := res.pathTo(id)
		mu.Unlock()
		if extra != nil {
			path = append(path, *extra)
		}
		if !sys.confirm(key, path, &bopt) {
			atomic.AddInt64(&res.Unconfirmed, 1)
			viol.Delete(key)
			nviol.Add(-1)
			return
		}
		v := &Violation{Key: key, What: what, Path: path, Trace: sys.Render(path)}
		mu.Lock()
		res.Violations = append(res.Violations, v)
		mu.Unlock()
	}
	id0, _ := add(sys.Init, -1, Move{P: -1}, 0, 0, 0)
	for _, inv := range opt.Invariants {
		if k, w := inv(sys.Init); k != "" {
			report(k, w, id0, nil)
		}
	}
	frontier := []dnode{{sys.Init, id0, 0, 0, 0}}
	for depth := 0; len(frontier) > 0; depth++ {
		res.Depth = depth
		if depth >= opt.MaxDepth {
			res.Exhaustive, res.Cap = false, "max_depth"
			break
		}
		var next []dnode
		var nextMu sync.Mutex
		var idx atomic.Int64
		var stop atomic.Bool
		var wg sync.WaitGroup
		for w := 0; w < opt.Workers; w++ {
			wg.Add(1)
			go func() {
				defer wg.Done()
				var local []dnode
				for {
					i := int(idx.Add(1) - 1)
					if i >= len(frontier) || stop.Load() {
						break
					}
					if i%64 == 0 && !opt.Deadline.IsZero() && time.Now().After(opt.Deadline) {
						stop.Store(true)
						break
					}
					nd := frontier[i]
					if opt.Constraint != nil && !opt.Constraint(nd.s) {
						atomic.AddInt64(&res.NotExpanded, 1)
						continue
					}
					// walk the round-robin order from nd.pos; each process that could move may be delayed
					delays := nd.delays
					for k := 0; k < n; k++ {
						pos := (nd.pos + k) % n
						p := order[pos]
						var succ []Attempt
						if memo != nil {
							succ = sys.SuccMemo(memo, nd.s, p)
						} else {
							succ = sys.Succ(nd.s, p)
						}
						moved := false
						for _, a := range succ {
							a := a
							if a.Kind == Disabled {
								atomic.AddInt64(&res.Disabled, 1)
								continue
							}
							if nd.dev+a.Dev > opt.MaxDev {
								atomic.AddInt64(&res.OverBudget, 1)
								continue
							}
							mv := Move{P: p, Picks: toU8(a.Choices)}
							if a.Kind == Failed {
								atomic.AddInt64(&res.ErrorEdges, 1)
								if opt.FailedIsViolation {
									report("error-edge/"+errClass(a.Err)+"@"+nd.s.PC(p), fmt.Sprintf("process %s at %s: %s", sys.Procs[p].Name, nd.s.PC(p), a.Err), nd.id, &mv)
								}
								for _, ei := range opt.EdgeInvs {
									if kk, w := ei(nd.s, p, &a); kk != "" {
										report(kk, w, nd.id, &mv)
									}
								}
								moved = true
								continue
							}
							moved = true
							atomic.AddInt64(&res.Transitions, 1)
							for _, ei := range opt.EdgeInvs {
								if kk, w := ei(nd.s, p, &a); kk != "" {
									report(kk, w, nd.id, &mv)
								}
							}
							id, fresh := add(a.Next, nd.id, mv, (pos+1)%n, delays, nd.dev+a.Dev)
							if fresh {
								for _, inv := range opt.Invariants {
									if kk, w := inv(a.Next); kk != "" {
										report(kk, w, id, nil)
									}
								}
								local = append(local, dnode{a.Next, id, (pos + 1) % n, delays, nd.dev + a.Dev})
							}
						}
						if !moved {
							continue // disabled: skipped for free
						}
						// p could move: going on to the next process costs one delay
						if delays >= opt.MaxDelays {
							break
						}
						delays++
					}
				}
				nextMu.Lock()
				next = append(next, local...)
				nextMu.Unlock()
			}()
		}
		wg.Wait()
		if stop.Load() {
			res.Exhaustive, res.Cap = false, "deadline"
			break
		}
		frontier = next
	}
	if memo != nil {
		res.MemoHits, res.MemoMisses, res.MemoChecks, res.MemoMismatch = memo.Hits.Load(), memo.Misses.Load(), memo.Checks.Load(), memo.Mismatch.Load()
		if v := memo.FirstMismatch.Load(); v != nil {
			res.MemoFirstMismatch = v.(string)
		}
	}
	res.States = int64(len(res.parent))
	res.DistinctStates = int64(len(distinct))
	res.WallS = time.Since(start).Seconds()
	sort.Slice(res.Violations, func(i, j int) bool { return res.Violations[i].Key < res.Violations[j].Key })
	return res
}

// Orders returns the scheduler orders used by the harnesses: ascending and descending process
// index (a delay budget is relative to the deterministic scheduler, so two opposite schedulers
// cover complementary neighbourhoods).
func (sys *System) Orders() [][]int {
	n := len(sys.Procs)
	asc, desc := make([]int, n), make([]int, n)
	for i := 0; i < n; i++ {
		asc[i], desc[i] = i, n-1-i
	}
	return [][]int{asc, desc}
}

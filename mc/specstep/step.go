package specstep

import (
	"crypto/md5"
	"errors"
	"fmt"
	"sort"
	"strings"

	"github.com/DistCompiler/pgo/distsys"
	"github.com/DistCompiler/pgo/distsys/tla"
	"github.com/DistCompiler/pgo/distsys/trace"
)

// ProcDef is one `process (name \in S) == instance Arch(...)` of the spec.
type ProcDef struct {
	Name      string // display name, e.g. "Server(0)"
	Self      tla.Value
	Arch      distsys.MPCalArchetype
	ValParams map[string]tla.Value                                   // non-ref archetype parameters
	RefParams map[string]func(t *Txn) distsys.ArchetypeResource      // ref parameters -> environment resource
	Config    []distsys.MPCalContextConfigFn                         // constants
}

// State is one global state at label boundaries.
type State struct {
	Locals  []map[string]tla.Value // per process; includes ".pc" and ".stack"
	Globals Globals
	Obs     string // property-specific observer component (part of the key)
	lhash   [][16]byte         // cached hash of the canonical rendering per process (zero = not computed)
	gkey    []gkEntry // cached hash per global, aligned with gnames (valid while the value is the same object)
	gnames  []string  // sorted global names (shared between states; the set of globals never changes)
	hash    [16]byte
	hashed  bool
}

type gkEntry struct {
	v     tla.Value
	h     [16]byte
	elems map[tla.Value][16]byte // function-valued globals: hash per element object (pointer identity)
}

// hashGlobal hashes one global.  A function-valued global (the usual `[i \in Nodes |-> ...]`) is
// hashed from per-element hashes that are cached by element identity, so a step that changes
// network[j] does not render the other mailboxes again.
func hashGlobal(n string, v tla.Value, prev gkEntry) (e gkEntry) {
	defer func() {
		if recover() != nil { // an unhashable dynamic type (causally wrapped value): plain path
			e = gkEntry{v: v, h: md5.Sum([]byte(n + "=" + Canon(v)))}
		}
	}()
	if v.IsFunction() && v.AsFunction().Len() > 1 && v.AsFunction().Len() <= 64 {
		f := v.AsFunction()
		type kh struct {
			kc string
			h  [16]byte
		}
		ents := make([]kh, 0, f.Len())
		elems := make(map[tla.Value][16]byte, f.Len())
		it := f.Iterator()
		for !it.Done() {
			k, el, _ := it.Next()
			h, ok := prev.elems[el]
			if !ok {
				h = md5.Sum([]byte(Canon(el)))
			}
			elems[el] = h
			ents = append(ents, kh{Canon(k), h})
		}
		sort.Slice(ents, func(i, j int) bool { return ents[i].kc < ents[j].kc })
		buf := make([]byte, 0, len(n)+2+len(ents)*24)
		buf = append(buf, n...)
		buf = append(buf, "=F"...)
		for _, x := range ents {
			buf = append(buf, x.kc...)
			buf = append(buf, ':')
			buf = append(buf, x.h[:]...)
		}
		return gkEntry{v: v, h: md5.Sum(buf), elems: elems}
	}
	return gkEntry{v: v, h: md5.Sum([]byte(n + "=" + Canon(v)))}
}

func sameValue(a, b tla.Value) (eq bool) {
	defer func() {
		if recover() != nil {
			eq = false
		}
	}()
	return a == b
}

func (s *State) PC(p int) string { return s.Locals[p][".pc"].AsString() }

func (s *State) localsKey(p int) string {
	var lb strings.Builder
	l := s.Locals[p]
	names := make([]string, 0, len(l))
	for n := range l {
		names = append(names, n)
	}
	sort.Strings(names)
	fmt.Fprintf(&lb, "P%d{", p)
	for _, n := range names {
		lb.WriteString(n)
		lb.WriteString("=")
		canon(&lb, l[n])
		lb.WriteString(";")
	}
	lb.WriteString("}")
	return lb.String()
}

func (s *State) globalNames() []string {
	names := make([]string, 0, len(s.Globals))
	for n := range s.Globals {
		names = append(names, n)
	}
	sort.Strings(names)
	return names
}

// Key is the canonical rendering of everything the future can depend on (for humans, replay
// files and conformance comparison; the search itself uses Hash).
func (s *State) Key() string {
	var b strings.Builder
	for p := range s.Locals {
		b.WriteString(s.localsKey(p))
	}
	b.WriteString("G{")
	for _, n := range s.globalNames() {
		b.WriteString(n)
		b.WriteString("=")
		canon(&b, s.Globals[n])
		b.WriteString(";")
	}
	b.WriteString("}O{")
	b.WriteString(s.Obs)
	b.WriteString("}")
	return b.String()
}

// Hash is a 128-bit hash of Key(), computed from cached per-process and per-variable hashes so
// that only what a step changed is rendered again.
func (s *State) Hash() [16]byte {
	if s.hashed {
		return s.hash
	}
	var zero [16]byte
	if s.lhash == nil {
		s.lhash = make([][16]byte, len(s.Locals))
	}
	buf := make([]byte, 0, 16*(len(s.Locals)+len(s.Globals))+len(s.Obs)+8)
	for p := range s.Locals {
		if s.lhash[p] == zero {
			s.lhash[p] = md5.Sum([]byte(s.localsKey(p)))
		}
		buf = append(buf, s.lhash[p][:]...)
	}
	if len(s.gnames) != len(s.Globals) {
		s.gnames = s.globalNames()
		s.gkey = nil
	}
	names := s.gnames
	var ng []gkEntry // copy on first change: the cache slice is shared with the parent state
	if len(s.gkey) != len(names) {
		ng = make([]gkEntry, len(names))
		s.gkey = nil
	}
	for i, n := range names {
		v := s.Globals[n]
		var e gkEntry
		if s.gkey != nil {
			e = s.gkey[i]
		}
		if s.gkey == nil || !sameValue(e.v, v) {
			e = hashGlobal(n, v, e)
			if ng == nil {
				ng = make([]gkEntry, len(names))
				copy(ng, s.gkey)
			}
			ng[i] = e
		}
		buf = append(buf, e.h[:]...)
	}
	if ng != nil {
		s.gkey = ng
	}
	buf = append(buf, s.Obs...)
	s.hash = md5.Sum(buf)
	s.hashed = true
	return s.hash
}

// KeyNoObs is the key without the observer component (for conformance comparison).
func (s *State) KeyNoObs() string {
	k := s.Key()
	return k[:strings.LastIndex(k, "O{")]
}


func (s *State) clone() *State {
	n := &State{Locals: make([]map[string]tla.Value, len(s.Locals)), Globals: s.Globals, Obs: s.Obs, gkey: s.gkey, gnames: s.gnames}
	copy(n.Locals, s.Locals)
	if s.lhash != nil {
		n.lhash = make([][16]byte, len(s.lhash))
		copy(n.lhash, s.lhash)
	}
	return n
}

// Outcome kinds of one attempt.
const (
	Commit   = "commit"
	Disabled = "disabled" // the attempt aborted (false await / empty read): not a step of the spec
	Failed   = "error"    // Run returned an error (assertion, Error label, resource error) or panicked
	Done     = "done"     // the process is at its Done label
)

// Choice is one resolved choice point of an attempt.
type Choice struct {
	Label string
	N     int
	Pick  int
}

// Attempt is the result of one critical-section attempt.
type Attempt struct {
	Kind    string
	Next    *State
	Err     string
	Choices []Choice
	Event   *trace.Event
	Dev     int // deviation cost of this attempt
	reads   []readRec
	wops    []wop
	nocache bool
}

type stepStop struct{}

type oneShot struct {
	n      int
	choose func(n int, label string) int
}

func (o *oneShot) BeginCriticalSection(pc string) {
	o.n++
	if o.n >= 2 {
		panic(stepStop{})
	}
}
func (o *oneShot) NextFairnessCounter(id string, ceiling uint) uint {
	return uint(o.choose(int(ceiling), id))
}

type evRec struct{ ev *trace.Event }

func (r *evRec) RecordEvent(e trace.Event) {
	if r.ev == nil {
		c := e
		c.Elements = append([]trace.Element{}, e.Elements...)
		r.ev = &c
	}
}

// System is a closed instance of a spec.
type System struct {
	Procs []ProcDef
	Init  *State // where the search starts
	// Root is the true initial state; Prefix the real execution that leads from Root to Init
	// (non-empty after Seed).  Every path reported, replayed or conformance-checked is Prefix+suffix
	// from Root, so a seeded search still only contains real executions from the initial state.
	Root   *State
	Prefix []Move
	// Observe may update the observer component after a committed step.
	Observe func(pre *State, p int, ev *trace.Event, post *State) string
}

// InitState builds the initial state: globals as given, locals from the real PreAmble of every
// archetype (run on a real context), pc = archetype's first label, empty stack.
func (sys *System) InitState(g Globals) *State {
	s := &State{Globals: g, Locals: make([]map[string]tla.Value, len(sys.Procs))}
	for p := range sys.Procs {
		pd := &sys.Procs[p]
		t := &Txn{base: func() Globals { return g }, apply: func(Globals) {}, choose: func(int, string) int { return 0 }, Self: pd.Self}
		stopper := &oneShot{n: 1}
		ctx := sys.newContext(pd, pd.Arch, t, stopper, nil)
		func() {
			defer func() {
				if x := recover(); x != nil {
					if _, ok := x.(stepStop); !ok {
						panic(x)
					}
				}
			}()
			_ = ctx.Run()
		}()
		s.Locals[p] = ctx.VerifLocals()
	}
	sys.Init = s
	sys.Root = s
	sys.Prefix = nil
	return s
}

func (sys *System) newContext(pd *ProcDef, arch distsys.MPCalArchetype, t *Txn, fc distsys.FairnessCounter, rec trace.Recorder) *distsys.MPCalContext {
	cfg := make([]distsys.MPCalContextConfigFn, 0, len(pd.Config)+len(pd.ValParams)+len(pd.RefParams)+2)
	cfg = append(cfg, pd.Config...)
	for n, v := range pd.ValParams {
		cfg = append(cfg, distsys.EnsureArchetypeValueParam(n, v))
	}
	for n, mk := range pd.RefParams {
		cfg = append(cfg, distsys.EnsureArchetypeRefParam(n, mk(t)))
	}
	cfg = append(cfg, distsys.SetFairnessCounter(fc))
	if rec != nil {
		cfg = append(cfg, distsys.SetTraceRecorder(rec))
	}
	return distsys.NewMPCalContext(pd.Self, arch, cfg...)
}

// Try runs exactly one attempt of process p from state s, replaying the given picks at the
// first len(prefix) choice points and answering 0 afterwards.
func (sys *System) Try(s *State, p int, prefix []int) (a Attempt) {
	pd := &sys.Procs[p]
	pc := s.PC(p)
	if strings.HasSuffix(pc, ".Done") {
		return Attempt{Kind: Done}
	}
	var choices []Choice
	choose := func(n int, label string) int {
		if n <= 0 {
			panic(fmt.Sprintf("specstep: choice %q with %d alternatives", label, n))
		}
		pick := 0
		if len(choices) < len(prefix) {
			pick = prefix[len(choices)]
			if pick >= n {
				panic(fmt.Sprintf("specstep: replay divergence at %q: pick %d of %d", label, pick, n))
			}
		}
		choices = append(choices, Choice{label, n, pick})
		return pick
	}
	var out Globals
	t := &Txn{base: func() Globals { return s.Globals }, apply: func(g Globals) { out = g }, choose: choose, Self: pd.Self}
	arch := pd.Arch
	arch.Label = pc
	locals := s.Locals[p]
	arch.PreAmble = func(iface distsys.ArchetypeInterface) {
		for n, v := range locals {
			if n == ".pc" {
				continue
			}
			iface.EnsureArchetypeResourceLocal(n, v)
		}
	}
	rec := &evRec{}
	ctx := sys.newContext(pd, arch, t, &oneShot{choose: choose}, rec)
	var runErr error
	var panicked any
	func() {
		defer func() {
			if x := recover(); x != nil {
				if _, ok := x.(stepStop); !ok {
					panicked = x
				}
			}
		}()
		runErr = ctx.Run()
	}()
	a.Choices = choices
	a.Event = rec.ev
	a.Dev = t.Dev
	a.reads, a.wops, a.nocache = t.reads, t.wops, t.uncacheable
	switch {
	case panicked != nil:
		a.Kind = Failed
		a.Err = fmt.Sprintf("panic: %v", panicked)
		if e, ok := panicked.(error); ok && errors.Is(e, tla.ErrTLAType) {
			a.Err = "panic: TLA+ type error: " + e.Error()
		}
	case runErr != nil:
		a.Kind = Failed
		a.Err = runErr.Error()
	case rec.ev == nil:
		// Run returned nil without an event: ErrDone from a label other than *.Done
		a.Kind = Done
	case rec.ev.IsAbort:
		a.Kind = Disabled
	default:
		a.Kind = Commit
		n := s.clone()
		n.Locals[p] = ctx.VerifLocals()
		if n.lhash != nil {
			n.lhash[p] = [16]byte{}
		}
		if out != nil {
			n.Globals = out
		}
		if sys.Observe != nil {
			n.Obs = sys.Observe(s, p, rec.ev, n)
		}
		a.Next = n
	}
	return a
}

// Succ enumerates every resolution of the choice points of one attempt of process p.
func (sys *System) Succ(s *State, p int) []Attempt {
	var out []Attempt
	stack := [][]int{nil}
	for len(stack) > 0 {
		prefix := stack[len(stack)-1]
		stack = stack[:len(stack)-1]
		a := sys.Try(s, p, prefix)
		if a.Kind == Done {
			return nil
		}
		out = append(out, a)
		for i := len(a.Choices) - 1; i >= len(prefix); i-- {
			for alt := a.Choices[i].N - 1; alt >= 1; alt-- {
				np := make([]int, i+1)
				for j := 0; j < i; j++ {
					np[j] = a.Choices[j].Pick
				}
				np[i] = alt
				stack = append(stack, np)
			}
		}
	}
	return out
}

// Picks extracts the pick list of an attempt.
func Picks(cs []Choice) []int {
	r := make([]int, len(cs))
	for i, c := range cs {
		r[i] = c.Pick
	}
	return r
}

// SeedStep selects one transition of a seeding script: the named process takes its first
// committing zero-deviation attempt accepted by Accept (nil = any).
type SeedStep struct {
	Proc   string
	Accept func(a *Attempt) bool
	// AllowDev: the step may use environment deviations (e.g. a spurious timeout); zero-deviation
	// attempts are still preferred.
	AllowDev bool
}

// Seed advances Init along a scripted real execution ("start from non-initial states too"): the
// search then explores everything reachable from a state that plain BFS would only reach at a
// depth beyond its budget.  It returns an error (and leaves Init unchanged) if some step of the
// script is not enabled - the scenario then does not apply to this tree and is skipped.
func (sys *System) Seed(script []SeedStep) error {
	s := sys.Init
	prefix := append([]Move{}, sys.Prefix...)
	for i, st := range script {
		p := -1
		for j := range sys.Procs {
			if sys.Procs[j].Name == st.Proc {
				p = j
			}
		}
		if p < 0 {
			return fmt.Errorf("seed step %d: no process %q", i, st.Proc)
		}
		var chosen *Attempt
		succ := sys.Succ(s, p)
		for pass := 0; pass < 2 && chosen == nil; pass++ {
			for _, a := range succ {
				a := a
				if a.Kind == Commit && (a.Dev == 0 || (pass == 1 && st.AllowDev)) && (st.Accept == nil || st.Accept(&a)) {
					chosen = &a
					break
				}
			}
		}
		if chosen == nil {
			return fmt.Errorf("seed step %d: %s at %s has no committing attempt accepted by the script", i, st.Proc, s.PC(p))
		}
		prefix = append(prefix, Move{P: p, Picks: toU8(chosen.Choices)})
		s = chosen.Next
	}
	sys.Init, sys.Prefix = s, prefix
	return nil
}

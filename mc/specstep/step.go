package specstep

import (
	"crypto/md5"
	"errors"
	"fmt"
	"sort"
	"strings"

	"github.com/DistCompiler/pgo/distsys"
	"github.com/DistCompiler/pgo/distsys/tla"
	"github.com/DistCompiler/pgo/distsys/trace"
)

// ProcDef is one `process (name \in S) == instance Arch(...)` of the spec.
type ProcDef struct {
	Name      string // display name, e.g. "Server(0)"
	Self      tla.Value
	Arch      distsys.MPCalArchetype
	ValParams map[string]tla.Value                                   // non-ref archetype parameters
	RefParams map[string]func(t *Txn) distsys.ArchetypeResource      // ref parameters -> environment resource
	Config    []distsys.MPCalContextConfigFn                         // constants
}

// State is one global state at label boundaries.
type State struct {
	Locals  []map[string]tla.Value // per process; includes ".pc" and ".stack"
	Globals Globals
	Obs     string // property-specific observer component (part of the key)
	key     string
}

func (s *State) PC(p int) string { return s.Locals[p][".pc"].AsString() }

// Key is the canonical rendering of everything the future can depend on.
func (s *State) Key() string {
	if s.key != "" {
		return s.key
	}
	var b strings.Builder
	for p, l := range s.Locals {
		names := make([]string, 0, len(l))
		for n := range l {
			names = append(names, n)
		}
		sort.Strings(names)
		fmt.Fprintf(&b, "P%d{", p)
		for _, n := range names {
			b.WriteString(n)
			b.WriteString("=")
			canon(&b, l[n])
			b.WriteString(";")
		}
		b.WriteString("}")
	}
	names := make([]string, 0, len(s.Globals))
	for n := range s.Globals {
		names = append(names, n)
	}
	sort.Strings(names)
	b.WriteString("G{")
	for _, n := range names {
		b.WriteString(n)
		b.WriteString("=")
		canon(&b, s.Globals[n])
		b.WriteString(";")
	}
	b.WriteString("}O{")
	b.WriteString(s.Obs)
	b.WriteString("}")
	s.key = b.String()
	return s.key
}

// KeyNoObs is the key without the observer component (for conformance comparison).
func (s *State) KeyNoObs() string {
	k := s.Key()
	return k[:strings.LastIndex(k, "O{")]
}

func (s *State) Hash() [16]byte { return md5.Sum([]byte(s.Key())) }

func (s *State) clone() *State {
	n := &State{Locals: make([]map[string]tla.Value, len(s.Locals)), Globals: s.Globals, Obs: s.Obs}
	copy(n.Locals, s.Locals)
	return n
}

// Outcome kinds of one attempt.
const (
	Commit   = "commit"
	Disabled = "disabled" // the attempt aborted (false await / empty read): not a step of the spec
	Failed   = "error"    // Run returned an error (assertion, Error label, resource error) or panicked
	Done     = "done"     // the process is at its Done label
)

// Choice is one resolved choice point of an attempt.
type Choice struct {
	Label string
	N     int
	Pick  int
}

// Attempt is the result of one critical-section attempt.
type Attempt struct {
	Kind    string
	Next    *State
	Err     string
	Choices []Choice
	Event   *trace.Event
}

type stepStop struct{}

type oneShot struct {
	n      int
	choose func(n int, label string) int
}

func (o *oneShot) BeginCriticalSection(pc string) {
	o.n++
	if o.n >= 2 {
		panic(stepStop{})
	}
}
func (o *oneShot) NextFairnessCounter(id string, ceiling uint) uint {
	return uint(o.choose(int(ceiling), id))
}

type evRec struct{ ev *trace.Event }

func (r *evRec) RecordEvent(e trace.Event) {
	if r.ev == nil {
		c := e
		c.Elements = append([]trace.Element{}, e.Elements...)
		r.ev = &c
	}
}

// System is a closed instance of a spec.
type System struct {
	Procs []ProcDef
	Init  *State
	// Observe may update the observer component after a committed step.
	Observe func(pre *State, p int, ev *trace.Event, post *State) string
}

// InitState builds the initial state: globals as given, locals from the real PreAmble of every
// archetype (run on a real context), pc = archetype's first label, empty stack.
func (sys *System) InitState(g Globals) *State {
	s := &State{Globals: g, Locals: make([]map[string]tla.Value, len(sys.Procs))}
	for p := range sys.Procs {
		pd := &sys.Procs[p]
		t := &Txn{base: func() Globals { return g }, apply: func(Globals) {}, choose: func(int, string) int { return 0 }, Self: pd.Self}
		stopper := &oneShot{n: 1}
		ctx := sys.newContext(pd, pd.Arch, t, stopper, nil)
		func() {
			defer func() {
				if x := recover(); x != nil {
					if _, ok := x.(stepStop); !ok {
						panic(x)
					}
				}
			}()
			_ = ctx.Run()
		}()
		s.Locals[p] = ctx.VerifLocals()
	}
	sys.Init = s
	return s
}

func (sys *System) newContext(pd *ProcDef, arch distsys.MPCalArchetype, t *Txn, fc distsys.FairnessCounter, rec trace.Recorder) *distsys.MPCalContext {
	cfg := make([]distsys.MPCalContextConfigFn, 0, len(pd.Config)+len(pd.ValParams)+len(pd.RefParams)+2)
	cfg = append(cfg, pd.Config...)
	for n, v := range pd.ValParams {
		cfg = append(cfg, distsys.EnsureArchetypeValueParam(n, v))
	}
	for n, mk := range pd.RefParams {
		cfg = append(cfg, distsys.EnsureArchetypeRefParam(n, mk(t)))
	}
	cfg = append(cfg, distsys.SetFairnessCounter(fc))
	if rec != nil {
		cfg = append(cfg, distsys.SetTraceRecorder(rec))
	}
	return distsys.NewMPCalContext(pd.Self, arch, cfg...)
}

// Try runs exactly one attempt of process p from state s, replaying the given picks at the
// first len(prefix) choice points and answering 0 afterwards.
func (sys *System) Try(s *State, p int, prefix []int) (a Attempt) {
	pd := &sys.Procs[p]
	pc := s.PC(p)
	if strings.HasSuffix(pc, ".Done") {
		return Attempt{Kind: Done}
	}
	var choices []Choice
	choose := func(n int, label string) int {
		if n <= 0 {
			panic(fmt.Sprintf("specstep: choice %q with %d alternatives", label, n))
		}
		pick := 0
		if len(choices) < len(prefix) {
			pick = prefix[len(choices)]
			if pick >= n {
				panic(fmt.Sprintf("specstep: replay divergence at %q: pick %d of %d", label, pick, n))
			}
		}
		choices = append(choices, Choice{label, n, pick})
		return pick
	}
	var out Globals
	t := &Txn{base: func() Globals { return s.Globals }, apply: func(g Globals) { out = g }, choose: choose, Self: pd.Self}
	arch := pd.Arch
	arch.Label = pc
	locals := s.Locals[p]
	arch.PreAmble = func(iface distsys.ArchetypeInterface) {
		for n, v := range locals {
			if n == ".pc" {
				continue
			}
			iface.EnsureArchetypeResourceLocal(n, v)
		}
	}
	rec := &evRec{}
	ctx := sys.newContext(pd, arch, t, &oneShot{choose: choose}, rec)
	var runErr error
	var panicked any
	func() {
		defer func() {
			if x := recover(); x != nil {
				if _, ok := x.(stepStop); !ok {
					panicked = x
				}
			}
		}()
		runErr = ctx.Run()
	}()
	a.Choices = choices
	a.Event = rec.ev
	switch {
	case panicked != nil:
		a.Kind = Failed
		a.Err = fmt.Sprintf("panic: %v", panicked)
		if e, ok := panicked.(error); ok && errors.Is(e, tla.ErrTLAType) {
			a.Err = "panic: TLA+ type error: " + e.Error()
		}
	case runErr != nil:
		a.Kind = Failed
		a.Err = runErr.Error()
	case rec.ev == nil:
		// Run returned nil without an event: ErrDone from a label other than *.Done
		a.Kind = Done
	case rec.ev.IsAbort:
		a.Kind = Disabled
	default:
		a.Kind = Commit
		n := s.clone()
		n.Locals[p] = ctx.VerifLocals()
		if out != nil {
			n.Globals = out
		}
		if sys.Observe != nil {
			n.Obs = sys.Observe(s, p, rec.ev, n)
		}
		a.Next = n
	}
	return a
}

// Succ enumerates every resolution of the choice points of one attempt of process p.
func (sys *System) Succ(s *State, p int) []Attempt {
	var out []Attempt
	stack := [][]int{nil}
	for len(stack) > 0 {
		prefix := stack[len(stack)-1]
		stack = stack[:len(stack)-1]
		a := sys.Try(s, p, prefix)
		if a.Kind == Done {
			return nil
		}
		out = append(out, a)
		for i := len(a.Choices) - 1; i >= len(prefix); i-- {
			for alt := a.Choices[i].N - 1; alt >= 1; alt-- {
				np := make([]int, i+1)
				for j := 0; j < i; j++ {
					np[j] = a.Choices[j].Pick
				}
				np[i] = alt
				stack = append(stack, np)
			}
		}
	}
	return out
}

// Picks extracts the pick list of an attempt.
func Picks(cs []Choice) []int {
	r := make([]int, len(cs))
	for i, c := range cs {
		r[i] = c.Pick
	}
	return r
}

package gate2

import (
	"fmt"
	"strings"

	"github.com/DistCompiler/pgo/distsys"
	"github.com/DistCompiler/pgo/distsys/tla"
)

// OpRec is one operation that really reached a resource (ground truth, independent of tracing).
type OpRec struct {
	Res  string      // name given to the Logging wrapper
	Op   string      // read | write | index | precommit | commit | abort | close
	Path []tla.Value // index path of the (sub-)resource the operation was applied to
	Val  tla.Value   // value returned by ReadValue / handed to WriteValue, causal wrapper stripped
	Raw  tla.Value   // the same value as seen on the interface (possibly clock-wrapped)
	Err  error       // error returned by the wrapped resource
}

func (o OpRec) String() string {
	var b strings.Builder
	b.WriteString(o.Op + " " + o.Res)
	for _, i := range o.Path {
		b.WriteString("[" + i.String() + "]")
	}
	if o.Op == "read" || o.Op == "write" {
		b.WriteString(" " + o.Val.String())
	}
	if o.Err != nil {
		b.WriteString(" !" + o.Err.Error())
	}
	return b.String()
}

// Log collects OpRecs of one execution (all wrappers of the execution share it).
type Log struct {
	Recs []OpRec
}

func (l *Log) add(r OpRec) { l.Recs = append(l.Recs, r) }

// Mark returns the current length (use with Since).
func (l *Log) Mark() int { return len(l.Recs) }

// Since returns the records appended after mark.
func (l *Log) Since(mark int) []OpRec { return l.Recs[mark:] }

// Logging wraps a resource and records every operation that reaches it.
type Logging struct {
	Name  string
	Inner distsys.ArchetypeResource
	L     *Log
	path  []tla.Value
}

var _ distsys.ArchetypeResource = &Logging{}

func NewLogging(name string, inner distsys.ArchetypeResource, l *Log) *Logging {
	return &Logging{Name: name, Inner: inner, L: l}
}

func (w *Logging) rec(op string, v tla.Value, err error) {
	w.L.add(OpRec{Res: w.Name, Op: op, Path: w.path, Val: v.StripVClock(), Raw: v, Err: err})
}

func (w *Logging) Abort(iface distsys.ArchetypeInterface) chan struct{} {
	w.rec("abort", tla.Value{}, nil)
	return w.Inner.Abort(iface)
}

func (w *Logging) PreCommit(iface distsys.ArchetypeInterface) chan error {
	w.rec("precommit", tla.Value{}, nil)
	return w.Inner.PreCommit(iface)
}

func (w *Logging) Commit(iface distsys.ArchetypeInterface) chan struct{} {
	w.rec("commit", tla.Value{}, nil)
	return w.Inner.Commit(iface)
}

func (w *Logging) ReadValue(iface distsys.ArchetypeInterface) (tla.Value, error) {
	v, err := w.Inner.ReadValue(iface)
	w.rec("read", v, err)
	return v, err
}

func (w *Logging) WriteValue(iface distsys.ArchetypeInterface, value tla.Value) error {
	err := w.Inner.WriteValue(iface, value)
	w.rec("write", value, err)
	return err
}

func (w *Logging) Index(iface distsys.ArchetypeInterface, index tla.Value) (distsys.ArchetypeResource, error) {
	sub, err := w.Inner.Index(iface, index)
	p := append(append([]tla.Value{}, w.path...), index)
	w.L.add(OpRec{Res: w.Name, Op: "index", Path: p, Err: err})
	if err != nil {
		return nil, err
	}
	return &Logging{Name: w.Name, Inner: sub, L: w.L, path: p}, nil
}

func (w *Logging) Close() error {
	w.rec("close", tla.Value{}, nil)
	return w.Inner.Close()
}

// GetState forwards to a Persistable inner resource (so Logging/Faulty can sit under resources.MakePersistent).
func (w *Logging) GetState() ([]byte, error) {
	if p, ok := w.Inner.(interface{ GetState() ([]byte, error) }); ok {
		return p.GetState()
	}
	return nil, fmt.Errorf("gate2: %T has no GetState", w.Inner)
}

// FaultPlan says which operations of a Faulty-wrapped resource are refused.  Counters run over the whole
// execution, so a refusal happens exactly once and the retry goes through.
type FaultPlan struct {
	RefuseOp        int // refuse the RefuseOp-th (0-based) data operation (ReadValue/WriteValue/Index on the resource or any of its sub-resources); -1 = never
	RefusePreCommit int // refuse the RefusePreCommit-th (0-based) PreCommit (the wrapped resource still sees PreCommit and answers; its answer is overridden); -1 = never
	ops, pcs        int
	Refused         []string // what was refused, in order
}

func NoFault() *FaultPlan { return &FaultPlan{RefuseOp: -1, RefusePreCommit: -1} }

// Ops returns how many data operations / pre-commits were attempted so far.
func (p *FaultPlan) Ops() (ops, precommits int) { return p.ops, p.pcs }

// Faulty wraps a resource and refuses scripted operations with ErrCriticalSectionAborted, which the
// ArchetypeResource contract allows any resource to answer at any time.  A refused operation never reaches
// the wrapped resource.
type Faulty struct {
	Inner distsys.ArchetypeResource
	P     *FaultPlan
	sub   bool
}

var _ distsys.ArchetypeResource = &Faulty{}

func NewFaulty(inner distsys.ArchetypeResource, p *FaultPlan) *Faulty {
	return &Faulty{Inner: inner, P: p}
}

func (w *Faulty) refuse(what string) bool {
	k := w.P.ops
	w.P.ops++
	if k == w.P.RefuseOp {
		w.P.Refused = append(w.P.Refused, what)
		return true
	}
	return false
}

func (w *Faulty) Abort(iface distsys.ArchetypeInterface) chan struct{} { return w.Inner.Abort(iface) }

func (w *Faulty) PreCommit(iface distsys.ArchetypeInterface) chan error {
	ch := w.Inner.PreCommit(iface)
	if w.sub {
		return ch
	}
	k := w.P.pcs
	w.P.pcs++
	if k != w.P.RefusePreCommit {
		return ch
	}
	w.P.Refused = append(w.P.Refused, "precommit")
	out := make(chan error, 1)
	if ch == nil {
		out <- distsys.ErrCriticalSectionAborted
		return out
	}
	go func() {
		<-ch // the wrapped resource's own answer is awaited, then overridden
		out <- distsys.ErrCriticalSectionAborted
	}()
	return out
}

func (w *Faulty) Commit(iface distsys.ArchetypeInterface) chan struct{} { return w.Inner.Commit(iface) }

func (w *Faulty) ReadValue(iface distsys.ArchetypeInterface) (tla.Value, error) {
	if w.refuse("read") {
		return tla.Value{}, distsys.ErrCriticalSectionAborted
	}
	return w.Inner.ReadValue(iface)
}

func (w *Faulty) WriteValue(iface distsys.ArchetypeInterface, value tla.Value) error {
	if w.refuse("write") {
		return distsys.ErrCriticalSectionAborted
	}
	return w.Inner.WriteValue(iface, value)
}

func (w *Faulty) Index(iface distsys.ArchetypeInterface, index tla.Value) (distsys.ArchetypeResource, error) {
	if w.refuse("index") {
		return nil, distsys.ErrCriticalSectionAborted
	}
	sub, err := w.Inner.Index(iface, index)
	if err != nil {
		return nil, err
	}
	return &Faulty{Inner: sub, P: w.P, sub: true}, nil
}

func (w *Faulty) Close() error { return w.Inner.Close() }

func (w *Faulty) GetState() ([]byte, error) {
	if p, ok := w.Inner.(interface{ GetState() ([]byte, error) }); ok {
		return p.GetState()
	}
	return nil, fmt.Errorf("gate2: %T has no GetState", w.Inner)
}

// Refuser is a leaf resource that accepts every read (returning a constant) and write, and refuses its
// n-th PreCommit.  Bound as an extra parameter it makes a section fail in the pre-commit phase while every
// sibling resource pre-committed successfully.
type Refuser struct {
	distsys.ArchetypeResourceLeafMixin
	RefusePreCommit int
	pcs             int
	Log             []string
}

var _ distsys.ArchetypeResource = &Refuser{}

func (r *Refuser) Abort(distsys.ArchetypeInterface) chan struct{} {
	r.Log = append(r.Log, "abort")
	return nil
}
func (r *Refuser) PreCommit(distsys.ArchetypeInterface) chan error {
	k := r.pcs
	r.pcs++
	if k == r.RefusePreCommit {
		r.Log = append(r.Log, "precommit-refused")
		ch := make(chan error, 1)
		ch <- distsys.ErrCriticalSectionAborted
		return ch
	}
	r.Log = append(r.Log, "precommit")
	return nil
}
func (r *Refuser) Commit(distsys.ArchetypeInterface) chan struct{} {
	r.Log = append(r.Log, "commit")
	return nil
}
func (r *Refuser) ReadValue(distsys.ArchetypeInterface) (tla.Value, error) {
	return tla.MakeString("refuser"), nil
}
func (r *Refuser) WriteValue(distsys.ArchetypeInterface, tla.Value) error { return nil }
func (r *Refuser) Close() error                                           { return nil }

// AsyncClose forwards everything but runs Close of the wrapped resource in a background goroutine, so that Run's
// clean-up does not wait for slow shutdown paths (tcpMailboxesLocal.Close sleeps 500 ms).  Not part of any oracle.
type AsyncClose struct {
	distsys.ArchetypeResource
}

func (w AsyncClose) Close() error {
	go func() {
		defer func() { recover() }()
		w.ArchetypeResource.Close()
	}()
	return nil
}

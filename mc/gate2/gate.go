// Package gate2 is engine E2: a real distsys.MPCalContext advanced one
// critical-section attempt at a time.
//
// The context is given (a) a distsys.FairnessCounter whose BeginCriticalSection
// parks the Run goroutine until the driver grants a step and whose
// NextFairnessCounter asks the driver, and (b) a trace.Recorder that hands the
// driver one trace.Event per attempt.  MPCalContext.Run is a sequential loop
//
//	[abort() of the previous attempt if it failed]; BeginEvent; Inc clock; read .pc;
//	BeginCriticalSection(pc)  <-- park
//	body; commit() | error
//
// so park-to-park is exactly: body of attempt k, its commit or abort (event k is
// delivered), and the prologue of attempt k+1.  Everything the Run goroutine
// does happens while the driver is blocked in Step, so no two goroutines of one
// execution ever run concurrently (resource-internal goroutines are awaited by
// commit()/abort() themselves).
//
// Only the public API of distsys is used.
package gate2

import (
	"fmt"
	"runtime"
	"runtime/debug"
	"time"

	"github.com/DistCompiler/pgo/distsys"
	"github.com/DistCompiler/pgo/distsys/tla"
	"github.com/DistCompiler/pgo/distsys/trace"
)

const (
	msgPark = iota
	msgChoose
	msgEnd
)

type reply struct {
	v    uint
	exit bool
}

type gateMsg struct {
	kind  int
	pc    string
	id    string
	n     uint
	reply chan reply
	err   error
	pan   any
	stack string
}

// Result is what one Start/Step observed.
type Result struct {
	Ended  bool          // Run returned (or panicked) during this step
	Err    error         // Run's return value (only if Ended)
	Panic  any           // value of a panic that escaped Run (only if Ended)
	Stack  string        // stack of that panic
	PC     string        // label the Run goroutine was parked at before this step ("" for Start)
	NextPC string        // label it is parked at now (only if !Ended)
	Events []trace.Event // events delivered during this step (exactly one per executed attempt when tracing is on)
	Hung   bool          // no park and no end within Timeout; Dump holds all goroutine stacks
	Dump   string
}

// Gate drives one context.
type Gate struct {
	Ctx *distsys.MPCalContext
	// Chooser answers NextFairnessCounter; it runs in the driver goroutine (inside Step).  nil = always 0.
	Chooser func(id string, n uint) uint
	// Timeout is the watchdog for one step (default 60 s).  Hitting it is reported as Result.Hung.
	Timeout time.Duration
	// NoRecorder leaves the context's own recorder (the PGO_TRACE_DIR file recorder) in place.
	req     chan gateMsg
	grant   chan bool
	events  []trace.Event
	started bool
	ended   bool
	parked  string
	pending chan reply // non-nil while the Run goroutine waits for a choice
	Steps   int
}

type counter struct{ g *Gate }

func (c counter) BeginCriticalSection(pc string) {
	c.g.req <- gateMsg{kind: msgPark, pc: pc}
	if !<-c.g.grant {
		runtime.Goexit()
	}
}

func (c counter) NextFairnessCounter(id string, ceiling uint) uint {
	r := make(chan reply, 1)
	c.g.req <- gateMsg{kind: msgChoose, id: id, n: ceiling, reply: r}
	a := <-r
	if a.exit {
		runtime.Goexit()
	}
	return a.v
}

type recorder struct{ g *Gate }

func (r recorder) RecordEvent(ev trace.Event) {
	// EventState reuses (and clears) the backing array of Elements after RecordEvent returns
	ev.Elements = append([]trace.Element(nil), ev.Elements...)
	r.g.events = append(r.g.events, ev)
}

// Options for New.
type Options struct {
	Chooser    func(id string, n uint) uint
	Timeout    time.Duration
	NoRecorder bool // do not install the in-process recorder (keep the file recorder of PGO_TRACE_DIR)
}

// New builds a gated context.  cfg are the usual configuration functions (parameters, constants).
func New(self tla.Value, arch distsys.MPCalArchetype, opt Options, cfg ...distsys.MPCalContextConfigFn) *Gate {
	g := &Gate{Chooser: opt.Chooser, Timeout: opt.Timeout, req: make(chan gateMsg, 4), grant: make(chan bool)}
	if g.Timeout == 0 {
		g.Timeout = 60 * time.Second
	}
	all := append([]distsys.MPCalContextConfigFn{}, cfg...)
	all = append(all, distsys.SetFairnessCounter(counter{g}))
	if !opt.NoRecorder {
		all = append(all, distsys.SetTraceRecorder(recorder{g}))
	}
	g.Ctx = distsys.NewMPCalContext(self, arch, all...)
	return g
}

// Start launches Run and waits until it parks before its first attempt (or ends).
func (g *Gate) Start() Result {
	if g.started {
		panic("gate2: Start called twice")
	}
	g.started = true
	go func() {
		var err error
		normal := false
		defer func() {
			m := gateMsg{kind: msgEnd, err: err}
			if !normal {
				if x := recover(); x != nil {
					m.pan = x
					m.stack = string(debug.Stack())
				}
			}
			g.req <- m
		}()
		err = g.Ctx.Run()
		normal = true
	}()
	return g.wait("")
}

// Step grants one attempt and waits for the next park or for Run to return.
func (g *Gate) Step() Result {
	if !g.started || g.ended {
		panic("gate2: Step on a context that is not parked")
	}
	pc := g.parked
	g.Steps++
	g.grant <- true
	return g.wait(pc)
}

func (g *Gate) wait(pc string) Result {
	t := time.NewTimer(g.Timeout)
	defer t.Stop()
	for {
		select {
		case m := <-g.req:
			switch m.kind {
			case msgPark:
				g.parked = m.pc
				return Result{PC: pc, NextPC: m.pc, Events: g.take()}
			case msgChoose:
				g.pending = m.reply
				var v uint
				if g.Chooser != nil {
					v = g.Chooser(m.id, m.n) // may panic (explore): Kill() then releases the Run goroutine
				}
				g.pending = nil
				m.reply <- reply{v: v}
			case msgEnd:
				g.ended = true
				return Result{Ended: true, Err: m.err, Panic: m.pan, Stack: m.stack, PC: pc, Events: g.take()}
			}
		case <-t.C:
			buf := make([]byte, 1<<20)
			n := runtime.Stack(buf, true)
			return Result{Hung: true, PC: pc, Dump: string(buf[:n]), Events: g.take()}
		}
	}
}

func (g *Gate) take() []trace.Event {
	e := g.events
	g.events = nil
	return e
}

// Parked returns the label the context is parked at ("" if not started or ended).
func (g *Gate) Parked() string {
	if !g.started || g.ended {
		return ""
	}
	return g.parked
}

// Ended tells whether Run has returned.
func (g *Gate) Ended() bool { return g.ended }

// Kill releases a parked Run goroutine by making it runtime.Goexit() (Run's deferred clean-up closes the
// resources).  Safe to call in any state, any number of times; used in defers so that no goroutine leaks when an
// execution is abandoned.
func (g *Gate) Kill() {
	if !g.started || g.ended {
		return
	}
	if g.pending != nil {
		g.pending <- reply{exit: true}
		g.pending = nil
	} else {
		select {
		case g.grant <- false:
		case <-time.After(g.Timeout):
			return // hung inside a step: the goroutine is abandoned
		}
	}
	t := time.NewTimer(g.Timeout)
	defer t.Stop()
	for {
		select {
		case m := <-g.req:
			if m.kind == msgEnd {
				g.ended = true
				return
			}
			if m.kind == msgChoose {
				m.reply <- reply{exit: true}
			}
		case <-t.C:
			return
		}
	}
}

// Local reads a local state variable through the public ReadArchetypeResourceLocal.  Only while parked or ended.
func (g *Gate) Local(name string) (v tla.Value, ok bool) {
	defer func() {
		if recover() != nil {
			ok = false
		}
	}()
	return g.Ctx.IFace().ReadArchetypeResourceLocal(name), true
}

// RunToEnd steps until Run returns or max attempts were executed.
func (g *Gate) RunToEnd(max int) (last Result, all []trace.Event, err error) {
	for i := 0; i < max; i++ {
		last = g.Step()
		all = append(all, last.Events...)
		if last.Hung {
			return last, all, fmt.Errorf("hung at %s", last.PC)
		}
		if last.Ended {
			return last, all, nil
		}
	}
	return last, all, fmt.Errorf("not finished after %d attempts", max)
}

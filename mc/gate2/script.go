package gate2

import (
	"fmt"
	"runtime/debug"

	"github.com/DistCompiler/pgo/distsys"
	"github.com/DistCompiler/pgo/distsys/tla"
)

// Op is one statement of a scripted critical section.
//
//	r  read  R or R[I]
//	w  write R or R[I] := V          (V is a string tag)
//	f  write R or R[I] := the value most recently read in this attempt (relay)
type Op struct {
	K string `json:"k"`
	R string `json:"r"`
	I *int   `json:"i,omitempty"`
	S string `json:"s,omitempty"` // string index (used when I is nil and S != "")
	V string `json:"v,omitempty"`
}

func (o Op) String() string {
	s := o.K + " " + o.R
	if o.I != nil {
		s += fmt.Sprintf("[%d]", *o.I)
	} else if o.S != "" {
		s += fmt.Sprintf("[%q]", o.S)
	}
	if o.K == "w" {
		s += " " + o.V
	}
	return s
}

// Section is one label: its operations, then goto Sections[Next] (Next < 0: goto Done).
type Section struct {
	Ops  []Op `json:"ops"`
	Next int  `json:"next"`
}

// Var declares a state variable of the scripted archetype.
type Var struct {
	Name string    // short name; the resource is "<Arch>.<Name>"
	Ref  bool      // ref parameter (bound with EnsureArchetypeRefParam, accessed through RequireArchetypeResourceRef)
	Init tla.Value // initial value of a local (Ref == false), installed by the PreAmble
}

// Program is a hand-built archetype in the shape the code generator emits.
type Program struct {
	Arch     string
	Vars     []Var
	Sections []Section
}

// BodyObs is what the body itself saw for one operation.
type BodyObs struct {
	Attempt, Sec, Op int
	K                string
	Val              tla.Value // value returned by iface.Read / handed to iface.Write
	Err              error
}

// Script is the run-time state of a Program's bodies: attempt counter, what the bodies observed, and the
// scripted body faults (await FALSE).
type Script struct {
	Prog Program
	// Probe (optional) is called inside the attempt, in the Run goroutine, before every operation and once more after
	// the last one (op == len(ops)), i.e. right before the abort/commit decision: the place from which a harness
	// lets a remote party look at the resources while the section is in flight
	Probe   func(sec, op, attempt int)
	AbortAt func(sec, op, attempt int) bool // body returns ErrCriticalSectionAborted before op (op == len(ops): after the last one); nil = never
	ValueOf func(o Op) (tla.Value, bool)    // value written by a "w" op (ok=false or nil func: the string tag o.V)
	Attempt int                             // number of body executions started so far
	Obs     []BodyObs
	Panics  []string
}

type BodyPanic struct {
	Val   any
	Stack string
}

func (p *BodyPanic) Error() string { return fmt.Sprintf("critical section panicked: %v", p.Val) }

func (s *Script) label(i int) string {
	if i < 0 {
		return s.Prog.Arch + ".Done"
	}
	return fmt.Sprintf("%s.s%d", s.Prog.Arch, i)
}

func (s *Script) isRef(name string) bool {
	for _, v := range s.Prog.Vars {
		if v.Name == name {
			return v.Ref
		}
	}
	panic("gate2: undeclared variable " + name)
}

func (s *Script) body(sec int) func(iface distsys.ArchetypeInterface) error {
	return func(iface distsys.ArchetypeInterface) (err error) {
		att := s.Attempt
		s.Attempt++
		defer func() {
			if x := recover(); x != nil {
				bp := &BodyPanic{Val: x, Stack: string(debug.Stack())}
				s.Panics = append(s.Panics, bp.Error())
				err = bp
			}
		}()
		ops := s.Prog.Sections[sec].Ops
		var last tla.Value
		for i, o := range ops {
			if s.Probe != nil {
				s.Probe(sec, i, att)
			}
			if s.AbortAt != nil && s.AbortAt(sec, i, att) {
				return distsys.ErrCriticalSectionAborted // a false `await`
			}
			var h distsys.ArchetypeResourceHandle
			full := s.Prog.Arch + "." + o.R
			if s.isRef(o.R) {
				h, err = iface.RequireArchetypeResourceRef(full)
				if err != nil {
					return err
				}
			} else {
				h = iface.RequireArchetypeResource(full)
			}
			var idx []tla.Value
			if o.I != nil {
				idx = []tla.Value{tla.MakeNumber(int32(*o.I))}
			} else if o.S != "" {
				idx = []tla.Value{tla.MakeString(o.S)}
			}
			switch o.K {
			case "r":
				var v tla.Value
				v, err = iface.Read(h, idx)
				s.Obs = append(s.Obs, BodyObs{att, sec, i, "r", v, err})
				if err != nil {
					return err
				}
				last = v
			case "w", "f":
				v := tla.MakeString(o.V)
				if s.ValueOf != nil {
					if x, ok := s.ValueOf(o); ok {
						v = x
					}
				}
				if o.K == "f" {
					v = last
				}
				err = iface.Write(h, idx, v)
				s.Obs = append(s.Obs, BodyObs{att, sec, i, "w", v, err})
				if err != nil {
					return err
				}
			default:
				panic("gate2: bad op " + o.K)
			}
		}
		if s.Probe != nil {
			s.Probe(sec, len(ops), att)
		}
		if s.AbortAt != nil && s.AbortAt(sec, len(ops), att) {
			return distsys.ErrCriticalSectionAborted
		}
		return iface.Goto(s.label(s.Prog.Sections[sec].Next))
	}
}

// Archetype builds the MPCalArchetype (jump table with one critical section per Section plus Done).
func (s *Script) Archetype() distsys.MPCalArchetype {
	var css []distsys.MPCalCriticalSection
	for i := range s.Prog.Sections {
		css = append(css, distsys.MPCalCriticalSection{Name: s.label(i), Body: s.body(i)})
	}
	css = append(css, distsys.MPCalCriticalSection{Name: s.Prog.Arch + ".Done", Body: func(distsys.ArchetypeInterface) error { return distsys.ErrDone }})
	var refs []string
	var locals []Var
	for _, v := range s.Prog.Vars {
		if v.Ref {
			refs = append(refs, s.Prog.Arch+"."+v.Name)
		} else {
			locals = append(locals, v)
		}
	}
	first := s.label(-1)
	if len(s.Prog.Sections) > 0 {
		first = s.label(0)
	}
	return distsys.MPCalArchetype{
		Name:              s.Prog.Arch,
		Label:             first,
		RequiredRefParams: refs,
		RequiredValParams: nil,
		JumpTable:         distsys.MakeMPCalJumpTable(css...),
		ProcTable:         distsys.MakeMPCalProcTable(),
		PreAmble: func(iface distsys.ArchetypeInterface) {
			for _, v := range locals {
				iface.EnsureArchetypeResourceLocal(s.Prog.Arch+"."+v.Name, v.Init)
			}
		},
	}
}

// Package envproc builds MPCal archetypes *by hand* for the plain PlusCal processes some specs
// declare next to their archetype instances (gcounter's UpdateGCntr, shopcart's UpdateCRDT,
// NestedCRDTImpl's Node).  They are part of the spec's environment (PGo generates no Go for
// them), written against the same distsys.ArchetypeInterface the generated code uses so that the
// E4 engine can step them like any other process.  Like the mapping macros they are validated
// by C02's graph comparison with TLC: a wrong transcription makes the graphs differ.
package envproc

import (
	"sort"

	"github.com/DistCompiler/pgo/distsys"
	"github.com/DistCompiler/pgo/distsys/tla"
)

// Section is one label of the process.
type Section func(iface distsys.ArchetypeInterface) error

// Local is a process-local variable with its initial value.
type Local struct {
	Name string
	Init tla.Value
}

// Archetype assembles an archetype called name (labels name.<label>, plus name.Done).
func Archetype(name, first string, refParams []string, locals []Local, sections map[string]Section) distsys.MPCalArchetype {
	var cs []distsys.MPCalCriticalSection
	labels := make([]string, 0, len(sections))
	for l := range sections {
		labels = append(labels, l)
	}
	sort.Strings(labels)
	for _, l := range labels {
		body := sections[l]
		cs = append(cs, distsys.MPCalCriticalSection{Name: name + "." + l, Body: func(iface distsys.ArchetypeInterface) error { return body(iface) }})
	}
	cs = append(cs, distsys.MPCalCriticalSection{Name: name + ".Done", Body: func(distsys.ArchetypeInterface) error { return distsys.ErrDone }})
	var refs []string
	for _, r := range refParams {
		refs = append(refs, name+"."+r)
	}
	return distsys.MPCalArchetype{
		Name: name, Label: name + "." + first, RequiredRefParams: refs, RequiredValParams: []string{},
		JumpTable: distsys.MakeMPCalJumpTable(cs...), ProcTable: distsys.MakeMPCalProcTable(),
		PreAmble: func(iface distsys.ArchetypeInterface) {
			for _, l := range locals {
				iface.EnsureArchetypeResourceLocal(name+"."+l.Name, l.Init)
			}
		},
	}
}

// Sorted returns the members of a set in a fixed order (numbers ascending, otherwise by String()).
func Sorted(s tla.Value) []tla.Value {
	var el []tla.Value
	it := s.AsSet().Iterator()
	for !it.Done() {
		k, _, _ := it.Next()
		el = append(el, k)
	}
	sort.Slice(el, func(i, j int) bool {
		if el[i].IsNumber() && el[j].IsNumber() {
			return el[i].AsNumber() < el[j].AsNumber()
		}
		return el[i].String() < el[j].String()
	})
	return el
}

// Except is [f EXCEPT ![k] = v].
func Except(f, k, v tla.Value) tla.Value {
	return tla.FunctionSubstitution(f, []tla.FunctionSubstitutionRecord{{Keys: []tla.Value{k}, Value: func(tla.Value) tla.Value { return v }}})
}

// Package shopcart closes systems/shopcart as the spec does (the ANodeBench instantiation that is
// in force in shopcart.tla; the ANode one is commented out there):
//
//	variable crdt = [nid \in NodeSet |-> [addMap |-> [eid \in ElemSet |-> Null], remMap |-> [eid \in ElemSet |-> Null]]];
//	         in = <<...>>; out; c = [id \in NodeSet |-> {}];
//	fair process (Node \in NodeSet) == instance ANodeBench(ref crdt[_], ref out, ref c[_]) mapping crdt[_] via AWORSet;
//	fair process (UpdateCRDT = 0) { l1: while (TRUE) { with (i1 \in NodeSet; i2 \in {x \in NodeSet: crdt[x] # crdt[i1]}) { Merge(crdt, i1, i2); c[i1], c[i2] := c[i1] \cup c[i2] } } }
//
// The shipped Go binds crdt to the real AWORSet CRDT resource (subject of C12/C13); here the
// spec's own AWORSet macro and merge process are bound, as C02/C16 require.
package shopcart

import (
	"fmt"

	"github.com/DistCompiler/pgo/distsys"
	"github.com/DistCompiler/pgo/distsys/tla"
	gen "github.com/DistCompiler/pgo/systems/shopcart"
	ss "verif/mc/specstep"
	"verif/mc/sys/envproc"
)

type Config struct {
	NumNodes       int `json:"num_nodes"`
	BenchNumRounds int `json:"bench_num_rounds"`
	// NodeOps, when non-nil, selects the spec's other instantiation (commented out in shopcart.tla,
	// generated all the same):
	//
	//	fair process (Node \in NodeSet) == instance ANode(ref crdt[_], ref in, ref out)
	//	    mapping crdt[_] via AWORSet mapping in via InputQueue;
	//
	// with `in` = these commands (nil = ANodeBench, add-only).  ANode does not maintain the causal
	// history `c` itself (only ANodeBench does), so the environment records it: the InputQueue read
	// that hands command number k to node n also puts <<cmd, elem, k>> into c[n]; UpdateCRDT
	// unions c on every merge exactly as in the spec.
	NodeOps []Op `json:"node_ops,omitempty"`
}

// Op is one shopping-cart command of the input queue.
type Op struct {
	Remove bool   `json:"remove,omitempty"`
	Elem   string `json:"elem"`
}

// SpecOps is the `in` of shopcart.tla.
var SpecOps = []Op{{false, "1"}, {true, "2"}, {false, "2"}, {true, "1"}}

func (o Op) tla() tla.Value {
	cmd := 1
	if o.Remove {
		cmd = 2
	}
	return tla.MakeRecord([]tla.RecordField{{Key: kCmd, Value: num(cmd)}, {Key: kElem, Value: str(o.Elem)}})
}

func (c Config) elemValues() []tla.Value {
	var out []tla.Value
	if c.NodeOps != nil {
		seen := map[string]bool{}
		for _, o := range c.NodeOps {
			if !seen[o.Elem] {
				seen[o.Elem] = true
				out = append(out, str(o.Elem))
			}
		}
		return out
	}
	for _, e := range c.ElemSet() {
		out = append(out, num(e))
	}
	return out
}

// InputQueue: read { await Len($variable) > 0; with (r = Head($variable)) { $variable := Tail($variable); yield r } }
// plus the bookkeeping of c described at Config.NodeOps.
func (c Config) inRead(t *ss.Txn, cur tla.Value, _ []tla.Value) (tla.Value, tla.Value, error) {
	n := cur.AsTuple().Len()
	if n == 0 {
		return tla.Value{}, tla.Value{}, ss.ErrAbort
	}
	r := tla.ModuleHead(cur)
	k := len(c.NodeOps) - n + 1
	hist := t.Get("c")
	mine := tla.ModuleUnionSymbol(hist.ApplyFunction(t.Self), tla.MakeSet(tla.MakeTuple(r.ApplyFunction(kCmd), r.ApplyFunction(kElem), num(k))))
	t.Set("c", envproc.Except(hist, t.Self, mine))
	return tla.ModuleTail(cur), r, nil
}

func inWrite(t *ss.Txn, cur tla.Value, _ []tla.Value, v tla.Value) (tla.Value, error) {
	return tla.ModuleAppend(cur, v), nil
}

func num(i int) tla.Value    { return tla.MakeNumber(int32(i)) }
func str(s string) tla.Value { return tla.MakeString(s) }

var kAdd, kRem, kCmd, kElem = str("addMap"), str("remMap"), str("cmd"), str("elem")

func (c Config) nodeSet() tla.Value {
	var ids []tla.Value
	for i := 1; i <= c.NumNodes; i++ {
		ids = append(ids, num(i))
	}
	return tla.MakeSet(ids...)
}

// ElemSet = every value GetVal(n, round) the bench nodes add: 0 .. NumNodes*BenchNumRounds-1.
func (c Config) ElemSet() []int {
	var e []int
	for i := 0; i < c.NumNodes*c.BenchNumRounds; i++ {
		e = append(e, i)
	}
	return e
}

func (c Config) null() tla.Value {
	return tla.MakeFunction([]tla.Value{c.nodeSet()}, func([]tla.Value) tla.Value { return num(0) })
}

// CompareVectorClock(v1, v2) == \A i \in DOMAIN v1: v1[i] <= v2[i]
func leq(v1, v2 tla.Value) bool {
	it := v1.AsFunction().Iterator()
	for !it.Done() {
		k, a, _ := it.Next()
		if a.AsNumber() > v2.ApplyFunction(k).AsNumber() {
			return false
		}
	}
	return true
}

func mergeVC(v1, v2 tla.Value) tla.Value {
	return tla.MakeFunction([]tla.Value{tla.ModuleDomainSymbol(v1)}, func(k []tla.Value) tla.Value {
		a, b := v1.ApplyFunction(k[0]), v2.ApplyFunction(k[0])
		if a.AsNumber() > b.AsNumber() {
			return a
		}
		return b
	})
}

func mergeKeys(a, b tla.Value) tla.Value {
	return tla.MakeFunction([]tla.Value{tla.ModuleDomainSymbol(a)}, func(k []tla.Value) tla.Value {
		return mergeVC(a.ApplyFunction(k[0]), b.ApplyFunction(k[0]))
	})
}

// Query(r) == {elem \in DOMAIN r.addMap: ~CompareVectorClock(r.addMap[elem], r.remMap[elem])}
func Query(r tla.Value) tla.Value {
	var el []tla.Value
	am, rm := r.ApplyFunction(kAdd), r.ApplyFunction(kRem)
	it := am.AsFunction().Iterator()
	for !it.Done() {
		k, v, _ := it.Next()
		if !leq(v, rm.ApplyFunction(k)) {
			el = append(el, k)
		}
	}
	return tla.MakeSet(el...)
}

func set2(r tla.Value, m, elem, v tla.Value) tla.Value { // [r EXCEPT ![m][elem] = v]
	return envproc.Except(r, m, envproc.Except(r.ApplyFunction(m), elem, v))
}

func set3(r tla.Value, m, elem, self, v tla.Value) tla.Value { // [r EXCEPT ![m][elem][self] = v]
	return set2(r, m, elem, envproc.Except(r.ApplyFunction(m).ApplyFunction(elem), self, v))
}

// AWORSet: read { yield Query($variable) }  write { ...see shopcart.tla... }
func setRead(t *ss.Txn, cur tla.Value, _ []tla.Value) (tla.Value, tla.Value, error) {
	return tla.Value{}, Query(cur), nil
}

func (c Config) setWrite(t *ss.Txn, cur tla.Value, _ []tla.Value, v tla.Value) (tla.Value, error) {
	null := c.null()
	elem, self := v.ApplyFunction(kElem), t.Self
	plus1 := func(m tla.Value) tla.Value {
		return tla.ModulePlusSymbol(cur.ApplyFunction(m).ApplyFunction(elem).ApplyFunction(self), num(1))
	}
	first, second := kAdd, kRem // AddCmd
	switch {
	case v.ApplyFunction(kCmd).Equal(num(1)):
	case v.ApplyFunction(kCmd).Equal(num(2)):
		first, second = kRem, kAdd
	default:
		return cur, nil
	}
	switch {
	case !cur.ApplyFunction(first).ApplyFunction(elem).Equal(null):
		return set2(set3(cur, first, elem, self, plus1(first)), second, elem, null), nil
	case !cur.ApplyFunction(second).ApplyFunction(elem).Equal(null):
		return set2(set3(cur, first, elem, self, plus1(second)), second, elem, null), nil
	default:
		return set3(cur, first, elem, self, num(1)), nil
	}
}

// updateCRDT is the spec's merge process (Merge macro expanded; its three assertions hold by
// construction of the merged maps and are re-checked here so that a wrong transcription fails).
func (c Config) updateCRDT() distsys.MPCalArchetype {
	return envproc.Archetype("UpdateCRDT", "l1", []string{"crdt", "c"}, nil, map[string]envproc.Section{
		"l1": func(iface distsys.ArchetypeInterface) error {
			crH, err := iface.RequireArchetypeResourceRef("UpdateCRDT.crdt")
			if err != nil {
				return err
			}
			cH, err := iface.RequireArchetypeResourceRef("UpdateCRDT.c")
			if err != nil {
				return err
			}
			cr, err := iface.Read(crH, nil)
			if err != nil {
				return err
			}
			type pr struct{ i1, i2 tla.Value }
			var pairs []pr
			for i1 := 1; i1 <= c.NumNodes; i1++ {
				for i2 := 1; i2 <= c.NumNodes; i2++ {
					if !cr.ApplyFunction(num(i2)).Equal(cr.ApplyFunction(num(i1))) {
						pairs = append(pairs, pr{num(i1), num(i2)})
					}
				}
			}
			if len(pairs) == 0 {
				return distsys.ErrCriticalSectionAborted
			}
			p := pairs[iface.NextFairnessCounter("UpdateCRDT.l1.with", uint(len(pairs)))]
			a, b := cr.ApplyFunction(p.i1), cr.ApplyFunction(p.i2)
			if a.Equal(b) {
				return fmt.Errorf("%w: ((crdt)[i1]) # ((crdt)[i2])", distsys.ErrAssertionFailed)
			}
			null := c.null()
			addk, remk := mergeKeys(a.ApplyFunction(kAdd), b.ApplyFunction(kAdd)), mergeKeys(a.ApplyFunction(kRem), b.ApplyFunction(kRem))
			add := tla.MakeFunction([]tla.Value{tla.ModuleDomainSymbol(addk)}, func(k []tla.Value) tla.Value {
				if leq(addk.ApplyFunction(k[0]), remk.ApplyFunction(k[0])) {
					return null
				}
				return addk.ApplyFunction(k[0])
			})
			rem := tla.MakeFunction([]tla.Value{tla.ModuleDomainSymbol(remk)}, func(k []tla.Value) tla.Value {
				if leq(addk.ApplyFunction(k[0]), remk.ApplyFunction(k[0])) {
					return remk.ApplyFunction(k[0])
				}
				return null
			})
			na := envproc.Except(envproc.Except(a, kAdd, add), kRem, rem)
			nb := envproc.Except(envproc.Except(b, kAdd, add), kRem, rem)
			if !na.Equal(nb) {
				return fmt.Errorf("%w: ((crdt)[i1]) = ((crdt)[i2])", distsys.ErrAssertionFailed)
			}
			if err := iface.Write(crH, nil, envproc.Except(envproc.Except(cr, p.i1, na), p.i2, nb)); err != nil {
				return err
			}
			cv, err := iface.Read(cH, nil)
			if err != nil {
				return err
			}
			cn := tla.ModuleUnionSymbol(cv.ApplyFunction(p.i1), cv.ApplyFunction(p.i2))
			if err := iface.Write(cH, nil, envproc.Except(envproc.Except(cv, p.i1, cn), p.i2, cn)); err != nil {
				return err
			}
			return iface.Goto("UpdateCRDT.l1")
		},
	})
}

type mk = func(*ss.Txn) distsys.ArchetypeResource

// New builds the closed system: process 0 = UpdateCRDT (self 0), process i = Node(i).
func New(c Config) *ss.System {
	elems := c.elemValues()
	elemSet := tla.MakeSet(elems...)
	consts := []distsys.MPCalContextConfigFn{
		distsys.DefineConstantValue("NumNodes", num(c.NumNodes)),
		distsys.DefineConstantValue("ElemSet", elemSet),
		distsys.DefineConstantValue("BenchNumRounds", num(c.BenchNumRounds)),
	}
	crdt := func(t *ss.Txn) distsys.ArchetypeResource { return ss.Var(t, "crdt", true, setRead, c.setWrite) }
	hist := func(t *ss.Txn) distsys.ArchetypeResource { return ss.Var(t, "c", true, nil, nil) }
	out := func(t *ss.Txn) distsys.ArchetypeResource { return ss.Var(t, "out", false, nil, nil) }
	wholeCrdt := func(t *ss.Txn) distsys.ArchetypeResource { return ss.Var(t, "crdt", false, nil, nil) }
	wholeHist := func(t *ss.Txn) distsys.ArchetypeResource { return ss.Var(t, "c", false, nil, nil) }
	sys := &ss.System{}
	sys.Procs = append(sys.Procs, ss.ProcDef{Name: "UpdateCRDT(0)", Self: num(0), Arch: c.updateCRDT(), Config: consts,
		RefParams: map[string]mk{"crdt": wholeCrdt, "c": wholeHist}})
	in := func(t *ss.Txn) distsys.ArchetypeResource { return ss.Var(t, "in", false, c.inRead, inWrite) }
	for i := 1; i <= c.NumNodes; i++ {
		if c.NodeOps != nil {
			sys.Procs = append(sys.Procs, ss.ProcDef{Name: fmt.Sprintf("Node(%d)", i), Self: num(i), Arch: gen.ANode, Config: consts,
				RefParams: map[string]mk{"crdt": crdt, "in": in, "out": out}})
			continue
		}
		sys.Procs = append(sys.Procs, ss.ProcDef{Name: fmt.Sprintf("Node(%d)", i), Self: num(i), Arch: gen.ANodeBench, Config: consts,
			RefParams: map[string]mk{"crdt": crdt, "out": out, "c": hist}})
	}
	ops := c.NodeOps
	if ops == nil {
		ops = SpecOps
	}
	var inV []tla.Value
	for _, o := range ops {
		inV = append(inV, o.tla())
	}
	null := c.null()
	emptyMap := tla.MakeRecord(nil)
	if len(elems) > 0 {
		emptyMap = tla.MakeFunction([]tla.Value{elemSet}, func([]tla.Value) tla.Value { return null })
	}
	g := ss.Globals{
		"crdt": tla.MakeFunction([]tla.Value{c.nodeSet()}, func([]tla.Value) tla.Value {
			return tla.MakeRecord([]tla.RecordField{{Key: kAdd, Value: emptyMap}, {Key: kRem, Value: emptyMap}})
		}),
		"in":  tla.MakeTuple(inV...),
		"out": tla.Value{},
		"c":   tla.MakeFunction([]tla.Value{c.nodeSet()}, func([]tla.Value) tla.Value { return tla.MakeSet() }),
	}
	sys.InitState(g)
	return sys
}

func (c Config) crdt(s *ss.State, i int) tla.Value { return s.Globals["crdt"].ApplyFunction(num(i)) }
func (c Config) hist(s *ss.State, i int) tla.Value { return s.Globals["c"].ApplyFunction(num(i)) }

// QueryOK of the spec: \A n1, n2: (crdt[n1] = crdt[n2]) => (Query(crdt[n1]) = Query(crdt[n2]))
func (c Config) QueryOK(s *ss.State) (string, string) {
	for i := 1; i <= c.NumNodes; i++ {
		for j := i + 1; j <= c.NumNodes; j++ {
			if c.crdt(s, i).Equal(c.crdt(s, j)) && !Query(c.crdt(s, i)).Equal(Query(c.crdt(s, j))) {
				return "shopcart/QueryOK", fmt.Sprintf("nodes %d and %d hold the same state but read %s and %s", i, j, ss.Canon(Query(c.crdt(s, i))), ss.Canon(Query(c.crdt(s, j))))
			}
		}
	}
	return "", ""
}

// StrongConvergence of the spec: \A i, j: (c[i] = c[j]) => (crdt[i] = crdt[j]); replicas with
// equal knowledge therefore read equal values.
func (c Config) StrongConvergence(s *ss.State) (string, string) {
	for i := 1; i <= c.NumNodes; i++ {
		for j := i + 1; j <= c.NumNodes; j++ {
			if c.hist(s, i).Equal(c.hist(s, j)) && !c.crdt(s, i).Equal(c.crdt(s, j)) {
				return "shopcart/StrongConvergence", fmt.Sprintf("nodes %d and %d know the same updates %s but hold %s and %s", i, j, ss.Canon(c.hist(s, i)), ss.Canon(c.crdt(s, i)), ss.Canon(c.crdt(s, j)))
			}
		}
	}
	return "", ""
}

// EqualKnowledgeEqualReads is the property statement itself: two replicas that know exactly the
// same operations (c[i] = c[j]) read the same cart (Query).  It fails on the unchanged tree for
// the ANode instantiation with >= 3 nodes: Merge keeps either the merged add clock or the merged
// remove clock and drops the other, and a remove builds its clock from Null, so the state is not
// a function of the causal history (known finding).
func (c Config) EqualKnowledgeEqualReads(s *ss.State) (string, string) {
	for i := 1; i <= c.NumNodes; i++ {
		for j := i + 1; j <= c.NumNodes; j++ {
			if c.hist(s, i).Equal(c.hist(s, j)) && !Query(c.crdt(s, i)).Equal(Query(c.crdt(s, j))) {
				return "shopcart/equal-knowledge-different-reads", fmt.Sprintf("nodes %d and %d both know exactly the operations %s but node %d reads the cart %s and node %d reads %s",
					i, j, ss.Canon(c.hist(s, i)), i, ss.Canon(Query(c.crdt(s, i))), j, ss.Canon(Query(c.crdt(s, j))))
			}
		}
	}
	return "", ""
}

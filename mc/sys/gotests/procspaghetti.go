package gotests

import (
	"fmt"

	"github.com/DistCompiler/pgo/distsys"
	"github.com/DistCompiler/pgo/distsys/tla"
	ps "github.com/DistCompiler/pgo/test/files/general/ProcedureSpaghetti.tla.gotests"
	ss "verif/mc/specstep"
)

// ProcedureSpaghetti closes pgo/test/files/general/ProcedureSpaghetti.tla as the spec does:
//
//	variables V1, V2;
//	process (Pross1 = 1)     == instance Arch1(ref V1, 30) mapping V1 via M;
//	process (Pross2 = 2)     == instance Arch1(ref V1, 40);
//	process (Pross3 = 3)     == instance Arch1(ref V2, 50);
//	process (Pross3Bis = 33) == instance Arch1(ref V2, 60);
//	process (Pross4 = 4) variables c; { Prosslbl1: call Proc1(ref c, 10); Prosslbl2: call Proc1(ref V1, 20); }
//	process (Pross5 = 5) { Pross5lbl1: call RecursiveProcRef(ref V1); }
//
// Pross4 and Pross5 are plain PlusCal processes (no Go is generated for their two resp. one
// labels); they are transcribed by hand and *call the generated procedures* Proc1 and
// RecursiveProcRef, whose critical sections are the code under comparison.  Uninitialised
// variables are 0 (the comparison's TLC configuration assigns defaultInitValue = 0, otherwise
// `V1 + 1` is an evaluation error on both sides).

// M: read { yield $variable + 1 }  write { yield $value - 1 }
func mRead(t *ss.Txn, cur tla.Value, _ []tla.Value) (tla.Value, tla.Value, error) {
	return tla.Value{}, tla.ModulePlusSymbol(cur, num(1)), nil
}
func mWrite(t *ss.Txn, cur tla.Value, _ []tla.Value, v tla.Value) (tla.Value, error) {
	return tla.ModuleMinusSymbol(v, num(1)), nil
}

func psEnvArch(name, first string, refParams []string, locals map[string]tla.Value, sections map[string]func(distsys.ArchetypeInterface) error) distsys.MPCalArchetype {
	jt := distsys.MPCalJumpTable{}
	for k, v := range ps.Arch1.JumpTable { // the generated procedures' critical sections
		jt[k] = v
	}
	for l, body := range sections {
		jt[name+"."+l] = distsys.MPCalCriticalSection{Name: name + "." + l, Body: body}
	}
	jt[name+".Done"] = distsys.MPCalCriticalSection{Name: name + ".Done", Body: func(distsys.ArchetypeInterface) error { return distsys.ErrDone }}
	var refs []string
	for _, r := range refParams {
		refs = append(refs, name+"."+r)
	}
	return distsys.MPCalArchetype{Name: name, Label: name + "." + first, RequiredRefParams: refs, RequiredValParams: []string{},
		JumpTable: jt, ProcTable: ps.Arch1.ProcTable,
		PreAmble: func(iface distsys.ArchetypeInterface) {
			for n, v := range locals {
				iface.EnsureArchetypeResourceLocal(name+"."+n, v)
			}
		}}
}

// ProcedureSpaghetti builds the closed system; process order: Pross1, Pross2, Pross3, Pross3Bis, Pross4, Pross5.
func ProcedureSpaghetti() *ss.System {
	v1m := func(t *ss.Txn) distsys.ArchetypeResource { return ss.Var(t, "V1", false, mRead, mWrite) }
	v1 := plain("V1", false)
	v2 := plain("V2", false)
	pross4 := psEnvArch("Pross4", "Prosslbl1", []string{"v1"}, map[string]tla.Value{"c": num(0)}, map[string]func(distsys.ArchetypeInterface) error{
		"Prosslbl1": func(iface distsys.ArchetypeInterface) error {
			return iface.Call("Proc1", "Pross4.Prosslbl2", tla.MakeString("Pross4.c"), num(10))
		},
		"Prosslbl2": func(iface distsys.ArchetypeInterface) error {
			return iface.Call("Proc1", "Pross4.Done", iface.ReadArchetypeResourceLocal("Pross4.v1"), num(20))
		},
	})
	pross5 := psEnvArch("Pross5", "Pross5lbl1", []string{"v1"}, nil, map[string]func(distsys.ArchetypeInterface) error{
		"Pross5lbl1": func(iface distsys.ArchetypeInterface) error {
			return iface.Call("RecursiveProcRef", "Pross5.Done", iface.ReadArchetypeResourceLocal("Pross5.v1"))
		},
	})
	sys := &ss.System{}
	inst := func(name string, self int, e mk, f int) {
		sys.Procs = append(sys.Procs, ss.ProcDef{Name: fmt.Sprintf("%s(%d)", name, self), Self: num(self), Arch: ps.Arch1,
			RefParams: map[string]mk{"e": e}, ValParams: map[string]tla.Value{"f": num(f)}})
	}
	inst("Pross1", 1, v1m, 30)
	inst("Pross2", 2, v1, 40)
	inst("Pross3", 3, v2, 50)
	inst("Pross3Bis", 33, v2, 60)
	sys.Procs = append(sys.Procs,
		ss.ProcDef{Name: "Pross4(4)", Self: num(4), Arch: pross4, RefParams: map[string]mk{"v1": v1}},
		ss.ProcDef{Name: "Pross5(5)", Self: num(5), Arch: pross5, RefParams: map[string]mk{"v1": v1}})
	sys.InitState(ss.Globals{"V1": num(0), "V2": num(0)})
	return sys
}

// Package gotests closes the compiler's test programs under pgo/test/files/general/*.tla.gotests
// exactly as their specs' instance declarations do, for the C02 graph comparison (the PlusCal the
// compiler is expected to emit is <name>.tla.expectpcal).
package gotests

import (
	"fmt"

	"github.com/DistCompiler/pgo/distsys"
	"github.com/DistCompiler/pgo/distsys/tla"
	indexinglocals "github.com/DistCompiler/pgo/test/files/general/IndexingLocals.tla.gotests"
	nondet "github.com/DistCompiler/pgo/test/files/general/NonDetExploration.tla.gotests"
	pbfail "github.com/DistCompiler/pgo/test/files/general/PBFail4_bug125.tla.gotests"
	bug2 "github.com/DistCompiler/pgo/test/files/general/bug2_124.tla.gotests"
	bug119 "github.com/DistCompiler/pgo/test/files/general/bug_119.tla.gotests"
	hello "github.com/DistCompiler/pgo/test/files/general/hello.tla.gotests"
	ss "verif/mc/specstep"
)

func num(i int) tla.Value    { return tla.MakeNumber(int32(i)) }
func str(s string) tla.Value { return tla.MakeString(s) }

type mk = func(*ss.Txn) distsys.ArchetypeResource

func plain(name string, indexed bool) mk {
	return func(t *ss.Txn) distsys.ArchetypeResource { return ss.Var(t, name, indexed, nil, nil) }
}

// TCPChannel with bound buf.
func tcp(name string, buf int) mk {
	rd := func(t *ss.Txn, cur tla.Value, _ []tla.Value) (tla.Value, tla.Value, error) {
		if cur.AsTuple().Len() == 0 {
			return tla.Value{}, tla.Value{}, ss.ErrAbort
		}
		return tla.ModuleTail(cur), tla.ModuleHead(cur), nil
	}
	wr := func(t *ss.Txn, cur tla.Value, _ []tla.Value, v tla.Value) (tla.Value, error) {
		if cur.AsTuple().Len() >= buf {
			return tla.Value{}, ss.ErrAbort
		}
		return tla.ModuleAppend(cur, v), nil
	}
	return func(t *ss.Txn) distsys.ArchetypeResource { return ss.Var(t, name, true, rd, wr) }
}

func rng(lo, hi int) tla.Value {
	var v []tla.Value
	for i := lo; i <= hi; i++ {
		v = append(v, num(i))
	}
	return tla.MakeSet(v...)
}

// Hello: variables out; fair process (Hello = 1) == instance AHello(ref out);  MK_HELLO(a, b) == a \o b
func Hello() *ss.System {
	sys := &ss.System{}
	sys.Procs = append(sys.Procs, ss.ProcDef{Name: "Hello(1)", Self: num(1), Arch: hello.AHello,
		Config: []distsys.MPCalContextConfigFn{distsys.DefineConstantOperator("MK_HELLO", func(l, r tla.Value) tla.Value {
			return tla.MakeString(l.AsString() + r.AsString())
		})},
		RefParams: map[string]mk{"out": plain("out", false)}})
	sys.InitState(ss.Globals{"out": tla.Value{}})
	return sys
}

// Bug119: variables out; process (Server = "1") == instance Counter(ref out);   (procedure inc)
func Bug119() *ss.System {
	sys := &ss.System{}
	sys.Procs = append(sys.Procs, ss.ProcDef{Name: `Server("1")`, Self: str("1"), Arch: bug119.Counter,
		RefParams: map[string]mk{"out": plain("out", false)}})
	sys.InitState(ss.Globals{"out": tla.Value{}})
	return sys
}

// Bug2: variables network = [id \in 1..NUM_NODES, typ \in 1..4 |-> <<>>];
// fair process (EchoServer \in 1..NUM_NODES) == instance AEchoServer(ref network[_]) mapping network[_] via TCPChannel;
func Bug2(numNodes, buf int) *ss.System {
	consts := []distsys.MPCalContextConfigFn{
		distsys.DefineConstantValue("NUM_NODES", num(numNodes)), distsys.DefineConstantValue("BUFFER_SIZE", num(buf))}
	sys := &ss.System{}
	for i := 1; i <= numNodes; i++ {
		sys.Procs = append(sys.Procs, ss.ProcDef{Name: fmt.Sprintf("EchoServer(%d)", i), Self: num(i), Arch: bug2.AEchoServer, Config: consts,
			RefParams: map[string]mk{"net": tcp("network", buf)}})
	}
	sys.InitState(ss.Globals{"network": tla.MakeFunction([]tla.Value{rng(1, numNodes), rng(1, 4)}, func([]tla.Value) tla.Value { return tla.MakeTuple() })})
	return sys
}

// PBFail4:
//
//	variables network = [id \in 1..NUM_NODES, typ \in 1..4 |-> <<>>]; fd = [id \in 1..NUM_NODES |-> TRUE];
//	          fs = [id \in 1..NUM_NODES, key \in {KEY1} |-> <<>>];
//	fair process (Replica \in 1..NUM_REPLICAS) == instance AReplica(ref network[_], ref fs[_], ref fd[_])
//	    mapping network[_] via TCPChannel mapping fs[_] via FileSystem mapping fd[_] via FailureDetector;
//	fair process (Client \in (NUM_REPLICAS+1)..(NUM_REPLICAS+NUM_CLIENTS)) == instance AClient(ref network[_], ref fd[_]) ...
//
// (FileSystem and FailureDetector are identity macros.)
func PBFail4(numReplicas, numClients, buf int) *ss.System {
	consts := []distsys.MPCalContextConfigFn{
		distsys.DefineConstantValue("NUM_REPLICAS", num(numReplicas)), distsys.DefineConstantValue("NUM_CLIENTS", num(numClients)),
		distsys.DefineConstantValue("BUFFER_SIZE", num(buf)), distsys.DefineConstantValue("EXPLORE_FAIL", tla.ModuleFALSE)}
	n := numReplicas + numClients
	sys := &ss.System{}
	for i := 1; i <= numReplicas; i++ {
		sys.Procs = append(sys.Procs, ss.ProcDef{Name: fmt.Sprintf("Replica(%d)", i), Self: num(i), Arch: pbfail.AReplica, Config: consts,
			RefParams: map[string]mk{"net": tcp("network", buf), "fs": plain("fs", true), "fd": plain("fd", true)}})
	}
	for i := numReplicas + 1; i <= n; i++ {
		sys.Procs = append(sys.Procs, ss.ProcDef{Name: fmt.Sprintf("Client(%d)", i), Self: num(i), Arch: pbfail.AClient, Config: consts,
			RefParams: map[string]mk{"net": tcp("network", buf), "fd": plain("fd", true)}})
	}
	sys.InitState(ss.Globals{
		"network": tla.MakeFunction([]tla.Value{rng(1, n), rng(1, 4)}, func([]tla.Value) tla.Value { return tla.MakeTuple() }),
		"fd":      tla.MakeFunction([]tla.Value{rng(1, n)}, func([]tla.Value) tla.Value { return tla.ModuleTRUE }),
		"fs":      tla.MakeFunction([]tla.Value{rng(1, n), tla.MakeSet(str("KEY1"))}, func([]tla.Value) tla.Value { return tla.MakeTuple() }),
	})
	return sys
}

// IndexingLocals: fair process (node \in 1..1) == instance ANode();
func IndexingLocals() *ss.System {
	sys := &ss.System{}
	sys.Procs = append(sys.Procs, ss.ProcDef{Name: "node(1)", Self: num(1), Arch: indexinglocals.ANode})
	sys.InitState(ss.Globals{})
	return sys
}

// NonDet: process (Coverage = 1) == instance ACoverage(); process (Coincidence = 2) == instance ACoincidence();
// process (Complex = 3) == instance AComplex();
func NonDet() *ss.System {
	sys := &ss.System{}
	sys.Procs = append(sys.Procs,
		ss.ProcDef{Name: "Coverage(1)", Self: num(1), Arch: nondet.ACoverage},
		ss.ProcDef{Name: "Coincidence(2)", Self: num(2), Arch: nondet.ACoincidence},
		ss.ProcDef{Name: "Complex(3)", Self: num(3), Arch: nondet.AComplex})
	sys.InitState(ss.Globals{})
	return sys
}

// NonDetConstraint excludes (on both sides of the comparison) the states in which AComplex's
// final assertion `\A a \in TheSet: a \in mark` is about to fail: TLC stops at the first failing
// Assert, so its graph can only be complete where the assertion holds.
func NonDetConstraint(s *ss.State) bool {
	if s.PC(2) != "AComplex.loop" || s.Locals[2]["AComplex.i"].AsNumber() < 20 {
		return true
	}
	return s.Locals[2]["AComplex.mark"].Equal(tla.MakeSet(num(1), num(2)))
}

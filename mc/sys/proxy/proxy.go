// Package proxy closes systems/proxy as the spec's instance declarations do:
//
//	variables network = [id \in NODE_SET, typ \in MSG_TYP_SET |-> [queue |-> <<>>, enabled |-> TRUE]];
//	          fd = [id \in NODE_SET |-> FALSE]; output = <<>>;
//	fair process (Proxy = ProxyID) == instance AProxy(ref network[_], ref fd[_])
//	    mapping network[_] via ReliableFIFOLink mapping fd[_] via PracticalFD; \* PerfectFD
//	fair process (Server \in SERVER_SET) == instance AServer(ref network[_], ref network[_], ref fd[_])
//	    mapping @1[_] via ReliableFIFOLink mapping @2[_] via NetworkToggle mapping @3[_] via PracticalFD; \* PerfectFD
//	fair process (Client \in CLIENT_SET) == instance AClient(ref network[_], 0, ref output)
//	    mapping network[_] via ReliableFIFOLink mapping @2 via Requests;
//
// The spec text names both failure detectors (PracticalFD in force, PerfectFD in the comment and
// in the checked-in TLA+ translation, which also has `input = self` without the Requests macro);
// Config selects between them.
package proxy

import (
	"fmt"

	"github.com/DistCompiler/pgo/distsys"
	"github.com/DistCompiler/pgo/distsys/tla"
	gen "github.com/DistCompiler/pgo/systems/proxy"
	ss "verif/mc/specstep"
)

type Config struct {
	NumServers  int  `json:"num_servers"`
	NumClients  int  `json:"num_clients"`
	ExploreFail bool `json:"explore_fail"`
	ClientRun   bool `json:"client_run"`
	// PerfectFD: fd reads yield the variable (PerfectFD); false = PracticalFD (a live node may be suspected).
	PerfectFD bool `json:"perfect_fd"`
	// Requests: the client's input is the Requests macro over a per-client counter starting at 0
	// (current MPCal text); false = the checked-in TLA+ translation's `input = self`, plain reads.
	Requests bool `json:"requests"`
	// MaxInput bounds the Requests counter (state constraint input[c] <= MaxInput); 0 = none.
	MaxInput int `json:"max_input"`
}

const Fail = 100

func num(i int) tla.Value    { return tla.MakeNumber(int32(i)) }
func str(s string) tla.Value { return tla.MakeString(s) }

var kQ, kE = str("queue"), str("enabled")

func netRec(q, e tla.Value) tla.Value {
	return tla.MakeRecord([]tla.RecordField{{Key: kQ, Value: q}, {Key: kE, Value: e}})
}

func (c Config) ProxyID() int { return c.NumServers + c.NumClients + 1 }

// ReliableFIFOLink
func linkRead(t *ss.Txn, cur tla.Value, _ []tla.Value) (tla.Value, tla.Value, error) {
	if !cur.ApplyFunction(kE).AsBool() {
		return tla.Value{}, tla.Value{}, fmt.Errorf("%w: ($variable).enabled", distsys.ErrAssertionFailed)
	}
	q := cur.ApplyFunction(kQ)
	if q.AsTuple().Len() == 0 {
		return tla.Value{}, tla.Value{}, ss.ErrAbort
	}
	return netRec(tla.ModuleTail(q), cur.ApplyFunction(kE)), tla.ModuleHead(q), nil
}

func linkWrite(t *ss.Txn, cur tla.Value, _ []tla.Value, v tla.Value) (tla.Value, error) {
	if !cur.ApplyFunction(kE).AsBool() {
		return tla.Value{}, ss.ErrAbort
	}
	return netRec(tla.ModuleAppend(cur.ApplyFunction(kQ), v), cur.ApplyFunction(kE)), nil
}

// NetworkToggle
func toggleRead(t *ss.Txn, cur tla.Value, _ []tla.Value) (tla.Value, tla.Value, error) {
	return tla.Value{}, cur.ApplyFunction(kE), nil
}

func toggleWrite(t *ss.Txn, cur tla.Value, _ []tla.Value, v tla.Value) (tla.Value, error) {
	return netRec(cur.ApplyFunction(kQ), v), nil
}

// PracticalFD: read { if ($variable = FALSE) { either { yield TRUE } or { yield FALSE } } else { yield $variable } }
func practicalRead(t *ss.Txn, cur tla.Value, _ []tla.Value) (tla.Value, tla.Value, error) {
	if cur.Equal(tla.ModuleFALSE) {
		if t.Choose(2, "PracticalFD.either") == 0 {
			return tla.Value{}, tla.ModuleTRUE, nil
		}
		return tla.Value{}, tla.ModuleFALSE, nil
	}
	return tla.Value{}, cur, nil
}

// Requests: read { with (value = $variable) { $variable := $variable + 1; yield value } }  write { assert(FALSE) }
// The variable is the client's own `input` (a process-local variable in the PlusCal translation,
// i.e. input[self]).
func (c Config) inputRead(t *ss.Txn, cur tla.Value, _ []tla.Value) (tla.Value, tla.Value, error) {
	v := cur.ApplyFunction(t.Self)
	if !c.Requests {
		return tla.Value{}, v, nil
	}
	self := t.Self
	nv := tla.FunctionSubstitution(cur, []tla.FunctionSubstitutionRecord{{
		Keys:  []tla.Value{self},
		Value: func(tla.Value) tla.Value { return tla.ModulePlusSymbol(v, num(1)) },
	}})
	return nv, v, nil
}

func (c Config) inputWrite(t *ss.Txn, cur tla.Value, _ []tla.Value, v tla.Value) (tla.Value, error) {
	if c.Requests {
		return tla.Value{}, fmt.Errorf("%w: FALSE", distsys.ErrAssertionFailed)
	}
	self := t.Self
	return tla.FunctionSubstitution(cur, []tla.FunctionSubstitutionRecord{{
		Keys:  []tla.Value{self},
		Value: func(tla.Value) tla.Value { return v },
	}}), nil
}

type mk = func(*ss.Txn) distsys.ArchetypeResource

// New builds the closed system.  Process order: servers 1..S (index self-1), clients, proxy last.
func New(c Config) *ss.System {
	consts := []distsys.MPCalContextConfigFn{
		distsys.DefineConstantValue("NUM_SERVERS", num(c.NumServers)),
		distsys.DefineConstantValue("NUM_CLIENTS", num(c.NumClients)),
		distsys.DefineConstantValue("EXPLORE_FAIL", tla.MakeBool(c.ExploreFail)),
		distsys.DefineConstantValue("CLIENT_RUN", tla.MakeBool(c.ClientRun)),
	}
	net := func(t *ss.Txn) distsys.ArchetypeResource { return ss.Var(t, "network", true, linkRead, linkWrite) }
	netEn := func(t *ss.Txn) distsys.ArchetypeResource { return ss.Var(t, "network", true, toggleRead, toggleWrite) }
	fd := func(t *ss.Txn) distsys.ArchetypeResource {
		if c.PerfectFD {
			return ss.Var(t, "fd", true, nil, nil)
		}
		return ss.Var(t, "fd", true, practicalRead, nil)
	}
	input := func(t *ss.Txn) distsys.ArchetypeResource { return ss.Var(t, "input", false, c.inputRead, c.inputWrite) }
	output := func(t *ss.Txn) distsys.ArchetypeResource { return ss.Var(t, "output", false, nil, nil) }
	sys := &ss.System{}
	for i := 1; i <= c.NumServers; i++ {
		sys.Procs = append(sys.Procs, ss.ProcDef{Name: fmt.Sprintf("Server(%d)", i), Self: num(i), Arch: gen.AServer, Config: consts,
			RefParams: map[string]mk{"net": net, "netEnabled": netEn, "fd": fd}})
	}
	for i := c.NumServers + 1; i <= c.NumServers+c.NumClients; i++ {
		sys.Procs = append(sys.Procs, ss.ProcDef{Name: fmt.Sprintf("Client(%d)", i), Self: num(i), Arch: gen.AClient, Config: consts,
			RefParams: map[string]mk{"net": net, "input": input, "output": output}})
	}
	sys.Procs = append(sys.Procs, ss.ProcDef{Name: fmt.Sprintf("Proxy(%d)", c.ProxyID()), Self: num(c.ProxyID()), Arch: gen.AProxy, Config: consts,
		RefParams: map[string]mk{"net": net, "fd": fd}})
	var nodes, clients []tla.Value
	for i := 1; i <= c.ProxyID(); i++ {
		nodes = append(nodes, num(i))
		if i > c.NumServers && i < c.ProxyID() {
			clients = append(clients, num(i))
		}
	}
	nodeSet := tla.MakeSet(nodes...)
	g := ss.Globals{
		"network": tla.MakeFunction([]tla.Value{nodeSet, tla.MakeSet(num(1), num(2), num(3), num(4))}, func([]tla.Value) tla.Value {
			return netRec(tla.MakeTuple(), tla.ModuleTRUE)
		}),
		"fd":     tla.MakeFunction([]tla.Value{nodeSet}, func([]tla.Value) tla.Value { return tla.ModuleFALSE }),
		"output": tla.MakeTuple(),
		"input": tla.MakeFunction([]tla.Value{tla.MakeSet(clients...)}, func(a []tla.Value) tla.Value {
			if c.Requests {
				return num(0)
			}
			return a[0]
		}),
	}
	sys.InitState(g)
	return sys
}

// Constraint bounds the Requests counter (MCConstraint of the comparison's MC module).
func (c Config) Constraint(s *ss.State) bool {
	if !c.Requests || c.MaxInput <= 0 {
		return true
	}
	it := s.Globals["input"].AsFunction().Iterator()
	for !it.Done() {
		_, v, _ := it.Next()
		if int(v.AsNumber()) > c.MaxInput {
			return false
		}
	}
	return true
}

func (c Config) proxyIdx() int { return c.NumServers + c.NumClients }

// ProxyOK of the spec (holds only with PerfectFD):
//
//	(pc[ProxyID] = "sendMsgToClient" /\ proxyResp.body = FAIL) => \A server \in SERVER_SET : pc[server] \in {"failLabel", "Done"}
//
// Key proxy/fail-sentinel-equals-server-id: the FAIL in proxyResp.body is not the proxy's own
// placeholder but the *answer of a live server* whose identifier equals FAIL (= 100; a server
// answers body |-> self), i.e. an instance with NUM_SERVERS >= 100 (known finding).
func (c Config) ProxyOK(s *ss.State) (string, string) {
	p := c.proxyIdx()
	if s.PC(p) != "AProxy.sendMsgToClient" {
		return "", ""
	}
	pr := s.Locals[p]["AProxy.proxyResp"]
	if !pr.IsFunction() || !pr.ApplyFunction(str("body")).Equal(num(Fail)) {
		return "", ""
	}
	for sv := 1; sv <= c.NumServers; sv++ {
		if pc := s.PC(sv - 1); pc != "AServer.failLabel" && pc != "AServer.Done" {
			if c.fromServer(pr) {
				return "proxy/fail-sentinel-equals-server-id", fmt.Sprintf("the proxy is about to answer request %s with body %d = FAIL, which is the healthy answer %s of server %s; server %d is alive at %s",
					ss.Canon(s.Locals[p]["AProxy.msg"]), Fail, ss.Canon(pr), ss.Canon(pr.ApplyFunction(str("from"))), sv, pc)
			}
			return "proxy/ProxyOK", fmt.Sprintf("the proxy is about to report FAIL for request %s while server %d is alive at %s", ss.Canon(s.Locals[p]["AProxy.msg"]), sv, pc)
		}
	}
	return "", ""
}

// fromServer: the response record was produced by a server (from \in SERVER_SET), not by the proxy.
func (c Config) fromServer(resp tla.Value) bool {
	f := resp.ApplyFunction(str("from"))
	return f.IsNumber() && f.AsNumber() >= 1 && int(f.AsNumber()) <= c.NumServers
}

// FailOnlyWhenAllFailed is the client-side image of the property statement: a response with body
// FAIL is only ever *received by a client* in a state where every server has failed.
func (c Config) FailOnlyWhenAllFailed(s *ss.State, p int, a *ss.Attempt) (string, string) {
	if a.Kind != ss.Commit || p < c.NumServers || p >= c.proxyIdx() || s.PC(p) != "AClient.clientRcvResp" {
		return "", ""
	}
	r := a.Next.Locals[p]["AClient.resp"]
	if !r.IsFunction() || !r.ApplyFunction(str("body")).Equal(num(Fail)) {
		return "", ""
	}
	for sv := 1; sv <= c.NumServers; sv++ {
		if pc := s.PC(sv - 1); pc != "AServer.failLabel" && pc != "AServer.Done" {
			// the proxy still holds the server answer it forwarded for this very request?
			pr, pm := s.Locals[c.proxyIdx()]["AProxy.proxyResp"], s.Locals[c.proxyIdx()]["AProxy.msg"]
			if pr.IsFunction() && pm.IsFunction() && c.fromServer(pr) && pr.ApplyFunction(str("body")).Equal(num(Fail)) &&
				pm.ApplyFunction(str("from")).Equal(num(p+1)) && pr.ApplyFunction(str("id")).Equal(r.ApplyFunction(str("id"))) {
				return "proxy/fail-sentinel-equals-server-id", fmt.Sprintf("client %d received body %d = FAIL, which is the healthy answer of server %s; server %d is alive at %s", p+1, Fail, ss.Canon(pr.ApplyFunction(str("from"))), sv, pc)
			}
			return "proxy/fail-reported-with-live-server", fmt.Sprintf("client %d received FAIL while server %d is alive at %s", p+1, sv, pc)
		}
	}
	return "", ""
}

// SeedCrashAllBut is a seeding script (a real execution from the initial state, EXPLORE_FAIL =
// TRUE): every server except `alive` takes the failing branch of mayFail in serverLoop
// (netEnabled[self, PROXY_REQ_MSG_TYP] := FALSE) and then failLabel (fd[self] := TRUE).
func (c Config) SeedCrashAllBut(alive int) []ss.SeedStep {
	var script []ss.SeedStep
	for sv := 1; sv <= c.NumServers; sv++ {
		if sv == alive {
			continue
		}
		idx := sv - 1
		script = append(script,
			ss.SeedStep{Proc: fmt.Sprintf("Server(%d)", sv), Accept: func(a *ss.Attempt) bool { return a.Next.PC(idx) == "AServer.failLabel" }},
			ss.SeedStep{Proc: fmt.Sprintf("Server(%d)", sv)})
	}
	return script
}

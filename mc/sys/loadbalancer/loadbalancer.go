// Package loadbalancer closes systems/loadbalancer exactly as the spec's instance declarations do:
//
//	variables network = [id \in 0..(NUM_NODES-1) |-> <<>>], in = 0, out = 0, fs = [f \in {in} |-> WEB_PAGE];
//	fair process (LoadBalancer = LoadBalancerId) == instance ALoadBalancer(ref network[_]) mapping network[_] via TCPChannel;
//	fair process (Servers \in 1..NUM_SERVERS) == instance AServer(ref network[_], ref fs[_])
//	    mapping network[_] via TCPChannel mapping fs[_] via WebPages;
//	fair process (Client \in (NUM_SERVERS+1)..(NUM_SERVERS+NUM_CLIENTS)) == instance AClient(ref network[_], ref in, ref out)
//	    mapping network[_] via TCPChannel;
package loadbalancer

import (
	"fmt"

	"github.com/DistCompiler/pgo/distsys"
	"github.com/DistCompiler/pgo/distsys/tla"
	gen "github.com/DistCompiler/pgo/systems/loadbalancer"
	ss "verif/mc/specstep"
)

// Config is one bounded instance.  LoadBalancerId = 0, GET_PAGE = 200, WEB_PAGE = 42.
type Config struct {
	NumServers int `json:"num_servers"`
	NumClients int `json:"num_clients"`
	BufferSize int `json:"buffer_size"`
}

const (
	LoadBalancerID = 0
	GetPage        = 200
	WebPage        = 42
)

func num(i int) tla.Value    { return tla.MakeNumber(int32(i)) }
func str(s string) tla.Value { return tla.MakeString(s) }

// TCPChannel (same macro as dqueue).
func chanRead(t *ss.Txn, cur tla.Value, _ []tla.Value) (tla.Value, tla.Value, error) {
	if cur.AsTuple().Len() == 0 {
		return tla.Value{}, tla.Value{}, ss.ErrAbort
	}
	return tla.ModuleTail(cur), tla.ModuleHead(cur), nil
}

func (c Config) chanWrite(t *ss.Txn, cur tla.Value, _ []tla.Value, v tla.Value) (tla.Value, error) {
	if cur.AsTuple().Len() >= c.BufferSize {
		return tla.Value{}, ss.ErrAbort
	}
	return tla.ModuleAppend(cur, v), nil
}

// WebPages: read { yield WEB_PAGE }  write { assert(FALSE); yield $value }
func pagesRead(t *ss.Txn, cur tla.Value, _ []tla.Value) (tla.Value, tla.Value, error) {
	return tla.Value{}, num(WebPage), nil
}

func pagesWrite(t *ss.Txn, cur tla.Value, _ []tla.Value, v tla.Value) (tla.Value, error) {
	return tla.Value{}, fmt.Errorf("%w: FALSE", distsys.ErrAssertionFailed)
}

type mk = func(*ss.Txn) distsys.ArchetypeResource

// New builds the closed system; process index == self (0 = load balancer, 1..S servers, S+1.. clients).
func New(c Config) *ss.System {
	consts := []distsys.MPCalContextConfigFn{
		distsys.DefineConstantValue("NUM_SERVERS", num(c.NumServers)),
		distsys.DefineConstantValue("NUM_CLIENTS", num(c.NumClients)),
		distsys.DefineConstantValue("BUFFER_SIZE", num(c.BufferSize)),
		distsys.DefineConstantValue("LoadBalancerId", num(LoadBalancerID)),
		distsys.DefineConstantValue("GET_PAGE", num(GetPage)),
		distsys.DefineConstantValue("WEB_PAGE", num(WebPage)),
	}
	network := func(t *ss.Txn) distsys.ArchetypeResource { return ss.Var(t, "network", true, chanRead, c.chanWrite) }
	fs := func(t *ss.Txn) distsys.ArchetypeResource { return ss.Var(t, "fs", true, pagesRead, pagesWrite) }
	in := func(t *ss.Txn) distsys.ArchetypeResource { return ss.Var(t, "in", false, nil, nil) }
	out := func(t *ss.Txn) distsys.ArchetypeResource { return ss.Var(t, "out", false, nil, nil) }
	sys := &ss.System{}
	sys.Procs = append(sys.Procs, ss.ProcDef{Name: "LoadBalancer(0)", Self: num(LoadBalancerID), Arch: gen.ALoadBalancer, Config: consts,
		RefParams: map[string]mk{"mailboxes": network}})
	for i := 1; i <= c.NumServers; i++ {
		sys.Procs = append(sys.Procs, ss.ProcDef{Name: fmt.Sprintf("Servers(%d)", i), Self: num(i), Arch: gen.AServer, Config: consts,
			RefParams: map[string]mk{"mailboxes": network, "file_system": fs}})
	}
	for i := c.NumServers + 1; i <= c.NumServers+c.NumClients; i++ {
		sys.Procs = append(sys.Procs, ss.ProcDef{Name: fmt.Sprintf("Client(%d)", i), Self: num(i), Arch: gen.AClient, Config: consts,
			RefParams: map[string]mk{"mailboxes": network, "instream": in, "outstream": out}})
	}
	var ids []tla.Value
	for i := 0; i <= c.NumServers+c.NumClients; i++ {
		ids = append(ids, num(i))
	}
	g := ss.Globals{
		"network": tla.MakeFunction([]tla.Value{tla.MakeSet(ids...)}, func([]tla.Value) tla.Value { return tla.MakeTuple() }),
		"in":      num(0),
		"out":     num(0),
		"fs":      tla.MakeFunction([]tla.Value{tla.MakeSet(num(0))}, func([]tla.Value) tla.Value { return num(WebPage) }),
	}
	sys.InitState(g)
	return sys
}

func queue(s *ss.State, id int) []tla.Value {
	var out []tla.Value
	it := s.Globals["network"].ApplyFunction(num(id)).AsTuple().Iterator()
	for !it.Done() {
		_, v := it.Next()
		out = append(out, v)
	}
	return out
}

// BuffersOk of the spec.
func (c Config) BuffersOk(s *ss.State) (string, string) {
	for id := 0; id <= c.NumServers+c.NumClients; id++ {
		if n := len(queue(s, id)); n > c.BufferSize {
			return "loadbalancer/BuffersOk", fmt.Sprintf("network[%d] holds %d messages, BUFFER_SIZE is %d", id, n, c.BufferSize)
		}
	}
	return "", ""
}

func clientOf(m tla.Value) int {
	if !m.IsFunction() {
		return -1
	}
	if v, ok := m.AsFunction().Get(str("client_id")); ok && v.IsNumber() {
		return int(v.AsNumber())
	}
	return -1
}

// OneAnswerPerRequest: for every client k the number of tokens of its current request anywhere in
// the system (queued at the balancer, held by the balancer, queued at a server, held by a server,
// pages queued for k) equals [k waits at clientReceive].  So a request is never lost, never
// duplicated and never answered by two servers, and no page reaches a client that did not ask.
func (c Config) OneAnswerPerRequest(s *ss.State) (string, string) {
	tokens := make(map[int]int)
	where := make(map[int][]string)
	add := func(k int, w string) {
		tokens[k]++
		where[k] = append(where[k], w)
	}
	for _, m := range queue(s, LoadBalancerID) {
		add(clientOf(m), "queued at balancer")
	}
	if s.PC(0) == "ALoadBalancer.sendServer" {
		add(clientOf(s.Locals[0]["ALoadBalancer.msg"]), "held by balancer")
	}
	for sv := 1; sv <= c.NumServers; sv++ {
		for _, m := range queue(s, sv) {
			add(clientOf(m), fmt.Sprintf("queued at server %d", sv))
		}
		if s.PC(sv) == "AServer.sendPage" {
			add(clientOf(s.Locals[sv]["AServer.msg"]), fmt.Sprintf("held by server %d", sv))
		}
	}
	for k := c.NumServers + 1; k <= c.NumServers+c.NumClients; k++ {
		for range queue(s, k) {
			add(k, "page queued for client")
		}
		waiting := 0
		if s.PC(k) == "AClient.clientReceive" {
			waiting = 1
		}
		if tokens[k] != waiting {
			return "loadbalancer/one-answer-per-request", fmt.Sprintf("client %d: waiting=%d but its request/answer exists %d times: %v", k, waiting, tokens[k], where[k])
		}
		delete(tokens, k)
	}
	for k, n := range tokens {
		return "loadbalancer/one-answer-per-request", fmt.Sprintf("%d request(s) for a non-client %d: %v", n, k, where[k])
	}
	return "", ""
}

// AnswerIsPage: what a client receives is the page, and it is what it hands to its output stream.
func (c Config) AnswerIsPage(s *ss.State, p int, a *ss.Attempt) (string, string) {
	if a.Kind != ss.Commit || p <= c.NumServers || s.PC(p) != "AClient.clientReceive" {
		return "", ""
	}
	if !a.Next.Locals[p]["AClient.resp"].Equal(num(WebPage)) || !a.Next.Globals["out"].Equal(num(WebPage)) {
		return "loadbalancer/answer-is-page", fmt.Sprintf("client %d received %s and output %s, expected WEB_PAGE=%d", p, ss.Canon(a.Next.Locals[p]["AClient.resp"]), ss.Canon(a.Next.Globals["out"]), WebPage)
	}
	return "", ""
}

// Package shcounter closes systems/shcounter as the spec does:
//
//	variables cntr = 0;
//	fair process (Node \in NODE_SET) == instance ANode(ref cntr);
//
// The spec leaves cntr unmapped (default read/write semantics: one strongly consistent
// variable); the shipped Go binds it to the 2PC resource, which is the subject of C11.
package shcounter

import (
	"fmt"

	"github.com/DistCompiler/pgo/distsys"
	"github.com/DistCompiler/pgo/distsys/tla"
	gen "github.com/DistCompiler/pgo/systems/shcounter"
	ss "verif/mc/specstep"
)

type Config struct {
	NumNodes int `json:"num_nodes"`
}

func num(i int) tla.Value { return tla.MakeNumber(int32(i)) }

func New(c Config) *ss.System {
	consts := []distsys.MPCalContextConfigFn{distsys.DefineConstantValue("NUM_NODES", num(c.NumNodes))}
	cntr := func(t *ss.Txn) distsys.ArchetypeResource { return ss.Var(t, "cntr", false, nil, nil) }
	sys := &ss.System{}
	for i := 1; i <= c.NumNodes; i++ {
		sys.Procs = append(sys.Procs, ss.ProcDef{Name: fmt.Sprintf("Node(%d)", i), Self: num(i), Arch: gen.ANode, Config: consts,
			RefParams: map[string]func(*ss.Txn) distsys.ArchetypeResource{"cntr": cntr}})
	}
	sys.InitState(ss.Globals{"cntr": num(0)})
	return sys
}

func (c Config) done(s *ss.State, p int) bool { return s.PC(p) == "ANode.Done" }

// EndsAtNumNodes is the safety content of CntrValueOK (<>[](cntr = NUM_NODES)):
// in every state, cntr equals the number of nodes that have performed `update` (so it never
// exceeds NUM_NODES and no increment is lost), a node is Done only when cntr = NUM_NODES, and when
// all nodes are Done the counter is exactly NUM_NODES.
func (c Config) EndsAtNumNodes(s *ss.State) (string, string) {
	cn := int(s.Globals["cntr"].AsNumber())
	updated, done := 0, 0
	for p := 0; p < c.NumNodes; p++ {
		if s.PC(p) != "ANode.update" {
			updated++
		}
		if c.done(s, p) {
			done++
		}
	}
	if cn != updated {
		return "shcounter/counter-counts-updates", fmt.Sprintf("cntr = %d but %d nodes have performed update", cn, updated)
	}
	if done > 0 && cn != c.NumNodes {
		return "shcounter/done-before-all-updated", fmt.Sprintf("%d node(s) are Done while cntr = %d, NUM_NODES = %d", done, cn, c.NumNodes)
	}
	if done == c.NumNodes && cn != c.NumNodes {
		return "shcounter/ends-at-num-nodes", fmt.Sprintf("all nodes Done with cntr = %d, NUM_NODES = %d", cn, c.NumNodes)
	}
	return "", ""
}

// Terminal tells whether no node can move any more (used by the harness to check that every
// terminal state is the all-Done state, i.e. CntrValueOK's "eventually" has no stuck counterexample).
func (c Config) AllDone(s *ss.State) bool {
	for p := 0; p < c.NumNodes; p++ {
		if !c.done(s, p) {
			return false
		}
	}
	return true
}

// Package dqueue closes systems/dqueue exactly as the spec's instance declarations do:
//
//	variables network = [id \in 0..NUM_NODES-1 |-> <<>>], processor = 0, stream = 0;
//	fair process (Consumer \in 1..NUM_CONSUMERS) == instance AConsumer(ref network[_], ref processor)
//	    mapping network[_] via TCPChannel;
//	fair process (Producer \in {PRODUCER}) == instance AProducer(ref network[_], ref stream)
//	    mapping network[_] via TCPChannel mapping stream via CyclicReads;
package dqueue

import (
	"fmt"
	"strconv"
	"strings"

	"github.com/DistCompiler/pgo/distsys"
	"github.com/DistCompiler/pgo/distsys/tla"
	"github.com/DistCompiler/pgo/distsys/trace"
	gen "github.com/DistCompiler/pgo/systems/dqueue"
	ss "verif/mc/specstep"
)

// Config is one bounded instance (PRODUCER = 0 as in dqueue.cfg).
type Config struct {
	NumConsumers int `json:"num_consumers"`
	BufferSize   int `json:"buffer_size"`
}

func num(i int) tla.Value { return tla.MakeNumber(int32(i)) }

// TCPChannel: read { await Len($variable) > 0; with (msg = Head($variable)) { $variable := Tail($variable); yield msg } }
//
//	write { await Len($variable) < BUFFER_SIZE; yield Append($variable, $value) }
func chanRead(t *ss.Txn, cur tla.Value, _ []tla.Value) (tla.Value, tla.Value, error) {
	if cur.AsTuple().Len() == 0 {
		return tla.Value{}, tla.Value{}, ss.ErrAbort
	}
	return tla.ModuleTail(cur), tla.ModuleHead(cur), nil
}

func (c Config) chanWrite(t *ss.Txn, cur tla.Value, _ []tla.Value, v tla.Value) (tla.Value, error) {
	if cur.AsTuple().Len() >= c.BufferSize {
		return tla.Value{}, ss.ErrAbort
	}
	return tla.ModuleAppend(cur, v), nil
}

// CyclicReads: read { $variable := ($variable + 1) % BUFFER_SIZE; yield $variable }  write { yield $variable }
func (c Config) cyclicRead(t *ss.Txn, cur tla.Value, _ []tla.Value) (tla.Value, tla.Value, error) {
	n := tla.ModulePercentSymbol(tla.ModulePlusSymbol(cur, num(1)), num(c.BufferSize))
	return n, n, nil
}

func cyclicWrite(t *ss.Txn, cur tla.Value, _ []tla.Value, v tla.Value) (tla.Value, error) {
	return cur, nil
}

type mk = func(*ss.Txn) distsys.ArchetypeResource

// New builds the closed system.
func New(c Config) *ss.System {
	consts := []distsys.MPCalContextConfigFn{
		distsys.DefineConstantValue("NUM_CONSUMERS", num(c.NumConsumers)),
		distsys.DefineConstantValue("BUFFER_SIZE", num(c.BufferSize)),
		distsys.DefineConstantValue("PRODUCER", num(0)),
	}
	network := func(t *ss.Txn) distsys.ArchetypeResource { return ss.Var(t, "network", true, chanRead, c.chanWrite) }
	processor := func(t *ss.Txn) distsys.ArchetypeResource { return ss.Var(t, "processor", false, nil, nil) }
	stream := func(t *ss.Txn) distsys.ArchetypeResource {
		return ss.Var(t, "stream", false, c.cyclicRead, cyclicWrite)
	}
	sys := &ss.System{}
	// process order = ProcSet order is irrelevant to the graph; the producer is process 0 so that process index == self
	sys.Procs = append(sys.Procs, ss.ProcDef{Name: "Producer(0)", Self: num(0), Arch: gen.AProducer, Config: consts,
		RefParams: map[string]mk{"net": network, "s": stream}})
	for i := 1; i <= c.NumConsumers; i++ {
		sys.Procs = append(sys.Procs, ss.ProcDef{Name: fmt.Sprintf("Consumer(%d)", i), Self: num(i), Arch: gen.AConsumer, Config: consts,
			RefParams: map[string]mk{"net": network, "proc": processor}})
	}
	var ids []tla.Value
	for i := 0; i <= c.NumConsumers; i++ {
		ids = append(ids, num(i))
	}
	g := ss.Globals{
		"network":   tla.MakeFunction([]tla.Value{tla.MakeSet(ids...)}, func([]tla.Value) tla.Value { return tla.MakeTuple() }),
		"processor": num(0),
		"stream":    num(0),
	}
	sys.InitState(g)
	return sys
}

func queue(s *ss.State, id int) []tla.Value {
	var out []tla.Value
	it := s.Globals["network"].ApplyFunction(num(id)).AsTuple().Iterator()
	for !it.Done() {
		_, v := it.Next()
		out = append(out, v)
	}
	return out
}

// BufferBound: no mailbox ever holds more than BUFFER_SIZE messages.
func (c Config) BufferBound(s *ss.State) (string, string) {
	for id := 0; id <= c.NumConsumers; id++ {
		if n := len(queue(s, id)); n > c.BufferSize {
			return "dqueue/buffer-bound", fmt.Sprintf("network[%d] holds %d messages, BUFFER_SIZE is %d", id, n, c.BufferSize)
		}
	}
	return "", ""
}

// OneItemPerRequest: for every consumer c,
//
//	#requests of c queued at the producer + [the producer is serving c] + #items queued for c == [c waits at c2].
//
// Hence an item is only ever queued for a consumer that asked and still waits, at most one per
// request, and a request is never lost or served twice.
func (c Config) OneItemPerRequest(s *ss.State) (string, string) {
	reqs := queue(s, 0)
	for id := 1; id <= c.NumConsumers; id++ {
		n := 0
		for _, r := range reqs {
			if r.Equal(num(id)) {
				n++
			}
		}
		serving := 0
		if s.PC(0) == "AProducer.p2" && s.Locals[0]["AProducer.requester"].Equal(num(id)) {
			serving = 1
		}
		items := len(queue(s, id))
		waiting := 0
		if s.PC(id) == "AConsumer.c2" {
			waiting = 1
		}
		if n+serving+items != waiting {
			return "dqueue/one-item-per-request", fmt.Sprintf("consumer %d: %d requests queued + %d being served + %d items queued for it, but waiting=%d", id, n, serving, items, waiting)
		}
	}
	for _, r := range reqs {
		if !r.IsNumber() || r.AsNumber() < 1 || int(r.AsNumber()) > c.NumConsumers {
			return "dqueue/one-item-per-request", fmt.Sprintf("the producer's mailbox holds %s, which is not a consumer id", ss.Canon(r))
		}
	}
	return "", ""
}

// Observe is a bounded observer: for every consumer the item the producer made for its
// outstanding request ("-" = none), rendered "e1,e2,...".
func (c Config) Observe(pre *ss.State, p int, ev *trace.Event, post *ss.State) string {
	exp := c.parseObs(pre.Obs)
	switch {
	case p == 0 && pre.PC(0) == "AProducer.p2":
		r := pre.Locals[0]["AProducer.requester"]
		if r.IsNumber() && r.AsNumber() >= 1 && int(r.AsNumber()) <= c.NumConsumers {
			exp[r.AsNumber()-1] = strconv.Itoa(int(post.Globals["stream"].AsNumber()))
		}
	case p >= 1 && pre.PC(p) == "AConsumer.c2":
		exp[p-1] = "-"
	}
	return strings.Join(exp, ",")
}

func (c Config) parseObs(o string) []string {
	if o == "" {
		exp := make([]string, c.NumConsumers)
		for i := range exp {
			exp[i] = "-"
		}
		return exp
	}
	return strings.Split(o, ",")
}

// Order is the edge invariant for "in production order":
//   - p1 serves the oldest queued request;
//   - p2 produces exactly the next item of the stream ((stream+1) % BUFFER_SIZE), appends it to the
//     mailbox of the consumer being served and to no other mailbox;
//   - c2 hands the consumer exactly the item that was produced for its request (observer) and
//     removes exactly that item.
func (c Config) Order(s *ss.State, p int, a *ss.Attempt) (string, string) {
	if a.Kind != ss.Commit {
		return "", ""
	}
	n := a.Next
	switch {
	case p == 0 && s.PC(0) == "AProducer.p1":
		q := queue(s, 0)
		if len(q) == 0 || !n.Locals[0]["AProducer.requester"].Equal(q[0]) || len(queue(n, 0)) != len(q)-1 {
			return "dqueue/requests-served-in-order", fmt.Sprintf("p1 with requests %s took requester %s leaving %s", ss.Canon(s.Globals["network"].ApplyFunction(num(0))), ss.Canon(n.Locals[0]["AProducer.requester"]), ss.Canon(n.Globals["network"].ApplyFunction(num(0))))
		}
	case p == 0 && s.PC(0) == "AProducer.p2":
		want := (int(s.Globals["stream"].AsNumber()) + 1) % c.BufferSize
		r := s.Locals[0]["AProducer.requester"]
		if int(n.Globals["stream"].AsNumber()) != want {
			return "dqueue/production-order", fmt.Sprintf("p2 moved the stream from %s to %s, expected %d", ss.Canon(s.Globals["stream"]), ss.Canon(n.Globals["stream"]), want)
		}
		for id := 0; id <= c.NumConsumers; id++ {
			before, after := queue(s, id), queue(n, id)
			if r.Equal(num(id)) {
				if len(after) != len(before)+1 || !after[len(after)-1].Equal(num(want)) {
					return "dqueue/production-order", fmt.Sprintf("p2 serving consumer %d with item %d changed its mailbox from %s to %s", id, want, ss.Canon(s.Globals["network"].ApplyFunction(num(id))), ss.Canon(n.Globals["network"].ApplyFunction(num(id))))
				}
			} else if len(after) != len(before) {
				return "dqueue/item-to-other-node", fmt.Sprintf("p2 serving %s changed the mailbox of node %d from %s to %s", ss.Canon(r), id, ss.Canon(s.Globals["network"].ApplyFunction(num(id))), ss.Canon(n.Globals["network"].ApplyFunction(num(id))))
			}
		}
	case p >= 1 && s.PC(p) == "AConsumer.c2":
		exp := c.parseObs(s.Obs)[p-1]
		got := ss.Canon(n.Globals["processor"])
		if exp != got {
			return "dqueue/consumer-gets-its-item", fmt.Sprintf("consumer %d processed %s but the item produced for its request was %s", p, got, exp)
		}
		if len(queue(n, p)) != len(queue(s, p))-1 {
			return "dqueue/consumer-gets-its-item", fmt.Sprintf("consumer %d's mailbox went from %s to %s on c2", p, ss.Canon(s.Globals["network"].ApplyFunction(num(p))), ss.Canon(n.Globals["network"].ApplyFunction(num(p))))
		}
	}
	return "", ""
}

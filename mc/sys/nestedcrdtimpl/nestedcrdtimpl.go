// Package nestedcrdtimpl closes systems/nestedcrdtimpl as the spec does:
//
//	variables network = [res \in RESOURCE_IDS |-> <<>>], in = [res \in RESOURCE_IDS |-> EMPTY_CELL], out = [res \in RESOURCE_IDS |-> EMPTY_CELL];
//	fair process (CRDTResource \in RESOURCE_IDS) == instance ACRDTResource(ref in[_], ref out[_], ref network[_], RESOURCE_IDS \ {CRDTResource}, TRUE)
//	    mapping network[_] via TCPChannel mapping in[_] via SingleCellChannel mapping out[_] via SingleCellChannel;
//	fair process (Node \in NODE_IDS) variables opsDone = 0, writesPending = 0, writesAchieved = 0, shouldCommit = FALSE; { ...plain PlusCal... }
//
// ACRDTResource is the generated archetype (the one the shipped Go nests inside a resource); the
// Node process - the spec's model of a client of that resource - is transcribed by hand
// (envproc).  The operator constants are instantiated as a G-Counter over RESOURCE_IDS:
// ZERO_VALUE = [r \in RESOURCE_IDS |-> 0], COMBINE_FN = pointwise max, UPDATE_FN(self, s, v) =
// [s EXCEPT ![self] = @ + v], VIEW_FN = sum (MCNested module of the C02 pair defines the same).
package nestedcrdtimpl

import (
	"fmt"

	"github.com/DistCompiler/pgo/distsys"
	"github.com/DistCompiler/pgo/distsys/tla"
	gen "github.com/DistCompiler/pgo/systems/nestedcrdtimpl"
	ss "verif/mc/specstep"
	"verif/mc/sys/envproc"
)

type Config struct {
	NumNodes   int `json:"num_nodes"` // NODE_IDS = 1..NumNodes
	NumOps     int `json:"num_ops"`
	BufferSize int `json:"buffer_size"`
}

func num(i int) tla.Value    { return tla.MakeNumber(int32(i)) }
func str(s string) tla.Value { return tla.MakeString(s) }

var (
	Empty = str("EMPTY_CELL") // a TLC model value
	kTpe  = str("tpe")
	kVal  = str("value")
)

func (c Config) resourceOf(n int) int { return c.NumNodes + n }

func (c Config) resourceIDs() tla.Value {
	var v []tla.Value
	for n := 1; n <= c.NumNodes; n++ {
		v = append(v, num(c.resourceOf(n)))
	}
	return tla.MakeSet(v...)
}

func sum(f tla.Value) int {
	n := 0
	it := f.AsFunction().Iterator()
	for !it.Done() {
		_, v, _ := it.Next()
		n += int(v.AsNumber())
	}
	return n
}

func (c Config) consts() []distsys.MPCalContextConfigFn {
	var ids []tla.Value
	for n := 1; n <= c.NumNodes; n++ {
		ids = append(ids, num(n))
	}
	rids := c.resourceIDs()
	zero := tla.MakeFunction([]tla.Value{rids}, func([]tla.Value) tla.Value { return num(0) })
	cs := []distsys.MPCalContextConfigFn{
		distsys.DefineConstantValue("BUFFER_SIZE", num(c.BufferSize)),
		distsys.DefineConstantValue("NUM_OPS", num(c.NumOps)),
		distsys.DefineConstantValue("NODE_IDS", tla.MakeSet(ids...)),
		distsys.DefineConstantValue("EMPTY_CELL", Empty),
		distsys.DefineConstantValue("ZERO_VALUE", zero),
		distsys.DefineConstantOperator("COMBINE_FN", func(a, b tla.Value) tla.Value {
			return tla.MakeFunction([]tla.Value{tla.ModuleDomainSymbol(a)}, func(k []tla.Value) tla.Value {
				x, y := a.ApplyFunction(k[0]), b.ApplyFunction(k[0])
				if x.AsNumber() > y.AsNumber() {
					return x
				}
				return y
			})
		}),
		distsys.DefineConstantOperator("UPDATE_FN", func(self, st, v tla.Value) tla.Value {
			return envproc.Except(st, self, tla.ModulePlusSymbol(st.ApplyFunction(self), v))
		}),
		distsys.DefineConstantOperator("VIEW_FN", func(st tla.Value) tla.Value { return num(sum(st)) }),
	}
	for _, n := range []string{"READ", "WRITE", "ABORT", "PRECOMMIT", "COMMIT"} {
		lower := map[string]string{"READ": "read", "WRITE": "write", "ABORT": "abort", "PRECOMMIT": "precommit", "COMMIT": "commit"}[n]
		cs = append(cs, distsys.DefineConstantValue(n+"_REQ", str(lower+"_req")), distsys.DefineConstantValue(n+"_ACK", str(lower+"_ack")))
	}
	return cs
}

// TCPChannel
func chanRead(t *ss.Txn, cur tla.Value, _ []tla.Value) (tla.Value, tla.Value, error) {
	if cur.AsTuple().Len() == 0 {
		return tla.Value{}, tla.Value{}, ss.ErrAbort
	}
	return tla.ModuleTail(cur), tla.ModuleHead(cur), nil
}

func (c Config) chanWrite(t *ss.Txn, cur tla.Value, _ []tla.Value, v tla.Value) (tla.Value, error) {
	if cur.AsTuple().Len() >= c.BufferSize {
		return tla.Value{}, ss.ErrAbort
	}
	return tla.ModuleAppend(cur, v), nil
}

// SingleCellChannel: read { await $variable # EMPTY_CELL; with (v = $variable) { $variable := EMPTY_CELL; yield v } }
//
//	write { await $variable = EMPTY_CELL; yield $value }
func cellRead(t *ss.Txn, cur tla.Value, _ []tla.Value) (tla.Value, tla.Value, error) {
	if cur.Equal(Empty) {
		return tla.Value{}, tla.Value{}, ss.ErrAbort
	}
	return Empty, cur, nil
}

func cellWrite(t *ss.Txn, cur tla.Value, _ []tla.Value, v tla.Value) (tla.Value, error) {
	if !cur.Equal(Empty) {
		return tla.Value{}, ss.ErrAbort
	}
	return v, nil
}

// A non-ref argument given to a ref parameter (peers, timer) becomes a process-local variable of
// the translation: a function of self, read (and, never here, written) at [self].
func ownRead(t *ss.Txn, cur tla.Value, _ []tla.Value) (tla.Value, tla.Value, error) {
	return tla.Value{}, cur.ApplyFunction(t.Self), nil
}

func ownWrite(t *ss.Txn, cur tla.Value, _ []tla.Value, v tla.Value) (tla.Value, error) {
	return envproc.Except(cur, t.Self, v), nil
}

func rec(kv ...tla.Value) tla.Value {
	var f []tla.RecordField
	for i := 0; i < len(kv); i += 2 {
		f = append(f, tla.RecordField{Key: kv[i], Value: kv[i+1]})
	}
	return tla.MakeRecord(f)
}

// node is the spec's Node process.
func (c Config) node() distsys.MPCalArchetype {
	const A = "Node"
	type I = distsys.ArchetypeInterface
	res := func(iface I) tla.Value { return num(c.resourceOf(int(iface.Self().AsNumber()))) }
	local := func(iface I, n string) distsys.ArchetypeResourceHandle {
		return iface.RequireArchetypeResource(A + "." + n)
	}
	get := func(iface I, n string) (tla.Value, error) { return iface.Read(local(iface, n), nil) }
	set := func(iface I, n string, v tla.Value) error { return iface.Write(local(iface, n), nil, v) }
	send := func(next string, msg func() tla.Value, before func(iface I) error) envproc.Section {
		return func(iface I) error {
			if before != nil {
				if err := before(iface); err != nil {
					return err
				}
			}
			in, err := iface.RequireArchetypeResourceRef(A + ".in")
			if err != nil {
				return err
			}
			if err := iface.Write(in, []tla.Value{res(iface)}, msg()); err != nil {
				return err
			}
			return iface.Goto(A + "." + next)
		}
	}
	// await out[RES] # EMPTY_CELL; assert out[RES].tpe = ack; out[RES] := EMPTY_CELL; then(iface)
	ack := func(ackTpe string, then func(iface I) error) envproc.Section {
		return func(iface I) error {
			out, err := iface.RequireArchetypeResourceRef(A + ".out")
			if err != nil {
				return err
			}
			v, err := iface.Read(out, []tla.Value{res(iface)})
			if err != nil {
				return err
			}
			if v.Equal(Empty) {
				return distsys.ErrCriticalSectionAborted
			}
			if !v.ApplyFunction(kTpe).Equal(str(ackTpe)) {
				return fmt.Errorf("%w: (((out)[RESOURCE_OF(self)]).tpe) = (%s)", distsys.ErrAssertionFailed, ackTpe)
			}
			if err := iface.Write(out, []tla.Value{res(iface)}, Empty); err != nil {
				return err
			}
			return then(iface)
		}
	}
	opAvailable := func(iface I) (bool, error) {
		d, err := get(iface, "opsDone")
		if err != nil {
			return false, err
		}
		if int(d.AsNumber()) >= c.NumOps {
			return false, nil
		}
		return true, set(iface, "opsDone", tla.ModulePlusSymbol(d, num(1)))
	}
	backToCS := func(shouldCommit bool, more func(iface I) error) func(iface I) error {
		return func(iface I) error {
			if more != nil {
				if err := more(iface); err != nil {
					return err
				}
			}
			if err := set(iface, "shouldCommit", tla.MakeBool(shouldCommit)); err != nil {
				return err
			}
			return iface.Goto(A + ".criticalSection")
		}
	}
	return envproc.Archetype(A, "criticalSection", []string{"in", "out"},
		[]envproc.Local{{Name: "opsDone", Init: num(0)}, {Name: "writesPending", Init: num(0)}, {Name: "writesAchieved", Init: num(0)}, {Name: "shouldCommit", Init: tla.ModuleFALSE}},
		map[string]envproc.Section{
			"criticalSection": func(iface I) error {
				sc, err := get(iface, "shouldCommit")
				if err != nil {
					return err
				}
				switch br := iface.NextFairnessCounter(A+".criticalSection.0", 5); br {
				case 0:
					if sc.AsBool() {
						return distsys.ErrCriticalSectionAborted
					}
					return iface.Goto(A + ".Done")
				case 1, 2, 3:
					ok, err := opAvailable(iface)
					if err != nil {
						return err
					}
					if !ok {
						return distsys.ErrCriticalSectionAborted
					}
					if br == 2 {
						return iface.Goto(A + ".writeReq")
					}
					return iface.Goto(A + ".readReq")
				default:
					if !sc.AsBool() {
						return distsys.ErrCriticalSectionAborted
					}
					return iface.Goto(A + ".preCommitReq")
				}
			},
			"readReq":  send("readAck", func() tla.Value { return rec(kTpe, str("read_req")) }, nil),
			"readAck":  ack("read_ack", backToCS(true, nil)),
			"abortReq": send("abortAck", func() tla.Value { return rec(kTpe, str("abort_req")) }, nil),
			"abortAck": ack("abort_ack", backToCS(false, func(iface I) error { return set(iface, "writesPending", num(0)) })),
			"writeReq": send("writeAck", func() tla.Value { return rec(kTpe, str("write_req"), kVal, num(1)) }, func(iface I) error {
				w, err := get(iface, "writesPending")
				if err != nil {
					return err
				}
				return set(iface, "writesPending", tla.ModulePlusSymbol(w, num(1)))
			}),
			"writeAck":     ack("write_ack", backToCS(true, nil)),
			"preCommitReq": send("preCommitAck", func() tla.Value { return rec(kTpe, str("precommit_req")) }, nil),
			"preCommitAck": ack("precommit_ack", func(iface I) error {
				if iface.NextFairnessCounter(A+".preCommitAck.0", 2) == 0 {
					ok, err := opAvailable(iface)
					if err != nil {
						return err
					}
					if !ok {
						return distsys.ErrCriticalSectionAborted
					}
					return iface.Goto(A + ".abortReq")
				}
				return iface.Goto(A + ".commitReq")
			}),
			"commitReq": send("commitAck", func() tla.Value { return rec(kTpe, str("commit_req")) }, nil),
			"commitAck": ack("commit_ack", backToCS(false, func(iface I) error {
				a, err := get(iface, "writesAchieved")
				if err != nil {
					return err
				}
				p, err := get(iface, "writesPending")
				if err != nil {
					return err
				}
				if err := set(iface, "writesAchieved", tla.ModulePlusSymbol(a, p)); err != nil {
					return err
				}
				return set(iface, "writesPending", num(0))
			})),
		})
}

type mk = func(*ss.Txn) distsys.ArchetypeResource

// New builds the closed system: processes 0..N-1 = Node(1..N), N..2N-1 = CRDTResource(N+1..2N).
func New(c Config) *ss.System {
	consts := c.consts()
	plainIn := func(t *ss.Txn) distsys.ArchetypeResource { return ss.Var(t, "in", true, nil, nil) }
	plainOut := func(t *ss.Txn) distsys.ArchetypeResource { return ss.Var(t, "out", true, nil, nil) }
	cellIn := func(t *ss.Txn) distsys.ArchetypeResource { return ss.Var(t, "in", true, cellRead, cellWrite) }
	cellOut := func(t *ss.Txn) distsys.ArchetypeResource { return ss.Var(t, "out", true, cellRead, cellWrite) }
	network := func(t *ss.Txn) distsys.ArchetypeResource { return ss.Var(t, "network", true, chanRead, c.chanWrite) }
	peers := func(t *ss.Txn) distsys.ArchetypeResource { return ss.Var(t, "peers", false, ownRead, ownWrite) }
	timer := func(t *ss.Txn) distsys.ArchetypeResource { return ss.Var(t, "timer", false, ownRead, ownWrite) }
	sys := &ss.System{}
	node := c.node()
	for n := 1; n <= c.NumNodes; n++ {
		sys.Procs = append(sys.Procs, ss.ProcDef{Name: fmt.Sprintf("Node(%d)", n), Self: num(n), Arch: node, Config: consts,
			RefParams: map[string]mk{"in": plainIn, "out": plainOut}})
	}
	for n := 1; n <= c.NumNodes; n++ {
		sys.Procs = append(sys.Procs, ss.ProcDef{Name: fmt.Sprintf("CRDTResource(%d)", c.resourceOf(n)), Self: num(c.resourceOf(n)), Arch: gen.ACRDTResource, Config: consts,
			RefParams: map[string]mk{"in": cellIn, "out": cellOut, "network": network, "peers": peers, "timer": timer}})
	}
	rids := c.resourceIDs()
	g := ss.Globals{
		"network": tla.MakeFunction([]tla.Value{rids}, func([]tla.Value) tla.Value { return tla.MakeTuple() }),
		"in":      tla.MakeFunction([]tla.Value{rids}, func([]tla.Value) tla.Value { return Empty }),
		"out":     tla.MakeFunction([]tla.Value{rids}, func([]tla.Value) tla.Value { return Empty }),
		"peers": tla.MakeFunction([]tla.Value{rids}, func(a []tla.Value) tla.Value {
			return tla.ModuleBackslashSymbol(rids, tla.MakeSet(a[0]))
		}),
		"timer": tla.MakeFunction([]tla.Value{rids}, func([]tla.Value) tla.Value { return tla.ModuleTRUE }),
	}
	sys.InitState(g)
	return sys
}

func (c Config) state(s *ss.State, n int) tla.Value {
	return s.Locals[c.NumNodes+n-1]["ACRDTResource.state"]
}

// MonotonicState of the spec: [][\A self \in RESOURCE_IDS : \A k \in DOMAIN state[self] : state[self][k] <= state'[self][k]]_vars
func (c Config) MonotonicState(s *ss.State, p int, a *ss.Attempt) (string, string) {
	if a.Kind != ss.Commit {
		return "", ""
	}
	for n := 1; n <= c.NumNodes; n++ {
		pre, post := c.state(s, n), c.state(a.Next, n)
		it := pre.AsFunction().Iterator()
		for !it.Done() {
			k, v, _ := it.Next()
			if nv, ok := post.AsFunction().Get(k); !ok || nv.AsNumber() < v.AsNumber() {
				return "nestedcrdtimpl/MonotonicState", fmt.Sprintf("resource %d: state went from %s to %s", c.resourceOf(n), ss.Canon(pre), ss.Canon(post))
			}
		}
	}
	return "", ""
}

// The spec's StateSanity,
//
//	Sum({VIEW_FN(state[self]) : self \in RESOURCE_IDS}) <= Sum({writesPending[self] + writesAchieved[self] : self \in NODE_IDS})
//
// sums over *sets*: two nodes with the same number of writes collapse to one summand on the
// right.  TLC refutes it on the spec itself (NODE_IDS = {1,2}, NUM_OPS = 2: views {1,2} vs writes
// {1}), so it is not an invariant the generated Go could be held to; the sanity it is after is
// checked in the set-free form below.
//
// ViewBoundedByWrites (StateSanity without the set collapse): no resource ever shows more
// increments than the nodes have issued (pending or achieved) in total.
func (c Config) ViewBoundedByWrites(s *ss.State) (string, string) {
	total := 0
	for n := 1; n <= c.NumNodes; n++ {
		l := s.Locals[n-1]
		total += int(l["Node.writesPending"].AsNumber()) + int(l["Node.writesAchieved"].AsNumber())
	}
	for n := 1; n <= c.NumNodes; n++ {
		if v := sum(c.state(s, n)); v > total {
			return "nestedcrdtimpl/view-exceeds-writes", fmt.Sprintf("resource %d shows %d increments but the nodes issued %d writes in total", c.resourceOf(n), v, total)
		}
	}
	return "", ""
}

package raftkvs

import (
	"fmt"

	"github.com/DistCompiler/pgo/distsys/trace"

	ss "verif/mc/specstep"
)

// Seeding scripts: real executions (first committing, zero-deviation attempt of the named
// process at each step) that bring the system to a protocol situation which plain breadth-first
// search only reaches beyond its budget.  The search then explores *everything* reachable from
// there.  Process names follow New(): s0(i) AServer, s1(N+i) RequestVote, s2(2N+i) AppendEntries,
// s3(3N+i) AdvanceCommitIndex, s4(4N+i) BecomeLeader, client(6N+k).

func rep(n int, name string) []ss.SeedStep {
	var out []ss.SeedStep
	for i := 0; i < n; i++ {
		out = append(out, ss.SeedStep{Proc: name})
	}
	return out
}

// SeedElect: server `who` times out, collects every vote and becomes leader.
func (c Config) SeedElect(who int) []ss.SeedStep {
	N := c.NumServers
	var s []ss.SeedStep
	s = append(s, rep(1+N+1, fmt.Sprintf("s1(%d)", N+who))...) // timeout, N iterations, loop exit
	for j := 1; j <= N; j++ {
		if j != who {
			s = append(s, rep(2, fmt.Sprintf("s0(%d)", j))...) // receive RequestVote, handle (grant)
		}
	}
	for j := 1; j <= N; j++ {
		if j != who {
			s = append(s, rep(2, fmt.Sprintf("s0(%d)", who))...) // receive a vote, handle
		}
	}
	if N > 1 {
		s = append(s, ss.SeedStep{Proc: fmt.Sprintf("s4(%d)", 4*N+who)})
	} else {
		s = append(s, ss.SeedStep{Proc: fmt.Sprintf("s4(%d)", 4*N+who)})
	}
	return s
}

// SeedReplicate: client k submits its next request to `leader`; the leader appends it, sends
// AppendEntries to everybody, the servers in `acks` process it and the leader processes their
// answers; then the leader advances its commit index and applies (answering the client).
// Servers not in acks keep the AppendEntries message undelivered in their mailbox (lagging).
func (c Config) SeedReplicate(k, leader int, acks []int) []ss.SeedStep {
	N := c.NumServers
	cl := fmt.Sprintf("client(%d)", 6*N+k)
	var s []ss.SeedStep
	s = append(s, ss.SeedStep{Proc: cl}) // clientLoop: take the request
	s = append(s, ss.SeedStep{Proc: cl, Accept: func(a *ss.Attempt) bool { // sndReq: to the leader
		for _, l := range a.Next.Locals {
			if v, ok := l["AClient.leader"]; ok && l[".pc"].AsString() == "AClient.rcvResp" && int(v.AsNumber()) == leader {
				return true
			}
		}
		return false
	}})
	s = append(s, rep(2, fmt.Sprintf("s0(%d)", leader))...)       // receive client request, append
	s = append(s, rep(1+N+1, fmt.Sprintf("s2(%d)", 2*N+leader))...) // AppendEntries round
	for _, j := range acks {
		s = append(s, rep(2, fmt.Sprintf("s0(%d)", j))...)
	}
	for range acks {
		s = append(s, rep(2, fmt.Sprintf("s0(%d)", leader))...)
	}
	s = append(s, rep(3, fmt.Sprintf("s3(%d)", 3*N+leader))...) // advance commit index, apply, loop exit
	return s
}

// SeedClientRecv: client k takes the pending response to its current request.
func (c Config) SeedClientRecv(k int) []ss.SeedStep {
	return []ss.SeedStep{{Proc: fmt.Sprintf("client(%d)", 6*c.NumServers+k)}}
}

// SeedAll returns the server ids other than leader.
func (c Config) Others(leader int) []int {
	var o []int
	for j := 1; j <= c.NumServers; j++ {
		if j != leader {
			o = append(o, j)
		}
	}
	return o
}

// Build constructs the system and moves its search start along the named seeding script:
//   ""                the initial state
//   "elect"           server 1 won the first election
//   "commit-lagging"  + client 1's first request committed on a bare majority that excludes the
//                     highest-numbered servers (their AppendEntries is still in flight)
//   "commit2-lagging-crash" = commit2-lagging, then server 1 (the leader) crash-stops
//   "commit2-lagging" + first request replicated everywhere and answered, second request committed
//                     on a bare majority (client 1 needs a script of >= 2 requests)
// observe (may be nil) is installed before seeding so that the observer component covers the prefix.
func Build(cfg Config, seed string, observe func(pre *ss.State, p int, ev *trace.Event, post *ss.State) string) (*ss.System, error) {
	sys := New(cfg)
	sys.Observe = observe
	majority := func() []int {
		var acks []int
		for j := 2; j <= cfg.NumServers/2+1; j++ {
			acks = append(acks, j)
		}
		return acks
	}
	var scripts [][]ss.SeedStep
	switch seed {
	case "":
	case "elect":
		scripts = [][]ss.SeedStep{cfg.SeedElect(1)}
	case "commit-lagging":
		scripts = [][]ss.SeedStep{cfg.SeedElect(1), cfg.SeedReplicate(1, 1, majority())}
	case "commit2-lagging":
		scripts = [][]ss.SeedStep{cfg.SeedElect(1), cfg.SeedReplicate(1, 1, cfg.Others(1)), cfg.SeedClientRecv(1), cfg.SeedReplicate(1, 1, majority())}
	case "commit2-lagging-crash":
		// ... and then the leader crash-stops (needs ExploreFail): the survivors must elect among themselves
		scripts = [][]ss.SeedStep{cfg.SeedElect(1), cfg.SeedReplicate(1, 1, cfg.Others(1)), cfg.SeedClientRecv(1), cfg.SeedReplicate(1, 1, majority()),
			rep(2, fmt.Sprintf("crasher(%d)", 5*cfg.NumServers+1))}
	default:
		return nil, fmt.Errorf("unknown seed %q", seed)
	}
	for _, sc := range scripts {
		if err := sys.Seed(sc); err != nil {
			return nil, err
		}
	}
	return sys, nil
}

package raftkvs

import (
	"fmt"

	"github.com/DistCompiler/pgo/distsys/trace"

	ss "verif/mc/specstep"
)

// Seeding scripts: real executions (first committing, zero-deviation attempt of the named
// process at each step) that bring the system to a protocol situation which plain breadth-first
// search only reaches beyond its budget.  The search then explores *everything* reachable from
// there.  Process names follow New(): s0(i) AServer, s1(N+i) RequestVote, s2(2N+i) AppendEntries,
// s3(3N+i) AdvanceCommitIndex, s4(4N+i) BecomeLeader, client(6N+k).

// recvStep: server `srv` takes from its mailbox a message of type mtype sent by `from` (0 = anybody).
func (c Config) recvStep(srv int, mtype string, from int) ss.SeedStep {
	return ss.SeedStep{Proc: fmt.Sprintf("s0(%d)", srv), Accept: func(a *ss.Attempt) bool {
		m := a.Next.Locals[srv-1]["AServer.m"]
		if a.Next.Locals[srv-1][".pc"].AsString() != "AServer.handleMsg" {
			return false
		}
		return m.ApplyFunction(str("mtype")).AsString() == mtype && (from == 0 || int(m.ApplyFunction(str("msource")).AsNumber()) == from)
	}}
}

func rep(n int, name string) []ss.SeedStep {
	var out []ss.SeedStep
	for i := 0; i < n; i++ {
		out = append(out, ss.SeedStep{Proc: name})
	}
	return out
}

// SeedElect: server `who` times out, collects every vote and becomes leader.
func (c Config) SeedElect(who int) []ss.SeedStep {
	N := c.NumServers
	var s []ss.SeedStep
	s = append(s, rep(1+N+1, fmt.Sprintf("s1(%d)", N+who))...) // timeout, N iterations, loop exit
	for j := 1; j <= N; j++ {
		if j != who {
			s = append(s, rep(2, fmt.Sprintf("s0(%d)", j))...) // receive RequestVote, handle (grant)
		}
	}
	for j := 1; j <= N; j++ {
		if j != who {
			s = append(s, rep(2, fmt.Sprintf("s0(%d)", who))...) // receive a vote, handle
		}
	}
	if N > 1 {
		s = append(s, ss.SeedStep{Proc: fmt.Sprintf("s4(%d)", 4*N+who)})
	} else {
		s = append(s, ss.SeedStep{Proc: fmt.Sprintf("s4(%d)", 4*N+who)})
	}
	return s
}

// SeedReplicate: client k submits its next request to `leader`; the leader appends it, sends
// AppendEntries to everybody, the servers in `acks` process it and the leader processes their
// answers; then the leader advances its commit index and applies (answering the client).
// Servers not in acks keep the AppendEntries message undelivered in their mailbox (lagging).
func (c Config) SeedReplicate(k, leader int, acks []int) []ss.SeedStep {
	N := c.NumServers
	cl := fmt.Sprintf("client(%d)", 6*N+k)
	var s []ss.SeedStep
	s = append(s, ss.SeedStep{Proc: cl}) // clientLoop: take the request
	s = append(s, ss.SeedStep{Proc: cl, Accept: func(a *ss.Attempt) bool { // sndReq: to the leader
		for _, l := range a.Next.Locals {
			if v, ok := l["AClient.leader"]; ok && l[".pc"].AsString() == "AClient.rcvResp" && int(v.AsNumber()) == leader {
				return true
			}
		}
		return false
	}})
	s = append(s, rep(2, fmt.Sprintf("s0(%d)", leader))...)       // receive client request, append
	s = append(s, rep(1+N+1, fmt.Sprintf("s2(%d)", 2*N+leader))...) // AppendEntries round
	for _, j := range acks {
		s = append(s, rep(2, fmt.Sprintf("s0(%d)", j))...)
	}
	for range acks {
		s = append(s, rep(2, fmt.Sprintf("s0(%d)", leader))...)
	}
	s = append(s, rep(3, fmt.Sprintf("s3(%d)", 3*N+leader))...) // advance commit index, apply, loop exit
	return s
}

// SeedElectSpurious: like SeedElect, but the first step is a *spurious* election timeout (a live
// leader exists): it uses one environment deviation.  voters = the servers whose votes are
// delivered and counted (they must be able to grant); every other live server also processes the
// RequestVote (and steps down if it was leader).
func (c Config) SeedElectSpurious(who int, voters []int) []ss.SeedStep {
	N := c.NumServers
	rv := fmt.Sprintf("s1(%d)", N+who)
	s := []ss.SeedStep{{Proc: rv, AllowDev: true}}
	s = append(s, rep(N+1, rv)...)
	for j := 1; j <= N; j++ {
		if j != who {
			s = append(s, rep(2, fmt.Sprintf("s0(%d)", j))...) // receive RequestVote, handle (grant or refuse)
		}
	}
	for range voters {
		s = append(s, rep(2, fmt.Sprintf("s0(%d)", who))...) // receive a vote response, handle
	}
	// the refusing servers' responses are handled too (they do not change the outcome)
	for j := 1; j <= N-1-len(voters); j++ {
		s = append(s, rep(2, fmt.Sprintf("s0(%d)", who))...)
	}
	s = append(s, ss.SeedStep{Proc: fmt.Sprintf("s4(%d)", 4*N+who)})
	return s
}

// SeedAppendOnly: client k submits its next request to `leader`, which appends it - nothing is replicated.
func (c Config) SeedAppendOnly(k, leader int) []ss.SeedStep {
	N := c.NumServers
	cl := fmt.Sprintf("client(%d)", 6*N+k)
	return []ss.SeedStep{{Proc: cl}, {Proc: cl, Accept: func(a *ss.Attempt) bool {
		for _, l := range a.Next.Locals {
			if v, ok := l["AClient.leader"]; ok && l[".pc"].AsString() == "AClient.rcvResp" && int(v.AsNumber()) == leader {
				if r, ok := l["AClient.reqIdx"]; ok && r.AsNumber() > 0 {
					return true
				}
			}
		}
		return false
	}}, {Proc: fmt.Sprintf("s0(%d)", leader)}, {Proc: fmt.Sprintf("s0(%d)", leader)}}
}

// SeedReplicateTo: the leader runs one AppendEntries round; the servers in acks process it and
// the leader processes their answers (no commit-index advance).
func (c Config) SeedReplicateTo(leader int, acks []int) []ss.SeedStep {
	N := c.NumServers
	s := rep(1+N+1, fmt.Sprintf("s2(%d)", 2*N+leader))
	for _, j := range acks {
		s = append(s, c.recvStep(j, "apq", leader), ss.SeedStep{Proc: fmt.Sprintf("s0(%d)", j)})
	}
	for _, j := range acks {
		s = append(s, c.recvStep(leader, "app", j), ss.SeedStep{Proc: fmt.Sprintf("s0(%d)", leader)})
	}
	return s
}

// SeedClientRecv: client k takes the pending response to its current request.
func (c Config) SeedClientRecv(k int) []ss.SeedStep {
	return []ss.SeedStep{{Proc: fmt.Sprintf("client(%d)", 6*c.NumServers+k)}}
}

// SeedAll returns the server ids other than leader.
func (c Config) Others(leader int) []int {
	var o []int
	for j := 1; j <= c.NumServers; j++ {
		if j != leader {
			o = append(o, j)
		}
	}
	return o
}

// Build constructs the system and moves its search start along the named seeding script:
//   ""                the initial state
//   "elect"           server 1 won the first election
//   "commit-lagging"  + client 1's first request committed on a bare majority that excludes the
//                     highest-numbered servers (their AppendEntries is still in flight)
//   "commit2-lagging-crash" = commit2-lagging, then server 1 (the leader) crash-stops
//   "commit2-lagging" + first request replicated everywhere and answered, second request committed
//                     on a bare majority (client 1 needs a script of >= 2 requests)
// observe (may be nil) is installed before seeding so that the observer component covers the prefix.
func Build(cfg Config, seed string, observe func(pre *ss.State, p int, ev *trace.Event, post *ss.State) string) (*ss.System, error) {
	sys := New(cfg)
	sys.Observe = observe
	majority := func() []int {
		var acks []int
		for j := 2; j <= cfg.NumServers/2+1; j++ {
			acks = append(acks, j)
		}
		return acks
	}
	var scripts [][]ss.SeedStep
	switch seed {
	case "":
	case "elect":
		scripts = [][]ss.SeedStep{cfg.SeedElect(1)}
	case "commit-lagging":
		scripts = [][]ss.SeedStep{cfg.SeedElect(1), cfg.SeedReplicate(1, 1, majority())}
	case "commit2-lagging":
		scripts = [][]ss.SeedStep{cfg.SeedElect(1), cfg.SeedReplicate(1, 1, cfg.Others(1)), cfg.SeedClientRecv(1), cfg.SeedReplicate(1, 1, majority())}
	case "figure8":
		// the situation of Figure 8 of the Raft paper (3 servers, 2 clients): S1 (term 2) appends x
		// without replicating it; S2 wins term 3 and appends y at the same index without
		// replicating it; S1 wins term 4 and replicates the old-term entry x to S3.  x now sits on a
		// majority but must NOT be committed by counting replicas (it is not of the leader's term).
		if cfg.NumServers != 3 || cfg.NumClients < 2 {
			return nil, fmt.Errorf("seed figure8 needs 3 servers and 2 clients")
		}
		scripts = [][]ss.SeedStep{cfg.SeedElect(1), cfg.SeedAppendOnly(1, 1),
			cfg.SeedElectSpurious(2, []int{3}), cfg.SeedAppendOnly(2, 2),
			cfg.SeedElectSpurious(1, []int{3}),
			// first round: nextIndex[3] = 2 is refused by S3 (empty log) and backed off; second round ships x
			cfg.SeedReplicateTo(1, []int{3}), cfg.SeedReplicateTo(1, []int{3})}
	case "replicated-to-one":
		// the leader has appended client 1's request and replicated it to server 2 only; the
		// AppendEntries to everybody else are still in flight and nothing is committed yet
		scripts = [][]ss.SeedStep{cfg.SeedElect(1), cfg.SeedAppendOnly(1, 1), cfg.SeedReplicateTo(1, []int{2})}
	case "commit2-lagging-crash":
		// ... and then the leader crash-stops (needs ExploreFail): the survivors must elect among themselves
		scripts = [][]ss.SeedStep{cfg.SeedElect(1), cfg.SeedReplicate(1, 1, cfg.Others(1)), cfg.SeedClientRecv(1), cfg.SeedReplicate(1, 1, majority()),
			rep(2, fmt.Sprintf("crasher(%d)", 5*cfg.NumServers+1))}
	default:
		return nil, fmt.Errorf("unknown seed %q", seed)
	}
	for _, sc := range scripts {
		if err := sys.Seed(sc); err != nil {
			return nil, err
		}
	}
	return sys, nil
}

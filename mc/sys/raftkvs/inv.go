package raftkvs

import (
	"fmt"

	"github.com/DistCompiler/pgo/distsys/tla"
	ss "verif/mc/specstep"
)

type view struct {
	n           int
	state       []string
	term, ci    []int
	log         [][]tla.Value
	sm, smDom   []tla.Value
}

func (c Config) view(s *ss.State) *view {
	v := &view{n: c.NumServers}
	for i := 1; i <= c.NumServers; i++ {
		v.state = append(v.state, s.Globals["state"].ApplyFunction(num(i)).AsString())
		v.term = append(v.term, int(s.Globals["currentTerm"].ApplyFunction(num(i)).AsNumber()))
		v.ci = append(v.ci, int(s.Globals["commitIndex"].ApplyFunction(num(i)).AsNumber()))
		lg := s.Globals["log"].ApplyFunction(num(i)).AsTuple()
		l := make([]tla.Value, lg.Len())
		for j := range l {
			l[j] = lg.Get(j)
		}
		v.log = append(v.log, l)
		v.sm = append(v.sm, s.Globals["sm"].ApplyFunction(num(i)))
		v.smDom = append(v.smDom, s.Globals["smDomain"].ApplyFunction(num(i)))
	}
	return v
}

func term(e tla.Value) int { return int(e.ApplyFunction(str("term")).AsNumber()) }

// Invariants are the state invariants named by property C08, ported from raftkvs.tla.
func (c Config) Invariants() []func(s *ss.State) (string, string) {
	return []func(s *ss.State) (string, string){
		func(s *ss.State) (string, string) { // ElectionSafety
			v := c.view(s)
			for i := 0; i < v.n; i++ {
				for j := i + 1; j < v.n; j++ {
					if v.state[i] == "leader" && v.state[j] == "leader" && v.term[i] == v.term[j] {
						return "ElectionSafety", fmt.Sprintf("servers %d and %d are both leader in term %d", i+1, j+1, v.term[i])
					}
				}
			}
			return "", ""
		},
		func(s *ss.State) (string, string) { // LogMatching
			v := c.view(s)
			for i := 0; i < v.n; i++ {
				for j := 0; j < v.n; j++ {
					m := min(len(v.log[i]), len(v.log[j]))
					for k := 1; k <= m; k++ {
						if term(v.log[i][k-1]) == term(v.log[j][k-1]) {
							for x := 0; x < k; x++ {
								if !v.log[i][x].Equal(v.log[j][x]) {
									return "LogMatching", fmt.Sprintf("logs of %d and %d agree on the term at index %d but differ at index %d", i+1, j+1, k, x+1)
								}
							}
						}
					}
				}
			}
			return "", ""
		},
		func(s *ss.State) (string, string) { // LeaderCompleteness
			v := c.view(s)
			for i := 0; i < v.n; i++ {
				for idx := 1; idx <= len(v.log[i]) && idx <= v.ci[i]; idx++ {
					for j := 0; j < v.n; j++ {
						if v.state[j] == "leader" && v.term[j] >= term(v.log[i][idx-1]) {
							if idx > len(v.log[j]) || !v.log[i][idx-1].Equal(v.log[j][idx-1]) {
								return "LeaderCompleteness", fmt.Sprintf("entry %d committed at server %d is missing from the log of leader %d (term %d)", idx, i+1, j+1, v.term[j])
							}
						}
					}
				}
			}
			return "", ""
		},
		func(s *ss.State) (string, string) { // StateMachineSafety
			v := c.view(s)
			for i := 0; i < v.n; i++ {
				for j := 0; j < v.n; j++ {
					m := min(v.ci[i], v.ci[j])
					for k := 1; k <= m; k++ {
						if k > len(v.log[i]) || k > len(v.log[j]) || !v.log[i][k-1].Equal(v.log[j][k-1]) {
							return "StateMachineSafety", fmt.Sprintf("servers %d and %d applied different entries at index %d", i+1, j+1, k)
						}
					}
				}
			}
			return "", ""
		},
		func(s *ss.State) (string, string) { // ApplyLogOK
			v := c.view(s)
			for i := 0; i < v.n; i++ {
				for j := i + 1; j < v.n; j++ {
					if v.ci[i] == v.ci[j] && (ss.Canon(v.sm[i]) != ss.Canon(v.sm[j]) || ss.Canon(v.smDom[i]) != ss.Canon(v.smDom[j])) {
						return "ApplyLogOK", fmt.Sprintf("servers %d and %d have commit index %d but different stores: %s vs %s", i+1, j+1, v.ci[i], ss.Canon(v.sm[i]), ss.Canon(v.sm[j]))
					}
				}
			}
			return "", ""
		},
	}
}

// LeaderAppendOnly is the transition predicate of the spec.
func (c Config) LeaderAppendOnly(s *ss.State, p int, a *ss.Attempt) (string, string) {
	if a.Kind != ss.Commit {
		return "", ""
	}
	pre, post := c.view(s), c.view(a.Next)
	for i := 0; i < pre.n; i++ {
		if pre.state[i] == "leader" && post.state[i] == "leader" {
			if len(post.log[i]) < len(pre.log[i]) {
				return "LeaderAppendOnly", fmt.Sprintf("leader %d shortened its log from %d to %d entries", i+1, len(pre.log[i]), len(post.log[i]))
			}
			for k := range pre.log[i] {
				if !pre.log[i][k].Equal(post.log[i][k]) {
					return "LeaderAppendOnly", fmt.Sprintf("leader %d rewrote log entry %d", i+1, k+1)
				}
			}
		}
	}
	return "", ""
}

package raftkvs

import (
	"testing"

	ss "verif/mc/specstep"
)

func TestSeedTwoEntries(t *testing.T) {
	c := Config{NumServers: 3, NumClients: 1, MaxTerm: 4, MaxCommitIndex: 4, FIFO: true, Budgeted: true,
		Requests: [][]Req{{{Type: "put", Key: "k", Value: "v1"}, {Type: "put", Key: "k", Value: "v2"}}}}
	sys := New(c)
	for i, sc := range [][]ss.SeedStep{c.SeedElect(1), c.SeedReplicate(1, 1, c.Others(1)), c.SeedClientRecv(1), c.SeedReplicate(1, 1, []int{2})} {
		if err := sys.Seed(sc); err != nil {
			t.Fatalf("script %d: %v\n%v", i, err, sys.Render(sys.Prefix))
		}
	}
	t.Logf("prefix %d steps; commitIndex %s; logs %s", len(sys.Prefix), ss.Canon(sys.Init.Globals["commitIndex"]), ss.Canon(sys.Init.Globals["log"]))
	if ss.Canon(sys.Init.Globals["commitIndex"].ApplyFunction(num(1))) != "2" {
		t.Fatal("leader has not committed two entries")
	}
}

func TestSeedFigure8(t *testing.T) {
	c := Config{NumServers: 3, NumClients: 2, MaxTerm: 7, MaxCommitIndex: 4, FIFO: true, Budgeted: true,
		Requests: [][]Req{{{Type: "put", Key: "k", Value: "x"}}, {{Type: "put", Key: "k", Value: "y"}}}}
	sys, err := Build(c, "figure8", nil)
	if err != nil {
		t.Fatal(err)
	}
	t.Logf("prefix %d steps; state %s term %s commitIndex %s; logs %s", len(sys.Prefix), ss.Canon(sys.Init.Globals["state"]), ss.Canon(sys.Init.Globals["currentTerm"]), ss.Canon(sys.Init.Globals["commitIndex"]), ss.Canon(sys.Init.Globals["log"]))
}

func TestSeeds(t *testing.T) {
	put := [][]Req{{{Type: "put", Key: "k", Value: "v"}}}
	for _, n := range []int{1, 2, 3} {
		c := Config{NumServers: n, NumClients: 1, MaxTerm: 4, MaxCommitIndex: 3, FIFO: true, Budgeted: true, Requests: put}
		sys := New(c)
		if err := sys.Seed(c.SeedElect(1)); err != nil {
			t.Fatalf("n=%d elect: %v", n, err)
		}
		if st := sys.Init.Globals["state"].ApplyFunction(num(1)).AsString(); st != "leader" {
			t.Fatalf("n=%d: server 1 is %s after SeedElect\n%v", n, st, sys.Render(sys.Prefix))
		}
		acks := []int{}
		if n >= 2 {
			acks = []int{2}
		}
		if err := sys.Seed(c.SeedReplicate(1, 1, acks)); err != nil {
			t.Fatalf("n=%d replicate: %v\n%v", n, err, sys.Render(sys.Prefix))
		}
		ci := sys.Init.Globals["commitIndex"].ApplyFunction(num(1)).AsNumber()
		t.Logf("n=%d: prefix %d steps, leader commitIndex %d, key %s", n, len(sys.Prefix), ci, ss.Canon(sys.Init.Globals["log"]))
		if ci != 1 {
			t.Fatalf("n=%d: commit index %d", n, ci)
		}
	}
}

// Package raftkvs closes systems/raftkvs exactly as the spec's instance declarations do
// (five archetypes per server, clients, crashers; mapping macros ReliableFIFOLink,
// NetworkBufferLength, NetworkToggle, UnreliableFD, PersistentLog, Channel, LeaderTimeout,
// RequestsChannel, ClientTimeout written in Go over explicit spec globals).
package raftkvs

import (
	"fmt"
	"sort"

	"github.com/DistCompiler/pgo/distsys"
	"github.com/DistCompiler/pgo/distsys/tla"
	gen "github.com/DistCompiler/pgo/systems/raftkvs"
	ss "verif/mc/specstep"
)

// Config is one bounded instance.
type Config struct {
	NumServers, NumClients int
	MaxTerm, MaxCommitIndex int
	BufferSize              int
	ExploreFail             bool
	MaxNodeFail             int
	// FIFO: per-link FIFO network (what the mailboxes guarantee; quantifier of C08/C09).
	// false: the spec's bag network (used for the graph comparison with TLC).
	FIFO bool
	// Requests, when non-nil, replaces the spec's RequestsChannel (`with req \in AllReqs`) by a
	// fixed script per client (client k issues Requests[k] in order, then reqCh blocks): a
	// restriction of the environment's choices, i.e. a subset of the spec's behaviours.
	Requests [][]Req
	// AllStrings for the unrestricted RequestsChannel.
	AllStrings []string
	// PerfectFD: fd reads yield the real crash status instead of either TRUE/FALSE.
	PerfectFD bool
	// NoTimeoutChoice: client timeout never fires spontaneously (ClientTimeout yields FALSE only).
	NoClientTimeout bool
	// Budgeted: the environment's unreliable answers are *deviations* from a default answer and
	// cost one unit of the search's deviation budget each: a failure detector answer that
	// differs from the real status (hence every message loss), a client timeout, and a
	// buffer-length answer other than the exact length or 0 (0 is what bootstrap/server.go wires).
	// differs from exact-or-zero, and an election timeout while a live leader exists or another live
	// server is campaigning.  Other election timeouts are free (bounded by MaxTerm), crashes are bounded by MaxNodeFail.
	// false: the spec's unrestricted either/with (needed for graph equality with TLC).
	Budgeted bool
	// DevKinds restricts which kinds of deviation the budgeted environment offers (nil = all):
	// "fd" (wrong failure-detector answer / message loss), "client-timeout", "election" (spurious
	// election timeout), "netlen".  A narrower menu reaches deeper within the same budget.
	DevKinds []string
}

func (c *Config) dev(kind string) bool {
	if c.DevKinds == nil {
		return true
	}
	for _, k := range c.DevKinds {
		if k == kind {
			return true
		}
	}
	return false
}

// Req is one client request of a scripted workload.
type Req struct {
	Type  string `json:"type"` // "put" | "get"
	Key   string `json:"key"`
	Value string `json:"value,omitempty"`
}

func (r Req) TLA() tla.Value {
	if r.Type == "put" {
		return rec("type", str("put"), "key", str(r.Key), "value", str(r.Value))
	}
	return rec("type", str("get"), "key", str(r.Key))
}

func str(s string) tla.Value { return tla.MakeString(s) }
func num(i int) tla.Value    { return tla.MakeNumber(int32(i)) }

var (
	kQueue   = str("queue")
	kEnabled = str("enabled")
)

func rec(kv ...any) tla.Value {
	var f []tla.RecordField
	for i := 0; i < len(kv); i += 2 {
		f = append(f, tla.RecordField{Key: str(kv[i].(string)), Value: kv[i+1].(tla.Value)})
	}
	return tla.MakeRecord(f)
}

func netRec(q, en tla.Value) tla.Value { return rec("queue", q, "enabled", en) }

// --- queue representation -------------------------------------------------------------------
// bag mode: TLA+ bag (function msg -> count, empty = <<>>).
// FIFO mode: a tuple of messages kept grouped by msource (stable), so that two arrival orders
// that differ only in the interleaving of different senders are the same state; a read may take
// the first message of any sender.

func fifoHeads(q tla.Value) (idx []int, msgs []tla.Value) {
	seen := map[string]bool{}
	it := q.AsTuple().Iterator()
	for !it.Done() {
		i, m := it.Next()
		src := ss.Canon(m.ApplyFunction(str("msource")))
		if !seen[src] {
			seen[src] = true
			idx = append(idx, i)
			msgs = append(msgs, m)
		}
	}
	return
}

func fifoRemove(q tla.Value, i int) tla.Value {
	var out []tla.Value
	it := q.AsTuple().Iterator()
	for !it.Done() {
		j, m := it.Next()
		if j != i {
			out = append(out, m)
		}
	}
	return tla.MakeTuple(out...)
}

func fifoAdd(q, m tla.Value) tla.Value {
	var all []tla.Value
	it := q.AsTuple().Iterator()
	for !it.Done() {
		_, e := it.Next()
		all = append(all, e)
	}
	all = append(all, m)
	src := func(v tla.Value) string { return ss.Canon(v.ApplyFunction(str("msource"))) }
	sort.SliceStable(all, func(i, j int) bool { return src(all[i]) < src(all[j]) })
	return tla.MakeTuple(all...)
}

func (c *Config) qLen(q tla.Value) int {
	if c.FIFO {
		return q.AsTuple().Len()
	}
	return ss.BagCardinality(q)
}

// --- mapping macros -------------------------------------------------------------------------

func (c *Config) linkRead(t *ss.Txn, cur tla.Value, _ []tla.Value) (tla.Value, tla.Value, error) {
	if !cur.ApplyFunction(kEnabled).AsBool() {
		return tla.Value{}, tla.Value{}, fmt.Errorf("%w: ($variable).enabled", distsys.ErrAssertionFailed)
	}
	q := cur.ApplyFunction(kQueue)
	if c.FIFO {
		idx, msgs := fifoHeads(q)
		if len(idx) == 0 {
			return tla.Value{}, tla.Value{}, ss.ErrAbort
		}
		k := t.Choose(len(idx), "ReliableFIFOLink.readMsg")
		return netRec(fifoRemove(q, idx[k]), cur.ApplyFunction(kEnabled)), msgs[k], nil
	}
	el := ss.BagElems(q)
	if len(el) == 0 {
		return tla.Value{}, tla.Value{}, ss.ErrAbort
	}
	m := el[t.Choose(len(el), "ReliableFIFOLink.readMsg")]
	return netRec(ss.BagRemove(q, m), cur.ApplyFunction(kEnabled)), m, nil
}

func (c *Config) linkWrite(t *ss.Txn, cur tla.Value, _ []tla.Value, v tla.Value) (tla.Value, error) {
	if !cur.ApplyFunction(kEnabled).AsBool() {
		return tla.Value{}, ss.ErrAbort
	}
	q := cur.ApplyFunction(kQueue)
	if c.qLen(q) >= c.BufferSize {
		return tla.Value{}, ss.ErrAbort
	}
	if c.FIFO {
		return netRec(fifoAdd(q, v), cur.ApplyFunction(kEnabled)), nil
	}
	return netRec(ss.BagAdd(q, v), cur.ApplyFunction(kEnabled)), nil
}

func (c *Config) lenRead(t *ss.Txn, cur tla.Value, _ []tla.Value) (tla.Value, tla.Value, error) {
	n := c.qLen(cur.ApplyFunction(kQueue))
	if c.Budgeted {
		// answers: exact (default, free), 0 (free: what the shipped wiring answers), others cost 1
		if n == 0 {
			return tla.Value{}, num(0), nil
		}
		if t.Choose(2, "NetworkBufferLength.exact-or-zero") == 0 {
			return tla.Value{}, num(n), nil
		}
		if n == 1 {
			return tla.Value{}, num(0), nil
		}
		if !c.dev("netlen") {
			return tla.Value{}, num(0), nil
		}
		return tla.Value{}, num(t.Deviate(n, "NetworkBufferLength.other")), nil // 0 (free) or 1..n-1 (cost 1)
	}
	return tla.Value{}, num(t.Choose(n+1, "NetworkBufferLength.len")), nil
}

func assertFalseWrite(t *ss.Txn, cur tla.Value, _ []tla.Value, v tla.Value) (tla.Value, error) {
	return tla.Value{}, fmt.Errorf("%w: FALSE", distsys.ErrAssertionFailed)
}

func toggleRead(t *ss.Txn, cur tla.Value, _ []tla.Value) (tla.Value, tla.Value, error) {
	return tla.Value{}, cur.ApplyFunction(kEnabled), nil
}
func toggleWrite(t *ss.Txn, cur tla.Value, _ []tla.Value, v tla.Value) (tla.Value, error) {
	return netRec(cur.ApplyFunction(kQueue), v), nil
}

func eitherBool(first bool, label string) ss.ReadFn {
	return func(t *ss.Txn, cur tla.Value, _ []tla.Value) (tla.Value, tla.Value, error) {
		if t.Choose(2, label) == 0 {
			return tla.Value{}, tla.MakeBool(first), nil
		}
		return tla.Value{}, tla.MakeBool(!first), nil
	}
}

func channelRead(t *ss.Txn, cur tla.Value, _ []tla.Value) (tla.Value, tla.Value, error) {
	if t.Choose(2, "Channel.either") == 0 {
		if cur.AsTuple().Len() == 0 {
			return tla.Value{}, tla.Value{}, ss.ErrAbort
		}
		return tla.ModuleTail(cur), tla.ModuleHead(cur), nil
	}
	if cur.AsTuple().Len() != 0 {
		return tla.Value{}, tla.Value{}, ss.ErrAbort
	}
	return tla.Value{}, tla.ModuleTRUE, nil
}
func channelWrite(t *ss.Txn, cur tla.Value, _ []tla.Value, v tla.Value) (tla.Value, error) {
	return tla.ModuleAppend(cur, v), nil
}

func (c *Config) plogWrite(t *ss.Txn, cur tla.Value, _ []tla.Value, v tla.Value) (tla.Value, error) {
	cmd := v.ApplyFunction(str("cmd")).AsNumber()
	switch cmd {
	case 2: // LogConcat
		return tla.ModuleOSymbol(cur, v.ApplyFunction(str("entries"))), nil
	case 1: // LogPop
		n := cur.AsTuple().Len() - int(v.ApplyFunction(str("cnt")).AsNumber())
		return tla.ModuleSubSeq(cur, num(1), num(n)), nil
	}
	// neither branch of the macro's if: no yield -> variable unchanged
	return cur, nil
}

// leaderTimeoutRead (budgeted mode): an election timeout is free while no live server is leader
// and no *other* live server is campaigning; a timeout that fires although a live leader exists or
// another candidate's election is in progress (spurious / duelling timeouts, possible under delay)
// is a deviation.
func (c *Config) leaderTimeoutRead(t *ss.Txn, cur tla.Value, _ []tla.Value) (tla.Value, tla.Value, error) {
	// which server is asking (server-side processes have self = k*N + srvId)
	me := (int(t.Self.AsNumber())-1)%c.NumServers + 1
	busy := false
	st, nw := t.Get("state"), t.Get("network")
	for i := 1; i <= c.NumServers; i++ {
		if !nw.ApplyFunction(num(i)).ApplyFunction(kEnabled).AsBool() {
			continue
		}
		switch st.ApplyFunction(num(i)).AsString() {
		case "leader":
			busy = true
		case "candidate":
			if i != me {
				busy = true // somebody else's election is in progress
			}
		}
	}
	if busy {
		return tla.Value{}, tla.MakeBool(c.dev("election") && t.Deviate(2, "LeaderTimeout.spurious") == 1), nil
	}
	if t.Choose(2, "LeaderTimeout.either") == 0 {
		return tla.Value{}, tla.ModuleTRUE, nil
	}
	return tla.Value{}, tla.ModuleFALSE, nil
}

// System builds the closed system.
func New(c Config) *ss.System {
	if c.BufferSize == 0 {
		c.BufferSize = 3
	}
	cfg := &c
	allStr := make([]tla.Value, len(c.AllStrings))
	for i, s := range c.AllStrings {
		allStr[i] = str(s)
	}
	consts := []distsys.MPCalContextConfigFn{
		distsys.DefineConstantValue("ExploreFail", tla.MakeBool(c.ExploreFail)),
		distsys.DefineConstantValue("Debug", tla.ModuleFALSE),
		distsys.DefineConstantValue("NumServers", num(c.NumServers)),
		distsys.DefineConstantValue("NumClients", num(c.NumClients)),
		distsys.DefineConstantValue("BufferSize", num(c.BufferSize)),
		distsys.DefineConstantValue("MaxTerm", num(c.MaxTerm)),
		distsys.DefineConstantValue("MaxCommitIndex", num(c.MaxCommitIndex)),
		distsys.DefineConstantValue("MaxNodeFail", num(c.MaxNodeFail)),
		distsys.DefineConstantValue("LogConcat", num(2)),
		distsys.DefineConstantValue("LogPop", num(1)),
		distsys.DefineConstantValue("LeaderTimeoutReset", tla.ModuleTRUE),
		distsys.DefineConstantValue("AllStrings", tla.MakeSet(allStr...)),
	}
	type mk = func(*ss.Txn) distsys.ArchetypeResource
	plainIdx := func(name string) mk {
		return func(t *ss.Txn) distsys.ArchetypeResource { return ss.Var(t, name, true, nil, nil) }
	}
	fdRead := eitherBool(false, "UnreliableFD.either")
	if c.PerfectFD {
		fdRead = nil
	} else if c.Budgeted {
		fdRead = func(t *ss.Txn, cur tla.Value, _ []tla.Value) (tla.Value, tla.Value, error) {
			if !cfg.dev("fd") || t.Deviate(2, "UnreliableFD.wrong-answer") == 0 {
				return tla.Value{}, cur, nil
			}
			return tla.Value{}, tla.MakeBool(!cur.AsBool()), nil
		}
	}
	srvRefs := map[string]mk{
		"net":        func(t *ss.Txn) distsys.ArchetypeResource { return ss.Var(t, "network", true, cfg.linkRead, cfg.linkWrite) },
		"netLen":     func(t *ss.Txn) distsys.ArchetypeResource { return ss.Var(t, "network", true, cfg.lenRead, assertFalseWrite) },
		"netEnabled": func(t *ss.Txn) distsys.ArchetypeResource { return ss.Var(t, "network", true, toggleRead, toggleWrite) },
		"fd":         func(t *ss.Txn) distsys.ArchetypeResource { return ss.Var(t, "fd", true, fdRead, nil) },
		"plog":       func(t *ss.Txn) distsys.ArchetypeResource { return ss.Var(t, "plog", true, nil, cfg.plogWrite) },
		"appendEntriesCh": func(t *ss.Txn) distsys.ArchetypeResource {
			return ss.Var(t, "appendEntriesCh", true, channelRead, channelWrite)
		},
		"becomeLeaderCh": func(t *ss.Txn) distsys.ArchetypeResource {
			return ss.Var(t, "becomeLeaderCh", true, channelRead, channelWrite)
		},
		"leaderTimeout": func(t *ss.Txn) distsys.ArchetypeResource {
			if cfg.Budgeted {
				return ss.Var(t, "leaderTimeout", false, cfg.leaderTimeoutRead, nil)
			}
			return ss.Var(t, "leaderTimeout", false, eitherBool(true, "LeaderTimeout.either"), nil)
		},
	}
	for _, n := range []string{"state", "currentTerm", "log", "commitIndex", "nextIndex", "matchIndex", "votedFor", "votesResponded", "votesGranted", "leader", "sm", "smDomain"} {
		srvRefs[n] = plainIdx(n)
	}
	sys := &ss.System{}
	N := c.NumServers
	add := func(name string, self int, arch distsys.MPCalArchetype, srv int) {
		sys.Procs = append(sys.Procs, ss.ProcDef{Name: fmt.Sprintf("%s(%d)", name, self), Self: num(self), Arch: arch, Config: consts,
			ValParams: map[string]tla.Value{"srvId": num(srv)}, RefParams: srvRefs})
	}
	for i := 1; i <= N; i++ {
		add("s0", i, gen.AServer, i)
	}
	for i := 1; i <= N; i++ {
		add("s1", N+i, gen.AServerRequestVote, i)
	}
	for i := 1; i <= N; i++ {
		add("s2", 2*N+i, gen.AServerAppendEntries, i)
	}
	for i := 1; i <= N; i++ {
		add("s3", 3*N+i, gen.AServerAdvanceCommitIndex, i)
	}
	for i := 1; i <= N; i++ {
		add("s4", 4*N+i, gen.AServerBecomeLeader, i)
	}
	// clients
	var allReqs []tla.Value
	for _, k := range c.AllStrings {
		for _, v := range c.AllStrings {
			allReqs = append(allReqs, rec("type", str("put"), "key", str(k), "value", str(v)))
		}
	}
	for _, k := range c.AllStrings {
		allReqs = append(allReqs, rec("type", str("get"), "key", str(k)))
	}
	sort.Slice(allReqs, func(i, j int) bool { return ss.Canon(allReqs[i]) < ss.Canon(allReqs[j]) })
	for k := 1; k <= c.NumClients; k++ {
		self := 6*N + k
		kk := k - 1
		reqRead := func(t *ss.Txn, cur tla.Value, _ []tla.Value) (tla.Value, tla.Value, error) {
			if cfg.Requests != nil {
				// cur = <<next index per client>>; script position is part of the global reqCh
				pos := int(cur.ApplyFunction(num(kk + 1)).AsNumber())
				if pos >= len(cfg.Requests[kk]) {
					return tla.Value{}, tla.Value{}, ss.ErrAbort
				}
				nv := tla.FunctionSubstitution(cur, []tla.FunctionSubstitutionRecord{{Keys: []tla.Value{num(kk + 1)}, Value: func(tla.Value) tla.Value { return num(pos + 1) }}})
				return nv, cfg.Requests[kk][pos].TLA(), nil
			}
			return tla.Value{}, allReqs[t.Choose(len(allReqs), "RequestsChannel.req")], nil
		}
		timeoutRead := eitherBool(true, "ClientTimeout.either")
		if c.Budgeted {
			timeoutRead = func(t *ss.Txn, cur tla.Value, _ []tla.Value) (tla.Value, tla.Value, error) {
				return tla.Value{}, tla.MakeBool(cfg.dev("client-timeout") && t.Deviate(2, "ClientTimeout.fires") == 1), nil
			}
		}
		if c.NoClientTimeout {
			timeoutRead = func(t *ss.Txn, cur tla.Value, _ []tla.Value) (tla.Value, tla.Value, error) {
				return tla.Value{}, tla.ModuleFALSE, nil
			}
		}
		sys.Procs = append(sys.Procs, ss.ProcDef{Name: fmt.Sprintf("client(%d)", self), Self: num(self), Arch: gen.AClient, Config: consts,
			RefParams: map[string]mk{
				"net":     srvRefs["net"],
				"netLen":  srvRefs["netLen"],
				"fd":      srvRefs["fd"],
				"reqCh":   func(t *ss.Txn) distsys.ArchetypeResource { return ss.Var(t, "reqCh", false, reqRead, assertFalseWrite) },
				"respCh":  func(t *ss.Txn) distsys.ArchetypeResource { return ss.Var(t, "respCh", false, nil, nil) },
				"timeout": func(t *ss.Txn) distsys.ArchetypeResource { return ss.Var(t, "timeout", false, timeoutRead, assertFalseWrite) },
			}})
	}
	if c.ExploreFail {
		for f := 1; f <= c.MaxNodeFail; f++ {
			self := 5*N + f
			sys.Procs = append(sys.Procs, ss.ProcDef{Name: fmt.Sprintf("crasher(%d)", self), Self: num(self), Arch: gen.AServerCrasher, Config: consts,
				ValParams: map[string]tla.Value{"srvId": num(f)},
				RefParams: map[string]mk{"netEnabled": srvRefs["netEnabled"], "fd": srvRefs["fd"]}})
		}
	}
	// globals
	var servers, nodes []tla.Value
	for i := 1; i <= N; i++ {
		servers = append(servers, num(i))
		nodes = append(nodes, num(i))
	}
	for k := 1; k <= c.NumClients; k++ {
		nodes = append(nodes, num(6*N+k))
	}
	srvSet, nodeSet := tla.MakeSet(servers...), tla.MakeSet(nodes...)
	fn := func(dom tla.Value, v tla.Value) tla.Value {
		return tla.MakeFunction([]tla.Value{dom}, func([]tla.Value) tla.Value { return v })
	}
	emptyQ := tla.MakeTuple()
	bl := tla.MakeTuple()
	if N == 1 {
		bl = tla.MakeTuple(tla.ModuleTRUE)
	}
	reqCh := tla.Value{}
	if c.Requests != nil {
		pos := make([]tla.Value, c.NumClients)
		for i := range pos {
			pos[i] = num(0)
		}
		reqCh = tla.MakeTuple(pos...)
	}
	g := ss.Globals{
		"network":         fn(nodeSet, netRec(emptyQ, tla.ModuleTRUE)),
		"fd":              fn(srvSet, tla.ModuleFALSE),
		"state":           fn(srvSet, str("follower")),
		"currentTerm":     fn(srvSet, num(1)),
		"commitIndex":     fn(srvSet, num(0)),
		"nextIndex":       fn(srvSet, fn(srvSet, num(1))),
		"matchIndex":      fn(srvSet, fn(srvSet, num(0))),
		"log":             fn(srvSet, tla.MakeTuple()),
		"plog":            fn(srvSet, tla.MakeTuple()),
		"votedFor":        fn(srvSet, num(0)),
		"votesResponded":  fn(srvSet, tla.MakeSet()),
		"votesGranted":    fn(srvSet, tla.MakeSet()),
		"leader":          fn(srvSet, num(0)),
		"sm":              fn(srvSet, tla.MakeRecord(nil)),
		"smDomain":        fn(srvSet, tla.MakeSet()),
		"leaderTimeout":   tla.ModuleTRUE,
		"appendEntriesCh": fn(srvSet, tla.MakeTuple()),
		"becomeLeaderCh":  fn(srvSet, bl),
		"reqCh":           reqCh,
		"respCh":          tla.Value{},
		"timeout":         tla.ModuleFALSE,
	}
	sys.InitState(g)
	return sys
}

// Constraint is MCConstraint of the spec.
func (c Config) Constraint(s *ss.State) bool {
	for i := 1; i <= c.NumServers; i++ {
		if int(s.Globals["currentTerm"].ApplyFunction(num(i)).AsNumber()) >= c.MaxTerm {
			return false
		}
		if int(s.Globals["commitIndex"].ApplyFunction(num(i)).AsNumber()) >= c.MaxCommitIndex {
			return false
		}
	}
	down := 0
	for i := 1; i <= c.NumServers; i++ {
		if !s.Globals["network"].ApplyFunction(num(i)).ApplyFunction(kEnabled).AsBool() {
			down++
		}
	}
	return down <= c.MaxNodeFail
}

package raftkvs

import (
	"fmt"
	"strings"

	"github.com/DistCompiler/pgo/distsys/trace"
	"github.com/anishathalye/porcupine"
	ss "verif/mc/specstep"
)

// ObserveHistory records the client-visible history in the observer component:
//   i:<client>:<idx>:<type>:<key>:<value>   when AClient takes a request from reqCh (invocation)
//   r:<client>:<idx>:<ok>:<value>           when AClient writes the response to respCh
//   s:<client>:<idx>                        each time AClient transmits the request to a server
func ObserveHistory(pre *ss.State, p int, ev *trace.Event, post *ss.State) string {
	obs := pre.Obs
	switch pre.PC(p) {
	case "AClient.clientLoop":
		req := post.Locals[p]["AClient.req"]
		val := ""
		if req.ApplyFunction(str("type")).AsString() == "put" {
			val = req.ApplyFunction(str("value")).AsString()
		}
		obs += fmt.Sprintf("i:%d:%d:%s:%s:%s;", p, post.Locals[p]["AClient.reqIdx"].AsNumber(), req.ApplyFunction(str("type")).AsString(), req.ApplyFunction(str("key")).AsString(), val)
	case "AClient.sndReq":
		// every (re)transmission of the current request is recorded: a retransmitted put is what the
		// known duplicate-application finding is about (see CheckHistory)
		if ev != nil {
			for _, el := range ev.Elements {
				if w, ok := el.(trace.WriteElement); ok && w.Name == "net" {
					obs += fmt.Sprintf("s:%d:%d;", p, post.Locals[p]["AClient.reqIdx"].AsNumber())
				}
			}
		}
	case "AClient.rcvResp":
		if ev == nil {
			return obs
		}
		for _, el := range ev.Elements {
			if w, ok := el.(trace.WriteElement); ok && w.Name == "respCh" {
				mr := w.Value.ApplyFunction(str("mresponse"))
				okv := mr.ApplyFunction(str("ok")).AsBool()
				val := ""
				if okv {
					val = mr.ApplyFunction(str("value")).AsString()
				}
				obs += fmt.Sprintf("r:%d:%d:%t:%s;", p, mr.ApplyFunction(str("idx")).AsNumber(), okv, val)
			}
		}
	}
	return obs
}

type kvIn struct {
	put      bool
	key, val string
}
type kvOut struct {
	known bool // false: the operation never returned (any result, and it may or may not have taken effect)
	ok    bool
	val   string
}

var kvModel = porcupine.Model{
	Partition: func(h []porcupine.Operation) [][]porcupine.Operation {
		m := map[string][]porcupine.Operation{}
		var keys []string
		for _, o := range h {
			k := o.Input.(kvIn).key
			if _, ok := m[k]; !ok {
				keys = append(keys, k)
			}
			m[k] = append(m[k], o)
		}
		var out [][]porcupine.Operation
		for _, k := range keys {
			out = append(out, m[k])
		}
		return out
	},
	Init: func() interface{} { return "\x00" }, // "\x00" = key absent
	Step: func(state, input, output interface{}) (bool, interface{}) {
		in, out, st := input.(kvIn), output.(kvOut), state.(string)
		if in.put {
			return true, in.val
		}
		if !out.known {
			return true, st
		}
		if st == "\x00" {
			return !out.ok, st
		}
		return out.ok && out.val == st, st
	},
	DescribeOperation: func(input, output interface{}) string {
		in, out := input.(kvIn), output.(kvOut)
		if in.put {
			return fmt.Sprintf("put(%s,%s)", in.key, in.val)
		}
		return fmt.Sprintf("get(%s)->%v/%s", in.key, out.ok, out.val)
	},
}

// CheckHistory tells whether the history in obs is linearizable w.r.t. a single key-value map.
// Operations without a response are pending: they may take effect at any later time or never
// (a pending put is given an infinite return time; a put that never takes effect is covered by
// also checking the history without it).
//
// Result: ok; or (false, "retried-put-applied-twice", ...) when the history is not linearizable
// but becomes linearizable once every *retransmitted* put is allowed to take effect a second
// time at some point after its retransmission (the recorded known finding: the server appends
// every client request it receives, without de-duplicating retries); or (false, "", ...) for any
// other anomaly.
func CheckHistory(obs string) (ok bool, class string, why string) {
	ops, sends, bad := parseHistory(obs)
	if bad != "" {
		return false, "", bad
	}
	if linearizable(ops, nil) {
		return true, "", ""
	}
	var ghosts []porcupine.Operation
	for i := range ops {
		in := ops[i].Input.(kvIn)
		if !in.put {
			continue
		}
		for k, t := range sends[i] {
			if k == 0 {
				continue // the first transmission is the operation itself
			}
			ghosts = append(ghosts, porcupine.Operation{ClientId: ops[i].ClientId, Input: in, Call: t, Output: kvOut{}, Return: 1 << 40})
		}
	}
	if len(ghosts) > 0 && len(ghosts) <= 6 {
		for mask := 1; mask < 1<<len(ghosts); mask++ {
			var g []porcupine.Operation
			for b := range ghosts {
				if mask&(1<<b) != 0 {
					g = append(g, ghosts[b])
				}
			}
			if linearizable(ops, g) {
				return false, "retried-put-applied-twice", "a put that the client retransmitted took effect a second time after a later acknowledged put: " + obs
			}
		}
	}
	return false, "", "no linearization of the acknowledged operations: " + obs
}

func parseHistory(obs string) (ops []porcupine.Operation, sends map[int][]int64, bad string) {
	type opk struct{ c, idx int }
	pos := map[opk]int{}
	sends = map[int][]int64{}
	t := int64(0)
	for _, e := range strings.Split(strings.TrimSuffix(obs, ";"), ";") {
		if e == "" {
			continue
		}
		t++
		f := strings.Split(e, ":")
		var c, idx int
		fmt.Sscan(f[1], &c)
		fmt.Sscan(f[2], &idx)
		switch f[0] {
		case "i":
			pos[opk{c, idx}] = len(ops)
			ops = append(ops, porcupine.Operation{ClientId: c, Input: kvIn{put: f[3] == "put", key: f[4], val: f[5]}, Call: t, Output: kvOut{}, Return: -1})
		case "s":
			if i, ok := pos[opk{c, idx}]; ok {
				sends[i] = append(sends[i], t)
			}
		case "r":
			i, ok := pos[opk{c, idx}]
			if !ok || ops[i].Return != -1 {
				return nil, nil, "response without a matching pending invocation: " + e
			}
			ops[i].Return = t
			ops[i].Output = kvOut{known: true, ok: f[3] == "true", val: f[4]}
		}
	}
	return ops, sends, ""
}

func linearizable(ops []porcupine.Operation, extra []porcupine.Operation) bool {
	var pendingPuts []int
	var base []porcupine.Operation
	for i := range ops {
		if ops[i].Return == -1 {
			if ops[i].Input.(kvIn).put {
				pendingPuts = append(pendingPuts, i)
			}
			continue // pending gets constrain nothing
		}
		base = append(base, ops[i])
	}
	base = append(base, extra...)
	// every subset of pending puts may have taken effect
	for mask := 0; mask < 1<<len(pendingPuts); mask++ {
		h := append([]porcupine.Operation{}, base...)
		for b, i := range pendingPuts {
			if mask&(1<<b) != 0 {
				o := ops[i]
				o.Return = 1 << 40
				h = append(h, o)
			}
		}
		if porcupine.CheckOperations(kvModel, h) {
			return true
		}
	}
	return false
}

package raftkvs

import (
	"fmt"
	"strings"

	"github.com/DistCompiler/pgo/distsys/trace"
	"github.com/anishathalye/porcupine"
	ss "verif/mc/specstep"
)

// ObserveHistory records the client-visible history in the observer component:
//   i:<client>:<idx>:<type>:<key>:<value>   when AClient takes a request from reqCh (invocation)
//   r:<client>:<idx>:<ok>:<value>           when AClient writes the response to respCh
func ObserveHistory(pre *ss.State, p int, ev *trace.Event, post *ss.State) string {
	obs := pre.Obs
	switch pre.PC(p) {
	case "AClient.clientLoop":
		req := post.Locals[p]["AClient.req"]
		val := ""
		if req.ApplyFunction(str("type")).AsString() == "put" {
			val = req.ApplyFunction(str("value")).AsString()
		}
		obs += fmt.Sprintf("i:%d:%d:%s:%s:%s;", p, post.Locals[p]["AClient.reqIdx"].AsNumber(), req.ApplyFunction(str("type")).AsString(), req.ApplyFunction(str("key")).AsString(), val)
	case "AClient.rcvResp":
		if ev == nil {
			return obs
		}
		for _, el := range ev.Elements {
			if w, ok := el.(trace.WriteElement); ok && w.Name == "respCh" {
				mr := w.Value.ApplyFunction(str("mresponse"))
				okv := mr.ApplyFunction(str("ok")).AsBool()
				val := ""
				if okv {
					val = mr.ApplyFunction(str("value")).AsString()
				}
				obs += fmt.Sprintf("r:%d:%d:%t:%s;", p, mr.ApplyFunction(str("idx")).AsNumber(), okv, val)
			}
		}
	}
	return obs
}

type kvIn struct {
	put      bool
	key, val string
}
type kvOut struct {
	known bool // false: the operation never returned (any result, and it may or may not have taken effect)
	ok    bool
	val   string
}

var kvModel = porcupine.Model{
	Partition: func(h []porcupine.Operation) [][]porcupine.Operation {
		m := map[string][]porcupine.Operation{}
		var keys []string
		for _, o := range h {
			k := o.Input.(kvIn).key
			if _, ok := m[k]; !ok {
				keys = append(keys, k)
			}
			m[k] = append(m[k], o)
		}
		var out [][]porcupine.Operation
		for _, k := range keys {
			out = append(out, m[k])
		}
		return out
	},
	Init: func() interface{} { return "\x00" }, // "\x00" = key absent
	Step: func(state, input, output interface{}) (bool, interface{}) {
		in, out, st := input.(kvIn), output.(kvOut), state.(string)
		if in.put {
			return true, in.val
		}
		if !out.known {
			return true, st
		}
		if st == "\x00" {
			return !out.ok, st
		}
		return out.ok && out.val == st, st
	},
	DescribeOperation: func(input, output interface{}) string {
		in, out := input.(kvIn), output.(kvOut)
		if in.put {
			return fmt.Sprintf("put(%s,%s)", in.key, in.val)
		}
		return fmt.Sprintf("get(%s)->%v/%s", in.key, out.ok, out.val)
	},
}

// CheckHistory tells whether the history in obs is linearizable w.r.t. a single key-value map.
// Operations without a response are pending: they may take effect at any later time or never
// (a pending put is given an infinite return time; a put that never takes effect is covered by
// also checking the history without it).
func CheckHistory(obs string) (bool, string) {
	type opk struct{ c, idx int }
	var ops []porcupine.Operation
	pos := map[opk]int{}
	t := int64(0)
	for _, e := range strings.Split(strings.TrimSuffix(obs, ";"), ";") {
		if e == "" {
			continue
		}
		t++
		f := strings.Split(e, ":")
		var c, idx int
		fmt.Sscan(f[1], &c)
		fmt.Sscan(f[2], &idx)
		if f[0] == "i" {
			pos[opk{c, idx}] = len(ops)
			ops = append(ops, porcupine.Operation{ClientId: c, Input: kvIn{put: f[3] == "put", key: f[4], val: f[5]}, Call: t, Output: kvOut{}, Return: -1})
		} else {
			i, ok := pos[opk{c, idx}]
			if !ok || ops[i].Return != -1 {
				return false, "response without a matching pending invocation: " + e
			}
			ops[i].Return = t
			ops[i].Output = kvOut{known: true, ok: f[3] == "true", val: f[4]}
		}
	}
	var pendingPuts []int
	var base []porcupine.Operation
	for i := range ops {
		if ops[i].Return == -1 {
			if ops[i].Input.(kvIn).put {
				pendingPuts = append(pendingPuts, i)
			}
			continue // pending gets constrain nothing
		}
		base = append(base, ops[i])
	}
	// every subset of pending puts may have taken effect
	for mask := 0; mask < 1<<len(pendingPuts); mask++ {
		h := append([]porcupine.Operation{}, base...)
		for b, i := range pendingPuts {
			if mask&(1<<b) != 0 {
				o := ops[i]
				o.Return = 1 << 40
				h = append(h, o)
			}
		}
		if porcupine.CheckOperations(kvModel, h) {
			return true, ""
		}
	}
	return false, "no linearization of the acknowledged operations: " + obs
}

// Package locksvc closes systems/locksvc exactly as the spec's instance declarations do:
//
//	variables network = [id \in NodeSet |-> <<>>], hasLock = [id \in NodeSet |-> FALSE];
//	fair process (Server \in ServerSet) == instance AServer(ref network[_]) mapping network[_] via ReliableLink;
//	fair process (client \in ClientSet) == instance AClient(ref network[_], ref hasLock[_]) mapping network[_] via ReliableLink;
package locksvc

import (
	"fmt"
	"strings"

	"github.com/DistCompiler/pgo/distsys"
	"github.com/DistCompiler/pgo/distsys/tla"
	"github.com/DistCompiler/pgo/distsys/trace"
	gen "github.com/DistCompiler/pgo/systems/locksvc"
	ss "verif/mc/specstep"
)

// ReliableLink: read { await BagCardinality($variable) > 0; with (readMsg \in BagToSet($variable)) {
// $variable := $variable (-) SetToBag({readMsg}); yield readMsg; } }  write { yield $variable (+) SetToBag({$value}); }
func linkRead(t *ss.Txn, cur tla.Value, _ []tla.Value) (tla.Value, tla.Value, error) {
	el := ss.BagElems(cur)
	if len(el) == 0 {
		return tla.Value{}, tla.Value{}, ss.ErrAbort
	}
	m := el[t.Choose(len(el), "ReliableLink.readMsg")]
	return ss.BagRemove(cur, m), m, nil
}

func linkWrite(t *ss.Txn, cur tla.Value, _ []tla.Value, v tla.Value) (tla.Value, error) {
	return ss.BagAdd(cur, v), nil
}

// New builds the closed system for NumClients clients.
func New(numClients int) *ss.System {
	consts := []distsys.MPCalContextConfigFn{distsys.DefineConstantValue("NumClients", tla.MakeNumber(int32(numClients)))}
	network := func(t *ss.Txn) distsys.ArchetypeResource { return ss.Var(t, "network", true, linkRead, linkWrite) }
	hasLock := func(t *ss.Txn) distsys.ArchetypeResource { return ss.Var(t, "hasLock", true, nil, nil) }
	sys := &ss.System{}
	sys.Procs = append(sys.Procs, ss.ProcDef{Name: "Server(0)", Self: tla.MakeNumber(0), Arch: gen.AServer, Config: consts,
		RefParams: map[string]func(*ss.Txn) distsys.ArchetypeResource{"network": network}})
	for c := 1; c <= numClients; c++ {
		sys.Procs = append(sys.Procs, ss.ProcDef{Name: fmt.Sprintf("client(%d)", c), Self: tla.MakeNumber(int32(c)), Arch: gen.AClient, Config: consts,
			RefParams: map[string]func(*ss.Txn) distsys.ArchetypeResource{"network": network, "hasLock": hasLock}})
	}
	var nodes []tla.Value
	for i := 0; i <= numClients; i++ {
		nodes = append(nodes, tla.MakeNumber(int32(i)))
	}
	nodeSet := tla.MakeSet(nodes...)
	g := ss.Globals{
		"network": tla.MakeFunction([]tla.Value{nodeSet}, func([]tla.Value) tla.Value { return tla.MakeTuple() }),
		"hasLock": tla.MakeFunction([]tla.Value{nodeSet}, func([]tla.Value) tla.Value { return tla.ModuleFALSE }),
	}
	sys.InitState(g)
	return sys
}

// Observer: the order in which lock requests reached the server (were received by serverReceive)
// and the order of grants (hasLock[c] := TRUE commits), as "R:1,2|G:1".
func Observe(pre *ss.State, p int, ev *trace.Event, post *ss.State) string {
	obs := pre.Obs
	if obs == "" {
		obs = "R:|G:"
	}
	parts := strings.SplitN(obs, "|", 2)
	r, g := parts[0], parts[1]
	if p == 0 && pre.PC(0) == "AServer.serverReceive" {
		m := post.Locals[0]["AServer.msg"]
		if m.ApplyFunction(tla.MakeString("type")).Equal(tla.MakeNumber(1)) {
			r += fmt.Sprintf("%d,", m.ApplyFunction(tla.MakeString("from")).AsNumber())
		}
	}
	if p > 0 && pre.PC(p) == "AClient.criticalSection" {
		g += fmt.Sprintf("%d,", p)
	}
	return r + "|" + g
}

// Holders lists the clients whose hasLock is TRUE.
func Holders(s *ss.State) []int {
	var h []int
	it := s.Globals["hasLock"].AsFunction().Iterator()
	for !it.Done() {
		k, v, _ := it.Next()
		if v.AsBool() {
			h = append(h, int(k.AsNumber()))
		}
	}
	return h
}

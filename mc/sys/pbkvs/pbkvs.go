// Package pbkvs closes systems/pbkvs as the spec's instance declarations do (ReliableFIFOLink,
// FileSystem, PerfectFD, NetworkToggle, LeaderElection *as specified* - not the Go stub -,
// NetworkBufferLength, Channel).
package pbkvs

import (
	"fmt"
	"strings"

	"github.com/DistCompiler/pgo/distsys"
	"github.com/DistCompiler/pgo/distsys/tla"
	"github.com/DistCompiler/pgo/distsys/trace"
	gen "github.com/DistCompiler/pgo/systems/pbkvs"
	"github.com/anishathalye/porcupine"
	ss "verif/mc/specstep"
)

type Req struct {
	Type  string `json:"type"` // put | get
	Key   string `json:"key"`
	Value string `json:"value,omitempty"`
}

type Config struct {
	NumReplicas, NumClients int
	ExploreFail             bool
	Input                   []Req // clientInput (shared channel); nil = the spec's three requests
}

func str(s string) tla.Value { return tla.MakeString(s) }
func num(i int) tla.Value    { return tla.MakeNumber(int32(i)) }
func rec(kv ...any) tla.Value {
	var f []tla.RecordField
	for i := 0; i < len(kv); i += 2 {
		f = append(f, tla.RecordField{Key: str(kv[i].(string)), Value: kv[i+1].(tla.Value)})
	}
	return tla.MakeRecord(f)
}

var kQ, kE = str("queue"), str("enabled")

func netRec(q, e tla.Value) tla.Value { return rec("queue", q, "enabled", e) }

func linkRead(t *ss.Txn, cur tla.Value, _ []tla.Value) (tla.Value, tla.Value, error) {
	if !cur.ApplyFunction(kE).AsBool() {
		return tla.Value{}, tla.Value{}, fmt.Errorf("%w: ($variable).enabled", distsys.ErrAssertionFailed)
	}
	q := cur.ApplyFunction(kQ)
	if q.AsTuple().Len() == 0 {
		return tla.Value{}, tla.Value{}, ss.ErrAbort
	}
	return netRec(tla.ModuleTail(q), cur.ApplyFunction(kE)), tla.ModuleHead(q), nil
}
func linkWrite(t *ss.Txn, cur tla.Value, _ []tla.Value, v tla.Value) (tla.Value, error) {
	if !cur.ApplyFunction(kE).AsBool() {
		return tla.Value{}, ss.ErrAbort
	}
	return netRec(tla.ModuleAppend(cur.ApplyFunction(kQ), v), cur.ApplyFunction(kE)), nil
}
func toggleRead(t *ss.Txn, cur tla.Value, _ []tla.Value) (tla.Value, tla.Value, error) {
	return tla.Value{}, cur.ApplyFunction(kE), nil
}
func toggleWrite(t *ss.Txn, cur tla.Value, _ []tla.Value, v tla.Value) (tla.Value, error) {
	return netRec(cur.ApplyFunction(kQ), v), nil
}
func lenRead(t *ss.Txn, cur tla.Value, _ []tla.Value) (tla.Value, tla.Value, error) {
	return tla.Value{}, num(cur.ApplyFunction(kQ).AsTuple().Len()), nil
}
func assertFalseWrite(t *ss.Txn, cur tla.Value, _ []tla.Value, v tla.Value) (tla.Value, error) {
	return tla.Value{}, fmt.Errorf("%w: FALSE", distsys.ErrAssertionFailed)
}
func leaderRead(t *ss.Txn, cur tla.Value, _ []tla.Value) (tla.Value, tla.Value, error) {
	el := ss.SortedSet(cur)
	if len(el) == 0 {
		return tla.Value{}, num(0), nil
	}
	min := el[0]
	for _, e := range el {
		if e.AsNumber() < min.AsNumber() {
			min = e
		}
	}
	return tla.Value{}, min, nil
}
func leaderWrite(t *ss.Txn, cur tla.Value, _ []tla.Value, v tla.Value) (tla.Value, error) {
	var keep []tla.Value
	for _, e := range ss.SortedSet(cur) {
		if !e.Equal(v) {
			keep = append(keep, e)
		}
	}
	return tla.MakeSet(keep...), nil
}
func chanRead(t *ss.Txn, cur tla.Value, _ []tla.Value) (tla.Value, tla.Value, error) {
	if cur.AsTuple().Len() == 0 {
		return tla.Value{}, tla.Value{}, ss.ErrAbort
	}
	return tla.ModuleTail(cur), tla.ModuleHead(cur), nil
}
func chanWrite(t *ss.Txn, cur tla.Value, _ []tla.Value, v tla.Value) (tla.Value, error) {
	return tla.ModuleAppend(cur, v), nil
}

func New(c Config) *ss.System {
	consts := []distsys.MPCalContextConfigFn{
		distsys.DefineConstantValue("NUM_REPLICAS", num(c.NumReplicas)),
		distsys.DefineConstantValue("NUM_CLIENTS", num(c.NumClients)),
		distsys.DefineConstantValue("EXPLORE_FAIL", tla.MakeBool(c.ExploreFail)),
		distsys.DefineConstantValue("DEBUG", tla.ModuleFALSE),
	}
	type mk = func(*ss.Txn) distsys.ArchetypeResource
	net := func(t *ss.Txn) distsys.ArchetypeResource { return ss.Var(t, "network", true, linkRead, linkWrite) }
	netLen := func(t *ss.Txn) distsys.ArchetypeResource {
		return ss.Var(t, "network", true, lenRead, assertFalseWrite)
	}
	netEn := func(t *ss.Txn) distsys.ArchetypeResource { return ss.Var(t, "network", true, toggleRead, toggleWrite) }
	fd := func(t *ss.Txn) distsys.ArchetypeResource { return ss.Var(t, "fd", true, nil, nil) }
	fs := func(t *ss.Txn) distsys.ArchetypeResource { return ss.Var(t, "fs", true, nil, nil) }
	primary := func(t *ss.Txn) distsys.ArchetypeResource { return ss.Var(t, "primary", false, leaderRead, leaderWrite) }
	input := func(t *ss.Txn) distsys.ArchetypeResource { return ss.Var(t, "clientInput", false, chanRead, chanWrite) }
	output := func(t *ss.Txn) distsys.ArchetypeResource { return ss.Var(t, "clientOutput", false, nil, nil) }
	sys := &ss.System{}
	for r := 1; r <= c.NumReplicas; r++ {
		sys.Procs = append(sys.Procs, ss.ProcDef{Name: fmt.Sprintf("Replica(%d)", r), Self: num(r), Arch: gen.AReplica, Config: consts,
			RefParams: map[string]mk{"net": net, "fs": fs, "fd": fd, "netEnabled": netEn, "primary": primary, "netLen": netLen}})
	}
	for k := 1; k <= c.NumClients; k++ {
		sys.Procs = append(sys.Procs, ss.ProcDef{Name: fmt.Sprintf("Client(%d)", c.NumReplicas+k), Self: num(c.NumReplicas + k), Arch: gen.AClient, Config: consts,
			RefParams: map[string]mk{"net": net, "fd": fd, "primary": primary, "netLen": netLen, "input": input, "output": output}})
	}
	var reps []tla.Value
	for r := 1; r <= c.NumReplicas; r++ {
		reps = append(reps, num(r))
	}
	repSet := tla.MakeSet(reps...)
	var nodes []tla.Value
	for n := 1; n <= c.NumReplicas+c.NumClients; n++ {
		nodes = append(nodes, num(n))
	}
	network := tla.MakeFunction([]tla.Value{tla.MakeSet(nodes...), tla.MakeSet(num(1), num(2))}, func([]tla.Value) tla.Value {
		return netRec(tla.MakeTuple(), tla.ModuleTRUE)
	})
	in := c.Input
	if in == nil {
		in = []Req{{"put", "KEY1", "VALUE1"}, {"put", "KEY1", "VALUE2"}, {"get", "KEY1", ""}}
	}
	var inV []tla.Value
	for _, r := range in {
		if r.Type == "put" {
			inV = append(inV, rec("typ", num(3), "body", rec("key", str(r.Key), "value", str(r.Value))))
		} else {
			inV = append(inV, rec("typ", num(1), "body", rec("key", str(r.Key))))
		}
	}
	g := ss.Globals{
		"network": network,
		"fd":      tla.MakeFunction([]tla.Value{repSet}, func([]tla.Value) tla.Value { return tla.ModuleFALSE }),
		"fs": tla.MakeFunction([]tla.Value{repSet}, func([]tla.Value) tla.Value {
			return tla.MakeFunction([]tla.Value{tla.MakeSet(str("KEY1"))}, func([]tla.Value) tla.Value { return str("") })
		}),
		"primary":      repSet,
		"clientInput":  tla.MakeTuple(inV...),
		"clientOutput": tla.Value{},
	}
	sys.InitState(g)
	return sys
}

func alive(s *ss.State, r int) bool {
	pc := s.PC(r - 1)
	return pc != "AReplica.failLabel" && pc != "AReplica.Done"
}

// ConsistencyOK of the spec.
func (c Config) ConsistencyOK(s *ss.State) (string, string) {
	prim := 0
	for r := 1; r <= c.NumReplicas; r++ {
		if alive(s, r) {
			prim = r
			break
		}
	}
	if prim == 0 || s.PC(prim-1) != "AReplica.sndResp" {
		return "", ""
	}
	pv := ss.Canon(s.Globals["fs"].ApplyFunction(num(prim)))
	for r := 1; r <= c.NumReplicas; r++ {
		if alive(s, r) && ss.Canon(s.Globals["fs"].ApplyFunction(num(r))) != pv {
			return "ConsistencyOK", fmt.Sprintf("primary %d is about to answer with store %s but live replica %d holds %s", prim, pv, r, ss.Canon(s.Globals["fs"].ApplyFunction(num(r))))
		}
	}
	return "", ""
}

// VersionNumberCnst of the spec.
func (c Config) Constraint(s *ss.State) bool {
	for r := 1; r <= c.NumReplicas; r++ {
		if s.Locals[r-1]["AReplica.lastPutBody"].ApplyFunction(str("versionNumber")).AsNumber() >= 5 {
			return false
		}
	}
	return true
}

// ObserveHistory: i:<client>:<idx>:<type>:<key>:<value>; / r:<client>:<idx>:<content>;
func ObserveHistory(pre *ss.State, p int, ev *trace.Event, post *ss.State) string {
	obs := pre.Obs
	switch pre.PC(p) {
	case "AClient.clientLoop":
		m := post.Locals[p]["AClient.msg"]
		typ, val := "get", ""
		if m.ApplyFunction(str("typ")).AsNumber() == 3 {
			typ, val = "put", m.ApplyFunction(str("body")).ApplyFunction(str("value")).AsString()
		}
		obs += fmt.Sprintf("i:%d:%d:%s:%s:%s;", p, post.Locals[p]["AClient.idx"].AsNumber(), typ, m.ApplyFunction(str("body")).ApplyFunction(str("key")).AsString(), val)
	case "AClient.sndReq":
		// every (re)transmission of the current request is recorded: a retransmitted put is what the
		// known duplicate-application finding is about (see CheckHistory)
		if ev != nil {
			for _, el := range ev.Elements {
				if w, ok := el.(trace.WriteElement); ok && w.Name == "net" {
					obs += fmt.Sprintf("s:%d:%d;", p, pre.Locals[p]["AClient.idx"].AsNumber())
				}
			}
		}
	case "AClient.rcvResp":
		if ev == nil {
			return obs
		}
		for _, el := range ev.Elements {
			if w, ok := el.(trace.WriteElement); ok && w.Name == "output" {
				obs += fmt.Sprintf("r:%d:%d:%s;", p, pre.Locals[p]["AClient.idx"].AsNumber(), w.Value.AsString())
			}
		}
	}
	return obs
}

type kvIn struct {
	put      bool
	key, val string
}

var kvModel = porcupine.Model{
	Init: func() interface{} { return "" },
	Step: func(state, input, output interface{}) (bool, interface{}) {
		in := input.(kvIn)
		if in.put {
			return true, in.val
		}
		out, known := output.(string)
		if !known {
			return true, state
		}
		return out == state.(string), state
	},
}

// CheckHistory: linearizability of the acknowledged operations w.r.t. one map (one key: KEY1,
// initial value ""); pending puts may or may not have taken effect.
//
// Result: ok; or (false, "retried-put-applied-twice", ...) when the history is not linearizable but
// becomes linearizable once every *retransmitted* put is allowed to take effect a second time at
// some point after its retransmission (the recorded known finding: a replica that becomes primary
// executes a re-sent PUT again, there is no per-client request table); or (false, "", ...) for any
// other anomaly.
func CheckHistory(obs string) (bool, string, string) {
	type opk struct{ c, idx int }
	var ops []porcupine.Operation
	pos := map[opk]int{}
	sends := map[int][]int64{}
	t := int64(0)
	for _, e := range strings.Split(strings.TrimSuffix(obs, ";"), ";") {
		if e == "" {
			continue
		}
		t++
		f := strings.SplitN(e, ":", 6)
		var c, idx int
		fmt.Sscan(f[1], &c)
		fmt.Sscan(f[2], &idx)
		switch f[0] {
		case "i":
			pos[opk{c, idx}] = len(ops)
			ops = append(ops, porcupine.Operation{ClientId: c, Input: kvIn{f[3] == "put", f[4], f[5]}, Call: t, Output: nil, Return: -1})
		case "s":
			if i, ok := pos[opk{c, idx}]; ok {
				sends[i] = append(sends[i], t)
			}
		default:
			i, ok := pos[opk{c, idx}]
			if !ok || ops[i].Return != -1 {
				return false, "", "response without a matching pending invocation: " + e
			}
			ops[i].Return = t
			ops[i].Output = strings.Join(f[3:], ":")
		}
	}
	var pend []int
	var base []porcupine.Operation
	for i := range ops {
		if ops[i].Return == -1 {
			if ops[i].Input.(kvIn).put {
				pend = append(pend, i)
			}
			continue
		}
		base = append(base, ops[i])
	}
	lin := func(extra []porcupine.Operation) bool {
		for mask := 0; mask < 1<<len(pend); mask++ {
			h := append([]porcupine.Operation{}, base...)
			for b, i := range pend {
				if mask&(1<<b) != 0 {
					o := ops[i]
					o.Return = 1 << 40
					h = append(h, o)
				}
			}
			h = append(h, extra...)
			if porcupine.CheckOperations(kvModel, h) {
				return true
			}
		}
		return false
	}
	if lin(nil) {
		return true, "", ""
	}
	var ghosts []porcupine.Operation
	for i := range ops {
		in := ops[i].Input.(kvIn)
		if !in.put {
			continue
		}
		for k, st := range sends[i] {
			if k == 0 {
				continue // the first transmission is the operation itself
			}
			ghosts = append(ghosts, porcupine.Operation{ClientId: 1000 + len(ghosts), Input: in, Call: st, Output: nil, Return: 1 << 40})
		}
	}
	if len(ghosts) > 0 && len(ghosts) <= 6 {
		for mask := 1; mask < 1<<len(ghosts); mask++ {
			var g []porcupine.Operation
			for b := range ghosts {
				if mask&(1<<b) != 0 {
					g = append(g, ghosts[b])
				}
			}
			if lin(g) {
				return false, "retried-put-applied-twice", "a put that the client re-sent after the primary failed took effect a second time after a later acknowledged put: " + obs
			}
		}
	}
	return false, "", "no linearization of the acknowledged operations: " + obs
}

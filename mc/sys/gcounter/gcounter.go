// Package gcounter closes systems/gcounter as the spec does:
//
//	variables localcntrs = [id1 \in NODE_SET |-> [id2 \in NODE_SET |-> 0]]; c = [id \in NODE_SET |-> {}]; out;
//	fair process (Node \in NODE_SET) == instance ANode(ref localcntrs[_], ref c[_])
//	    mapping localcntrs[_] via LocalGCntr mapping c[_] via CasualHistory;
//	fair process (UpdateGCntr = 0) { l1: while (TRUE) { with (i1 \in NODE_SET; i2 \in {x \in NODE_SET: localcntrs[x] # localcntrs[i1]}) { Merge(...); c[i1], c[i2] := c[i1] \cup c[i2] } } }
//
// The shipped Go binds cntr to the real G-Counter CRDT resource (subject of C12/C13); here the
// spec's own LocalGCntr macro and merge process are bound, as C02/C16 require.
package gcounter

import (
	"fmt"

	"github.com/DistCompiler/pgo/distsys"
	"github.com/DistCompiler/pgo/distsys/tla"
	gen "github.com/DistCompiler/pgo/systems/gcounter"
	ss "verif/mc/specstep"
	"verif/mc/sys/envproc"
)

type Config struct {
	NumNodes int `json:"num_nodes"`
}

func num(i int) tla.Value { return tla.MakeNumber(int32(i)) }

func sum(f tla.Value) int {
	n := 0
	it := f.AsFunction().Iterator()
	for !it.Done() {
		_, v, _ := it.Next()
		n += int(v.AsNumber())
	}
	return n
}

// LocalGCntr: read { yield SUM($variable, DOMAIN $variable) }
//
//	write { assert $value > 0; yield [$variable EXCEPT ![self] = $variable[self] + $value] }
func cntrRead(t *ss.Txn, cur tla.Value, _ []tla.Value) (tla.Value, tla.Value, error) {
	return tla.Value{}, num(sum(cur)), nil
}

func cntrWrite(t *ss.Txn, cur tla.Value, _ []tla.Value, v tla.Value) (tla.Value, error) {
	if !tla.ModuleGreaterThanSymbol(v, num(0)).AsBool() {
		return tla.Value{}, fmt.Errorf("%w: ($value) > (0)", distsys.ErrAssertionFailed)
	}
	return envproc.Except(cur, t.Self, tla.ModulePlusSymbol(cur.ApplyFunction(t.Self), v)), nil
}

// CasualHistory: read { yield $variable }  write { yield $variable \cup $value }
func histWrite(t *ss.Txn, cur tla.Value, _ []tla.Value, v tla.Value) (tla.Value, error) {
	return tla.ModuleUnionSymbol(cur, v), nil
}

// updateGCntr is the spec's merge process.
func (c Config) updateGCntr() distsys.MPCalArchetype {
	return envproc.Archetype("UpdateGCntr", "l1", []string{"localcntrs", "c"}, nil, map[string]envproc.Section{
		"l1": func(iface distsys.ArchetypeInterface) error {
			lcH, err := iface.RequireArchetypeResourceRef("UpdateGCntr.localcntrs")
			if err != nil {
				return err
			}
			cH, err := iface.RequireArchetypeResourceRef("UpdateGCntr.c")
			if err != nil {
				return err
			}
			lc, err := iface.Read(lcH, nil)
			if err != nil {
				return err
			}
			type pr struct{ i1, i2 tla.Value }
			var pairs []pr
			for i1 := 1; i1 <= c.NumNodes; i1++ {
				for i2 := 1; i2 <= c.NumNodes; i2++ {
					if !lc.ApplyFunction(num(i2)).Equal(lc.ApplyFunction(num(i1))) {
						pairs = append(pairs, pr{num(i1), num(i2)})
					}
				}
			}
			if len(pairs) == 0 {
				return distsys.ErrCriticalSectionAborted
			}
			p := pairs[iface.NextFairnessCounter("UpdateGCntr.l1.with", uint(len(pairs)))]
			a, b := lc.ApplyFunction(p.i1), lc.ApplyFunction(p.i2)
			res := tla.MakeFunction([]tla.Value{tla.ModuleDomainSymbol(a)}, func(k []tla.Value) tla.Value {
				x, y := a.ApplyFunction(k[0]), b.ApplyFunction(k[0])
				if x.AsNumber() > y.AsNumber() {
					return x
				}
				return y
			})
			if err := iface.Write(lcH, nil, envproc.Except(envproc.Except(lc, p.i1, res), p.i2, res)); err != nil {
				return err
			}
			cv, err := iface.Read(cH, nil)
			if err != nil {
				return err
			}
			cn := tla.ModuleUnionSymbol(cv.ApplyFunction(p.i1), cv.ApplyFunction(p.i2))
			if err := iface.Write(cH, nil, envproc.Except(envproc.Except(cv, p.i1, cn), p.i2, cn)); err != nil {
				return err
			}
			return iface.Goto("UpdateGCntr.l1")
		},
	})
}

type mk = func(*ss.Txn) distsys.ArchetypeResource

// New builds the closed system: process 0 = UpdateGCntr (self 0), process i = Node(i).
func New(c Config) *ss.System {
	consts := []distsys.MPCalContextConfigFn{
		distsys.DefineConstantValue("NUM_NODES", num(c.NumNodes)),
		distsys.DefineConstantValue("BENCH_NUM_ROUNDS", num(0)),
	}
	cntr := func(t *ss.Txn) distsys.ArchetypeResource { return ss.Var(t, "localcntrs", true, cntrRead, cntrWrite) }
	hist := func(t *ss.Txn) distsys.ArchetypeResource { return ss.Var(t, "c", true, nil, histWrite) }
	wholeCntr := func(t *ss.Txn) distsys.ArchetypeResource { return ss.Var(t, "localcntrs", false, nil, nil) }
	wholeHist := func(t *ss.Txn) distsys.ArchetypeResource { return ss.Var(t, "c", false, nil, nil) }
	sys := &ss.System{}
	sys.Procs = append(sys.Procs, ss.ProcDef{Name: "UpdateGCntr(0)", Self: num(0), Arch: c.updateGCntr(), Config: consts,
		RefParams: map[string]mk{"localcntrs": wholeCntr, "c": wholeHist}})
	for i := 1; i <= c.NumNodes; i++ {
		sys.Procs = append(sys.Procs, ss.ProcDef{Name: fmt.Sprintf("Node(%d)", i), Self: num(i), Arch: gen.ANode, Config: consts,
			RefParams: map[string]mk{"cntr": cntr, "c": hist}})
	}
	var ids []tla.Value
	for i := 1; i <= c.NumNodes; i++ {
		ids = append(ids, num(i))
	}
	nodeSet := tla.MakeSet(ids...)
	g := ss.Globals{
		"localcntrs": tla.MakeFunction([]tla.Value{nodeSet}, func([]tla.Value) tla.Value {
			return tla.MakeFunction([]tla.Value{nodeSet}, func([]tla.Value) tla.Value { return num(0) })
		}),
		"c":   tla.MakeFunction([]tla.Value{nodeSet}, func([]tla.Value) tla.Value { return tla.MakeSet() }),
		"out": tla.Value{},
	}
	sys.InitState(g)
	return sys
}

// StrongConvergence of the spec: \A i, j \in NODE_SET: (c[i] = c[j]) => (localcntrs[i] = localcntrs[j])
func (c Config) StrongConvergence(s *ss.State) (string, string) {
	for i := 1; i <= c.NumNodes; i++ {
		for j := i + 1; j <= c.NumNodes; j++ {
			if s.Globals["c"].ApplyFunction(num(i)).Equal(s.Globals["c"].ApplyFunction(num(j))) &&
				!s.Globals["localcntrs"].ApplyFunction(num(i)).Equal(s.Globals["localcntrs"].ApplyFunction(num(j))) {
				return "gcounter/StrongConvergence", fmt.Sprintf("nodes %d and %d know the same updates %s but hold %s and %s", i, j,
					ss.Canon(s.Globals["c"].ApplyFunction(num(i))), ss.Canon(s.Globals["localcntrs"].ApplyFunction(num(i))), ss.Canon(s.Globals["localcntrs"].ApplyFunction(num(j))))
			}
		}
	}
	return "", ""
}

// EqualKnowledgeEqualValue: replicas with equal knowledge *read* equal values (the property statement).
func (c Config) EqualKnowledgeEqualValue(s *ss.State) (string, string) {
	for i := 1; i <= c.NumNodes; i++ {
		for j := i + 1; j <= c.NumNodes; j++ {
			if s.Globals["c"].ApplyFunction(num(i)).Equal(s.Globals["c"].ApplyFunction(num(j))) &&
				sum(s.Globals["localcntrs"].ApplyFunction(num(i))) != sum(s.Globals["localcntrs"].ApplyFunction(num(j))) {
				return "gcounter/equal-knowledge-equal-value", fmt.Sprintf("nodes %d and %d know the same updates but read %d and %d", i, j,
					sum(s.Globals["localcntrs"].ApplyFunction(num(i))), sum(s.Globals["localcntrs"].ApplyFunction(num(j))))
			}
		}
	}
	return "", ""
}

// NeverDecreases: no component of any replica's counter, hence no replica's value, ever decreases.
func (c Config) NeverDecreases(s *ss.State, p int, a *ss.Attempt) (string, string) {
	if a.Kind != ss.Commit {
		return "", ""
	}
	for i := 1; i <= c.NumNodes; i++ {
		pre, post := s.Globals["localcntrs"].ApplyFunction(num(i)), a.Next.Globals["localcntrs"].ApplyFunction(num(i))
		for j := 1; j <= c.NumNodes; j++ {
			if post.ApplyFunction(num(j)).AsNumber() < pre.ApplyFunction(num(j)).AsNumber() {
				return "gcounter/counter-decreased", fmt.Sprintf("replica %d's component %d went from %s to %s", i, j, ss.Canon(pre), ss.Canon(post))
			}
		}
	}
	return "", ""
}

// Package hres is the contract between a harness binary and the /verif/check driver.
// A harness is a `go test -c` binary whose TestCheck calls hres.Main.
package hres

import (
	"encoding/json"
	"fmt"
	"os"
	"runtime"
	"runtime/debug"
	"strconv"
	"testing"
	"time"
)

// Viol is one violation of the property found by the harness.
type Viol struct {
	Key    string `json:"key"`    // canonical identity of the failing input/site/history (matched against known_findings.json)
	What   string `json:"what"`   // one line for humans
	Replay any    `json:"replay"` // everything needed to re-run exactly this case (harness specific)
}

// Result is written to $VERIF_OUT.
type Result struct {
	Property    string         `json:"property_id"`
	Tier        string         `json:"tier"`
	Level       string         `json:"level"`
	Coverage    map[string]any `json:"coverage"`
	Assumptions []string       `json:"assumptions"`
	Violations  []Viol         `json:"violations"`
	WallS       float64        `json:"wall_s"`
}

// Env describes how the harness was invoked.
type Env struct {
	Tier     string // quick | thorough
	Seed     int64
	Workers  int
	Replay   json.RawMessage // non-nil: re-run exactly this case
	Deadline time.Time       // internal soft deadline; on reaching it report exhaustive:false and exit 0
	T        *testing.T
}

func (e Env) Thorough() bool { return e.Tier == "thorough" }

// Main runs f and writes its result.  f must fill Property, Level, Coverage, Violations.
func Main(t *testing.T, f func(env Env) *Result) {
	debug.SetGCPercent(400)
	env := Env{Tier: os.Getenv("VERIF_TIER"), T: t, Workers: runtime.NumCPU()}
	if env.Tier == "" {
		env.Tier = "quick"
	}
	if s := os.Getenv("VERIF_SEED"); s != "" {
		env.Seed, _ = strconv.ParseInt(s, 10, 64)
	}
	if s := os.Getenv("VERIF_WORKERS"); s != "" {
		env.Workers, _ = strconv.Atoi(s)
	}
	budget := 120 * time.Second
	if env.Tier == "thorough" {
		budget = 40 * time.Minute
	}
	if s := os.Getenv("VERIF_BUDGET_S"); s != "" {
		n, _ := strconv.Atoi(s)
		budget = time.Duration(n) * time.Second
	}
	env.Deadline = time.Now().Add(budget)
	if p := os.Getenv("VERIF_REPLAY"); p != "" {
		b, err := os.ReadFile(p)
		if err != nil {
			t.Fatalf("replay file: %v", err)
		}
		var w struct {
			Replay json.RawMessage `json:"replay"`
		}
		if err := json.Unmarshal(b, &w); err != nil || w.Replay == nil {
			t.Fatalf("replay file %s: no replay field (%v)", p, err)
		}
		env.Replay = w.Replay
	}
	start := time.Now()
	r := f(env)
	r.Tier = env.Tier
	r.WallS = time.Since(start).Seconds()
	if r.Violations == nil {
		r.Violations = []Viol{}
	}
	out := os.Getenv("VERIF_OUT")
	b, err := json.MarshalIndent(r, "", " ")
	if err != nil {
		t.Fatalf("marshal result: %v", err)
	}
	if out == "" {
		fmt.Println(string(b))
		return
	}
	if err := os.WriteFile(out, b, 0644); err != nil {
		t.Fatalf("write result: %v", err)
	}
}

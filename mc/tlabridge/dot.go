package tlabridge

import (
	"bufio"
	"fmt"
	"os"
	"regexp"
	"sort"
	"strings"

	"github.com/DistCompiler/pgo/distsys/tla"
)

// State is one node of a TLC state graph.
type State struct {
	ID      string               // TLC's fingerprint as printed (decimal, may be negative)
	Vars    map[string]tla.Value // variable -> value, normalised (functions over 1..n are tuples, as TLC prints them)
	Initial bool
	Label   string // the raw conjunction text
}

// Key is a canonical rendering of the state's variables (sorted by name, values in Canon form).
func (s State) Key() string {
	names := make([]string, 0, len(s.Vars))
	for n := range s.Vars {
		names = append(names, n)
	}
	sort.Strings(names)
	var b strings.Builder
	for _, n := range names {
		fmt.Fprintf(&b, "/\\ %s = %s\n", n, Canon(s.Vars[n]))
	}
	return b.String()
}

// Edge is one transition; Action is the label printed by `-dump dot,actionlabels` (the name of the sub-action of
// Next that produced it), "" when the graph was dumped without action labels.
type Edge struct {
	From, To string
	Action   string
}

// Graph is a parsed `tlc -dump dot[,actionlabels]` file.
type Graph struct {
	States map[string]State
	Edges  []Edge
}

// Initials returns the ids of the initial states, sorted.
func (g *Graph) Initials() []string {
	var out []string
	for id, s := range g.States {
		if s.Initial {
			out = append(out, id)
		}
	}
	sort.Strings(out)
	return out
}

// Succ returns, per state id, its outgoing edges.
func (g *Graph) Succ() map[string][]Edge {
	m := map[string][]Edge{}
	for _, e := range g.Edges {
		m[e.From] = append(m[e.From], e)
	}
	return m
}

var (
	reDotNode = regexp.MustCompile(`^(-?\d+) \[label="((?:[^"\\]|\\.)*)"(.*)\];?$`)
	reDotEdge = regexp.MustCompile(`^(-?\d+) -> (-?\d+)(?: \[(.*)\])?;?$`)
	reDotAttr = regexp.MustCompile(`label="((?:[^"\\]|\\.)*)"`)
)

// ParseDot parses the file written by `tlc -dump dot,actionlabels <file>`.
// A node is initial iff TLC drew it with `style = filled`.  Duplicate edges (same from, to, action) are kept once.
func ParseDot(path string) (*Graph, error) {
	f, err := os.Open(path)
	if err != nil {
		return nil, err
	}
	defer f.Close()
	g := &Graph{States: map[string]State{}}
	seenEdge := map[Edge]bool{}
	sc := bufio.NewScanner(f)
	sc.Buffer(make([]byte, 1<<20), 1<<28)
	ln := 0
	for sc.Scan() {
		ln++
		line := strings.TrimSpace(sc.Text())
		if m := reDotEdge.FindStringSubmatch(line); m != nil {
			e := Edge{From: m[1], To: m[2]}
			if a := reDotAttr.FindStringSubmatch(m[3]); a != nil {
				e.Action = dotUnescape(a[1])
			}
			if !seenEdge[e] {
				seenEdge[e] = true
				g.Edges = append(g.Edges, e)
			}
			continue
		}
		if m := reDotNode.FindStringSubmatch(line); m != nil {
			label := dotUnescape(m[2])
			vars, err := ParseStateLabel(label)
			if err != nil {
				return nil, fmt.Errorf("%s:%d: %w", path, ln, err)
			}
			st := State{ID: m[1], Vars: vars, Label: label, Initial: strings.Contains(m[3], "style = filled") || strings.Contains(m[3], "style=filled")}
			if old, ok := g.States[st.ID]; ok {
				st.Initial = st.Initial || old.Initial
			}
			g.States[st.ID] = st
		}
	}
	if err := sc.Err(); err != nil {
		return nil, err
	}
	for _, e := range g.Edges {
		if _, ok := g.States[e.From]; !ok {
			return nil, fmt.Errorf("%s: edge from unknown state %s", path, e.From)
		}
		if _, ok := g.States[e.To]; !ok {
			return nil, fmt.Errorf("%s: edge to unknown state %s", path, e.To)
		}
	}
	return g, nil
}

// dotUnescape undoes the escaping TLC applies to label text: \\ -> \, \" -> ", \n -> newline.
func dotUnescape(s string) string {
	var b strings.Builder
	for i := 0; i < len(s); i++ {
		if s[i] == '\\' && i+1 < len(s) {
			i++
			switch s[i] {
			case 'n':
				b.WriteByte('\n')
			case '\\', '"':
				b.WriteByte(s[i])
			default:
				b.WriteByte('\\')
				b.WriteByte(s[i])
			}
			continue
		}
		b.WriteByte(s[i])
	}
	return b.String()
}

// ParseStateLabel parses TLC's state rendering `/\ v1 = value /\ v2 = value ...` (or `v = value` for a single
// variable) into normalised values.
func ParseStateLabel(label string) (map[string]tla.Value, error) {
	p := &parser{src: label, opt: ParseOptions{Normalize: true, MaxSetSize: 1 << 16}}
	vars := map[string]tla.Value{}
	var err error
	func() {
		defer func() {
			if x := recover(); x != nil {
				if pe, ok := x.(parseError); ok {
					err = pe.err
					return
				}
				panic(x)
			}
		}()
		for {
			p.ws()
			if p.pos >= len(p.src) {
				return
			}
			p.accept(`/\`)
			name := p.ident()
			p.expect("=")
			vars[name] = Normalize(p.expr(0))
		}
	}()
	if err != nil {
		return nil, fmt.Errorf("state label %q: %w", label, err)
	}
	if len(vars) == 0 {
		return nil, fmt.Errorf("state label %q: no variables", label)
	}
	return vars, nil
}

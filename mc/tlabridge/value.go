// Package tlabridge (engine E5) connects the Go runtime's tla.Value with TLC:
//
//   - ParseValue: TLC's printed value syntax (and the TLA+ subset emitted by tla.Value.String) -> tla.Value
//   - Normalize:  "function whose domain is 1..n == tuple; empty function == <<>>" (TLC's own printing convention)
//   - ToTLA/Canon: tla.Value -> TLA+ source text accepted by TLC (deterministic: elements sorted)
//   - Runner:     bulk evaluation of constant TLA+ expressions by TLC with restart after evaluation errors
//   - ParseDot:   `tlc -dump dot,actionlabels` state graphs -> states (var -> tla.Value) and labelled edges
package tlabridge

import (
	"errors"
	"fmt"
	"strconv"
	"strings"

	"github.com/DistCompiler/pgo/distsys/tla"
)

// ErrNotEnumerable is returned (wrapped) when the text denotes a set TLC printed symbolically because it
// cannot or will not enumerate it (Seq(S), Nat, Int, STRING, big SUBSET / function sets).
var ErrNotEnumerable = errors.New("tlabridge: value printed symbolically by TLC (not enumerable)")

// ParseOptions controls ParseValue.
type ParseOptions struct {
	// Normalize applies Normalize to the result: functions over 1..n become tuples, the empty function becomes <<>>.
	Normalize bool
	// MaxSetSize bounds the expansion of `a..b`, SUBSET, [S -> T], [a: S] and \X forms (default 1<<16 elements).
	MaxSetSize int
}

// ParseValue parses one value in TLC's output syntax.  Accepted:
//
//	TRUE FALSE  123 -123  "str\"ing\\ \t\n\f\r"  {a, b}  a..b  <<a, b>>  [f |-> v, g |-> w]
//	(k :> v @@ k2 :> v2)  and the fully parenthesised form printed by tla.Value.String: ((k) :> (v) @@ (k2) :> (v2))
//	[x \in S |-> x] (identity function; tla.Value.String prints the empty function as [x \in {} |-> x])
//	SUBSET S, [S -> T], [a: S, b: T], S \X T (small ones, expanded)
//	identifiers (model values, defaultInitValue) -> tla.MakeString(identifier)
//
// Functions and tuples are kept apart unless opt.Normalize is set.
func ParseValue(s string, opt ParseOptions) (v tla.Value, err error) {
	p := &parser{src: s, opt: opt}
	if p.opt.MaxSetSize == 0 {
		p.opt.MaxSetSize = 1 << 16
	}
	defer func() {
		if x := recover(); x != nil {
			if pe, ok := x.(parseError); ok {
				err = pe.err
				return
			}
			panic(x)
		}
	}()
	v = p.expr(0)
	p.ws()
	if p.pos != len(p.src) {
		p.fail("trailing input %q", p.rest(20))
	}
	if opt.Normalize {
		v = Normalize(v)
	}
	return v, nil
}

// MustParse is ParseValue for tests and tables; it panics on error.
func MustParse(s string, normalize bool) tla.Value {
	v, err := ParseValue(s, ParseOptions{Normalize: normalize})
	if err != nil {
		panic(err)
	}
	return v
}

type parseError struct{ err error }

type parser struct {
	src string
	pos int
	opt ParseOptions
}

func (p *parser) fail(f string, a ...any) {
	panic(parseError{fmt.Errorf("tlabridge: parse error at offset %d: %s", p.pos, fmt.Sprintf(f, a...))})
}

func (p *parser) rest(n int) string {
	r := p.src[p.pos:]
	if len(r) > n {
		r = r[:n]
	}
	return r
}

func (p *parser) ws() {
	for p.pos < len(p.src) {
		switch p.src[p.pos] {
		case ' ', '\t', '\n', '\r':
			p.pos++
		default:
			return
		}
	}
}

func (p *parser) peek(tok string) bool {
	p.ws()
	return strings.HasPrefix(p.src[p.pos:], tok)
}

func (p *parser) accept(tok string) bool {
	if p.peek(tok) {
		p.pos += len(tok)
		return true
	}
	return false
}

func (p *parser) expect(tok string) {
	if !p.accept(tok) {
		p.fail("expected %q, found %q", tok, p.rest(12))
	}
}

func isIdentStart(c byte) bool {
	return c == '_' || (c >= 'a' && c <= 'z') || (c >= 'A' && c <= 'Z')
}
func isIdentChar(c byte) bool { return isIdentStart(c) || (c >= '0' && c <= '9') }

func (p *parser) ident() string {
	p.ws()
	st := p.pos
	for p.pos < len(p.src) && isIdentChar(p.src[p.pos]) {
		p.pos++
	}
	if st == p.pos {
		p.fail("expected identifier, found %q", p.rest(12))
	}
	return p.src[st:p.pos]
}

// binary operator levels (loosest first), following TLA+ precedence: @@ (6) < :> (7) < .. (9) < \X (10-13)
const (
	lvlAtAt = iota
	lvlColonGT
	lvlDotDot
	lvlAdd
	lvlCross
	lvlPrimary
)

func (p *parser) expr(level int) tla.Value {
	switch level {
	case lvlAtAt:
		lhs := p.expr(lvlColonGT)
		for p.accept("@@") {
			rhs := p.expr(lvlColonGT)
			if !lhs.IsFunction() || !rhs.IsFunction() {
				p.fail("@@ applied to a non-function")
			}
			// f @@ g: f wins on common keys
			m := rhs.AsFunction()
			it := lhs.AsFunction().Iterator()
			for !it.Done() {
				k, v, _ := it.Next()
				m = m.Set(k, v)
			}
			lhs = tla.MakeRecordFromMap(m)
		}
		return lhs
	case lvlColonGT:
		lhs := p.expr(lvlDotDot)
		if p.accept(":>") {
			rhs := p.expr(lvlDotDot)
			return tla.MakeRecord([]tla.RecordField{{Key: lhs, Value: rhs}})
		}
		return lhs
	case lvlDotDot:
		lhs := p.expr(lvlAdd)
		if p.peek("..") {
			p.pos += 2
			rhs := p.expr(lvlAdd)
			if !lhs.IsNumber() || !rhs.IsNumber() {
				p.fail(".. applied to non-integers")
			}
			a, b := int64(lhs.AsNumber()), int64(rhs.AsNumber())
			if b-a+1 > int64(p.opt.MaxSetSize) {
				panic(parseError{fmt.Errorf("%w: interval %d..%d larger than MaxSetSize", ErrNotEnumerable, a, b)})
			}
			var elems []tla.Value
			for i := a; i <= b; i++ {
				elems = append(elems, tla.MakeNumber(int32(i)))
			}
			return tla.MakeSet(elems...)
		}
		return lhs
	case lvlAdd:
		// integer + and - (ToTLA writes MinInt32 as (-2147483647 - 1)); results must stay within 32 bits
		lhs := p.expr(lvlCross)
		for {
			var sign int64
			switch {
			case p.peek("+"):
				sign = 1
			case p.peek("-") && !p.peek("->"):
				sign = -1
			default:
				return lhs
			}
			p.pos++
			rhs := p.expr(lvlCross)
			if !lhs.IsNumber() || !rhs.IsNumber() {
				p.fail("+/- applied to non-integers")
			}
			n := int64(lhs.AsNumber()) + sign*int64(rhs.AsNumber())
			if n > 2147483647 || n < -2147483648 {
				p.fail("integer overflow")
			}
			lhs = tla.MakeNumber(int32(n))
		}
	case lvlCross:
		lhs := p.expr(lvlPrimary)
		if p.peek(`\X`) {
			sets := []tla.Value{lhs}
			for p.accept(`\X`) {
				sets = append(sets, p.expr(lvlPrimary))
			}
			return p.cross(sets)
		}
		return lhs
	}
	return p.primary()
}

func (p *parser) setElems(v tla.Value, what string) []tla.Value {
	if !v.IsSet() {
		p.fail("%s applied to a non-set", what)
	}
	var out []tla.Value
	it := v.AsSet().Iterator()
	for !it.Done() {
		k, _, _ := it.Next()
		out = append(out, k)
	}
	return out
}

func (p *parser) checkSize(n int, what string) {
	if n > p.opt.MaxSetSize || n < 0 {
		panic(parseError{fmt.Errorf("%w: %s larger than MaxSetSize", ErrNotEnumerable, what)})
	}
}

func (p *parser) cross(sets []tla.Value) tla.Value {
	acc := [][]tla.Value{nil}
	for _, s := range sets {
		el := p.setElems(s, `\X`)
		p.checkSize(len(acc)*len(el), `\X`)
		var nx [][]tla.Value
		for _, pre := range acc {
			for _, e := range el {
				nx = append(nx, append(append([]tla.Value{}, pre...), e))
			}
		}
		acc = nx
	}
	var out []tla.Value
	for _, t := range acc {
		out = append(out, tla.MakeTuple(t...))
	}
	return tla.MakeSet(out...)
}

// recordSet expands [k1: S1, ...] / [S -> T] given as (key, set) pairs.
func (p *parser) recordSet(keys []tla.Value, sets []tla.Value) tla.Value {
	acc := [][]tla.RecordField{nil}
	for i := range keys {
		el := p.setElems(sets[i], "function/record set")
		p.checkSize(len(acc)*len(el), "function/record set")
		var nx [][]tla.RecordField
		for _, pre := range acc {
			for _, e := range el {
				nx = append(nx, append(append([]tla.RecordField{}, pre...), tla.RecordField{Key: keys[i], Value: e}))
			}
		}
		acc = nx
	}
	var out []tla.Value
	for _, r := range acc {
		out = append(out, tla.MakeRecord(r))
	}
	return tla.MakeSet(out...)
}

func (p *parser) primary() tla.Value {
	p.ws()
	if p.pos >= len(p.src) {
		p.fail("unexpected end of input")
	}
	c := p.src[p.pos]
	switch {
	case c == '"':
		return tla.MakeString(p.str())
	case c == '-' || (c >= '0' && c <= '9'):
		st := p.pos
		if c == '-' {
			p.pos++
			p.ws()
			if p.pos < len(p.src) && p.src[p.pos] == '(' {
				// -(expr): only numbers
				v := p.primary()
				if !v.IsNumber() {
					p.fail("unary minus applied to a non-integer")
				}
				return tla.MakeNumber(-v.AsNumber())
			}
			st = p.pos
		}
		for p.pos < len(p.src) && p.src[p.pos] >= '0' && p.src[p.pos] <= '9' {
			p.pos++
		}
		if st == p.pos {
			p.fail("expected digits")
		}
		txt := p.src[st:p.pos]
		if c == '-' {
			txt = "-" + txt
		}
		n, err := strconv.ParseInt(txt, 10, 32)
		if err != nil {
			p.fail("integer %s does not fit 32 bits", txt)
		}
		return tla.MakeNumber(int32(n))
	case c == '{':
		p.pos++
		var elems []tla.Value
		if !p.accept("}") {
			for {
				elems = append(elems, p.expr(0))
				if p.accept(",") {
					continue
				}
				p.expect("}")
				break
			}
		}
		return tla.MakeSet(elems...)
	case strings.HasPrefix(p.src[p.pos:], "<<"):
		p.pos += 2
		var elems []tla.Value
		if !p.accept(">>") {
			for {
				elems = append(elems, p.expr(0))
				if p.accept(",") {
					continue
				}
				p.expect(">>")
				break
			}
		}
		return tla.MakeTuple(elems...)
	case c == '(':
		p.pos++
		v := p.expr(0)
		p.expect(")")
		return v
	case c == '[':
		return p.bracket()
	case isIdentStart(c):
		id := p.ident()
		switch id {
		case "TRUE":
			return tla.ModuleTRUE
		case "FALSE":
			return tla.ModuleFALSE
		case "BOOLEAN":
			return tla.ModuleBOOLEAN
		case "SUBSET":
			base := p.setElems(p.expr(lvlPrimary), "SUBSET")
			if len(base) > 20 {
				p.checkSize(-1, "SUBSET")
			}
			p.checkSize(1<<uint(len(base)), "SUBSET")
			var out []tla.Value
			for m := 0; m < 1<<uint(len(base)); m++ {
				var sub []tla.Value
				for i, e := range base {
					if m&(1<<uint(i)) != 0 {
						sub = append(sub, e)
					}
				}
				out = append(out, tla.MakeSet(sub...))
			}
			return tla.MakeSet(out...)
		case "Seq", "UNION", "DOMAIN":
			if p.peek("(") || id != "Seq" {
				panic(parseError{fmt.Errorf("%w: %s(...)", ErrNotEnumerable, id)})
			}
		case "Nat", "Int", "STRING", "Real":
			panic(parseError{fmt.Errorf("%w: %s", ErrNotEnumerable, id)})
		}
		return tla.MakeString(id)
	}
	p.fail("unexpected %q", p.rest(12))
	panic("unreachable")
}

// bracket parses the four `[` forms: record, record set, function set, identity function constructor.
func (p *parser) bracket() tla.Value {
	p.expect("[")
	save := p.pos
	// record / record set / [x \in S |-> x] all start with an identifier
	p.ws()
	if p.pos < len(p.src) && isIdentStart(p.src[p.pos]) {
		id := p.ident()
		switch {
		case p.accept("|->"):
			fields := []tla.RecordField{{Key: tla.MakeString(id), Value: p.expr(0)}}
			for p.accept(",") {
				k := p.ident()
				p.expect("|->")
				fields = append(fields, tla.RecordField{Key: tla.MakeString(k), Value: p.expr(0)})
			}
			p.expect("]")
			return tla.MakeRecord(fields)
		case p.peek(`\in`):
			p.pos += 3
			dom := p.expr(0)
			p.expect("|->")
			body := p.ident()
			p.expect("]")
			if body != id {
				p.fail("only the identity function constructor [x \\in S |-> x] is supported")
			}
			var fields []tla.RecordField
			for _, e := range p.setElems(dom, "function constructor") {
				fields = append(fields, tla.RecordField{Key: e, Value: e})
			}
			return tla.MakeRecord(fields)
		case p.peek(":") && !p.peek(":>"):
			p.pos++
			keys := []tla.Value{tla.MakeString(id)}
			sets := []tla.Value{p.expr(0)}
			for p.accept(",") {
				k := p.ident()
				p.expect(":")
				keys = append(keys, tla.MakeString(k))
				sets = append(sets, p.expr(0))
			}
			p.expect("]")
			return p.recordSet(keys, sets)
		}
		p.pos = save
	}
	// [S -> T]
	from := p.expr(0)
	p.expect("->")
	to := p.expr(0)
	p.expect("]")
	keys := p.setElems(from, "function set")
	sets := make([]tla.Value, len(keys))
	for i := range sets {
		sets[i] = to
	}
	return p.recordSet(keys, sets)
}

func (p *parser) str() string {
	// at opening quote
	p.pos++
	var b strings.Builder
	for {
		if p.pos >= len(p.src) {
			p.fail("unterminated string")
		}
		c := p.src[p.pos]
		p.pos++
		switch c {
		case '"':
			return b.String()
		case '\\':
			if p.pos >= len(p.src) {
				p.fail("unterminated escape")
			}
			e := p.src[p.pos]
			p.pos++
			switch e {
			case '"':
				b.WriteByte('"')
			case '\\':
				b.WriteByte('\\')
			case 'n':
				b.WriteByte('\n')
			case 't':
				b.WriteByte('\t')
			case 'r':
				b.WriteByte('\r')
			case 'f':
				b.WriteByte('\f')
			default:
				p.pos--
				p.fail("escape \\%c is not TLA+ string syntax", e)
			}
		case '\n', '\r':
			p.pos--
			p.fail("raw line break inside a string")
		default:
			b.WriteByte(c)
		}
	}
}

// Normalize returns v with TLC's identification applied bottom-up everywhere (also inside set members and
// function keys): a function whose domain is exactly 1..n (n>=1) becomes the tuple of its values, the empty
// function becomes <<>>.  Causal wrapping is stripped.  All other values are rebuilt unchanged.
func Normalize(v tla.Value) tla.Value {
	v = v.StripVClock()
	switch {
	case v.IsSet():
		var elems []tla.Value
		it := v.AsSet().Iterator()
		for !it.Done() {
			k, _, _ := it.Next()
			elems = append(elems, Normalize(k))
		}
		return tla.MakeSet(elems...)
	case v.IsTuple():
		var elems []tla.Value
		it := v.AsTuple().Iterator()
		for !it.Done() {
			_, e := it.Next()
			elems = append(elems, Normalize(e))
		}
		return tla.MakeTuple(elems...)
	case v.IsFunction():
		fn := v.AsFunction()
		n := fn.Len()
		var fields []tla.RecordField
		byIdx := make([]tla.Value, n)
		isSeq := true
		it := fn.Iterator()
		for !it.Done() {
			k, val, _ := it.Next()
			k, val = Normalize(k), Normalize(val)
			fields = append(fields, tla.RecordField{Key: k, Value: val})
			if isSeq && k.IsNumber() && k.AsNumber() >= 1 && int(k.AsNumber()) <= n && !seen(byIdx[k.AsNumber()-1]) {
				byIdx[k.AsNumber()-1] = val
			} else {
				isSeq = false
			}
		}
		if isSeq {
			return tla.MakeTuple(byIdx...)
		}
		return tla.MakeRecord(fields)
	}
	return v
}

func seen(v tla.Value) bool {
	return v.IsBool() || v.IsNumber() || v.IsString() || v.IsSet() || v.IsTuple() || v.IsFunction()
}

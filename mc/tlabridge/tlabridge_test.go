package tlabridge

import (
	"context"
	"errors"
	"os"
	"path/filepath"
	"strings"
	"testing"
	"time"

	"github.com/DistCompiler/pgo/distsys/tla"
)

func num(n int32) tla.Value  { return tla.MakeNumber(n) }
func str(s string) tla.Value { return tla.MakeString(s) }
func rec(kv ...tla.Value) tla.Value {
	var f []tla.RecordField
	for i := 0; i < len(kv); i += 2 {
		f = append(f, tla.RecordField{Key: kv[i], Value: kv[i+1]})
	}
	return tla.MakeRecord(f)
}

func TestParseValue(t *testing.T) {
	cases := []struct {
		in   string
		norm bool
		want tla.Value
	}{
		{"TRUE", false, tla.ModuleTRUE},
		{"FALSE", false, tla.ModuleFALSE},
		{"0", false, num(0)},
		{"-12", false, num(-12)},
		{"-2147483648", false, num(-2147483648)},
		{"(-3)", false, num(-3)},
		{"(-2147483647 - 1)", false, num(-2147483648)},
		{"1 + 2 - 4", false, num(-1)},
		{`""`, false, str("")},
		{`"a\"b\\c\td\ne"`, false, str("a\"b\\c\td\ne")},
		{`"} >> ]"`, false, str("} >> ]")},
		{"{}", false, tla.MakeSet()},
		{"{1, 2, 3}", false, tla.MakeSet(num(3), num(1), num(2))},
		{"1..3", false, tla.MakeSet(num(3), num(1), num(2))},
		{"3..1", false, tla.MakeSet()},
		{"{1..2, {}}", false, tla.MakeSet(tla.MakeSet(), tla.MakeSet(num(1), num(2)))},
		{"<<>>", false, tla.MakeTuple()},
		{"<<1, <<2>>, {}>>", false, tla.MakeTuple(num(1), tla.MakeTuple(num(2)), tla.MakeSet())},
		{"<< 1,\n   2 >>", false, tla.MakeTuple(num(1), num(2))},
		{`[a |-> 1, b |-> "x"]`, false, rec(str("a"), num(1), str("b"), str("x"))},
		{`[ a |->\n 1 ]`, false, rec(str("a"), num(1))},
		{"(1 :> 5 @@ 3 :> 6)", false, rec(num(1), num(5), num(3), num(6))},
		{"(1 :> 5 @@ 1 :> 6)", false, rec(num(1), num(5))}, // @@ is left biased
		{`((1) :> (5) @@ ("k") :> ({}))`, false, rec(num(1), num(5), str("k"), tla.MakeSet())},
		{`(<<1, 2>> :> (1 :> 2))`, false, rec(tla.MakeTuple(num(1), num(2)), rec(num(1), num(2)))},
		{`[x \in {} |-> x]`, false, rec()},
		{`[x \in {} |-> x]`, true, tla.MakeTuple()},
		{"(1 :> 5 @@ 2 :> 6)", false, rec(num(1), num(5), num(2), num(6))},
		{"(1 :> 5 @@ 2 :> 6)", true, tla.MakeTuple(num(5), num(6))},
		{"(2 :> 5 @@ 3 :> 6)", true, rec(num(2), num(5), num(3), num(6))},
		{"{(1 :> (1 :> 7))}", true, tla.MakeSet(tla.MakeTuple(tla.MakeTuple(num(7))))},
		{"((1 :> 1) :> 2)", true, rec(tla.MakeTuple(num(1)), num(2))},
		{"m1", false, str("m1")},
		{"defaultInitValue", false, str("defaultInitValue")},
		{"SUBSET {1, 2}", false, tla.MakeSet(tla.MakeSet(), tla.MakeSet(num(1)), tla.MakeSet(num(2)), tla.MakeSet(num(1), num(2)))},
		{"[{1, 2} -> {TRUE}]", true, tla.MakeSet(tla.MakeTuple(tla.ModuleTRUE, tla.ModuleTRUE))},
		{"[a: {1, 2}, b: {3}]", false, tla.MakeSet(rec(str("a"), num(1), str("b"), num(3)), rec(str("a"), num(2), str("b"), num(3)))},
		{`{1} \X {2, 3}`, false, tla.MakeSet(tla.MakeTuple(num(1), num(2)), tla.MakeTuple(num(1), num(3)))},
	}
	for _, c := range cases {
		in := strings.ReplaceAll(c.in, `\n`, "\n")
		if strings.HasPrefix(c.in, `"`) {
			in = c.in
		}
		got, err := ParseValue(in, ParseOptions{Normalize: c.norm})
		if err != nil {
			t.Errorf("%q: %v", c.in, err)
			continue
		}
		if !got.Equal(c.want) {
			t.Errorf("%q (normalize=%v): got %v want %v", c.in, c.norm, got, c.want)
		}
	}
	for _, bad := range []string{"", "{1,", "<<1", `"abc`, `"\x41"`, "1 2", "[a |-> ]", "(1 :> )", "99999999999", "{1} @@ {2}", "1 .. TRUE"} {
		if v, err := ParseValue(bad, ParseOptions{}); err == nil {
			t.Errorf("%q: expected an error, got %v", bad, v)
		}
	}
	for _, lazy := range []string{"Seq({1})", "Nat", "{Int}", "SUBSET (1..40)"} {
		if _, err := ParseValue(lazy, ParseOptions{}); !errors.Is(err, ErrNotEnumerable) {
			t.Errorf("%q: expected ErrNotEnumerable, got %v", lazy, err)
		}
	}
}

// every value of a small universe: ToTLA then ParseValue gives the value back (up to normalisation for the empty function)
func TestPrintParseRoundTrip(t *testing.T) {
	atoms := []tla.Value{tla.ModuleTRUE, tla.ModuleFALSE, num(0), num(-1), num(2147483647), num(-2147483648), str(""), str("a"), str("a\"b\\"), str("IF"), str("x y")}
	level := atoms
	var all []tla.Value
	all = append(all, atoms...)
	for d := 0; d < 2; d++ {
		var next []tla.Value
		next = append(next, tla.MakeSet(), tla.MakeTuple(), rec())
		for i, a := range level {
			next = append(next, tla.MakeSet(a), tla.MakeTuple(a), rec(a, a))
			b := level[(i+1)%len(level)]
			next = append(next, tla.MakeSet(a, b), tla.MakeTuple(a, b), rec(a, b, b, a), rec(num(1), a, num(2), b), rec(str("f"), a, str("g_1"), b))
		}
		all = append(all, next...)
		level = next
		if len(level) > 60 {
			level = level[:60]
		}
	}
	for _, v := range all {
		s, err := ToTLA(v)
		if err != nil {
			t.Fatalf("%v: %v", v, err)
		}
		back, err := ParseValue(s, ParseOptions{Normalize: true})
		if err != nil {
			t.Fatalf("%v -> %q: %v", v, s, err)
		}
		if !back.Equal(Normalize(v)) {
			t.Fatalf("%v -> %q -> %v", v, s, back)
		}
		// the Go runtime's own String() must be parsed to the same value, structure preserved
		gs := v.String()
		back2, err := ParseValue(gs, ParseOptions{})
		if err != nil {
			t.Fatalf("String() %q: %v", gs, err)
		}
		if !back2.Equal(v) {
			t.Fatalf("String() %q parsed to %v", gs, back2)
		}
		if Canon(v) != Canon(back) {
			t.Fatalf("Canon differs: %q vs %q", Canon(v), Canon(back))
		}
	}
	if _, err := ToTLA(str("é")); err == nil {
		t.Errorf("non-ASCII string must not be rendered")
	}
	if got := MustTLA(tla.MakeSet(num(2), num(-1), num(1))); got != "{(-1), 1, 2}" {
		t.Errorf("set rendering %q", got)
	}
	if got := MustTLA(rec(str("b"), num(1), str("a"), num(2))); got != "[a |-> 2, b |-> 1]" {
		t.Errorf("record rendering %q", got)
	}
	if got := MustTLA(rec(str("IF"), num(1))); got != `("IF" :> 1)` {
		t.Errorf("reserved-word key rendering %q", got)
	}
	t.Logf("%d values round-tripped", len(all))
}

func TestParseResultsJoinsWrappedLines(t *testing.T) {
	out := "Starting...\n<<\"R\", 0, {1, 2}>>\n<< \"R\",\n   1,\n   { {},\n     {\"} >> ]\"} } >>\nnoise\n<<\"R\", 2, \"<<\">>\nError: x\n"
	res, err := parseResults(out)
	if err != nil {
		t.Fatal(err)
	}
	if len(res) != 3 || res[0] != "{1, 2}" || res[1] != `{ {}, {"} >> ]"} }` || res[2] != `"<<"` {
		t.Fatalf("%#v", res)
	}
}

func haveJava(t *testing.T) {
	if _, err := os.Stat(TLAJar); err != nil {
		t.Skip("no tla2tools.jar")
	}
}

const tinySpec = `---- MODULE Tiny ----
EXTENDS Integers, Sequences, TLC
VARIABLES x, q, r
Init == x = 0 /\ q = <<>> /\ r = [a |-> "s\"t", b |-> {}, f |-> (2 :> 1)]
Inc == x < 2 /\ x' = x + 1 /\ q' = Append(q, x) /\ r' = [r EXCEPT !.b = r.b \cup {x}]
Reset == x = 2 /\ x' = 0 /\ q' = <<>> /\ r' = [r EXCEPT !.b = {}]
Skip == x = 1 /\ x' = 0 /\ q' = <<>> /\ r' = [r EXCEPT !.b = {}]
Next == Inc \/ Reset \/ Skip
====
`

func TestParseDotOnTinySpec(t *testing.T) {
	haveJava(t)
	dir, err := ScratchDir("unit-")
	if err != nil {
		t.Fatal(err)
	}
	defer os.RemoveAll(dir)
	os.WriteFile(filepath.Join(dir, "Tiny.tla"), []byte(tinySpec), 0o644)
	os.WriteFile(filepath.Join(dir, "Tiny.cfg"), []byte("INIT Init\nNEXT Next\n"), 0o644)
	old := os.Getenv("VERIF_SCRATCH")
	os.Setenv("VERIF_SCRATCH", dir)
	defer os.Setenv("VERIF_SCRATCH", old)
	g, out, err := DumpGraph(context.Background(), dir, "Tiny", "Tiny.cfg", 2*time.Minute, "-workers", "1")
	if err != nil {
		t.Fatalf("%v\n%s", err, out)
	}
	if len(g.States) != 3 || len(g.Edges) != 4 {
		t.Fatalf("states=%d edges=%d\n%s", len(g.States), len(g.Edges), out)
	}
	init := g.Initials()
	if len(init) != 1 {
		t.Fatalf("initial states: %v", init)
	}
	s0 := g.States[init[0]]
	wantR := rec(str("a"), str("s\"t"), str("b"), tla.MakeSet(), str("f"), rec(num(2), num(1)))
	if !s0.Vars["x"].Equal(num(0)) || !s0.Vars["q"].Equal(tla.MakeTuple()) || !s0.Vars["r"].Equal(wantR) {
		t.Fatalf("initial state parsed as %v", s0.Vars)
	}
	// walk Inc, Inc, Reset back to the initial state; Skip from x=1
	succ := g.Succ()
	step := func(from, action string) string {
		for _, e := range succ[from] {
			if e.Action == action {
				return e.To
			}
		}
		t.Fatalf("no %s edge from %s (%v)", action, g.States[from].Label, succ[from])
		return ""
	}
	s1 := step(init[0], "Inc")
	if !g.States[s1].Vars["q"].Equal(tla.MakeTuple(num(0))) {
		t.Fatalf("q after Inc: %v", g.States[s1].Vars["q"])
	}
	s2 := step(s1, "Inc")
	if !g.States[s2].Vars["r"].ApplyFunction(str("b")).Equal(tla.MakeSet(num(0), num(1))) {
		t.Fatalf("r.b after two Inc: %v", g.States[s2].Vars["r"])
	}
	if step(s2, "Reset") != init[0] || step(s1, "Skip") != init[0] {
		t.Fatalf("Reset/Skip do not lead back to the initial state")
	}
	if g.States[s1].Initial || g.States[s2].Initial {
		t.Fatalf("non-initial state marked initial")
	}
	if !strings.Contains(s0.Key(), `/\ x = 0`) {
		t.Fatalf("key %q", s0.Key())
	}
}

func TestRunnerRestartsAfterErrors(t *testing.T) {
	haveJava(t)
	exprs := []string{
		`{1,2} \cup {3}`, // 0
		`2147483647 + 1`, // 1 overflow
		`1 \div 0`,       // 2
		`Head(<<>>)`,     // 3
		`<<1,2>>[3]`,     // 4
		`1 = "a"`,        // 5 type
		`SUBSET {"aaaaaaaaaaaa","bbbbbbbbbbb","ccccccccc","} >> ]"}`, // 6 wrapped output
		`Assert(FALSE, "m")`,      // 7
		`CHOOSE x \in {1}: x > 1`, // 8
		`[a |-> 1].b`,             // 9
		`(-3) \div 2`,             // 10 = -2
		`(-2147483647 - 1)`,       // 11
		`Seq({1})`,                // 12 symbolic
		`1 +`,                     // 13 parse error
		`(1 :> 5) = <<5>>`,        // 14 TRUE
		`Cardinality(Nat)`,        // 15
	}
	r := &Runner{Parallel: 4, ChunkSize: 5}
	res, err := r.Eval(context.Background(), exprs)
	if err != nil {
		t.Fatal(err)
	}
	// the REPL mode must give the same verdicts
	r2 := &Runner{Parallel: 2}
	res2, err := r2.EvalREPL(context.Background(), exprs)
	if err != nil {
		t.Fatal(err)
	}
	for i := range res {
		a, b := res[i], res2[i]
		if a.OK != b.OK || a.ErrClass != b.ErrClass || (a.OK && a.Value != b.Value && i != 6) {
			t.Errorf("expr %d %s: batch mode ok=%v %q %s / REPL mode ok=%v %q %s (%s)", i, a.Expr, a.OK, a.Value, a.ErrClass, b.OK, b.Value, b.ErrClass, b.ErrMsg)
		}
	}
	if v1, e1 := ParseValue(res[6].Value, ParseOptions{}); e1 == nil {
		if v2, e2 := ParseValue(res2[6].Value, ParseOptions{}); e2 != nil || !v1.Equal(v2) {
			t.Errorf("expr 6: modes differ: %v", e2)
		}
	}
	t.Logf("REPL JVM runs: %d", r2.JVMRuns.Load())
	want := map[int]string{1: "overflow", 2: "div-by-zero", 3: "out-of-domain", 4: "out-of-domain", 5: "type", 7: "assert", 8: "choose", 9: "out-of-domain", 13: "parse"}
	for i, x := range res {
		t.Logf("%2d %-40s ok=%v value=%.40q class=%s msg=%.80q", i, x.Expr, x.OK, x.Value, x.ErrClass, x.ErrMsg)
		if c, bad := want[i]; bad {
			if x.OK || x.ErrClass != c {
				t.Errorf("expr %d %s: want class %s, got ok=%v class=%s (%s)", i, x.Expr, c, x.OK, x.ErrClass, x.ErrMsg)
			}
		} else if i != 15 && !x.OK {
			t.Errorf("expr %d %s: unexpected error %s", i, x.Expr, x.ErrMsg)
		}
	}
	chk := func(i int, want tla.Value) {
		v, err := ParseValue(res[i].Value, ParseOptions{Normalize: true})
		if err != nil || !v.Equal(want) {
			t.Errorf("expr %d: value %q parsed %v err %v, want %v", i, res[i].Value, v, err, want)
		}
	}
	chk(0, tla.MakeSet(num(1), num(2), num(3)))
	chk(10, num(-2))
	chk(11, num(-2147483648))
	chk(14, tla.ModuleTRUE)
	if v, err := ParseValue(res[6].Value, ParseOptions{}); err != nil || v.AsSet().Len() != 16 {
		t.Errorf("wrapped SUBSET value: %v %v", v, err)
	}
	if _, err := ParseValue(res[12].Value, ParseOptions{}); !errors.Is(err, ErrNotEnumerable) {
		t.Errorf("Seq({1}) printed as %q, parse err %v", res[12].Value, err)
	}
	if res[15].OK {
		t.Errorf("Cardinality(Nat) evaluated to %s", res[15].Value)
	}
	t.Logf("JVM runs: %d", r.JVMRuns.Load())
}

package tlabridge

import (
	"bufio"
	"bytes"
	"context"
	"fmt"
	"os"
	"os/exec"
	"path/filepath"
	"regexp"
	"runtime"
	"strconv"
	"strings"
	"sync"
	"sync/atomic"
	"time"
)

// TLAJar is the tla2tools.jar used by the `tlc` wrapper on PATH in this sandbox.
var TLAJar = "/opt/veriftools/tla/tla2tools.jar"

// EvalResult is TLC's verdict on one expression.
type EvalResult struct {
	Expr     string `json:"expr"`
	OK       bool   `json:"ok"`
	Value    string `json:"value,omitempty"`     // TLC's printed value, wrapped lines joined by single spaces
	ErrClass string `json:"err_class,omitempty"` // see ClassifyError
	ErrMsg   string `json:"err_msg,omitempty"`   // first line(s) of TLC's message
}

// Runner evaluates constant TLA+ expressions in bulk.
type Runner struct {
	Dir       string        // scratch directory (created; one sub directory per JVM run, removed afterwards). Default: ScratchDir()
	Parallel  int           // concurrent JVMs (default: NumCPU, max 16)
	ChunkSize int           // expressions per generated module (default 400)
	Extends   []string      // default: Integers, Sequences, FiniteSets, TLC
	Defs      string        // extra definitions placed before the assumptions
	Timeout   time.Duration // per JVM run (default 120 s); the expression being evaluated gets class "timeout"
	Keep      bool          // keep scratch files
	JVMRuns   atomic.Int64  // measured: number of JVMs started
}

// ScratchDir returns a fresh directory under $VERIF_SCRATCH (or /verif/.scratch/tlabridge when unset).
func ScratchDir(prefix string) (string, error) {
	base := os.Getenv("VERIF_SCRATCH")
	if base == "" {
		base = "/verif/.scratch/tlabridge"
	}
	if err := os.MkdirAll(base, 0o755); err != nil {
		return "", err
	}
	return os.MkdirTemp(base, prefix)
}

// ClassifyError maps a TLC evaluation error message to a coarse, stable class:
// overflow | div-by-zero | undefined | out-of-domain | assert | choose | type | not-enumerable | stack-overflow | other.
func ClassifyError(msg string) string {
	m := strings.ToLower(msg)
	switch {
	case strings.Contains(m, "overflow when") || strings.Contains(m, "out of range") && strings.Contains(m, "exponent") ||
		strings.Contains(m, "size of the set is too big") || strings.Contains(m, "overflow"):
		if strings.Contains(m, "stackoverflow") || strings.Contains(m, "stack overflow") {
			return "stack-overflow"
		}
		return "overflow"
	case strings.Contains(m, "divide by zero") || strings.Contains(m, "division by zero") ||
		strings.Contains(m, "second argument to \"%\"") || strings.Contains(m, "the second argument of %") ||
		strings.Contains(m, "by zero") || strings.Contains(m, "second argument of \\div is 0") || strings.Contains(m, "second argument of % "):
		return "div-by-zero"
	case strings.Contains(m, "is undefined"):
		return "undefined"
	case strings.Contains(m, "first argument of assert evaluated to false"):
		return "assert"
	case strings.Contains(m, "choose x \\in s: p, but no element of s satisfied p") || strings.Contains(m, "attempted to compute the value of an expression of form\nchoose"):
		return "choose"
	case strings.Contains(m, "outside its domain") || strings.Contains(m, "out of bounds") || strings.Contains(m, "not in the domain") ||
		strings.Contains(m, "empty sequence") || strings.Contains(m, "outside of its domain") || strings.Contains(m, "is not in the domain") ||
		strings.Contains(m, "nonexistent field") || strings.Contains(m, "out of range"):
		return "out-of-domain"
	case strings.Contains(m, "non-enumerable") || strings.Contains(m, "not enumerable") || strings.Contains(m, "cannot enumerate") ||
		strings.Contains(m, "infinite set") || strings.Contains(m, "nonenumerable"):
		return "not-enumerable"
	case strings.Contains(m, "attempted to") || strings.Contains(m, "argument of") || strings.Contains(m, "argument to") ||
		strings.Contains(m, "was not a") || strings.Contains(m, "non-function") || strings.Contains(m, "non-record") ||
		strings.Contains(m, "should be a") || strings.Contains(m, "must be a") || strings.Contains(m, "expected"):
		return "type"
	}
	return "other"
}

var (
	reAssumeFail = regexp.MustCompile(`Evaluating assumption line (\d+), col \d+ to line \d+, col \d+ of module (\w+) failed`)
	reLineRef    = regexp.MustCompile(`line (\d+), col \d+ to line (\d+), col \d+ of module (\w+)`)
	reParseAt    = regexp.MustCompile(`(?:at|starting at) line (\d+), column \d+`)
	reResultHead = regexp.MustCompile(`^<<\s*"R",`)
)

func (r *Runner) defaults() {
	if r.Parallel <= 0 {
		r.Parallel = runtime.NumCPU()
		if r.Parallel > 16 {
			r.Parallel = 16
		}
	}
	if r.ChunkSize <= 0 {
		r.ChunkSize = 400
	}
	if r.Extends == nil {
		r.Extends = []string{"Integers", "Sequences", "FiniteSets", "TLC"}
	}
	if r.Timeout <= 0 {
		r.Timeout = 120 * time.Second
	}
}

// Eval evaluates every expression with TLC and returns one result per expression, in order.
// Expressions must be single-line constant expressions.  An error is returned only when TLC cannot be run at
// all or its output cannot be interpreted (never for an expression that merely fails to evaluate).
func (r *Runner) Eval(ctx context.Context, exprs []string) ([]EvalResult, error) {
	r.defaults()
	own := false
	if r.Dir == "" {
		d, err := ScratchDir("eval-")
		if err != nil {
			return nil, err
		}
		r.Dir, own = d, true
	}
	if err := os.MkdirAll(r.Dir, 0o755); err != nil {
		return nil, err
	}
	defer func() {
		if own {
			if !r.Keep {
				os.RemoveAll(r.Dir)
			}
			r.Dir = ""
		}
	}()
	for i, e := range exprs {
		if strings.ContainsAny(e, "\n\r") {
			return nil, fmt.Errorf("tlabridge: expression %d spans several lines", i)
		}
	}
	out := make([]EvalResult, len(exprs))
	for i := range out {
		out[i].Expr = exprs[i]
	}
	type chunk struct{ lo, hi int }
	var chunks []chunk
	for lo := 0; lo < len(exprs); lo += r.ChunkSize {
		hi := lo + r.ChunkSize
		if hi > len(exprs) {
			hi = len(exprs)
		}
		chunks = append(chunks, chunk{lo, hi})
	}
	work := make(chan chunk, len(chunks))
	for _, c := range chunks {
		work <- c
	}
	close(work)
	var wg sync.WaitGroup
	var mu sync.Mutex
	var firstErr error
	var seq atomic.Int64
	for w := 0; w < r.Parallel && w < len(chunks); w++ {
		wg.Add(1)
		go func() {
			defer wg.Done()
			for c := range work {
				mu.Lock()
				bad := firstErr != nil
				mu.Unlock()
				if bad || ctx.Err() != nil {
					return
				}
				if err := r.evalChunk(ctx, out[c.lo:c.hi], &seq); err != nil {
					mu.Lock()
					if firstErr == nil {
						firstErr = err
					}
					mu.Unlock()
					return
				}
			}
		}()
	}
	wg.Wait()
	if firstErr == nil && ctx.Err() != nil {
		firstErr = ctx.Err()
	}
	return out, firstErr
}

// evalChunk fills res (all of one chunk) by running TLC, restarting after each failing expression.
func (r *Runner) evalChunk(ctx context.Context, res []EvalResult, seq *atomic.Int64) error {
	done := make([]bool, len(res))
	start := 0
	for start < len(res) {
		// indices still to evaluate in this run: start..len-1 minus those already decided (parse errors)
		var idx []int
		for i := start; i < len(res); i++ {
			if !done[i] {
				idx = append(idx, i)
			}
		}
		if len(idx) == 0 {
			return nil
		}
		n := seq.Add(1)
		mod := fmt.Sprintf("E%d", n)
		dir := filepath.Join(r.Dir, mod)
		if err := os.MkdirAll(dir, 0o755); err != nil {
			return err
		}
		var b strings.Builder
		fmt.Fprintf(&b, "---- MODULE %s ----\nEXTENDS %s\n", mod, strings.Join(r.Extends, ", "))
		headerLines := 2
		if r.Defs != "" {
			d := strings.TrimRight(r.Defs, "\n") + "\n"
			b.WriteString(d)
			headerLines += strings.Count(d, "\n")
		}
		for k, i := range idx {
			fmt.Fprintf(&b, "ASSUME PrintT(<<\"R\", %d, %s>>)\n", k, res[i].Expr)
		}
		b.WriteString("====\n")
		if err := os.WriteFile(filepath.Join(dir, mod+".tla"), []byte(b.String()), 0o644); err != nil {
			return err
		}
		if err := os.WriteFile(filepath.Join(dir, mod+".cfg"), nil, 0o644); err != nil {
			return err
		}
		output, timedOut, err := r.runTLC(ctx, dir, mod)
		if err != nil {
			return err
		}
		lineToK := func(line int) int { return line - headerLines - 1 }

		printed, perr := parseResults(output)
		if perr != nil {
			return fmt.Errorf("tlabridge: %v\n--- TLC output ---\n%s", perr, tail(output, 3000))
		}
		for k, val := range printed {
			if k < 0 || k >= len(idx) {
				return fmt.Errorf("tlabridge: TLC printed unknown result index %d", k)
			}
			res[idx[k]].OK, res[idx[k]].Value = true, val
			done[idx[k]] = true
		}
		next := len(printed) // results are printed in order, so the first one missing is where TLC stopped
		for k := 0; k < next; k++ {
			if _, ok := printed[k]; !ok {
				return fmt.Errorf("tlabridge: TLC results not contiguous (missing %d of %d)\n%s", k, next, tail(output, 2000))
			}
		}
		if !r.Keep {
			defer os.RemoveAll(dir)
		}
		switch {
		case next == len(idx) && !timedOut:
			// everything evaluated; TLC then complains about the missing behaviour spec, which is expected
			return nil
		case timedOut:
			if next >= len(idx) {
				return nil
			}
			res[idx[next]].ErrClass, res[idx[next]].ErrMsg = "timeout", fmt.Sprintf("TLC did not finish within %v", r.Timeout)
			done[idx[next]] = true
			start = idx[next] + 1
		default:
			if m := reAssumeFail.FindStringSubmatch(output); m != nil && m[2] == mod {
				line, _ := strconv.Atoi(m[1])
				k := lineToK(line)
				if k != next {
					return fmt.Errorf("tlabridge: failing assumption %d but %d results printed\n%s", k, next, tail(output, 2000))
				}
				msg := errorMessage(output)
				res[idx[k]].ErrMsg, res[idx[k]].ErrClass = msg, ClassifyError(msg)
				done[idx[k]] = true
				start = idx[k] + 1
				continue
			}
			// an error TLC does not attribute to an assumption by that phrase (e.g. StackOverflowError,
			// "TLC threw an unexpected exception"): it happened while evaluating assumption `next`
			sanyFailed := strings.Contains(output, "Parsing or semantic analysis failed") || strings.Contains(output, "***Parse Error***")
			if !sanyFailed && (next > 0 || strings.Contains(output, "Starting...")) {
				msg := errorMessage(output)
				if msg == "" {
					return fmt.Errorf("tlabridge: TLC stopped without an error message\n%s", tail(output, 3000))
				}
				res[idx[next]].ErrMsg, res[idx[next]].ErrClass = msg, ClassifyError(msg)
				done[idx[next]] = true
				start = idx[next] + 1
				continue
			}
			// nothing was evaluated: SANY rejected the module.  Attribute to the expressions whose lines are named.
			hit := false
			var lines []int
			for _, m := range reLineRef.FindAllStringSubmatch(output, -1) {
				if m[3] == mod {
					line, _ := strconv.Atoi(m[1])
					lines = append(lines, line)
				}
			}
			for _, m := range reParseAt.FindAllStringSubmatch(output, -1) {
				line, _ := strconv.Atoi(m[1])
				lines = append(lines, line)
			}
			for _, line := range lines {
				k := lineToK(line)
				if k >= 0 && k < len(idx) && !done[idx[k]] {
					res[idx[k]].ErrClass, res[idx[k]].ErrMsg = "parse", sanyMessage(output)
					done[idx[k]] = true
					hit = true
				}
			}
			if !hit {
				return fmt.Errorf("tlabridge: TLC failed before evaluating anything\n%s", tail(output, 3000))
			}
		}
	}
	return nil
}

func (r *Runner) runTLC(ctx context.Context, dir, mod string) (string, bool, error) {
	r.JVMRuns.Add(1)
	cctx, cancel := context.WithTimeout(ctx, r.Timeout)
	defer cancel()
	cmd := exec.CommandContext(cctx, "java", "-XX:+UseSerialGC", "-XX:TieredStopAtLevel=1", "-Xss64m", "-Xmx1g",
		"-Djava.io.tmpdir="+dir, "-cp", TLAJar, "tlc2.TLC", "-config", mod+".cfg", "-workers", "1",
		"-metadir", filepath.Join(dir, "meta"), mod+".tla")
	cmd.Dir = dir
	var buf bytes.Buffer
	cmd.Stdout, cmd.Stderr = &buf, &buf
	cmd.WaitDelay = 5 * time.Second
	err := cmd.Run()
	if cctx.Err() == context.DeadlineExceeded && ctx.Err() == nil {
		return buf.String(), true, nil
	}
	if ctx.Err() != nil {
		return "", false, ctx.Err()
	}
	if err != nil {
		if _, ok := err.(*exec.ExitError); !ok {
			return "", false, fmt.Errorf("tlabridge: cannot run java/TLC: %w", err)
		}
	}
	return buf.String(), false, nil
}

// parseResults extracts the printed <<"R", k, value>> tuples (joining wrapped lines until brackets balance).
func parseResults(output string) (map[int]string, error) {
	res := map[int]string{}
	sc := bufio.NewScanner(strings.NewReader(output))
	sc.Buffer(make([]byte, 1<<20), 1<<28)
	var cur []string
	depth, inStr := 0, false
	flush := func() error {
		txt := strings.Join(cur, " ")
		cur = nil
		k, val, err := splitResult(txt)
		if err != nil {
			return err
		}
		res[k] = val
		return nil
	}
	for sc.Scan() {
		line := sc.Text()
		if cur == nil {
			if !reResultHead.MatchString(line) {
				continue
			}
			depth, inStr = 0, false
		}
		cur = append(cur, strings.TrimSpace(line))
		depth, inStr = scanDepth(line, depth, inStr)
		if depth == 0 && !inStr {
			if err := flush(); err != nil {
				return nil, err
			}
		} else if depth < 0 {
			return nil, fmt.Errorf("unbalanced result text %q", strings.Join(cur, " "))
		}
	}
	if cur != nil {
		// truncated last result (TLC killed while printing): ignore it
		cur = nil
	}
	return res, sc.Err()
}

// scanDepth tracks bracket depth over <<, >>, {, }, [, ], (, ) outside string literals.
func scanDepth(line string, depth int, inStr bool) (int, bool) {
	for i := 0; i < len(line); i++ {
		c := line[i]
		if inStr {
			if c == '\\' {
				i++
			} else if c == '"' {
				inStr = false
			}
			continue
		}
		switch c {
		case '"':
			inStr = true
		case '{', '[', '(':
			depth++
		case '}', ']', ')':
			depth--
		case '<':
			if i+1 < len(line) && line[i+1] == '<' {
				depth++
				i++
			}
		case '>':
			if i+1 < len(line) && line[i+1] == '>' {
				depth--
				i++
			}
		}
	}
	return depth, inStr
}

func splitResult(txt string) (int, string, error) {
	m := regexp.MustCompile(`^<<\s*"R",\s*(\d+),\s*`).FindStringSubmatch(txt)
	if m == nil || !strings.HasSuffix(txt, ">>") {
		return 0, "", fmt.Errorf("malformed result %q", txt)
	}
	k, _ := strconv.Atoi(m[1])
	return k, strings.TrimSpace(txt[len(m[0]) : len(txt)-2]), nil
}

// errorSection returns TLC's output from the first "Error:" line on (without the trailing "Finished in").
func errorSection(output string) string {
	i := strings.Index(output, "Error:")
	if i < 0 {
		if j := strings.Index(output, "Exception"); j >= 0 {
			i = strings.LastIndex(output[:j], "\n") + 1
		} else {
			return ""
		}
	}
	s := output[i:]
	if j := strings.Index(s, "\nFinished in"); j >= 0 {
		s = s[:j]
	}
	return strings.TrimSpace(s)
}

// errorMessage returns the message lines that follow "Error: Evaluating assumption ... failed." (or the error
// section itself when it has another shape), limited to 3 lines.
func errorMessage(output string) string {
	s := errorSection(output)
	if s == "" {
		return ""
	}
	lines := strings.Split(s, "\n")
	if reAssumeFail.MatchString(lines[0]) && len(lines) > 1 {
		lines = lines[1:]
	}
	if len(lines) > 3 {
		lines = lines[:3]
	}
	return strings.Join(lines, "\n")
}

func firstLines(s string, n int) string {
	l := strings.Split(s, "\n")
	if len(l) > n {
		l = l[:n]
	}
	return strings.Join(l, "\n")
}

func tail(s string, n int) string {
	if len(s) > n {
		return "..." + s[len(s)-n:]
	}
	return s
}

// RunTool runs one of the TLA+ tools (class e.g. "tlc2.TLC", "pcal.trans") in dir and returns its combined output.
func RunTool(ctx context.Context, dir string, timeout time.Duration, class string, args ...string) (string, error) {
	cctx, cancel := context.WithTimeout(ctx, timeout)
	defer cancel()
	full := append([]string{"-XX:+UseParallelGC", "-Djava.io.tmpdir=" + dir, "-cp", TLAJar, class}, args...)
	cmd := exec.CommandContext(cctx, "java", full...)
	cmd.Dir = dir
	var buf bytes.Buffer
	cmd.Stdout, cmd.Stderr = &buf, &buf
	cmd.WaitDelay = 5 * time.Second
	err := cmd.Run()
	if cctx.Err() != nil {
		return buf.String(), fmt.Errorf("tlabridge: %s timed out after %v", class, timeout)
	}
	if err != nil {
		if _, ok := err.(*exec.ExitError); ok {
			return buf.String(), nil // TLC exits non-zero for violations etc.; the caller reads the output
		}
		return buf.String(), err
	}
	return buf.String(), nil
}

// DumpGraph model-checks module `module` (files module.tla / cfg in dir, which is not modified: the run happens
// in a scratch copy of dir's *.tla and the cfg) with `-dump dot,actionlabels` and returns the parsed state graph
// together with TLC's output.
func DumpGraph(ctx context.Context, specDir, module, cfg string, timeout time.Duration, extraArgs ...string) (*Graph, string, error) {
	scratch, err := ScratchDir("dump-")
	if err != nil {
		return nil, "", err
	}
	defer os.RemoveAll(scratch)
	ents, err := os.ReadDir(specDir)
	if err != nil {
		return nil, "", err
	}
	for _, e := range ents {
		if e.IsDir() || !(strings.HasSuffix(e.Name(), ".tla") || e.Name() == filepath.Base(cfg)) {
			continue
		}
		b, err := os.ReadFile(filepath.Join(specDir, e.Name()))
		if err != nil {
			return nil, "", err
		}
		if err := os.WriteFile(filepath.Join(scratch, e.Name()), b, 0o644); err != nil {
			return nil, "", err
		}
	}
	dot := filepath.Join(scratch, "graph.dot")
	args := append([]string{"-config", filepath.Base(cfg), "-metadir", filepath.Join(scratch, "meta"),
		"-dump", "dot,actionlabels", dot}, extraArgs...)
	args = append(args, module+".tla")
	out, err := RunTool(ctx, scratch, timeout, "tlc2.TLC", args...)
	if err != nil {
		return nil, out, err
	}
	g, err := ParseDot(dot)
	if err != nil {
		return nil, out, fmt.Errorf("%w\n--- TLC output ---\n%s", err, tail(out, 3000))
	}
	return g, out, nil
}

// sanyMessage extracts SANY's complaint (parse or semantic error) from TLC's output.
func sanyMessage(output string) string {
	for _, marker := range []string{"***Parse Error***", "*** Errors:", "Semantic errors:"} {
		if i := strings.Index(output, marker); i >= 0 {
			return firstLines(strings.TrimSpace(output[i:]), 3)
		}
	}
	return firstLines(errorSection(output), 3)
}

// ---- REPL mode ------------------------------------------------------------------------------------------------------
//
// EvalREPL evaluates the expressions with TLC's own read-eval-print loop (tlc2.REPL, part of tla2tools.jar): the
// same evaluator as model checking, but an evaluation error does not end the JVM, so a batch with thousands of
// failing expressions costs ~50 ms each instead of one JVM start each.  Expressions are fed one at a time and the
// answer is read up to the next prompt, so every answer is attributed to its expression; a JVM that does not answer
// within Timeout is killed, the expression gets class "timeout" and a new JVM continues with the next one.
// The REPL's module EXTENDS Reals, Sequences, Bags, FiniteSets, TLC, Randomization (a superset of Eval's default).
func (r *Runner) EvalREPL(ctx context.Context, exprs []string) ([]EvalResult, error) {
	r.defaults()
	own := false
	if r.Dir == "" {
		d, err := ScratchDir("repl-")
		if err != nil {
			return nil, err
		}
		r.Dir, own = d, true
	}
	if err := os.MkdirAll(r.Dir, 0o755); err != nil {
		return nil, err
	}
	defer func() {
		if own {
			if !r.Keep {
				os.RemoveAll(r.Dir)
			}
			r.Dir = ""
		}
	}()
	for i, e := range exprs {
		if strings.ContainsAny(e, "\n\r") {
			return nil, fmt.Errorf("tlabridge: expression %d spans several lines", i)
		}
	}
	out := make([]EvalResult, len(exprs))
	var next atomic.Int64
	var wg sync.WaitGroup
	var mu sync.Mutex
	var firstErr error
	fail := func(err error) {
		mu.Lock()
		if firstErr == nil {
			firstErr = err
		}
		mu.Unlock()
	}
	failed := func() bool {
		mu.Lock()
		defer mu.Unlock()
		return firstErr != nil
	}
	for w := 0; w < r.Parallel && w < len(exprs); w++ {
		wg.Add(1)
		go func(w int) {
			defer wg.Done()
			var p *replProc
			defer func() {
				if p != nil {
					p.close()
				}
			}()
			for {
				i := int(next.Add(1) - 1)
				if i >= len(exprs) || failed() || ctx.Err() != nil {
					return
				}
				out[i].Expr = exprs[i]
				for attempt := 0; ; attempt++ {
					if p == nil {
						var err error
						if p, err = r.startREPL(ctx, w); err != nil {
							fail(err)
							return
						}
					}
					ans, err := p.ask(exprs[i], r.Timeout)
					if err == errREPLTimeout {
						p.close()
						p = nil
						out[i].ErrClass, out[i].ErrMsg = "timeout", fmt.Sprintf("TLC did not answer within %v", r.Timeout)
						break
					}
					if err != nil {
						// the JVM died (e.g. StackOverflowError in the evaluator kills the REPL thread): once is
						// attributed to the expression, a JVM that cannot even start is fatal
						p.close()
						p = nil
						if attempt == 0 && ctx.Err() == nil {
							out[i].ErrClass, out[i].ErrMsg = "other", "TLC REPL terminated: "+err.Error()
							break
						}
						fail(err)
						return
					}
					parseREPLAnswer(&out[i], ans)
					break
				}
			}
		}(w)
	}
	wg.Wait()
	if firstErr == nil && ctx.Err() != nil {
		firstErr = ctx.Err()
	}
	return out, firstErr
}

var errREPLTimeout = fmt.Errorf("tlabridge: REPL timeout")

const replPrompt = "(tla+) "

type replProc struct {
	cmd   *exec.Cmd
	stdin interface {
		Write([]byte) (int, error)
		Close() error
	}
	data chan []byte
	buf  []byte
	dir  string
	keep bool
}

func (r *Runner) startREPL(ctx context.Context, w int) (*replProc, error) {
	r.JVMRuns.Add(1)
	dir, err := os.MkdirTemp(r.Dir, fmt.Sprintf("repl%d-", w))
	if err != nil {
		return nil, err
	}
	cmd := exec.CommandContext(ctx, "java", "-XX:+UseSerialGC", "-XX:TieredStopAtLevel=1", "-Xss64m", "-Xmx1g",
		"-Djava.io.tmpdir="+dir, "-Dorg.jline.terminal.dumb=true", "-cp", TLAJar, "tlc2.REPL")
	cmd.Dir = dir
	stdin, err := cmd.StdinPipe()
	if err != nil {
		return nil, err
	}
	stdout, err := cmd.StdoutPipe()
	if err != nil {
		return nil, err
	}
	cmd.Stderr = cmd.Stdout
	if err := cmd.Start(); err != nil {
		return nil, fmt.Errorf("tlabridge: cannot start the TLC REPL: %w", err)
	}
	p := &replProc{cmd: cmd, stdin: stdin, data: make(chan []byte, 64), dir: dir, keep: r.Keep}
	go func() {
		for {
			b := make([]byte, 1<<16)
			n, err := stdout.Read(b)
			if n > 0 {
				p.data <- b[:n]
			}
			if err != nil {
				close(p.data)
				return
			}
		}
	}()
	// wait for the first prompt
	if _, err := p.readToPrompt(2 * time.Minute); err != nil {
		p.close()
		return nil, fmt.Errorf("tlabridge: the TLC REPL did not start: %v", err)
	}
	return p, nil
}

func (p *replProc) readToPrompt(timeout time.Duration) (string, error) {
	deadline := time.NewTimer(timeout)
	defer deadline.Stop()
	for {
		if bytes.HasSuffix(p.buf, []byte(replPrompt)) && (len(p.buf) == len(replPrompt) || p.buf[len(p.buf)-len(replPrompt)-1] == '\n') {
			ans := string(p.buf[:len(p.buf)-len(replPrompt)])
			p.buf = nil
			return ans, nil
		}
		select {
		case b, ok := <-p.data:
			if !ok {
				return "", fmt.Errorf("REPL closed its output; last output: %s", tail(string(p.buf), 400))
			}
			p.buf = append(p.buf, b...)
		case <-deadline.C:
			return "", errREPLTimeout
		}
	}
}

func (p *replProc) ask(expr string, timeout time.Duration) (string, error) {
	if _, err := p.stdin.Write([]byte(expr + "\n")); err != nil {
		return "", err
	}
	return p.readToPrompt(timeout)
}

func (p *replProc) close() {
	p.stdin.Close()
	if p.cmd.Process != nil {
		p.cmd.Process.Kill()
	}
	go func() {
		for range p.data {
		}
	}()
	p.cmd.Wait()
	if !p.keep {
		os.RemoveAll(p.dir)
	}
}

func parseREPLAnswer(res *EvalResult, ans string) {
	ans = strings.TrimRight(ans, "\n")
	if i := strings.Index(ans, "Error evaluating expression:"); i >= 0 {
		rest := ans[i:]
		msg := ""
		if j := strings.IndexByte(rest, '\n'); j >= 0 {
			msg = rest[j+1:]
		}
		msg = strings.TrimPrefix(strings.TrimSpace(msg), "tlc2.tool.EvalException: ")
		if sany := strings.TrimSpace(ans[:i]); msg == "" && sany != "" {
			msg = sany
		}
		res.ErrMsg = firstLines(msg, 3)
		res.ErrClass = ClassifyError(msg)
		if msg == "" || strings.Contains(ans, "***Parse Error***") || strings.Contains(ans, "Semantic errors") || strings.Contains(ans, "Could not parse module") ||
			strings.Contains(ans, "Unknown operator") {
			res.ErrClass = "parse"
			if res.ErrMsg == "" {
				res.ErrMsg = "the REPL could not parse or analyse the expression"
			}
		}
		return
	}
	res.OK, res.Value = true, strings.TrimSpace(strings.ReplaceAll(ans, "\n", " "))
}

package tlabridge

import (
	"fmt"
	"sort"
	"strings"

	"github.com/DistCompiler/pgo/distsys/tla"
)

var reservedWords = map[string]bool{}

func init() {
	for _, w := range strings.Fields(`ASSUME ASSUMPTION AXIOM CASE CHOOSE CONSTANT CONSTANTS DOMAIN ELSE ENABLED EXCEPT
		EXTENDS IF IN INSTANCE LET LOCAL MODULE OTHER SF_ SUBSET THEN THEOREM UNCHANGED UNION VARIABLE VARIABLES WF_ WITH
		TRUE FALSE BOOLEAN STRING LAMBDA PROOF BY DEF DEFS OBVIOUS OMITTED QED HAVE TAKE PICK SUFFICES NEW STATE ACTION
		TEMPORAL WITNESS HIDE USE DEFINE PROVE ONLY LEMMA PROPOSITION COROLLARY RECURSIVE`) {
		reservedWords[w] = true
	}
}

func isRecordFieldName(s string) bool {
	if s == "" || reservedWords[s] || strings.HasPrefix(s, "WF_") || strings.HasPrefix(s, "SF_") {
		return false
	}
	letter := false
	for i := 0; i < len(s); i++ {
		c := s[i]
		if !isIdentChar(c) {
			return false
		}
		if c != '_' && !(c >= '0' && c <= '9') {
			letter = true
		}
	}
	return letter
}

// QuoteString renders a Go string as a TLA+ string literal.  TLA+ strings have the escapes \" \\ \t \n \f \r only;
// any other non-printable-ASCII byte cannot be written and yields an error.
func QuoteString(s string) (string, error) {
	var b strings.Builder
	b.WriteByte('"')
	for i := 0; i < len(s); i++ {
		c := s[i]
		switch c {
		case '"':
			b.WriteString(`\"`)
		case '\\':
			b.WriteString(`\\`)
		case '\n':
			b.WriteString(`\n`)
		case '\t':
			b.WriteString(`\t`)
		case '\r':
			b.WriteString(`\r`)
		case '\f':
			b.WriteString(`\f`)
		default:
			if c < 0x20 || c > 0x7e {
				return "", fmt.Errorf("tlabridge: byte 0x%02x of %q cannot be written in a TLA+ string literal", c, s)
			}
			b.WriteByte(c)
		}
	}
	b.WriteByte('"')
	return b.String(), nil
}

// ToTLA renders v as TLA+ source text that TLC evaluates to v (module TLC needed for :> and @@; Integers for
// negative numbers).  The text is deterministic: set members and function pairs are sorted by their rendering, so
// two Equal values give the same text (Canon = ToTLA of the normalised value).  Negative integers are
// parenthesised (unary minus binds weaker than most operators) and MinInt32 is written (-2147483647 - 1) because
// the literal 2147483648 does not fit TLC's integers.  The empty function is written <<>> (they are the same
// TLA+ value); a function all of whose keys are identifier-like strings is written as a record.
func ToTLA(v tla.Value) (string, error) {
	var b strings.Builder
	if err := toTLA(&b, v.StripVClock()); err != nil {
		return "", err
	}
	return b.String(), nil
}

// MustTLA is ToTLA panicking on unrepresentable strings.
func MustTLA(v tla.Value) string {
	s, err := ToTLA(v)
	if err != nil {
		panic(err)
	}
	return s
}

// Canon is the canonical text of v up to TLC's identification of functions over 1..n with tuples.
func Canon(v tla.Value) string { return MustTLA(Normalize(v)) }

func toTLA(b *strings.Builder, v tla.Value) error {
	v = v.StripVClock()
	switch {
	case v.IsBool():
		if v.AsBool() {
			b.WriteString("TRUE")
		} else {
			b.WriteString("FALSE")
		}
	case v.IsNumber():
		n := v.AsNumber()
		switch {
		case n == -2147483648:
			b.WriteString("(-2147483647 - 1)")
		case n < 0:
			fmt.Fprintf(b, "(%d)", n)
		default:
			fmt.Fprintf(b, "%d", n)
		}
	case v.IsString():
		q, err := QuoteString(v.AsString())
		if err != nil {
			return err
		}
		b.WriteString(q)
	case v.IsSet():
		var parts []string
		it := v.AsSet().Iterator()
		for !it.Done() {
			k, _, _ := it.Next()
			s, err := ToTLA(k)
			if err != nil {
				return err
			}
			parts = append(parts, s)
		}
		sort.Strings(parts)
		b.WriteString("{" + strings.Join(parts, ", ") + "}")
	case v.IsTuple():
		b.WriteString("<<")
		it := v.AsTuple().Iterator()
		first := true
		for !it.Done() {
			_, e := it.Next()
			if !first {
				b.WriteString(", ")
			}
			first = false
			if err := toTLA(b, e); err != nil {
				return err
			}
		}
		b.WriteString(">>")
	case v.IsFunction():
		fn := v.AsFunction()
		if fn.Len() == 0 {
			b.WriteString("<<>>")
			return nil
		}
		type pair struct{ k, v string }
		var pairs []pair
		record := true
		it := fn.Iterator()
		for !it.Done() {
			k, val, _ := it.Next()
			ks, err := ToTLA(k)
			if err != nil {
				return err
			}
			vs, err := ToTLA(val)
			if err != nil {
				return err
			}
			if !(k.IsString() && isRecordFieldName(k.AsString())) {
				record = false
			}
			pairs = append(pairs, pair{ks, vs})
		}
		sort.Slice(pairs, func(i, j int) bool { return pairs[i].k < pairs[j].k })
		if record {
			b.WriteString("[")
			for i, p := range pairs {
				if i > 0 {
					b.WriteString(", ")
				}
				b.WriteString(p.k[1:len(p.k)-1] + " |-> " + p.v)
			}
			b.WriteString("]")
		} else {
			b.WriteString("(")
			for i, p := range pairs {
				if i > 0 {
					b.WriteString(" @@ ")
				}
				b.WriteString(p.k + " :> " + p.v)
			}
			b.WriteString(")")
		}
	default:
		return fmt.Errorf("tlabridge: cannot render %v (nil / defaultInitValue) as TLA+", v)
	}
	return nil
}

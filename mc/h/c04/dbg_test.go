package c04

import (
	"encoding/json"
	"fmt"
	"testing"
	"time"

	"verif/mc/hres"
)

func TestTLCOnly(t *testing.T) {
	cov := map[string]any{}
	tlcValidate(hres.Env{Workers: 8, Deadline: time.Now().Add(20 * time.Minute)}, cov)
	b, _ := json.MarshalIndent(cov, "", " ")
	fmt.Println(string(b))
}

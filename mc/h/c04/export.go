package c04

import "github.com/DistCompiler/pgo/distsys"

// export.go: what other harnesses (C18: trace replay of procedure programs) need from the program family of C04.

// Enumerate calls emit for every program of the grammar with at most maxProcs procedures and maxSize features.
func Enumerate(maxProcs, maxSize int, emit func(*Prog)) {
	enumerate(enumCfg{maxProcs: maxProcs, maxSize: maxSize}, emit)
}

// Steps returns the number of labels the program executes according to the reference interpreter, or -1 when the
// program is not a PlusCal behaviour (ill-typed, too long).
func Steps(pr *Prog) int {
	r := NewRef(pr)
	for n := 0; ; n++ {
		done, err := r.Step()
		if err != nil || n > maxSteps {
			return -1
		}
		if done {
			return n
		}
	}
}

// Compile builds the generator-convention tables of pr.  abortAt >= 0: that attempt fails once after its last
// statement (before its first one if early).
func Compile(pr *Prog, abortAt int, early bool) distsys.MPCalArchetype {
	return compile(pr, &runtime{abortAt: abortAt, abortEarly: early})
}

// RefParamNames lists the logged names ("P0.x") of the procedures' ref parameters.
func (pr *Prog) RefParamNames() map[string]bool {
	out := map[string]bool{}
	for i, p := range pr.Procs {
		if p.X == "ref" {
			out[procName(i)+".x"] = true
		}
	}
	return out
}

// EInit / GInit: initial values of the archetype's ref parameter e and local g.
const (
	EInit = eInit
	GInit = gInit
)

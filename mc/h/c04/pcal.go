package c04

import (
	"fmt"
	"os"
	"os/exec"
	"path/filepath"
	"sort"
	"strconv"
	"strings"
	"sync"
	"time"

	"verif/mc/hres"
)

// pcal.go (thorough tier): the reference interpreter of ref.go is cross-checked against the PlusCal translator
// and TLC.  A representative sample of the enumerated programs is rendered as a uniprocess PlusCal algorithm
// (ref parameters are expanded: a procedure with `ref x` becomes a procedure that uses the global it is bound
// to), translated with `pcal -nocfg`, model-checked with `tlc -dump`; the algorithm is deterministic, so the
// dump is its single behaviour, and *every* state of it (pc, every stack frame with its saved values, every
// variable) is compared with the corresponding state of the reference interpreter.
//
// Two things differ between PlusCal and the generated Go and are normalised (neither is observable by a program):
//   * PlusCal gives a procedure variable with a declared initial value that value already in Init; the Go runtime
//     creates procedure variables on the first call.  The reference is run with pluscalInit=true here.
//   * PlusCal frames carry a `procedure` field.

// specialise decides, for every procedure with a ref parameter, the global ("g" or "e") it is bound to.
// ok=false: the program uses refs to procedure variables, or binds one procedure to two different globals.
func specialise(pr *Prog) (target map[int]string, ok bool) {
	target = map[int]string{}
	bad := false
	visit := func(scope int, lab Label) (changed bool) {
		t := lab.T
		if t.K != "call" && t.K != "tail" {
			return false
		}
		for _, a := range t.Args {
			if !a.Ref {
				continue
			}
			var tg string
			if scope < 0 {
				tg = a.V // g or e
			} else {
				isRef, _ := pr.hasVar(scope, a.V)
				if !isRef {
					bad = true // ref to a procedure variable: no PlusCal counterpart
					return false
				}
				tg = target[scope]
				if tg == "" {
					continue // the caller's own binding is not known yet
				}
			}
			if old, ok := target[t.P]; ok && old != tg {
				bad = true
				return false
			}
			if _, ok := target[t.P]; !ok {
				target[t.P] = tg
				changed = true
			}
		}
		return changed
	}
	for again := true; again && !bad; {
		again = false
		for _, l := range pr.Main {
			if visit(-1, l) {
				again = true
			}
		}
		for i, p := range pr.Procs {
			for _, l := range p.Labels {
				if visit(i, l) {
					again = true
				}
			}
		}
	}
	if bad {
		return nil, false
	}
	for i, p := range pr.Procs {
		if p.X == "ref" {
			if _, ok := target[i]; !ok {
				return nil, false
			}
		}
	}
	return target, true
}

func renderPlusCal(name string, pr *Prog, target map[int]string) string {
	var b strings.Builder
	fmt.Fprintf(&b, "---- MODULE %s ----\nEXTENDS Integers, Sequences, TLC\nCONSTANT defaultInitValue\n(* --algorithm %s {\nvariables g = %d, e = %d;\n", name, name, gInit, eInit)
	vname := func(scope int, v string) string {
		if scope < 0 {
			return v
		}
		if v == "x" && pr.Procs[scope].X == "ref" {
			return target[scope]
		}
		return fmt.Sprintf("%s%d", v, scope)
	}
	expr := func(scope int, e Expr) string {
		switch e.K {
		case "c":
			return fmt.Sprint(e.N)
		case "N":
			return fmt.Sprint(pr.N)
		case "v":
			return vname(scope, e.V)
		case "v+1":
			return vname(scope, e.V) + " + 1"
		case "v-1":
			return vname(scope, e.V) + " - 1"
		}
		return "?"
	}
	lbl := func(scope, l int) string {
		if scope < 0 {
			return fmt.Sprintf("m%d", l)
		}
		return fmt.Sprintf("P%d_l%d", scope, l)
	}
	term := func(scope int, t Term, last bool) string {
		call := func() string {
			var as []string
			for _, a := range t.Args {
				if a.Ref {
					continue
				}
				as = append(as, expr(scope, a.E))
			}
			return fmt.Sprintf("call P%d(%s)", t.P, strings.Join(as, ", "))
		}
		switch t.K {
		case "goto":
			return "goto " + lbl(scope, t.L) + ";"
		case "ret":
			return "return;"
		case "done":
			return "skip;"
		case "call":
			if scope < 0 {
				return call() + ";" // followed by the next label
			}
			return fmt.Sprintf("if (%s > 0) { %s; goto %s; } else { goto %s; };", vname(scope, "n"), call(), lbl(scope, t.L), lbl(scope, t.L))
		case "tail":
			return fmt.Sprintf("if (%s > 0) { %s; return; } else { return; };", vname(scope, "n"), call())
		}
		return "?"
	}
	for i, p := range pr.Procs {
		ps := []string{vname(i, "n")}
		if p.X == "val" {
			ps = append(ps, vname(i, "x"))
		}
		fmt.Fprintf(&b, "procedure P%d(%s)\n", i, strings.Join(ps, ", "))
		if p.Y == "default" {
			fmt.Fprintf(&b, "  variables %s;\n", vname(i, "y"))
		} else if p.Y == "const" {
			fmt.Fprintf(&b, "  variables %s = %d;\n", vname(i, "y"), p.YInit)
		}
		b.WriteString("{\n")
		for l, lab := range p.Labels {
			fmt.Fprintf(&b, "  %s: ", lbl(i, l))
			for _, a := range lab.As {
				fmt.Fprintf(&b, "%s := %s; ", vname(i, a.T), expr(i, a.E))
			}
			b.WriteString(term(i, lab.T, l == len(p.Labels)-1) + "\n")
		}
		b.WriteString("}\n")
	}
	b.WriteString("{\n")
	for l, lab := range pr.Main {
		fmt.Fprintf(&b, "  %s: %s\n", lbl(-1, l), term(-1, lab.T, l == len(pr.Main)-1))
	}
	b.WriteString("}\n} *)\n====\n")
	return b.String()
}

// ---- TLC value parser (just what the dumps of these algorithms contain)

type tval struct {
	kind string // int | str | id | seq | rec
	n    int
	s    string
	seq  []tval
	rec  map[string]tval
}

type tparser struct {
	s string
	i int
}

func (p *tparser) ws() {
	for p.i < len(p.s) && (p.s[p.i] == ' ' || p.s[p.i] == '\n' || p.s[p.i] == '\t' || p.s[p.i] == '\r') {
		p.i++
	}
}

func (p *tparser) parse() (tval, error) {
	p.ws()
	if p.i >= len(p.s) {
		return tval{}, fmt.Errorf("unexpected end")
	}
	switch {
	case strings.HasPrefix(p.s[p.i:], "<<"):
		p.i += 2
		v := tval{kind: "seq"}
		for {
			p.ws()
			if strings.HasPrefix(p.s[p.i:], ">>") {
				p.i += 2
				return v, nil
			}
			e, err := p.parse()
			if err != nil {
				return tval{}, err
			}
			v.seq = append(v.seq, e)
			p.ws()
			if p.i < len(p.s) && p.s[p.i] == ',' {
				p.i++
			}
		}
	case p.s[p.i] == '[':
		p.i++
		v := tval{kind: "rec", rec: map[string]tval{}}
		for {
			p.ws()
			if p.s[p.i] == ']' {
				p.i++
				return v, nil
			}
			j := p.i
			for p.i < len(p.s) && (p.s[p.i] == '_' || p.s[p.i] >= '0' && p.s[p.i] <= '9' || p.s[p.i] >= 'a' && p.s[p.i] <= 'z' || p.s[p.i] >= 'A' && p.s[p.i] <= 'Z') {
				p.i++
			}
			key := p.s[j:p.i]
			p.ws()
			if !strings.HasPrefix(p.s[p.i:], "|->") {
				return tval{}, fmt.Errorf("expected |-> at %d in %q", p.i, p.s)
			}
			p.i += 3
			e, err := p.parse()
			if err != nil {
				return tval{}, err
			}
			v.rec[key] = e
			p.ws()
			if p.i < len(p.s) && p.s[p.i] == ',' {
				p.i++
			}
		}
	case p.s[p.i] == '"':
		j := p.i + 1
		k := strings.IndexByte(p.s[j:], '"')
		if k < 0 {
			return tval{}, fmt.Errorf("unterminated string")
		}
		p.i = j + k + 1
		return tval{kind: "str", s: p.s[j : j+k]}, nil
	case p.s[p.i] == '-' || p.s[p.i] >= '0' && p.s[p.i] <= '9':
		j := p.i
		p.i++
		for p.i < len(p.s) && p.s[p.i] >= '0' && p.s[p.i] <= '9' {
			p.i++
		}
		n, err := strconv.Atoi(p.s[j:p.i])
		return tval{kind: "int", n: n}, err
	default:
		j := p.i
		for p.i < len(p.s) && (p.s[p.i] == '_' || p.s[p.i] >= '0' && p.s[p.i] <= '9' || p.s[p.i] >= 'a' && p.s[p.i] <= 'z' || p.s[p.i] >= 'A' && p.s[p.i] <= 'Z') {
			p.i++
		}
		if j == p.i {
			return tval{}, fmt.Errorf("unexpected %q at %d", p.s[p.i], p.i)
		}
		return tval{kind: "id", s: p.s[j:p.i]}, nil
	}
}

func parseDump(text string) ([]map[string]tval, error) {
	var states []map[string]tval
	for _, blk := range strings.Split(text, "State ")[1:] {
		nl := strings.IndexByte(blk, '\n')
		body := blk[nl+1:]
		st := map[string]tval{}
		for _, conj := range strings.Split("\n"+body, "\n/\\ ")[1:] {
			eq := strings.Index(conj, " = ")
			if eq < 0 {
				return nil, fmt.Errorf("bad conjunct %q", conj)
			}
			p := &tparser{s: conj[eq+3:]}
			v, err := p.parse()
			if err != nil {
				return nil, fmt.Errorf("%v in %q", err, conj)
			}
			st[strings.TrimSpace(conj[:eq])] = v
		}
		states = append(states, st)
	}
	return states, nil
}

func (v tval) equalsVal(r Val) bool {
	switch r.K {
	case 0:
		return v.kind == "id" && v.s == "defaultInitValue"
	case 1:
		return v.kind == "int" && v.n == r.N
	case 2:
		return v.kind == "str" && v.s == r.S
	}
	return false
}

func (v tval) String() string {
	switch v.kind {
	case "int":
		return fmt.Sprint(v.n)
	case "str":
		return strconv.Quote(v.s)
	case "id":
		return v.s
	case "seq":
		var ps []string
		for _, e := range v.seq {
			ps = append(ps, e.String())
		}
		return "<<" + strings.Join(ps, ", ") + ">>"
	case "rec":
		ks := make([]string, 0, len(v.rec))
		for k := range v.rec {
			ks = append(ks, k)
		}
		sort.Strings(ks)
		var ps []string
		for _, k := range ks {
			ps = append(ps, k+" |-> "+v.rec[k].String())
		}
		return "[" + strings.Join(ps, ", ") + "]"
	}
	return "?"
}

// tlcName maps a reference slot to the PlusCal variable ("" = no counterpart: a ref parameter's name slot).
func tlcName(pr *Prog, slot string) string {
	switch slot {
	case "A.g":
		return "g"
	case "&A.e":
		return "e"
	case "A.e":
		return ""
	}
	var i int
	var v string
	parts := strings.SplitN(slot, ".", 2)
	fmt.Sscanf(parts[0], "P%d", &i)
	v = parts[1]
	if v == "x" && pr.Procs[i].X == "ref" {
		return ""
	}
	return fmt.Sprintf("%s%d", v, i)
}

func tlcPC(pc string) string {
	if pc == "A.Done" {
		return "Done"
	}
	parts := strings.SplitN(pc, ".", 2)
	if parts[0] == "A" {
		return parts[1]
	}
	return parts[0] + "_" + parts[1]
}

// compareWithTLC returns "" if the reference behaviour equals the TLC behaviour state by state.
func compareWithTLC(pr *Prog, states []map[string]tval, quirk bool) string {
	r := NewRef(pr)
	r.PcalTailQuirk = quirk
	for i, p := range pr.Procs { // PlusCal: declared initial values hold from Init on
		if p.Y == "const" {
			r.Slots[procName(i)+".y"] = num(p.YInit)
		}
	}
	for k := 0; ; k++ {
		if k >= len(states) {
			return fmt.Sprintf("TLC's behaviour has %d states, the reference goes on (pc %s)", len(states), r.PC)
		}
		st := states[k]
		if pc := st["pc"]; pc.kind != "str" || pc.s != tlcPC(r.PC) {
			return fmt.Sprintf("state %d: TLC pc = %v, reference pc = %s", k+1, pc, r.PC)
		}
		stack := st["stack"]
		if stack.kind != "seq" || len(stack.seq) != len(r.Stack) {
			return fmt.Sprintf("state %d: TLC stack %v, reference depth %d", k+1, stack, len(r.Stack))
		}
		for fi, f := range r.Stack {
			tf := stack.seq[fi]
			if tf.kind != "rec" || tf.rec["pc"].kind != "str" || tf.rec["pc"].s != tlcPC(f.PC) {
				return fmt.Sprintf("state %d frame %d: TLC %v, reference returns to %s", k+1, fi, tf, f.PC)
			}
			n := 0
			for slot, v := range f.Saved {
				name := tlcName(pr, slot)
				if name == "" {
					continue
				}
				n++
				if tv, ok := tf.rec[name]; !ok || !tv.equalsVal(v) {
					return fmt.Sprintf("state %d frame %d: TLC saved %s = %v, reference saved %v", k+1, fi, name, tf.rec[name], v)
				}
			}
			if len(tf.rec) != n+2 { // + pc + procedure
				return fmt.Sprintf("state %d frame %d: TLC frame %v has %d fields, reference saves %d variables", k+1, fi, tf, len(tf.rec), n)
			}
		}
		for slot, v := range r.Slots {
			name := tlcName(pr, slot)
			if name == "" {
				continue
			}
			if tv, ok := st[name]; !ok || !tv.equalsVal(v) {
				return fmt.Sprintf("state %d: TLC %s = %v, reference %s = %v", k+1, name, st[name], slot, v)
			}
		}
		done, err := r.Step()
		if err != nil {
			return "reference error: " + err.Error()
		}
		if done {
			if k != len(states)-1 {
				return fmt.Sprintf("the reference ends after %d states, TLC's behaviour has %d", k+1, len(states))
			}
			return ""
		}
	}
}

func runTool(dir string, timeout time.Duration, name string, args ...string) (string, error) {
	cmd := exec.Command(name, args...)
	cmd.Dir = dir
	done := make(chan struct{})
	var out []byte
	var err error
	go func() {
		out, err = cmd.CombinedOutput()
		close(done)
	}()
	select {
	case <-done:
		return string(out), err
	case <-time.After(timeout):
		if cmd.Process != nil {
			cmd.Process.Kill()
		}
		<-done
		return string(out), fmt.Errorf("timeout")
	}
}

// tlcValidate cross-checks the reference interpreter against pcal+TLC on a sample of the enumerated programs.
func tlcValidate(env hres.Env, cov map[string]any) {
	scratch := os.Getenv("VERIF_SCRATCH")
	if scratch == "" {
		scratch = os.TempDir()
	}
	root := filepath.Join(scratch, "c04-tlc")
	os.MkdirAll(root, 0o755)
	defer os.RemoveAll(root)
	if _, err := exec.LookPath("tlc"); err != nil {
		cov["tlc_validation"] = "skipped: tlc not on PATH"
		return
	}
	// candidates: every enumerated program that has a PlusCal counterpart and terminates on the reference
	var cands []*Prog
	total, noCounterpart, needsLabel := 0, 0, 0
	enumerate(enumCfg{maxProcs: 2, maxSize: 4}, func(p *Prog) {
		total++
		if _, ok := specialise(p); !ok {
			noCounterpart++
			return
		}
		// PlusCal needs a label between an assignment to a procedure's variable and a call of that procedure
		// (the call assigns all of its variables again): such label bodies are not PlusCal
		for i, q := range p.Procs {
			for _, l := range q.Labels {
				// (a return assigns all of the procedure's variables too, so `v := ..; return` is not PlusCal either)
				if ((l.T.K == "call" || l.T.K == "tail") && l.T.P == i) || l.T.K == "ret" || l.T.K == "tail" {
					for _, a := range l.As {
						if isRef, _ := p.hasVar(i, a.T); !isRef {
							needsLabel++
							return
						}
					}
				}
			}
		}
		cands = append(cands, p)
	})
	var want = wantSample()
	stride := len(cands)/want + 1
	type job struct {
		idx int
		pr  *Prog
	}
	var jobs []job
	for i := 0; i < len(cands); i += stride {
		for _, n := range []int{1, 2} {
			pr := *cands[i]
			pr.N = n
			jobs = append(jobs, job{len(jobs), &pr})
		}
	}
	var mu sync.Mutex
	results := map[string]int{}
	var mismatches []string
	var samples []string
	statesCompared := 0
	ch := make(chan job)
	var wg sync.WaitGroup
	for w := 0; w < env.Workers; w++ {
		wg.Add(1)
		go func() {
			defer wg.Done()
			for j := range ch {
				if time.Now().After(env.Deadline) {
					mu.Lock()
					results["not_run_deadline"]++
					mu.Unlock()
					continue
				}
				verdict, nst := validateOne(root, j.idx, j.pr)
				mu.Lock()
				key := verdict
				if strings.HasPrefix(verdict, "MISMATCH") {
					key = "mismatch"
					if len(mismatches) < 5 {
						mismatches = append(mismatches, verdict+" | "+j.pr.Render())
					}
				}
				results[key]++
				statesCompared += nst
				if verdict == "equal" && len(samples) < 3 && j.pr.size() >= 3 {
					samples = append(samples, j.pr.Render())
				}
				mu.Unlock()
			}
		}()
	}
	for _, j := range jobs {
		ch <- j
	}
	close(ch)
	wg.Wait()
	cov["tlc_validation"] = map[string]any{
		"programs_enumerated":         total,
		"without_pluscal_counterpart": noCounterpart,
		"not_pluscal_missing_label":   needsLabel,
		"candidates":                  len(cands),
		"validated_sample":            len(jobs),
		"verdicts":                    results,
		"states_compared":             statesCompared,
		"mismatches":                  mismatches,
		"samples":                     samples,
		"note":                        "a mismatch here means the reference interpreter (the oracle) disagrees with PlusCal/TLC: that is a defect of the check, reported in coverage, never as a violation of the property",
	}
}

func validateOne(root string, idx int, pr *Prog) (verdict string, states int) {
	// reference must terminate and be well typed
	{
		r := NewRef(pr)
		for n := 0; ; n++ {
			done, err := r.Step()
			if err != nil {
				return "reference_rejects_ill_typed", 0
			}
			if done {
				break
			}
			if n > maxSteps {
				return "too_long", 0
			}
		}
	}
	target, _ := specialise(pr)
	name := fmt.Sprintf("V%d", idx)
	dir := filepath.Join(root, name)
	os.MkdirAll(dir, 0o755)
	defer os.RemoveAll(dir)
	os.WriteFile(filepath.Join(dir, name+".tla"), []byte(renderPlusCal(name, pr, target)), 0o644)
	os.WriteFile(filepath.Join(dir, name+".cfg"), []byte("SPECIFICATION Spec\nCONSTANT defaultInitValue = defaultInitValue\n"), 0o644)
	out, err := runTool(dir, 120*time.Second, "pcal", "-nocfg", name+".tla")
	if err != nil || !strings.Contains(out, "Translation completed") {
		if strings.Contains(out, "Missing label") {
			return "pcal_rejects_missing_label", 0 // two assignments to one variable in a step: not PlusCal
		}
		return "pcal_failed", 0
	}
	out, err = runTool(dir, 180*time.Second, "tlc", "-dump", name+".dump", "-workers", "1", "-metadir", filepath.Join(dir, "states"), name+".tla")
	if !strings.Contains(out, "Model checking completed. No error has been found") {
		if strings.Contains(out, "Attempted to") || strings.Contains(out, "Error:") {
			return "tlc_error", 0
		}
		return "tlc_failed", 0
	}
	dump, rerr := os.ReadFile(filepath.Join(dir, name+".dump"))
	if rerr != nil {
		return "tlc_no_dump", 0
	}
	sts, perr := parseDump(string(dump))
	if perr != nil {
		return "dump_unparsed: " + perr.Error(), 0
	}
	cross := false
	for i, p := range pr.Procs {
		for _, l := range p.Labels {
			if l.T.K == "tail" && l.T.P != i {
				cross = true
			}
		}
	}
	if why := compareWithTLC(pr, sts, false); why != "" {
		if cross {
			// pcal does not restore the tail-calling procedure's variables (see Ref.PcalTailQuirk): with exactly
			// that deviation modelled, the behaviours must coincide
			if why2 := compareWithTLC(pr, sts, true); why2 == "" {
				return "equal_modulo_pcal_cross_procedure_tailcall_quirk", len(sts)
			}
		}
		return "MISMATCH " + why, len(sts)
	}
	return "equal", len(sts)
}

func wantSample() int {
	if s := os.Getenv("VERIF_C04_TLC_SAMPLE"); s != "" {
		if n, err := strconv.Atoi(s); err == nil && n > 0 {
			return n
		}
	}
	return 150
}

package c04

import "verif/mc/hres"

// tlcValidate cross-checks the reference interpreter against pcal+TLC (thorough tier).
func tlcValidate(env hres.Env, cov map[string]any) {
	cov["tlc_validation"] = "not implemented yet"
}

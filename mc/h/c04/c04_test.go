package c04

import (
	"encoding/json"
	"fmt"
	"sort"
	"strings"
	"sync"
	"sync/atomic"
	"testing"
	"time"

	"github.com/DistCompiler/pgo/distsys"
	"github.com/DistCompiler/pgo/distsys/tla"
	"verif/mc/gate2"
	"verif/mc/hres"
)

// oneCase is a single execution: a program, its depth constant (in Prog.N), and an optional aborted attempt.
type oneCase struct {
	Prog       *Prog  `json:"prog"`
	AbortAt    int    `json:"abort_at"`              // index of the attempt that fails once before being retried (-1: none)
	AbortEarly bool   `json:"abort_early,omitempty"` // fail before the first statement (else after the last)
	Text       string `json:"text,omitempty"`
}

type failure struct {
	key, what string
}

type caseResult struct {
	fail      *failure
	discarded string // non-empty: the program is not a PlusCal behaviour (ill-typed / too long); nothing judged
	steps     int
	outcome   string
	hung      bool
}

// implState reads every variable the reference knows from the real context through the public API.
func implState(g *gate2.Gate, r *Ref) (map[string]tla.Value, tla.Value, string) {
	out := map[string]tla.Value{}
	for k := range r.Slots {
		v, ok := g.Local(k)
		if !ok {
			v = tla.Value{} // a procedure variable that was never created yet: PlusCal's defaultInitValue
		}
		out[k] = v
	}
	st, _ := g.Local(".stack")
	pc, _ := g.Local(".pc")
	pcs := "?"
	func() {
		defer func() { recover() }()
		pcs = pc.AsString()
	}()
	return out, st, pcs
}

// compare returns "" if the real context is in the reference state, else (what-class, description).
func compare(g *gate2.Gate, r *Ref) (class, desc string) {
	vars, st, pc := implState(g, r)
	if pc != r.PC {
		return "pc", fmt.Sprintf(".pc is %s, PlusCal semantics give %s", pc, r.PC)
	}
	// stack
	var frames []tla.Value
	ok := func() (ok bool) {
		defer func() {
			if recover() != nil {
				ok = false
			}
		}()
		it := st.AsTuple().Iterator()
		for !it.Done() {
			_, f := it.Next()
			frames = append(frames, f)
		}
		return true
	}()
	if !ok {
		return "stack-shape", fmt.Sprintf(".stack is not a sequence: %v", st)
	}
	if len(frames) != len(r.Stack) {
		return "stack-depth", fmt.Sprintf(".stack has %d frames, PlusCal semantics give %d", len(frames), len(r.Stack))
	}
	for i, f := range r.Stack {
		got := map[string]tla.Value{}
		ok := func() (ok bool) {
			defer func() {
				if recover() != nil {
					ok = false
				}
			}()
			it := frames[i].AsFunction().Iterator()
			for !it.Done() {
				k, v, _ := it.Next()
				got[k.AsString()] = v
			}
			return true
		}()
		if !ok {
			return "stack-shape", fmt.Sprintf("frame %d is not a record: %v", i, frames[i])
		}
		if p, ok := got[".pc"]; !ok || !p.Equal(tla.MakeString(f.PC)) {
			return "frame-pc", fmt.Sprintf("frame %d returns to %v, PlusCal semantics give %s", i, got[".pc"], f.PC)
		}
		if len(got) != len(f.Saved)+1 {
			return "frame-vars", fmt.Sprintf("frame %d saves %d variables, PlusCal semantics give %d: %v", i, len(got)-1, len(f.Saved), frames[i])
		}
		names := make([]string, 0, len(f.Saved))
		for k := range f.Saved {
			names = append(names, k)
		}
		sort.Strings(names)
		for _, k := range names {
			gv, ok := got[k]
			if !ok {
				return "frame-vars", fmt.Sprintf("frame %d does not save %s", i, k)
			}
			if !gv.Equal(toTLA(f.Saved[k])) {
				return "frame-saved-value", fmt.Sprintf("frame %d (return to %s) saved %s = %v, but the value of %s at the call was %v", i, f.PC, k, gv, k, f.Saved[k])
			}
		}
	}
	names := make([]string, 0, len(vars))
	for k := range vars {
		names = append(names, k)
	}
	sort.Strings(names)
	for _, k := range names {
		if !vars[k].Equal(toTLA(r.Slots[k])) {
			return "var", fmt.Sprintf("%s is %v, PlusCal semantics give %v", k, vars[k], r.Slots[k])
		}
	}
	return "", ""
}

func kindName(r *Ref) string {
	k := r.LastKind
	switch k {
	case "tail":
		k = "tailcall"
	case "call-skipped":
		k = "goto" // the guard was false: the label only jumps
	case "ret", "tail-skipped":
		k = "return" // (a guarded tail call whose guard is false only returns)
	}
	return k
}

// classify gives the canonical key of a divergence seen right after the reference executed a step.
func classify(r *Ref, class string, afterAbort bool) string {
	kind := kindName(r)
	rec := r.LastRecursive && (r.LastKind == "call" || r.LastKind == "tail")
	if afterAbort {
		if rec {
			return "abort/recursive-" + kind + "/state-not-restored"
		}
		return "abort/" + kind + "/state-not-restored"
	}
	if rec && class == "frame-saved-value" {
		return "recursion/saved-frame-lost"
	}
	if rec {
		return "recursion/" + kind + "/" + class
	}
	return kind + "/" + class
}

// runCase executes one case on a real context, comparing with the reference after every step.
func runCase(c oneCase) (res caseResult) {
	pr := c.Prog
	// the reference alone first: programs that are not PlusCal behaviours are discarded, never judged
	{
		r := NewRef(pr)
		n := 0
		for {
			done, err := r.Step()
			if err != nil {
				return caseResult{discarded: err.Error()}
			}
			if done {
				break
			}
			n++
			if n > maxSteps {
				return caseResult{discarded: "too long"}
			}
		}
		if c.AbortAt >= n {
			return caseResult{discarded: "abort position beyond the end"}
		}
	}
	rt := &runtime{abortAt: c.AbortAt, abortEarly: c.AbortEarly}
	arch := compile(pr, rt)
	g := gate2.New(tla.MakeString("self"), arch, gate2.Options{Timeout: 60 * time.Second},
		distsys.EnsureArchetypeRefParam("e", distsys.NewLocalArchetypeResource(tla.MakeNumber(eInit))))
	defer g.Kill()
	r := NewRef(pr)
	st := g.Start()
	if st.Ended || st.Hung {
		return caseResult{fail: &failure{"start/failed", fmt.Sprintf("Run ended before the first label: err=%v panic=%v", st.Err, st.Panic)}, hung: st.Hung}
	}
	if cl, d := compare(g, r); cl != "" {
		return caseResult{fail: &failure{"start/" + cl, "before the first step: " + d}}
	}
	var trail []string
	attempt := 0
	for steps := 0; ; steps++ {
		if steps > 2*maxSteps {
			return caseResult{fail: &failure{"nontermination", "the real context is still running after " + fmt.Sprint(steps) + " attempts; the reference ended"}}
		}
		at := r.PC
		if g.Parked() != at {
			return caseResult{fail: &failure{"pc/parked", fmt.Sprintf("context parked at %s, reference at %s", g.Parked(), at)}}
		}
		injected := attempt == c.AbortAt
		sr := g.Step()
		attempt++
		res.steps++
		if sr.Hung {
			return caseResult{hung: true, fail: &failure{"hang/" + at, "no progress for 60 s in label " + at}}
		}
		if injected {
			// the attempt was made to fail: it must be logged as aborted and leave *no* trace
			if sr.Ended {
				probe := cloneRef(r)
				probe.Step()
				if bp, ok := sr.Err.(*bodyPanic); ok {
					return caseResult{fail: &failure{kindName(probe) + "/panics", fmt.Sprintf("label %s [%s]: %s panics: %v  | program: %s", at, strings.Join(trail, " "), probe.LastKind, bp.val, pr.Render())}}
				}
				return caseResult{fail: &failure{"abort/run-ended", fmt.Sprintf("Run ended (err=%v panic=%v) in an attempt of %s that was aborted", sr.Err, sr.Panic, at)}}
			}
			if len(sr.Events) != 1 || !sr.Events[0].IsAbort {
				return caseResult{fail: &failure{"abort/not-aborted", fmt.Sprintf("aborted attempt of %s produced events %v", at, len(sr.Events))}}
			}
			if cl, d := compare(g, r); cl != "" {
				// what would this label have done?  (for the key only)
				probe := cloneRef(r)
				probe.Step()
				return caseResult{fail: &failure{classify(probe, cl, true), fmt.Sprintf("after an aborted attempt of %s [%s] the state is not the state of the last commit: %s  | program: %s", at, strings.Join(trail, " "), d, pr.Render())}}
			}
			trail = append(trail, at+"(aborted)")
			continue
		}
		done, err := r.Step()
		if err != nil {
			return caseResult{discarded: err.Error()}
		}
		trail = append(trail, at)
		if done {
			// reference is at A.Done: the context must end normally with this step
			if !sr.Ended || sr.Err != nil || sr.Panic != nil {
				return caseResult{fail: &failure{"done/not-ended", fmt.Sprintf("at A.Done Run did not return nil (ended=%v err=%v panic=%v)", sr.Ended, sr.Err, sr.Panic)}}
			}
			if cl, d := compare(g, r); cl != "" {
				return caseResult{fail: &failure{"done/" + cl, "final state: " + d}}
			}
			res.outcome = r.Summary()
			return res
		}
		if sr.Ended {
			key := classify(r, "run-ended", false)
			what := fmt.Sprintf("Run ended with err=%v", sr.Err)
			if bp, ok := sr.Err.(*bodyPanic); ok {
				key = kindName(r) + "/panics"
				what = fmt.Sprintf("%s panics: %v", r.LastKind, bp.val)
			} else if sr.Panic != nil {
				key = kindName(r) + "/panics"
				what = fmt.Sprintf("Run panics: %v", sr.Panic)
			}
			return caseResult{fail: &failure{key, fmt.Sprintf("label %s [%s]: %s  | program: %s", at, strings.Join(trail, " "), what, pr.Render())}}
		}
		if len(sr.Events) != 1 || sr.Events[0].IsAbort {
			return caseResult{fail: &failure{classify(r, "not-committed", false), fmt.Sprintf("label %s did not commit (events=%d)", at, len(sr.Events))}}
		}
		if cl, d := compare(g, r); cl != "" {
			return caseResult{fail: &failure{classify(r, cl, false), fmt.Sprintf("after label %s [%s] (%s): %s  | program: %s", at, strings.Join(trail, " "), r.LastKind, d, pr.Render())}}
		}
	}
}

func cloneRef(r *Ref) *Ref {
	c := &Ref{pr: r.pr, Slots: map[string]Val{}, PC: r.PC}
	for k, v := range r.Slots {
		c.Slots[k] = v
	}
	for _, f := range r.Stack {
		nf := Frame{PC: f.PC, Proc: f.Proc, Saved: map[string]Val{}}
		for k, v := range f.Saved {
			nf.Saved[k] = v
		}
		c.Stack = append(c.Stack, nf)
	}
	return c
}

// confirm re-runs a failing case 5 times; it must fail with the same key every time.
func confirm(c oneCase, key string) bool {
	for i := 0; i < 5; i++ {
		r := runCase(c)
		if r.fail == nil || r.fail.key != key {
			return false
		}
	}
	return true
}

func refSteps(pr *Prog) int {
	r := NewRef(pr)
	n := 0
	for {
		done, err := r.Step()
		if err != nil || done || n > maxSteps {
			return n
		}
		n++
	}
}

func TestCheck(t *testing.T) {
	hres.Main(t, func(env hres.Env) *hres.Result {
		res := &hres.Result{Property: "C04", Level: "exploration"}
		res.Assumptions = []string{
			"programs are compiled by the harness' generator (compile.go), which emits the call sequences of MPCalGoCodegenPass as seen in ProcedureSpaghetti.go; the Scala compiler itself cannot be run here",
			"an attempt made to fail after its last statement stands for a resource refusing in the pre-commit phase (PreCommit of local state variables is a no-op, so Run cannot tell the two apart)",
			"the oracle is the PlusCal stack interpreter in ref.go (thorough tier: cross-checked against pcal+TLC on the ref-free/ref-expandable subset)",
		}
		if env.Replay != nil {
			var c oneCase
			if err := json.Unmarshal(env.Replay, &c); err != nil {
				t.Fatal(err)
			}
			r := runCase(c)
			res.Coverage = map[string]any{"evaluations": 1, "distinct_nontrivial": 0, "rule": "replay", "samples": []any{c.Prog.Render()}}
			if r.fail != nil {
				res.Violations = append(res.Violations, hres.Viol{Key: r.fail.key, What: r.fail.what, Replay: c})
			}
			return res
		}
		cfg := enumCfg{maxProcs: 2, maxSize: 4, depths: []int{0, 1, 2}}
		tlcCov := map[string]any{}
		if env.Thorough() {
			cfg = enumCfg{maxProcs: 3, maxSize: 5, depths: []int{0, 1, 2, 3}}
			// first (bounded work): the oracle itself is cross-checked against pcal + TLC
			tenv := env
			tenv.Deadline = time.Now().Add(time.Until(env.Deadline) / 3)
			tlcValidate(tenv, tlcCov)
		}
		type job struct{ p *Prog }
		jobs := make(chan job, 256)
		var mu sync.Mutex
		viol := map[string]hres.Viol{}
		violSize := map[string]int{}
		outcomes := map[string]bool{}
		feat := map[string]int{}
		discards := map[string]int{}
		var samples []any
		var programs, executions, aborted, unconfirmed, hangs int64
		var capHit atomic.Bool
		var wg sync.WaitGroup
		for w := 0; w < env.Workers; w++ {
			wg.Add(1)
			go func() {
				defer wg.Done()
				for j := range jobs {
					if capHit.Load() {
						continue
					}
					lo := map[string]bool{}
					var lfail []struct {
						c oneCase
						f *failure
					}
					var lexec, labort int64
					ldisc := map[string]int{}
					for _, n := range cfg.depths {
						pr := *j.p
						pr.N = n
						steps := refSteps(&pr)
						// no abort, then one aborted attempt at every position, early and late
						cases := []oneCase{{Prog: &pr, AbortAt: -1}}
						for k := 0; k < steps; k++ {
							cases = append(cases, oneCase{Prog: &pr, AbortAt: k}, oneCase{Prog: &pr, AbortAt: k, AbortEarly: true})
						}
						for _, c := range cases {
							r := runCase(c)
							if r.discarded != "" {
								ldisc[r.discarded]++
								if c.AbortAt < 0 {
									break // the program itself is not a PlusCal behaviour
								}
								continue
							}
							lexec++
							if c.AbortAt >= 0 {
								labort++
							}
							if r.fail != nil {
								lfail = append(lfail, struct {
									c oneCase
									f *failure
								}{c, r.fail})
								continue
							}
							lo[r.outcome] = true
						}
					}
					mu.Lock()
					programs++
					executions += lexec
					aborted += labort
					for k := range lo {
						outcomes[k] = true
					}
					for k, n := range ldisc {
						discards[k] += n
					}
					for _, f := range j.p.features() {
						feat[f]++
					}
					if len(samples) < 5 && j.p.size() >= 3 && programs%97 == 3 {
						samples = append(samples, j.p.Render())
					}
					var todo []struct {
						c oneCase
						f *failure
					}
					for _, lf := range lfail {
						sz := lf.c.Prog.size()*100 + lf.c.Prog.N*10
						if lf.c.AbortAt >= 0 {
							sz += 5
						}
						if old, ok := violSize[lf.f.key]; !ok || sz < old {
							violSize[lf.f.key] = sz
							todo = append(todo, lf)
						}
					}
					mu.Unlock()
					for _, lf := range todo {
						okc := confirm(lf.c, lf.f.key)
						mu.Lock()
						if !okc {
							unconfirmed++
							delete(violSize, lf.f.key)
						} else {
							c := lf.c
							c.Text = c.Prog.Render()
							sz := c.Prog.size()*100 + c.Prog.N*10
							if c.AbortAt >= 0 {
								sz += 5
							}
							if violSize[lf.f.key] == sz {
								viol[lf.f.key] = hres.Viol{Key: lf.f.key, What: lf.f.what, Replay: c}
							}
						}
						mu.Unlock()
					}
					if time.Now().After(env.Deadline) {
						capHit.Store(true)
					}
				}
			}()
		}
		enumerate(cfg, func(p *Prog) {
			if !capHit.Load() {
				jobs <- job{p}
			}
		})
		close(jobs)
		wg.Wait()

		keys := make([]string, 0, len(viol))
		for k := range viol {
			keys = append(keys, k)
		}
		sort.Strings(keys)
		for _, k := range keys {
			res.Violations = append(res.Violations, viol[k])
		}
		cov := map[string]any{
			"evaluations":         int(executions),
			"distinct_nontrivial": len(outcomes),
			"rule": "every program of the grammar (procedures P(n[, x | ref x]) [variables y [= 7]], two labels: [assignment;] goto|guarded call  /  [assignment;] return|guarded tail call; " +
				"archetype A(ref e) with local g calling one or two procedures) with at most max_procs procedures and at most max_size optional features, every procedure reachable, " +
				"x every depth argument N, x {no abort, one aborted attempt at every position, failing before the first or after the last statement}; " +
				"after every attempt .pc, every frame of .stack (return label and every saved variable) and every variable are compared with the PlusCal stack interpreter; " +
				"distinct = distinct final reference states of completed executions",
			"samples":                         samples,
			"programs":                        int(programs),
			"executions_with_aborted_attempt": int(aborted),
			"max_procs":                       cfg.maxProcs,
			"max_size":                        cfg.maxSize,
			"depth_arguments":                 cfg.depths,
			"programs_by_feature":             feat,
			"discarded_not_pluscal":           discards,
			"unconfirmed_divergences":         int(unconfirmed),
			"divergences":                     int(unconfirmed),
			"hangs":                           int(hangs),
			"exhaustive":                      !capHit.Load() && unconfirmed == 0,
		}
		if capHit.Load() {
			cov["cap_hit"] = "deadline"
		}
		for k, v := range tlcCov {
			cov[k] = v
		}
		res.Coverage = cov
		return res
	})
}

package c04

import (
	"fmt"
	"runtime/debug"

	"github.com/DistCompiler/pgo/distsys"
	"github.com/DistCompiler/pgo/distsys/tla"
)

// compile.go: the "code generator".  It emits, as Go closures, exactly the call sequences that
// MPCalGoCodegenPass emits as Go text (compare ProcedureSpaghetti.go):
//
//   * per critical section: `X, err := iface.RequireArchetypeResourceRef("P.x")` for a ref parameter,
//     `x := iface.RequireArchetypeResource("P.x")` for any other state variable, then statements;
//   * expression reads through iface.Read(handle, nil); assignments through iface.Write(handle, nil, v);
//   * `call Q(a..); goto L`  ->  return iface.Call("Q", "P.L", args...)
//     `call Q(a..); return`  ->  return iface.TailCall("Q", args...)
//     `return`               ->  return iface.Return()
//     `goto L`               ->  return iface.Goto("P.L")
//   * a `ref v` argument is passed as a string value: iface.ReadArchetypeResourceLocal("P.v") when v is itself a
//     ref parameter (the name it designates), tla.MakeString("P.v") otherwise;
//   * MPCalProc{Name, Label: first label, StateVars: params ++ locals, PreAmble: one Write per local with its
//     initial value or tla.ModuledefaultInitValue};
//   * every procedure has a "<P>.Error" section returning ErrProcedureFallthrough, the archetype a "A.Done"
//     section returning ErrDone; archetype locals are created in the PreAmble with EnsureArchetypeResourceLocal.

// runtime holds the per-execution state of the compiled bodies (attempt counting and injected aborts).
type runtime struct {
	attempt    int  // number of body executions started
	abortAt    int  // attempt index that fails (-1: none)
	abortEarly bool // fail before the first statement instead of after the last one
	panics     []string
}

type bodyPanic struct {
	val   any
	stack string
}

func (p *bodyPanic) Error() string { return fmt.Sprintf("critical section panicked: %v", p.val) }

func (rt *runtime) wrap(body func(iface distsys.ArchetypeInterface) error) func(iface distsys.ArchetypeInterface) error {
	return func(iface distsys.ArchetypeInterface) (err error) {
		att := rt.attempt
		rt.attempt++
		defer func() {
			if x := recover(); x != nil {
				bp := &bodyPanic{val: x, stack: string(debug.Stack())}
				rt.panics = append(rt.panics, bp.Error())
				err = bp
			}
		}()
		if att == rt.abortAt && rt.abortEarly {
			return distsys.ErrCriticalSectionAborted
		}
		err = body(iface)
		if err == nil && att == rt.abortAt {
			// the section fails after its last statement: what the Run loop sees when a resource refuses in the
			// pre-commit phase (for local state variables PreCommit is a no-op, so the two are indistinguishable)
			return distsys.ErrCriticalSectionAborted
		}
		return err
	}
}

func compile(pr *Prog, rt *runtime) distsys.MPCalArchetype {
	var css []distsys.MPCalCriticalSection
	var procs []distsys.MPCalProc

	handle := func(iface distsys.ArchetypeInterface, scope int, v string) (distsys.ArchetypeResourceHandle, error) {
		isRef, ok := pr.hasVar(scope, v)
		if !ok {
			panic("c04 generator: no variable " + v)
		}
		full := scopeName(scope) + "." + v
		if isRef {
			return iface.RequireArchetypeResourceRef(full)
		}
		return iface.RequireArchetypeResource(full), nil
	}
	evalExpr := func(iface distsys.ArchetypeInterface, scope int, e Expr) (tla.Value, error) {
		switch e.K {
		case "c":
			return tla.MakeNumber(int32(e.N)), nil
		case "N":
			return tla.MakeNumber(int32(pr.N)), nil
		}
		h, err := handle(iface, scope, e.V)
		if err != nil {
			return tla.Value{}, err
		}
		v, err := iface.Read(h, nil)
		if err != nil {
			return tla.Value{}, err
		}
		switch e.K {
		case "v":
			return v, nil
		case "v+1":
			return tla.ModulePlusSymbol(v, tla.MakeNumber(1)), nil
		case "v-1":
			return tla.ModuleMinusSymbol(v, tla.MakeNumber(1)), nil
		}
		panic("c04 generator: bad expr")
	}
	labelName := func(scope, l int) string {
		if scope < 0 {
			if l >= len(pr.Main) {
				return "A.Done"
			}
			return fmt.Sprintf("A.m%d", l)
		}
		return fmt.Sprintf("%s.l%d", procName(scope), l)
	}
	section := func(scope, l int, lab Label) distsys.MPCalCriticalSection {
		body := func(iface distsys.ArchetypeInterface) error {
			for _, a := range lab.As {
				v, err := evalExpr(iface, scope, a.E)
				if err != nil {
					return err
				}
				h, err := handle(iface, scope, a.T)
				if err != nil {
					return err
				}
				if err = iface.Write(h, nil, v); err != nil {
					return err
				}
			}
			t := lab.T
			taken := true
			if t.Guarded {
				n, err := evalExpr(iface, scope, Expr{K: "v", V: "n"})
				if err != nil {
					return err
				}
				taken = tla.ModuleGreaterThanSymbol(n, tla.MakeNumber(0)).AsBool()
			}
			args := func() ([]tla.Value, error) {
				var out []tla.Value
				for _, a := range t.Args {
					if a.Ref {
						isRef, _ := pr.hasVar(scope, a.V)
						if isRef {
							out = append(out, iface.ReadArchetypeResourceLocal(scopeName(scope)+"."+a.V))
						} else {
							out = append(out, tla.MakeString(scopeName(scope)+"."+a.V))
						}
						continue
					}
					v, err := evalExpr(iface, scope, a.E)
					if err != nil {
						return nil, err
					}
					out = append(out, v)
				}
				return out, nil
			}
			switch t.K {
			case "goto":
				return iface.Goto(labelName(scope, t.L))
			case "done":
				return iface.Goto("A.Done")
			case "ret":
				return iface.Return()
			case "call":
				if !taken {
					return iface.Goto(labelName(scope, t.L))
				}
				av, err := args()
				if err != nil {
					return err
				}
				return iface.Call(procName(t.P), labelName(scope, t.L), av...)
			case "tail":
				if !taken {
					return iface.Return()
				}
				av, err := args()
				if err != nil {
					return err
				}
				return iface.TailCall(procName(t.P), av...)
			}
			panic("c04 generator: bad terminator")
		}
		return distsys.MPCalCriticalSection{Name: labelName(scope, l), Body: rt.wrap(body)}
	}

	for i, p := range pr.Procs {
		i, p := i, p
		for l, lab := range p.Labels {
			css = append(css, section(i, l, lab))
		}
		css = append(css, distsys.MPCalCriticalSection{Name: procName(i) + ".Error", Body: func(distsys.ArchetypeInterface) error {
			return distsys.ErrProcedureFallthrough
		}})
		procs = append(procs, distsys.MPCalProc{
			Name:      procName(i),
			Label:     procName(i) + ".l0",
			StateVars: stateVars(p, i),
			PreAmble: func(iface distsys.ArchetypeInterface) error {
				if p.Y == "" {
					return nil
				}
				y := iface.RequireArchetypeResource(procName(i) + ".y")
				init := tla.ModuledefaultInitValue
				if p.Y == "const" {
					init = tla.MakeNumber(int32(p.YInit))
				}
				return iface.Write(y, nil, init)
			},
		})
	}
	for l, lab := range pr.Main {
		css = append(css, section(-1, l, lab))
	}
	css = append(css, distsys.MPCalCriticalSection{Name: "A.Done", Body: func(distsys.ArchetypeInterface) error { return distsys.ErrDone }})
	return distsys.MPCalArchetype{
		Name:              "A",
		Label:             "A.m0",
		RequiredRefParams: []string{"A.e"},
		RequiredValParams: nil,
		JumpTable:         distsys.MakeMPCalJumpTable(css...),
		ProcTable:         distsys.MakeMPCalProcTable(procs...),
		PreAmble: func(iface distsys.ArchetypeInterface) {
			iface.EnsureArchetypeResourceLocal("A.g", tla.MakeNumber(gInit))
		},
	}
}

func toTLA(v Val) tla.Value {
	switch v.K {
	case 1:
		return tla.MakeNumber(int32(v.N))
	case 2:
		return tla.MakeString(v.S)
	}
	return tla.Value{}
}

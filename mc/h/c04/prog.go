// C04: procedure calls follow PlusCal stack semantics.
//
// prog.go: the abstract syntax of the small MPCal programs that are enumerated, and the enumerator.
package c04

import (
	"fmt"
	"strings"
)

// Expr: "c" constant N | "N" the program's depth constant | "v" variable V | "v+1" | "v-1".
type Expr struct {
	K string `json:"k"`
	N int    `json:"n,omitempty"`
	V string `json:"v,omitempty"`
}

func (e Expr) String() string {
	switch e.K {
	case "c":
		return fmt.Sprint(e.N)
	case "N":
		return "N"
	case "v":
		return e.V
	case "v+1":
		return e.V + " + 1"
	case "v-1":
		return e.V + " - 1"
	}
	return "?"
}

// Assign is `T := E` (T, and variables in E, are names in the scope of the enclosing procedure/archetype).
type Assign struct {
	T string `json:"t"`
	E Expr   `json:"e"`
}

// Arg is one actual argument: `ref V` or the value of E.
type Arg struct {
	Ref bool   `json:"ref,omitempty"`
	V   string `json:"v,omitempty"`
	E   Expr   `json:"e,omitempty"`
}

func (a Arg) String() string {
	if a.Ref {
		return "ref " + a.V
	}
	return a.E.String()
}

// Term is the last statement of a label.
//
//	goto  : goto label L
//	ret   : return
//	done  : goto Done (archetype only)
//	call  : call P(Args); goto L            guarded: if (n > 0) { call P(Args); goto L } else { goto L }
//	tail  : call P(Args); return            guarded: if (n > 0) { call P(Args); return } else { return }
type Term struct {
	K       string `json:"k"`
	L       int    `json:"l,omitempty"`
	P       int    `json:"p,omitempty"`
	Args    []Arg  `json:"args,omitempty"`
	Guarded bool   `json:"guarded,omitempty"`
}

type Label struct {
	As []Assign `json:"as,omitempty"`
	T  Term     `json:"t"`
}

// Proc: parameters n (value, the recursion guard) and optionally x (value or ref); optionally one local y.
type Proc struct {
	X      string  `json:"x,omitempty"` // "" | "val" | "ref"
	Y      string  `json:"y,omitempty"` // "" | "default" | "const"
	YInit  int     `json:"yinit,omitempty"`
	Labels []Label `json:"labels"`
}

// Prog: archetype A(ref e) with locals g (initially GInit), labels Main; procedures P0..
// N is the depth argument handed to the procedures called from the archetype.
type Prog struct {
	Procs []Proc  `json:"procs"`
	Main  []Label `json:"main"`
	N     int     `json:"n"`
}

const (
	gInit = 3
	eInit = 5
	yInit = 7
	cArg  = 2
)

func procName(i int) string { return fmt.Sprintf("P%d", i) }

// scopeVars lists the variable names visible in procedure p (p < 0: the archetype) with their mode.
func (pr *Prog) hasVar(p int, v string) (isRef bool, ok bool) {
	if p < 0 {
		switch v {
		case "g":
			return false, true
		case "e":
			return true, true
		}
		return false, false
	}
	q := pr.Procs[p]
	switch v {
	case "n":
		return false, true
	case "x":
		return q.X == "ref", q.X != ""
	case "y":
		return false, q.Y != ""
	}
	return false, false
}

// Render prints the program as MPCal-like text (for humans and replay files).
func (pr *Prog) Render() string {
	var b strings.Builder
	term := func(scope int, t Term) string {
		call := func() string {
			var as []string
			for _, a := range t.Args {
				as = append(as, a.String())
			}
			return fmt.Sprintf("call %s(%s)", procName(t.P), strings.Join(as, ", "))
		}
		lbl := func(l int) string {
			if scope < 0 {
				if l >= len(pr.Main) {
					return "Done"
				}
				return fmt.Sprintf("m%d", l)
			}
			return fmt.Sprintf("l%d", l)
		}
		switch t.K {
		case "goto":
			return "goto " + lbl(t.L)
		case "ret":
			return "return"
		case "done":
			return "goto Done"
		case "call":
			if t.Guarded {
				return fmt.Sprintf("if (n > 0) { %s; goto %s } else { goto %s }", call(), lbl(t.L), lbl(t.L))
			}
			return fmt.Sprintf("%s; goto %s", call(), lbl(t.L))
		case "tail":
			if t.Guarded {
				return fmt.Sprintf("if (n > 0) { %s; return } else { return }", call())
			}
			return call() + "; return"
		}
		return "?"
	}
	for i, p := range pr.Procs {
		ps := []string{"n"}
		if p.X == "val" {
			ps = append(ps, "x")
		} else if p.X == "ref" {
			ps = append(ps, "ref x")
		}
		fmt.Fprintf(&b, "procedure %s(%s)", procName(i), strings.Join(ps, ", "))
		if p.Y == "default" {
			b.WriteString(" variables y;")
		} else if p.Y == "const" {
			fmt.Fprintf(&b, " variables y = %d;", p.YInit)
		}
		b.WriteString(" {")
		for j, l := range p.Labels {
			fmt.Fprintf(&b, " l%d:", j)
			for _, a := range l.As {
				fmt.Fprintf(&b, " %s := %s;", a.T, a.E)
			}
			b.WriteString(" " + term(i, l.T) + ";")
		}
		b.WriteString(" } ")
	}
	fmt.Fprintf(&b, "archetype A(ref e) variables g = %d; {", gInit)
	for j, l := range pr.Main {
		fmt.Fprintf(&b, " m%d:", j)
		for _, a := range l.As {
			fmt.Fprintf(&b, " %s := %s;", a.T, a.E)
		}
		b.WriteString(" " + term(-1, l.T) + ";")
	}
	fmt.Fprintf(&b, " }  [e = %d, depth N = %d]", eInit, pr.N)
	return b.String()
}

// ---------------------------------------------------------------------------------------------------
// enumeration

// size = number of optional features used: second parameters, locals, assignments, calls/tail calls inside
// procedures, second call in the archetype.  The enumerator produces every program of the grammar with
// size <= maxSize and at most maxProcs procedures in which every procedure is reachable from the archetype.

type enumCfg struct {
	maxProcs int
	maxSize  int
	depths   []int
}

// assignMenu: the assignments offered in a procedure with the given features.
func assignMenu(p Proc) []Assign {
	var m []Assign
	if p.X != "" {
		m = append(m, Assign{"x", Expr{K: "v+1", V: "x"}})
		m = append(m, Assign{"x", Expr{K: "v", V: "n"}})
	}
	if p.Y != "" {
		m = append(m, Assign{"y", Expr{K: "v", V: "n"}})
		if p.Y == "const" {
			m = append(m, Assign{"y", Expr{K: "v+1", V: "y"}})
		}
	}
	if p.X != "" && p.Y != "" {
		m = append(m, Assign{"y", Expr{K: "v", V: "x"}})
		if p.Y == "const" {
			m = append(m, Assign{"x", Expr{K: "v", V: "y"}})
		}
	}
	return m
}

// argMenu: the ways scope `from` (features fp; from < 0 = archetype) can supply the second parameter of callee cq.
func argMenu(from int, fp Proc, cq Proc) [][]Arg {
	var first Arg
	if from >= 0 {
		first = Arg{E: Expr{K: "v-1", V: "n"}}
	} else {
		first = Arg{E: Expr{K: "N"}} // the program's depth constant
	}
	if cq.X == "" {
		return [][]Arg{{first}}
	}
	var out [][]Arg
	add := func(a Arg) { out = append(out, []Arg{first, a}) }
	if cq.X == "val" {
		add(Arg{E: Expr{K: "c", N: cArg}})
		if from < 0 {
			add(Arg{E: Expr{K: "v", V: "g"}})
			add(Arg{E: Expr{K: "v", V: "e"}})
		} else {
			if fp.X != "" {
				add(Arg{E: Expr{K: "v", V: "x"}})
			}
			if fp.Y == "const" {
				add(Arg{E: Expr{K: "v", V: "y"}})
			}
		}
	} else {
		if from < 0 {
			add(Arg{Ref: true, V: "g"})
			add(Arg{Ref: true, V: "e"})
		} else {
			if fp.X != "" {
				add(Arg{Ref: true, V: "x"})
			}
			if fp.Y != "" {
				add(Arg{Ref: true, V: "y"})
			}
			add(Arg{Ref: true, V: "n"})
		}
	}
	return out
}

type shape struct{ X, Y string }

var shapes = []shape{{"", ""}, {"val", ""}, {"ref", ""}, {"", "default"}, {"", "const"}, {"val", "default"}, {"val", "const"}, {"ref", "default"}, {"ref", "const"}}

func shapeSize(s shape) int {
	n := 0
	if s.X != "" {
		n++
	}
	if s.Y != "" {
		n++
	}
	return n
}

// enumerate calls emit for every program (without depth; emit gets a fresh deep copy each time).
func enumerate(cfg enumCfg, emit func(p *Prog)) {
	for np := 1; np <= cfg.maxProcs; np++ {
		// 1. shapes of all procedures
		var pickShapes func(i int, budget int, acc []shape)
		pickShapes = func(i int, budget int, acc []shape) {
			if i == np {
				procs := make([]Proc, np)
				for k, s := range acc {
					procs[k] = Proc{X: s.X, Y: s.Y}
					if s.Y == "const" {
						procs[k].YInit = yInit
					}
				}
				enumBodies(cfg, procs, 0, budget, emit)
				return
			}
			for _, s := range shapes {
				if c := shapeSize(s); c <= budget {
					pickShapes(i+1, budget-c, append(append([]shape{}, acc...), s))
				}
			}
		}
		pickShapes(0, cfg.maxSize, nil)
	}
}

func optAssigns(p Proc, budget int) [][]Assign {
	out := [][]Assign{nil}
	if budget >= 1 {
		for _, a := range assignMenu(p) {
			out = append(out, []Assign{a})
		}
	}
	return out
}

func enumBodies(cfg enumCfg, procs []Proc, i int, budget int, emit func(p *Prog)) {
	np := len(procs)
	if i == np {
		enumMain(cfg, procs, budget, emit)
		return
	}
	p := procs[i]
	for _, a0 := range optAssigns(p, budget) {
		b0 := budget - len(a0)
		var t0s []Term
		t0s = append(t0s, Term{K: "goto", L: 1})
		if b0 >= 1 {
			for q := 0; q < np; q++ {
				for _, args := range argMenu(i, p, procs[q]) {
					t0s = append(t0s, Term{K: "call", L: 1, P: q, Args: args, Guarded: true})
				}
			}
		}
		for _, t0 := range t0s {
			b1 := b0
			if t0.K != "goto" {
				b1--
			}
			for _, a1 := range optAssigns(p, b1) {
				b2 := b1 - len(a1)
				t1s := []Term{{K: "ret"}}
				if b2 >= 1 {
					for q := 0; q < np; q++ {
						for _, args := range argMenu(i, p, procs[q]) {
							t1s = append(t1s, Term{K: "tail", P: q, Args: args, Guarded: true})
						}
					}
				}
				for _, t1 := range t1s {
					b3 := b2
					if t1.K != "ret" {
						b3--
					}
					np2 := append([]Proc{}, procs...)
					np2[i].Labels = []Label{{As: a0, T: t0}, {As: a1, T: t1}}
					enumBodies(cfg, np2, i+1, b3, emit)
				}
			}
		}
	}
}

func reachable(procs []Proc, roots []int) bool {
	seen := make([]bool, len(procs))
	var visit func(i int)
	visit = func(i int) {
		if seen[i] {
			return
		}
		seen[i] = true
		for _, l := range procs[i].Labels {
			if l.T.K == "call" || l.T.K == "tail" {
				visit(l.T.P)
			}
		}
	}
	for _, r := range roots {
		visit(r)
	}
	for _, s := range seen {
		if !s {
			return false
		}
	}
	return true
}

func enumMain(cfg enumCfg, procs []Proc, budget int, emit func(p *Prog)) {
	// m0: call P0(N, arg); goto m1.   m1: goto Done  |  call Pj(N, arg); goto m2 (m2 = Done)
	for _, args0 := range argMenu(-1, Proc{}, procs[0]) {
		t0 := Term{K: "call", L: 1, P: 0, Args: args0}
		if reachable(procs, []int{0}) {
			emitCopy(procs, []Label{{T: t0}, {T: Term{K: "done"}}}, emit)
		}
		if budget >= 1 {
			for j := 0; j < len(procs); j++ {
				if !reachable(procs, []int{0, j}) {
					continue
				}
				for _, args1 := range argMenu(-1, Proc{}, procs[j]) {
					t1 := Term{K: "call", L: 2, P: j, Args: args1}
					emitCopy(procs, []Label{{T: t0}, {T: t1}, {T: Term{K: "done"}}}, emit)
				}
			}
		}
	}
}

func emitCopy(procs []Proc, main []Label, emit func(p *Prog)) {
	p := &Prog{Procs: append([]Proc{}, procs...), Main: main}
	emit(p)
}

// size measures a program (for reporting).
func (pr *Prog) size() int {
	n := 0
	for _, p := range pr.Procs {
		n += shapeSize(shape{p.X, p.Y})
		for _, l := range p.Labels {
			n += len(l.As)
			if l.T.K == "call" || l.T.K == "tail" {
				n++
			}
		}
	}
	if len(pr.Main) > 2 {
		n++
	}
	return n
}

// features summarises what a program exercises (for coverage counters).
func (pr *Prog) features() []string {
	f := map[string]bool{}
	for i, p := range pr.Procs {
		if p.X == "ref" {
			f["ref-param"] = true
		}
		if p.Y != "" {
			f["local"] = true
		}
		for _, l := range p.Labels {
			if l.T.K == "call" || l.T.K == "tail" {
				kind := "call"
				if l.T.K == "tail" {
					kind = "tailcall"
				}
				f[kind] = true
				if l.T.P == i {
					f["direct-recursion/"+kind] = true
				} else if calls(pr.Procs, l.T.P, i, map[int]bool{}) {
					f["mutual-recursion/"+kind] = true
				}
				for _, a := range l.T.Args {
					if a.Ref {
						if r, _ := pr.hasVar(i, a.V); r {
							f["ref-pass-through"] = true
						} else {
							f["ref-to-procedure-variable"] = true
						}
					}
				}
			}
		}
	}
	var out []string
	for k := range f {
		out = append(out, k)
	}
	return out
}

func calls(procs []Proc, from, to int, seen map[int]bool) bool {
	if seen[from] {
		return false
	}
	seen[from] = true
	for _, l := range procs[from].Labels {
		if l.T.K == "call" || l.T.K == "tail" {
			if l.T.P == to || calls(procs, l.T.P, to, seen) {
				return true
			}
		}
	}
	return false
}

// maxSteps bounds the labels a program may execute on the reference (longer programs are discarded).
const maxSteps = 120

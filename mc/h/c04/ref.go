package c04

import (
	"errors"
	"fmt"
	"sort"
	"strings"
)

// ref.go: a plain PlusCal stack interpreter (the oracle).  It knows nothing about distsys.
//
// State: one slot per variable ("P0.n", "P0.x", "P0.y", "A.g", "A.e", "&A.e"), the pc, and the stack of frames.
// PlusCal semantics of `call P(a1..ak)` executed at the end of a label, with return label R:
//
//	frame  = [pc |-> R] @@ [v |-> current value of slot P.v : v in params(P) ++ locals(P)]
//	stack' = <<frame>> \o stack
//	P.param_i' = value of a_i in the state before the call     (simultaneous: all arguments are evaluated first)
//	P.local_j' = its declared initial value (defaultInitValue if none)
//	pc' = first label of P
//
// `return`: every pair saved in Head(stack) is written back (pc included), stack' = Tail(stack).
// `call P(..); return` (tail call): arguments are evaluated, then return, then call with R = the popped frame's pc.
// A ref parameter slot holds the *name* of the slot it designates; `ref v` where v is itself a ref parameter passes
// the designated name on, `ref v` for any other variable passes "<Scope>.v".

type Val struct {
	K int // 0 defaultInitValue, 1 number, 2 string (slot name)
	N int
	S string
}

func num(n int) Val    { return Val{K: 1, N: n} }
func str(s string) Val { return Val{K: 2, S: s} }

func (v Val) String() string {
	switch v.K {
	case 1:
		return fmt.Sprint(v.N)
	case 2:
		return fmt.Sprintf("%q", v.S)
	}
	return "defaultInitValue"
}

type Frame struct {
	PC    string
	Proc  int
	Saved map[string]Val // full slot name -> saved value
}

type Ref struct {
	pr    *Prog
	Slots map[string]Val
	PC    string
	Stack []Frame // Stack[0] is the head
	// description of the most recent step
	LastKind      string // assign-only kinds never occur: goto | ret | done | call | tail | call-skipped | tail-skipped
	LastCallee    int
	LastRecursive bool // the callee already had an activation (current procedure or a frame on the stack)
	// PcalTailQuirk reproduces what the TLA+ tools' translator emits for `call Q(..); return` inside a different
	// procedure P: the head frame is replaced by Q's frame (same return label) but P's own variables are NOT
	// restored from the popped frame.  That contradicts "return restores the saved values" (and the property);
	// it is only used to show that this is the single point where the reference and pcal+TLC differ.
	PcalTailQuirk bool
}

var errIllTyped = errors.New("ill-typed program (arithmetic on a non-number): not a PlusCal behaviour")

func scopeName(p int) string {
	if p < 0 {
		return "A"
	}
	return procName(p)
}

func stateVars(p Proc, i int) []string {
	out := []string{procName(i) + ".n"}
	if p.X != "" {
		out = append(out, procName(i)+".x")
	}
	if p.Y != "" {
		out = append(out, procName(i)+".y")
	}
	return out
}

func NewRef(pr *Prog) *Ref {
	r := &Ref{pr: pr, Slots: map[string]Val{}, PC: "A.m0"}
	r.Slots["A.g"] = num(gInit)
	r.Slots["A.e"] = str("&A.e")
	r.Slots["&A.e"] = num(eInit)
	for i, p := range pr.Procs {
		for _, v := range stateVars(p, i) {
			r.Slots[v] = Val{}
		}
	}
	return r
}

// where parses the pc into (scope, label index); scope -1 = archetype; done = at A.Done.
func (r *Ref) where() (scope, label int, done bool) {
	parts := strings.SplitN(r.PC, ".", 2)
	if parts[1] == "Done" {
		return -1, 0, true
	}
	fmt.Sscanf(parts[1][1:], "%d", &label)
	if parts[0] == "A" {
		return -1, label, false
	}
	fmt.Sscanf(parts[0][1:], "%d", &scope)
	return scope, label, false
}

func (r *Ref) labelName(scope, l int) string {
	if scope < 0 {
		if l >= len(r.pr.Main) {
			return "A.Done"
		}
		return fmt.Sprintf("A.m%d", l)
	}
	return fmt.Sprintf("%s.l%d", procName(scope), l)
}

// slotOf resolves variable v of scope to the slot that holds its value (following a ref parameter).
func (r *Ref) slotOf(scope int, v string) (string, error) {
	isRef, ok := r.pr.hasVar(scope, v)
	if !ok {
		return "", fmt.Errorf("no variable %s in %s", v, scopeName(scope))
	}
	s := scopeName(scope) + "." + v
	if isRef {
		t := r.Slots[s]
		if t.K != 2 {
			return "", errIllTyped
		}
		return t.S, nil
	}
	return s, nil
}

func (r *Ref) eval(scope int, e Expr) (Val, error) {
	switch e.K {
	case "c":
		return num(e.N), nil
	case "N":
		return num(r.pr.N), nil
	}
	s, err := r.slotOf(scope, e.V)
	if err != nil {
		return Val{}, err
	}
	v := r.Slots[s]
	switch e.K {
	case "v":
		return v, nil
	case "v+1", "v-1":
		if v.K != 1 {
			return Val{}, errIllTyped
		}
		if e.K == "v+1" {
			return num(v.N + 1), nil
		}
		return num(v.N - 1), nil
	}
	return Val{}, fmt.Errorf("bad expr %v", e)
}

func (r *Ref) active(p int) bool {
	if sc, _, done := r.where(); !done && sc == p {
		return true
	}
	for _, f := range r.Stack {
		if f.Proc == p {
			return true
		}
	}
	return false
}

func (r *Ref) doReturn() error {
	if len(r.Stack) == 0 {
		return errors.New("return with empty stack")
	}
	h := r.Stack[0]
	r.Stack = r.Stack[1:]
	for k, v := range h.Saved {
		r.Slots[k] = v
	}
	r.PC = h.PC
	return nil
}

func (r *Ref) doCall(callee int, retPC string, args []Val) {
	q := r.pr.Procs[callee]
	f := Frame{PC: retPC, Proc: callee, Saved: map[string]Val{}}
	vars := stateVars(q, callee)
	for _, v := range vars {
		f.Saved[v] = r.Slots[v]
	}
	r.Stack = append([]Frame{f}, r.Stack...)
	for i, a := range args {
		r.Slots[vars[i]] = a
	}
	if q.Y == "default" {
		r.Slots[procName(callee)+".y"] = Val{}
	} else if q.Y == "const" {
		r.Slots[procName(callee)+".y"] = num(q.YInit)
	}
	r.PC = procName(callee) + ".l0"
}

func (r *Ref) evalArgs(scope int, t Term) ([]Val, error) {
	var out []Val
	for _, a := range t.Args {
		if a.Ref {
			isRef, ok := r.pr.hasVar(scope, a.V)
			if !ok {
				return nil, fmt.Errorf("no variable %s", a.V)
			}
			if isRef {
				out = append(out, r.Slots[scopeName(scope)+"."+a.V]) // pass the designated name on
			} else {
				out = append(out, str(scopeName(scope)+"."+a.V))
			}
			continue
		}
		v, err := r.eval(scope, a.E)
		if err != nil {
			return nil, err
		}
		out = append(out, v)
	}
	return out, nil
}

// Step executes the label at pc.  Returns done=true when pc is A.Done (nothing executed).
func (r *Ref) Step() (done bool, err error) {
	scope, l, fin := r.where()
	if fin {
		return true, nil
	}
	var lab Label
	if scope < 0 {
		lab = r.pr.Main[l]
	} else {
		lab = r.pr.Procs[scope].Labels[l]
	}
	for _, a := range lab.As {
		v, err := r.eval(scope, a.E)
		if err != nil {
			return false, err
		}
		s, err := r.slotOf(scope, a.T)
		if err != nil {
			return false, err
		}
		r.Slots[s] = v
	}
	t := lab.T
	r.LastKind, r.LastCallee, r.LastRecursive = t.K, -1, false
	taken := true
	if t.Guarded {
		n := r.Slots[scopeName(scope)+".n"]
		if n.K != 1 {
			return false, errIllTyped
		}
		taken = n.N > 0
	}
	switch t.K {
	case "goto":
		r.PC = r.labelName(scope, t.L)
	case "done":
		r.PC = "A.Done"
	case "ret":
		return false, r.doReturn()
	case "call":
		if !taken {
			r.LastKind = "call-skipped"
			r.PC = r.labelName(scope, t.L)
			return false, nil
		}
		args, err := r.evalArgs(scope, t)
		if err != nil {
			return false, err
		}
		r.LastCallee, r.LastRecursive = t.P, r.active(t.P)
		r.doCall(t.P, r.labelName(scope, t.L), args)
	case "tail":
		if !taken {
			r.LastKind = "tail-skipped"
			return false, r.doReturn()
		}
		args, err := r.evalArgs(scope, t)
		if err != nil {
			return false, err
		}
		if len(r.Stack) == 0 {
			return false, errors.New("tail call with empty stack")
		}
		ret := r.Stack[0].PC
		if r.PcalTailQuirk && scope != t.P {
			r.Stack = r.Stack[1:]
			r.LastCallee = t.P
			r.doCall(t.P, ret, args)
			return false, nil
		}
		if err := r.doReturn(); err != nil {
			return false, err
		}
		r.LastCallee, r.LastRecursive = t.P, r.active(t.P) || scope == t.P
		r.doCall(t.P, ret, args)
	default:
		return false, fmt.Errorf("bad terminator %q", t.K)
	}
	return false, nil
}

// Summary renders the whole state canonically (used for outcome counting and TLC comparison).
func (r *Ref) Summary() string {
	keys := make([]string, 0, len(r.Slots))
	for k := range r.Slots {
		keys = append(keys, k)
	}
	sort.Strings(keys)
	var b strings.Builder
	b.WriteString("pc=" + r.PC)
	for _, k := range keys {
		b.WriteString(" " + k + "=" + r.Slots[k].String())
	}
	fmt.Fprintf(&b, " depth=%d", len(r.Stack))
	return b.String()
}

package c06

import "fmt"

// model is the reference for one receiver mailbox / channel fed by 1..n senders.
//
// A message is an int  (sender+1)*10000 + serial.  The model records what each sender's sections wrote,
// which sections committed, and in which order the receiver obtained messages; every answer of the
// implementation is compared with it on the spot.
type model struct {
	ns    int
	eager []bool // per sender: a successful write is immediately and irrevocably sent (relaxed mailboxes, SingleOutputChan)
	batch bool   // TCP mailboxes: the messages of one section must be obtained contiguously

	serial    []int
	cur       [][]int // messages written by the section in flight
	committed [][]int // messages of committed sections, in send order (eager: appended at write time)
	next      []int   // index into committed[s] of the next message the receiver has not obtained yet
	state     map[int]int
	batchOf   map[int][2]int // message -> (batch id, position)
	batchLen  map[int]int
	nBatch    int

	inprog    []int // obtained by the receiver section in flight
	redeliver []int // read by aborted sections: must be delivered again first, in this order
	delivered []int // obtained by committed receiver sections
	first     []int // order of first-time obtains

	sentCommitted int
}

const (
	stInFlight  = 1
	stCommitted = 2
	stAborted   = 3
)

type viol struct{ key, what string }

func newModel(eager []bool, batch bool) *model {
	n := len(eager)
	return &model{ns: n, eager: eager, batch: batch, serial: make([]int, n), cur: make([][]int, n), committed: make([][]int, n),
		next: make([]int, n), state: map[int]int{}, batchOf: map[int][2]int{}, batchLen: map[int]int{}}
}

func senderOf(m int) int { return m/10000 - 1 }

func serialOf(m int) int { return m % 10000 }

// newMsg allocates the next message of sender s (before the write is attempted).
func (m *model) newMsg(s int) int {
	m.serial[s]++
	return (s+1)*10000 + m.serial[s]
}

// wrote: the write of v by sender s succeeded.
func (m *model) wrote(s, v int) {
	if m.eager[s] {
		m.state[v] = stCommitted
		m.committed[s] = append(m.committed[s], v)
		m.sentCommitted++
		return
	}
	m.state[v] = stInFlight
	m.cur[s] = append(m.cur[s], v)
}

// writeRefused: the write of v was refused (section aborts); v was never sent.
func (m *model) writeRefused(s, v int) { m.state[v] = stAborted }

// senderCommits: the decision to commit is taken (called before Commit is invoked: it cannot fail).
func (m *model) senderCommits(s int) {
	if m.eager[s] {
		return
	}
	if len(m.cur[s]) > 0 {
		m.nBatch++
		for i, v := range m.cur[s] {
			m.state[v] = stCommitted
			m.batchOf[v] = [2]int{m.nBatch, i}
			m.committed[s] = append(m.committed[s], v)
			m.sentCommitted++
		}
		m.batchLen[m.nBatch] = len(m.cur[s])
	}
	m.cur[s] = nil
}

func (m *model) senderAborts(s int) {
	for _, v := range m.cur[s] {
		m.state[v] = stAborted
	}
	m.cur[s] = nil
}

// pending: messages sent by committed sections that the receiver section in flight has not obtained.
func (m *model) pending() int {
	n := len(m.redeliver)
	for s := 0; s < m.ns; s++ {
		n += len(m.committed[s]) - m.next[s]
	}
	return n
}

// got: the receiver obtained v.
func (m *model) got(v int, kind string) *viol {
	st, known := m.state[v]
	if !known {
		return &viol{kind + "/invented", fmt.Sprintf("receiver obtained %d, which no sender ever wrote", v)}
	}
	if len(m.redeliver) > 0 {
		want := m.redeliver[0]
		if v != want {
			return &viol{kind + "/aborted-read-not-redelivered-first", fmt.Sprintf("a receiver section read %v and aborted; the next read returned %d instead of %d", m.redeliver, v, want)}
		}
		m.redeliver = m.redeliver[1:]
		m.inprog = append(m.inprog, v)
		return nil
	}
	s := senderOf(v)
	switch st {
	case stAborted:
		return &viol{kind + "/aborted-send-delivered", fmt.Sprintf("receiver obtained %d, written by a sender section that aborted", v)}
	case stInFlight:
		return &viol{kind + "/uncommitted-send-delivered", fmt.Sprintf("receiver obtained %d while the sender section that wrote it has not committed", v)}
	}
	idx := -1
	for i, x := range m.committed[s] {
		if x == v {
			idx = i
		}
	}
	if idx < m.next[s] {
		return &viol{kind + "/duplicated", fmt.Sprintf("receiver obtained %d a second time (sender %d sent %v, %d already obtained)", v, s, m.committed[s], m.next[s])}
	}
	if idx > m.next[s] {
		return &viol{kind + "/lost-or-reordered", fmt.Sprintf("receiver obtained %d but the next message of sender %d is %d (sent %v)", v, s, m.committed[s][m.next[s]], m.committed[s])}
	}
	if m.batch {
		b := m.batchOf[v]
		if len(m.first) > 0 {
			pb := m.batchOf[m.first[len(m.first)-1]]
			if b[1] > 0 && (pb[0] != b[0] || pb[1] != b[1]-1) {
				return &viol{kind + "/section-not-contiguous", fmt.Sprintf("message %d (position %d of its section) obtained right after %d", v, b[1], m.first[len(m.first)-1])}
			}
			if b[1] == 0 && pb[1] != m.batchLen[pb[0]]-1 {
				return &viol{kind + "/section-not-contiguous", fmt.Sprintf("message %d of another section obtained before the section of %d was complete", v, m.first[len(m.first)-1])}
			}
		} else if b[1] != 0 {
			return &viol{kind + "/section-not-contiguous", fmt.Sprintf("first message obtained is %d, position %d of its section", v, b[1])}
		}
	}
	m.next[s]++
	m.first = append(m.first, v)
	m.inprog = append(m.inprog, v)
	return nil
}

func (m *model) receiverCommits() {
	m.delivered = append(m.delivered, m.inprog...)
	m.inprog = nil
}

func (m *model) receiverAborts() {
	m.redeliver = append(append([]int{}, m.inprog...), m.redeliver...)
	m.inprog = nil
}

// final: after the drain every committed send has been obtained by a committed receiver section, per link in order.
func (m *model) final(kind string) *viol {
	for s := 0; s < m.ns; s++ {
		var got []int
		for _, v := range m.delivered {
			if senderOf(v) == s {
				got = append(got, v)
			}
		}
		if fmt.Sprint(got) != fmt.Sprint(m.committed[s]) {
			return &viol{kind + "/link-sequence-differs", fmt.Sprintf("sender %d's committed sections sent %v, the receiver's committed sections obtained %v", s, m.committed[s], got)}
		}
	}
	return nil
}

package c06

import (
	"hash/fnv"
	"os"
	"runtime"
	"runtime/debug"
	"runtime/metrics"
	"strconv"
	"strings"
	"sync"
	"sync/atomic"
	"time"
)

// Memory discipline.  The explorer keeps one string per DISTINCT outcome; with millions of distinct operation traces per
// configuration (and three configurations running side by side) that alone was tens of gigabytes.  The harness therefore
// hands the explorer only a constant outcome class and counts distinct traces itself in a per-configuration set of 64-bit
// hashes that is dropped when the configuration ends.

type tracker struct {
	shards    [64]trackShard
	discarded atomic.Int64
	sampleMu  sync.Mutex
	sample    string
}

type trackShard struct {
	mu sync.Mutex
	m  map[uint64]struct{}
}

func newTracker() *tracker {
	t := &tracker{}
	for i := range t.shards {
		t.shards[i].m = map[uint64]struct{}{}
	}
	return t
}

// note records the operation/answer trace of one completed execution.
func (t *tracker) note(trace string) {
	h := fnv.New64a()
	h.Write([]byte(trace))
	k := h.Sum64()
	sh := &t.shards[k%64]
	sh.mu.Lock()
	sh.m[k] = struct{}{}
	sh.mu.Unlock()
	if t.sample == "" {
		t.sampleMu.Lock()
		if t.sample == "" {
			if len(trace) > 600 {
				trace = trace[:600] + "…"
			}
			t.sample = strings.Clone(trace)
		}
		t.sampleMu.Unlock()
	}
}

func (t *tracker) distinct() int {
	n := 0
	for i := range t.shards {
		t.shards[i].mu.Lock()
		n += len(t.shards[i].m)
		t.shards[i].mu.Unlock()
	}
	return n
}

// ---- soft memory ceiling

const (
	memSoftLimit = 6 << 30 // handed to the Go runtime (debug.SetMemoryLimit): the collector works harder above it
	memCeiling   = 7 << 30 // above this the running configurations are ended cleanly (cap "memory_ceiling", never a verdict)
)

var (
	memStop    atomic.Bool
	memStopped atomic.Int64 // executions ended at once because of the ceiling
	memMax     atomic.Uint64
)

func heapNow() uint64 {
	s := []metrics.Sample{{Name: "/memory/classes/total:bytes"}, {Name: "/memory/classes/heap/released:bytes"}}
	metrics.Read(s)
	return s[0].Value.Uint64() - s[1].Value.Uint64()
}

func startMemWatchdog() (stop func()) {
	debug.SetMemoryLimit(memSoftLimit)
	done := make(chan struct{})
	go func() {
		for {
			select {
			case <-done:
				return
			case <-time.After(time.Second):
			}
			h := heapNow()
			for {
				old := memMax.Load()
				if h <= old || memMax.CompareAndSwap(old, h) {
					break
				}
			}
			if h > memCeiling {
				memStop.Store(true)
			} else if h < memCeiling*6/10 {
				memStop.Store(false)
			}
		}
	}()
	return func() { close(done) }
}

// afterConfig lets the collector take the state of a LARGE finished configuration back before the next one starts (small
// ones are left to the ordinary collection cycle: forcing collections beside running socket executions costs them time).
func afterConfig(executions int64) {
	if executions >= 500_000 {
		runtime.GC()
	}
}

// peakRSSKiB reads VmHWM of this process.
func peakRSSKiB() int {
	b, err := os.ReadFile("/proc/self/status")
	if err != nil {
		return 0
	}
	for _, l := range strings.Split(string(b), "\n") {
		if strings.HasPrefix(l, "VmHWM:") {
			f := strings.Fields(l)
			if len(f) >= 2 {
				n, _ := strconv.Atoi(f[1])
				return n
			}
		}
	}
	return 0
}

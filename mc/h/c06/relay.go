package c06

import (
	"net"
	"sync"
	"time"
)

// relay is a harness-controlled TCP hop between a sender's remote mailbox and the receiver's listener.
// Sender -> receiver bytes pass at once.  Receiver -> sender bytes (the pre-commit and commit acknowledgements) pass at
// once too, unless the connection is "held": then they are kept back until release, the connection itself stays open.
// Nothing is ever dropped or closed by the relay on its own: it only adds latency to acknowledgements.
type relay struct {
	l        net.Listener
	addr     string
	upstream string

	mu        sync.Mutex
	cond      *sync.Cond
	conns     map[*rconn]struct{}
	accepted  int
	clientEOF int // connections that the sender side closed
	done      bool
}

type rconn struct {
	c, u    net.Conn
	dead    bool
	held    bool
	pending [][]byte
	heldN   int // answer chunks that were kept back on this connection
}

func newRelay(listenAddr, upstream string) (*relay, error) {
	l, err := net.Listen("tcp", listenAddr)
	if err != nil {
		return nil, err
	}
	r := &relay{l: l, addr: l.Addr().String(), upstream: upstream, conns: map[*rconn]struct{}{}}
	r.cond = sync.NewCond(&r.mu)
	go r.accept()
	return r, nil
}

func (r *relay) accept() {
	for {
		c, err := r.l.Accept()
		if err != nil {
			return
		}
		u, err := net.DialTimeout("tcp", r.upstream, 2*time.Second)
		if err != nil {
			c.Close()
			continue
		}
		rc := &rconn{c: c, u: u}
		r.mu.Lock()
		if r.done {
			r.mu.Unlock()
			c.Close()
			u.Close()
			return
		}
		r.conns[rc] = struct{}{}
		r.accepted++
		r.mu.Unlock()
		go r.up(rc)
		go r.down(rc)
		go r.writer(rc)
	}
}

func (r *relay) kill(rc *rconn, byClient bool) {
	r.mu.Lock()
	if !rc.dead {
		rc.dead = true
		delete(r.conns, rc)
		if byClient {
			r.clientEOF++
		}
	}
	r.mu.Unlock()
	r.cond.Broadcast()
	rc.c.Close()
	rc.u.Close()
}

func (r *relay) up(rc *rconn) {
	buf := make([]byte, 64*1024)
	for {
		n, err := rc.c.Read(buf)
		if n > 0 {
			if _, werr := rc.u.Write(buf[:n]); werr != nil {
				r.kill(rc, false)
				return
			}
		}
		if err != nil {
			r.kill(rc, true)
			return
		}
	}
}

func (r *relay) down(rc *rconn) {
	for {
		buf := make([]byte, 4096)
		n, err := rc.u.Read(buf)
		if n > 0 {
			r.mu.Lock()
			rc.pending = append(rc.pending, buf[:n])
			if rc.held {
				rc.heldN++
			}
			r.mu.Unlock()
			r.cond.Broadcast()
		}
		if err != nil {
			r.kill(rc, false)
			return
		}
	}
}

func (r *relay) writer(rc *rconn) {
	for {
		r.mu.Lock()
		for (len(rc.pending) == 0 || rc.held) && !rc.dead {
			r.cond.Wait()
		}
		if rc.dead {
			r.mu.Unlock()
			return
		}
		b := rc.pending[0]
		rc.pending = rc.pending[1:]
		r.mu.Unlock()
		if _, err := rc.c.Write(b); err != nil {
			r.kill(rc, false)
			return
		}
	}
}

// holdExisting keeps back the acknowledgements on every connection that is open now; connections opened later are not affected.
func (r *relay) holdExisting() []*rconn {
	r.mu.Lock()
	defer r.mu.Unlock()
	var hs []*rconn
	for rc := range r.conns {
		rc.held = true
		hs = append(hs, rc)
	}
	return hs
}

func (r *relay) release() {
	r.mu.Lock()
	for rc := range r.conns {
		rc.held = false
	}
	r.mu.Unlock()
	r.cond.Broadcast()
}

func (r *relay) counts() (accepted, clientEOF int) {
	r.mu.Lock()
	defer r.mu.Unlock()
	return r.accepted, r.clientEOF
}

func heldAnswers(hs []*rconn, r *relay) int {
	r.mu.Lock()
	defer r.mu.Unlock()
	n := 0
	for _, rc := range hs {
		n += rc.heldN
	}
	return n
}

func (r *relay) close() {
	r.mu.Lock()
	r.done = true
	var cs []*rconn
	for rc := range r.conns {
		rc.held = false
		cs = append(cs, rc)
	}
	r.mu.Unlock()
	r.l.Close()
	for _, rc := range cs {
		r.kill(rc, false)
	}
}

package c06

import (
	"fmt"
	"strings"
	"sync/atomic"
	"testing"
	"testing/synctest"
	"time"

	"github.com/DistCompiler/pgo/distsys"
	"github.com/DistCompiler/pgo/distsys/resources"
	"github.com/DistCompiler/pgo/distsys/tla"
	"github.com/DistCompiler/pgo/systems/raftkvs"
	"verif/mc/explore"
)

// Go-channel resources: sender resource(s) -> one Go channel -> receiver resource, inside a synctest bubble.
// Every operation of a participant runs in its own goroutine; after each move synctest.Wait() tells which
// operations have returned and which are parked (on the channel or on a timer).  Virtual time only advances by the
// explicit move "tick".

var (
	bubbleOps    atomic.Int64
	bubbleTicks  atomic.Int64
	bubbleBlocks atomic.Int64
)

const chanTimeout = 20 * time.Millisecond // InputChan default, SingleOutputChan constant; CustomInChan is given the same

type opRes struct {
	v   tla.Value
	err error
	pan any
}

type flight struct {
	op    string
	msg   int
	timed bool // parked on a timer: "tick" completes it
	done  chan opRes
}

type chanSys struct {
	c      *explore.Ctx
	cfg    *config
	m      *model
	ch     chan tla.Value
	in     distsys.ArchetypeResource
	out    []distsys.ArchetypeResource
	custom bool
	single bool
	rIface distsys.ArchetypeInterface
	sIface []distsys.ArchetypeInterface
	sp     []sphase
	rp     rphase
	sf     []*flight
	rf     *flight
	trace  []string
}

func (s *chanSys) fail(v *viol) {
	noteCandidate(v.key, v.what+" | ops: "+strings.Join(s.trace, " "))
	s.c.Fail(v.key, v.what+" | ops: "+strings.Join(s.trace, " "), nil)
}

func newChanSys(c *explore.Ctx, cfg *config) *chanSys {
	s := &chanSys{c: c, cfg: cfg, ch: make(chan tla.Value, cfg.Cap)}
	parts := strings.Split(cfg.Kind, "-")
	s.single = parts[0] == "single"
	s.custom = parts[1] == "custom"
	eager := make([]bool, cfg.Senders)
	for i := range eager {
		eager[i] = s.single
	}
	s.m = newModel(eager, false)
	if s.custom {
		s.in = raftkvs.NewCustomInChan(s.ch, chanTimeout)
	} else {
		s.in = resources.NewInputChan(s.ch, resources.WithInputChanReadTimeout(chanTimeout))
	}
	s.rIface = distsys.NewMPCalContextWithoutArchetype().IFace()
	for i := 0; i < cfg.Senders; i++ {
		s.sIface = append(s.sIface, distsys.NewMPCalContextWithoutArchetype().IFace())
		if s.single {
			s.out = append(s.out, resources.NewSingleOutputChan(s.ch))
		} else {
			s.out = append(s.out, resources.NewOutputChan(s.ch))
		}
	}
	s.sp = make([]sphase, cfg.Senders)
	s.sf = make([]*flight, cfg.Senders)
	return s
}

func (s *chanSys) launch(op string, msg int, timed bool, f func() (tla.Value, error)) *flight {
	fl := &flight{op: op, msg: msg, timed: timed, done: make(chan opRes, 1)}
	bubbleOps.Add(1)
	go func() {
		var r opRes
		defer func() {
			r.pan = recover()
			fl.done <- r
		}()
		r.v, r.err = f()
	}()
	return fl
}

func (s *chanSys) sLaunch(i int, op string) {
	res, iface := s.out[i], s.sIface[i]
	ph := &s.sp[i]
	switch op {
	case "W":
		v := s.m.newMsg(i)
		if !ph.inSec {
			ph.inSec, ph.writes, ph.pre = true, 0, false
		}
		s.trace = append(s.trace, fmt.Sprintf("s%d.write(%d)", i, v))
		s.sf[i] = s.launch("W", v, s.single, func() (tla.Value, error) {
			return tla.Value{}, res.WriteValue(iface, tla.MakeNumber(int32(v)))
		})
	case "P":
		s.trace = append(s.trace, fmt.Sprintf("s%d.precommit", i))
		s.sf[i] = s.launch("P", 0, false, func() (tla.Value, error) {
			if ch := res.PreCommit(iface); ch != nil {
				return tla.Value{}, <-ch
			}
			return tla.Value{}, nil
		})
	case "C":
		s.trace = append(s.trace, fmt.Sprintf("s%d.commit", i))
		s.m.senderCommits(i)
		s.sf[i] = s.launch("C", 0, false, func() (tla.Value, error) {
			if !ph.pre { // sections of eager kinds go straight to commit: the context still pre-commits first
				if ch := res.PreCommit(iface); ch != nil {
					if err := <-ch; err != nil {
						return tla.Value{}, err
					}
				}
			}
			if ch := res.Commit(iface); ch != nil {
				<-ch
			}
			return tla.Value{}, nil
		})
	case "A":
		s.trace = append(s.trace, fmt.Sprintf("s%d.abort", i))
		s.m.senderAborts(i)
		s.sf[i] = s.launch("A", 0, false, func() (tla.Value, error) {
			if ch := res.Abort(iface); ch != nil {
				<-ch
			}
			return tla.Value{}, nil
		})
	}
}

func (s *chanSys) rLaunch(op string) {
	res, iface := s.in, s.rIface
	if !s.rp.inSec {
		s.rp.inSec, s.rp.ops = true, 0
	}
	switch op {
	case "R":
		s.trace = append(s.trace, "r.read")
		s.rf = s.launch("R", 0, true, func() (tla.Value, error) { return res.ReadValue(iface) })
	case "C":
		s.trace = append(s.trace, "r.commit")
		s.m.receiverCommits()
		s.rf = s.launch("C", 0, false, func() (tla.Value, error) {
			if ch := res.PreCommit(iface); ch != nil {
				if err := <-ch; err != nil {
					return tla.Value{}, err
				}
			}
			if ch := res.Commit(iface); ch != nil {
				<-ch
			}
			return tla.Value{}, nil
		})
	case "A":
		s.trace = append(s.trace, "r.abort")
		s.m.receiverAborts()
		s.rf = s.launch("A", 0, false, func() (tla.Value, error) {
			if ch := res.Abort(iface); ch != nil {
				<-ch
			}
			return tla.Value{}, nil
		})
	}
}

// harvest: after synctest.Wait(), collect the operations that have returned (senders first, so that a message handed
// over in a rendezvous is known to the model before the receiver's answer is judged).
func (s *chanSys) harvest() {
	synctest.Wait()
	for again := true; again; {
		again = false
		for i, fl := range s.sf {
			if fl == nil {
				continue
			}
			select {
			case r := <-fl.done:
				s.sf[i] = nil
				s.sDone(i, fl, r)
				again = true
			default:
			}
		}
		if again {
			synctest.Wait()
		}
	}
	if fl := s.rf; fl != nil {
		select {
		case r := <-fl.done:
			s.rf = nil
			s.rDone(fl, r)
			// an abort forced by the resource may have been launched: collect it too
			if s.rf != nil || s.anySenderFlight() {
				s.harvest()
			}
		default:
		}
	}
}

func (s *chanSys) anySenderFlight() bool {
	for _, fl := range s.sf {
		if fl != nil {
			return true
		}
	}
	return false
}

func (s *chanSys) sDone(i int, fl *flight, r opRes) {
	ph := &s.sp[i]
	kind := s.cfg.Kind
	if r.pan != nil {
		what := map[string]string{"W": "WriteValue", "P": "PreCommit", "C": "Commit", "A": "Abort"}[fl.op]
		key := kind + "/panic/" + what
		if fl.op == "A" && s.single {
			// SingleOutputChan.WriteValue answers a full channel with ErrCriticalSectionAborted, after which
			// MPCalContext.Run aborts every resource of the section - and SingleOutputChan.Abort panics
			key = "singleoutputchan/full-buffer-abort-panics"
		}
		s.fail(&viol{key, fmt.Sprintf("sender %s panicked: %v", what, r.pan)})
	}
	switch fl.op {
	case "W":
		if r.err != nil {
			if r.err != distsys.ErrCriticalSectionAborted {
				s.fail(&viol{kind + "/write-error", fmt.Sprintf("WriteValue returned %v", r.err)})
			}
			s.trace = append(s.trace, fmt.Sprintf("s%d.write=abort", i))
			s.m.writeRefused(i, fl.msg)
			// what MPCalContext.Run does next: abort every resource of the section
			s.sLaunch(i, "A")
			return
		}
		ph.writes++
		s.m.wrote(i, fl.msg)
	case "P":
		if r.err != nil {
			s.fail(&viol{kind + "/precommit-refused", fmt.Sprintf("PreCommit returned %v", r.err)})
		}
		ph.pre = true
	case "C", "A":
		if r.err != nil {
			s.fail(&viol{kind + "/commit-error", fmt.Sprintf("%v", r.err)})
		}
		ph.inSec = false
		ph.secs++
	}
}

func (s *chanSys) rDone(fl *flight, r opRes) {
	kind := s.cfg.Kind
	if r.pan != nil {
		s.fail(&viol{kind + "/panic/receiver-" + fl.op, fmt.Sprintf("receiver operation %s panicked: %v", fl.op, r.pan)})
	}
	switch fl.op {
	case "R":
		if r.err != nil {
			if r.err != distsys.ErrCriticalSectionAborted {
				s.fail(&viol{kind + "/read-error", fmt.Sprintf("ReadValue returned %v", r.err)})
			}
			s.trace = append(s.trace, "r.read=abort")
			if s.m.pending() > 0 {
				s.fail(&viol{kind + "/read-times-out-while-message-pending", fmt.Sprintf("ReadValue timed out although %d messages of committed sections are pending (virtual time: no scheduling excuse)", s.m.pending())})
			}
			s.rLaunch("A")
			return
		}
		if s.custom && r.v.Equal(tla.ModuleTRUE) {
			// CustomInChan's documented answer to a timeout: the default value, not a message
			s.trace = append(s.trace, "r.read=TRUE(timeout)")
			if s.m.pending() > 0 {
				s.fail(&viol{kind + "/read-times-out-while-message-pending", fmt.Sprintf("CustomInChan returned its timeout default although %d messages are pending", s.m.pending())})
			}
			s.rp.ops++
			return
		}
		if !r.v.IsNumber() {
			s.fail(&viol{kind + "/invented", fmt.Sprintf("receiver obtained %v, which no sender wrote", r.v)})
		}
		v := int(r.v.AsNumber())
		s.trace = append(s.trace, fmt.Sprintf("r.read=%d", v))
		if f := s.m.got(v, kind); f != nil {
			s.fail(f)
		}
		s.rp.ops++
	case "C", "A":
		if r.err != nil {
			s.fail(&viol{kind + "/receiver-commit-error", fmt.Sprintf("%v", r.err)})
		}
		s.rp.inSec = false
		s.rp.secs++
	}
}

func (s *chanSys) tick() {
	bubbleTicks.Add(1)
	s.trace = append(s.trace, "tick")
	time.Sleep(chanTimeout + time.Millisecond)
	s.harvest()
}

func (s *chanSys) run() {
	cfg := s.cfg
	cur := -2
	for {
		var moves []move
		midSection := func(p int) bool {
			if p == -1 {
				return s.rp.inSec && s.rf == nil
			}
			if p >= 0 {
				return s.sp[p].inSec && s.sf[p] == nil
			}
			return false
		}
		pre := func(p int) int {
			if cur != p && midSection(cur) {
				return 1
			}
			return 0
		}
		timed := false
		for i := range s.sp {
			ph := s.sp[i]
			if fl := s.sf[i]; fl != nil {
				timed = timed || fl.timed
				continue
			}
			c := pre(i)
			switch {
			case !ph.inSec:
				if ph.secs < cfg.NS {
					moves = append(moves, move{i, "W", c})
				}
			case !ph.pre:
				if ph.writes < cfg.MaxW {
					moves = append(moves, move{i, "W", c})
				}
				if s.single {
					moves = append(moves, move{i, "C", c})
				} else {
					moves = append(moves, move{i, "P", c})
					if cfg.SAbort {
						moves = append(moves, move{i, "A", c})
					}
				}
			default:
				moves = append(moves, move{i, "C", c})
				if cfg.SAbort {
					moves = append(moves, move{i, "A", c})
				}
			}
		}
		if fl := s.rf; fl != nil {
			timed = timed || fl.timed
		} else {
			c := pre(-1)
			if (!s.rp.inSec && s.rp.secs < cfg.NR) || (s.rp.inSec && s.rp.ops < cfg.MaxR) {
				moves = append(moves, move{-1, "R", c})
			}
			if s.rp.inSec {
				moves = append(moves, move{-1, "C", c})
				if cfg.RAbort {
					moves = append(moves, move{-1, "A", c})
				}
			}
		}
		if timed {
			moves = append(moves, move{-3, "tick", 0})
		}
		if len(moves) == 0 {
			break
		}
		mv := pick(s.c, moves)
		switch {
		case mv.who == -3:
			s.tick()
			continue
		case mv.who >= 0:
			s.sLaunch(mv.who, mv.op)
		default:
			s.rLaunch(mv.op)
		}
		cur = mv.who
		s.harvest()
		if (mv.who >= 0 && s.sf[mv.who] != nil) || (mv.who == -1 && s.rf != nil) {
			bubbleBlocks.Add(1)
			cur = -2 // the participant is parked, not pre-empted
		}
	}
	s.drain()
}

// drain: the receiver reads (committed single-read sections) until nothing is pending; every parked commit must then
// have completed, the channel must be empty and one more read must time out.
func (s *chanSys) drain() {
	kind := s.cfg.Kind
	if s.rf != nil && s.rf.op == "R" && s.m.pending() == 0 {
		s.tick()
	}
	if s.rf != nil {
		s.fail(&viol{kind + "/hang/receiver", "a receiver operation never returned"})
	}
	if s.rp.inSec {
		s.rLaunch("C")
		s.harvest()
	}
	for n := 0; s.m.pending() > 0; n++ {
		if n > 200 {
			s.fail(&viol{kind + "/drain-does-not-terminate", "receiver keeps obtaining messages"})
		}
		before := len(s.m.inprog)
		s.rLaunch("R")
		s.harvest()
		if s.rf != nil {
			// parked although the model has messages pending: let the timer fire, the verdict is in rDone
			s.tick()
		}
		if s.rf != nil {
			s.fail(&viol{kind + "/hang/receiver", "ReadValue never returned"})
		}
		if len(s.m.inprog) == before && !s.rp.inSec {
			continue // aborted; rDone has judged it
		}
		s.rLaunch("C")
		s.harvest()
	}
	for i, fl := range s.sf {
		if fl != nil && fl.timed {
			s.tick()
		}
		if s.sf[i] != nil {
			s.fail(&viol{kind + "/hang/sender-" + s.sf[i].op, fmt.Sprintf("sender %d: %s never returned although the receiver obtained everything", i, s.sf[i].op)})
		}
	}
	// nothing may be left
	if len(s.ch) != 0 {
		s.fail(&viol{kind + "/extra-message-after-drain", fmt.Sprintf("every committed send was obtained, yet the Go channel still holds %d values", len(s.ch))})
	}
	s.rLaunch("R")
	s.harvest()
	if s.rf != nil {
		s.tick()
	}
	if s.rf != nil {
		s.fail(&viol{kind + "/hang/receiver", "ReadValue on an empty channel never returned"})
	}
	if s.rp.inSec { // CustomInChan: section goes on after its timeout default
		if len(s.m.inprog) > 0 {
			s.fail(&viol{kind + "/extra-message-after-drain", fmt.Sprintf("a read after the drain obtained %v", s.m.inprog)})
		}
		s.rLaunch("C")
		s.harvest()
	}
	if f := s.m.final(kind); f != nil {
		s.fail(f)
	}
}

// unblock lets every parked goroutine of the execution finish, whatever state it was abandoned in
// (a bubble must not end with parked goroutines).
func (s *chanSys) unblock() {
	for n := 0; n < 100; n++ {
		busy := s.rf != nil
		for _, fl := range s.sf {
			busy = busy || fl != nil
		}
		if !busy {
			return
		}
		for drained := true; drained; {
			select {
			case <-s.ch:
			default:
				drained = false
			}
		}
		time.Sleep(2 * chanTimeout)
		synctest.Wait()
		for i, fl := range s.sf {
			if fl != nil {
				select {
				case <-fl.done:
					s.sf[i] = nil
				default:
				}
			}
		}
		if s.rf != nil {
			select {
			case <-s.rf.done:
				s.rf = nil
			default:
			}
		}
	}
}

// runBubble executes one execution of a Go-channel configuration inside a fresh bubble; explore's control-flow panics
// (Fail, Prune, divergence) are carried out of the bubble.
func runBubble(t *testing.T, c *explore.Ctx, cfg *config) (outcome string) {
	var carried any
	synctest.Test(t, func(t *testing.T) {
		var s *chanSys
		defer func() {
			carried = recover()
			if s != nil {
				func() {
					defer func() { recover() }()
					s.unblock()
				}()
			}
		}()
		s = newChanSys(c, cfg)
		s.run()
		outcome = strings.Join(s.trace, " ")
	})
	if carried != nil {
		panic(carried)
	}
	return outcome
}

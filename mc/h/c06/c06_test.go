// C06: mailboxes and channel resources are reliable FIFO exactly-once transactional links.
//
// E1 exploration.  Every execution builds fresh resources and a single driver issues the ArchetypeResource operations
// (Index / WriteValue / ReadValue / PreCommit / Commit / Abort) of 1-2 senders and 1 receiver in every interleaving at
// operation granularity within a deviation budget, with every commit/abort pattern, against the reference model of model.go.
// TCP and relaxed mailboxes run over real loopback sockets (sock.go), the Go-channel resources in synctest bubbles (bubble.go).
package c06

import (
	"encoding/json"
	"fmt"
	"io"
	"log"
	"net"
	"os"
	"runtime"
	"sort"
	"strings"
	"sync"
	"testing"
	"time"

	"verif/mc/explore"
	"verif/mc/hres"
)

func portFree(addr string) bool {
	l, err := net.Listen("tcp", addr)
	if err != nil {
		return false
	}
	l.Close()
	return true
}

func sockConfigs(thorough bool) []config {
	b, b0 := 1, 0
	if thorough {
		b, b0 = 2, 1
	}
	nsBulk := 0
	if thorough {
		nsBulk = 1
	}
	cs := []config{
		{Name: "tcp/1-sender", Kind: "tcp", Senders: 1, NS: 2, NR: 2, MaxW: 2, MaxR: 2, Cap: 100, SAbort: true, RAbort: true, Budget: b, ToMs: 25, WToMs: 2000},
		{Name: "tcp/1-sender/blocked-read", Kind: "tcp", Senders: 1, NS: 2, NR: 2, MaxW: 2, MaxR: 2, Cap: 100, SAbort: true, RAbort: true, Blocked: true, Budget: b, ToMs: 3000, WToMs: 3000},
		{Name: "tcp/length", Kind: "tcp", Senders: 1, NS: 2, NR: 2, MaxW: 2, MaxR: 2, Cap: 100, SAbort: false, RAbort: true, Len: true, Budget: b0, ToMs: 25, WToMs: 2000},
		{Name: "tcp/slow-receiver", Kind: "tcp", Senders: 1, NS: 4, NR: 2, MaxW: 1, MaxR: 1, Cap: 1, SAbort: false, RAbort: true, Stall: true, Budget: b, ToMs: 25, WToMs: 250},
		{Name: "tcp/slow-receiver-length", Kind: "tcp", Senders: 1, NS: 3, NR: 1, MaxW: 2, MaxR: 2, Cap: 1, SAbort: false, RAbort: true, Len: true, Budget: b0, ToMs: 25, WToMs: 250},
		{Name: "tcp/2-senders", Kind: "tcp", Senders: 2, NS: 1, NR: 2, MaxW: 2, MaxR: 2, Cap: 100, SAbort: true, RAbort: true, Budget: b, ToMs: 25, WToMs: 2000},
		{Name: "tcp/2-senders/blocked-read", Kind: "tcp", Senders: 2, NS: 1, NR: 2, MaxW: 2, MaxR: 2, Cap: 100, SAbort: true, RAbort: true, Blocked: true, Budget: b, ToMs: 3000, WToMs: 3000},
		// the commit acknowledgement is sent but reaches the sender only after its timeout (byte relay, nothing dropped)
		{Name: "tcp/late-commit-ack", Kind: "tcp", Senders: 1, NS: 2, NR: 2, MaxW: 2, MaxR: 2, Cap: 100, SAbort: true, RAbort: true, Relay: true, Budget: b, ToMs: 25, WToMs: 250},
		{Name: "tcp/late-receiver", Kind: "tcp", Senders: 1, NS: 2, NR: 1, MaxW: 1, MaxR: 2, Cap: 100, SAbort: true, RAbort: true, Late: true, Budget: b, ToMs: 25, WToMs: 2000},
		{Name: "relaxed/1-sender", Kind: "relaxed", Senders: 1, NS: 2, NR: 2, MaxW: 2, MaxR: 2, Cap: 100, RAbort: true, Budget: b, ToMs: 25, WToMs: 2000},
		{Name: "relaxed/1-sender/blocked-read", Kind: "relaxed", Senders: 1, NS: 2, NR: 2, MaxW: 2, MaxR: 2, Cap: 100, RAbort: true, Blocked: true, Budget: b, ToMs: 3000, WToMs: 3000},
		{Name: "relaxed/length", Kind: "relaxed", Senders: 1, NS: 2, NR: 2, MaxW: 2, MaxR: 2, Cap: 100, RAbort: true, Len: true, Budget: b0, ToMs: 25, WToMs: 2000},
		{Name: "relaxed/slow-receiver", Kind: "relaxed", Senders: 1, NS: 3, NR: 2, MaxW: 1, MaxR: 2, Cap: 1, RAbort: true, Len: true, Budget: b0, ToMs: 25, WToMs: 2000},
		// stopped receiver until a WriteValue times out on the full connection (64 KiB messages), then the retry
		{Name: "relaxed/bulk-write-timeout", Kind: "relaxed", Senders: 1, NS: nsBulk, NR: 1, MaxW: 1, MaxR: 1, Cap: 1, RAbort: true, Bulk: 400, PadKB: 64, Budget: b0, ToMs: 50, WToMs: 300},
		{Name: "relaxed/2-senders", Kind: "relaxed", Senders: 2, NS: 1, NR: 2, MaxW: 2, MaxR: 2, Cap: 100, RAbort: true, Budget: b, ToMs: 25, WToMs: 2000},
	}
	if thorough {
		cs = append(cs,
			config{Name: "tcp/3-sections", Kind: "tcp", Senders: 1, NS: 3, NR: 3, MaxW: 2, MaxR: 2, Cap: 100, SAbort: true, RAbort: true, Budget: 1, ToMs: 25, WToMs: 2000},
			config{Name: "relaxed/3-sections", Kind: "relaxed", Senders: 1, NS: 3, NR: 3, MaxW: 2, MaxR: 2, Cap: 100, RAbort: true, Len: true, Budget: 0, ToMs: 25, WToMs: 2000},
			config{Name: "tcp/2-senders-2-sections", Kind: "tcp", Senders: 2, NS: 2, NR: 2, MaxW: 2, MaxR: 2, Cap: 100, SAbort: true, RAbort: true, Budget: 0, ToMs: 25, WToMs: 2000},
		)
	}
	return cs
}

func bubbleConfigs(thorough bool) []config {
	var cs []config
	caps := []int{0, 1, 3}
	for _, k := range []string{"out-in", "single-in", "out-custom", "single-custom"} {
		b := 2
		if strings.HasSuffix(k, "custom") {
			b = 0 // CustomInChan sections go on after a timeout, the tree is much wider
			if thorough {
				b = 1
			}
		}
		mw, ns := 2, 2
		if strings.HasPrefix(k, "single") {
			mw, ns = 1, 3 // a SingleOutputChan section sends one value (a sent value cannot be rolled back)
		}
		for _, cp := range caps {
			cs = append(cs, config{Name: fmt.Sprintf("%s/cap%d", k, cp), Kind: k, Senders: 1, NS: ns, NR: 2, MaxW: mw, MaxR: 2, Cap: cp, SAbort: true, RAbort: true, Budget: b})
		}
	}
	b := 1
	if thorough {
		b = 2
	}
	cs = append(cs, config{Name: "out-in/2-senders/cap1", Kind: "out-in", Senders: 2, NS: 1, NR: 2, MaxW: 2, MaxR: 2, Cap: 1, SAbort: true, RAbort: true, Budget: b})
	cs = append(cs, config{Name: "single-in/2-senders/cap1", Kind: "single-in", Senders: 2, NS: 2, NR: 2, MaxW: 1, MaxR: 2, Cap: 1, SAbort: true, RAbort: true, Budget: b - 1})
	if thorough {
		for _, k := range []string{"out-in", "single-in", "out-custom"} {
			mw := 2
			if strings.HasPrefix(k, "single") {
				mw = 1
			}
			cs = append(cs, config{Name: k + "/3-sections/cap1", Kind: k, Senders: 1, NS: 3, NR: 3, MaxW: mw, MaxR: 2, Cap: 1, SAbort: true, RAbort: true, Budget: 1})
			cs = append(cs, config{Name: k + "/2-senders-2-sections/cap2", Kind: k, Senders: 2, NS: 2, NR: 2, MaxW: mw, MaxR: 2, Cap: 2, SAbort: true, RAbort: true, Budget: 0})
		}
	}
	return cs
}

func sockBody(cfg *config, tr *tracker) func(c *explore.Ctx) {
	return func(c *explore.Ctx) {
		if memStop.Load() {
			memStopped.Add(1)
			c.Prune()
		}
		wk := c.User.(*worker)
		var s *sockSys
		defer func() {
			x := recover()
			if s != nil {
				s.cleanup()
			}
			if x != nil {
				if _, ok := x.(discard); ok {
					tr.discarded.Add(1)
					c.Outcome("discarded")
					return
				}
				panic(x)
			}
		}()
		s = newSockSys(c, cfg, wk)
		s.run()
		tr.note(strings.Join(s.trace, " "))
		c.Outcome("ok") // the explorer keeps a string per distinct outcome: distinct traces are counted by the tracker
	}
}

func bubbleBody(t *testing.T, cfg *config, tr *tracker) func(c *explore.Ctx) {
	return func(c *explore.Ctx) {
		if memStop.Load() {
			memStopped.Add(1)
			c.Prune()
		}
		tr.note(runBubble(t, c, cfg))
		c.Outcome("ok")
	}
}

type replay struct {
	Config  config `json:"config"`
	Choices []int  `json:"choices"`
}

func isSock(k string) bool { return k == "tcp" || k == "relaxed" }

func TestCheck(t *testing.T) {
	log.SetOutput(io.Discard)
	hres.Main(t, func(env hres.Env) *hres.Result {
		res := &hres.Result{Property: "C06", Level: "exploration"}
		res.Assumptions = []string{
			"no connection failure is injected (out of scope by the statement); timeouts are real for the socket kinds and virtual (synctest) for the Go-channel kinds",
			"operations are issued by one driver exactly as MPCalContext.Run issues them (Index, Read/WriteValue, PreCommit of all, Commit of all / Abort of all); goroutine interleavings inside handleConn are not controlled",
			"a Commit that does not return within three write timeouts while nobody reads stays in flight and the receiver goes on (back-pressure during Commit); after the drain every Commit must have returned and the per-link oracle must hold; slow-receiver configurations also have one explicit move during which nobody reads for 2.5 write timeouts",
			"tcp/late-commit-ack: a byte relay between sender and receiver holds the commit acknowledgement (and nothing else) until the sender has timed out, closed and redialed; a duplicate gets the key tcp/duplicated-after-late-commit-ack only if the relay's log shows exactly that (ack was sent and held, sender closed, new connection) for the section the duplicated message belongs to - otherwise tcp/duplicated",
			"relaxed/bulk-write-timeout: one macro move commits one-message sections of 64 KiB while nobody reads until a WriteValue times out; an out-of-order arrival gets the key relaxed/reordered-after-write-timeout only if the accessor showed that the sender closed its connection at the timeout and, after reading everything, nothing is lost or duplicated and only messages written after the timeout overtake messages written before it - otherwise relaxed/lost-or-reordered",
			"socket kinds: after every acknowledged send the driver waits (accessor) until it is visible at the receiver; an acknowledged send that is not visible after 12 s, six times in a row, is reported as lost",
			"an abort answered by the implementation where the model sees a deliverable message is accepted for the socket kinds (a timer may win under load) and counted as spurious_aborts; in bubbles time is virtual and it is not accepted",
			"CustomInChan's timeout default TRUE is its documented timeout answer, not a message",
			"relaxed mailboxes / SingleOutputChan: sender sections always commit (the statement restricts them to sections that commit)",
		}
		if env.Replay != nil {
			var r replay
			if err := json.Unmarshal(env.Replay, &r); err != nil {
				t.Fatal(err)
			}
			res.Coverage = map[string]any{"evaluations": 1, "distinct_nontrivial": 0, "rule": "replay", "samples": []any{r}}
			cfg := r.Config
			var v *explore.Violation
			if isSock(cfg.Kind) {
				v, _, _ = explore.ReplayOnce(sockBody(&cfg, newTracker()), r.Choices, cfg.Budget, &worker{ip: procIP(200), port: 20000})
			} else {
				v, _, _ = explore.ReplayOnce(bubbleBody(t, &cfg, newTracker()), r.Choices, cfg.Budget, nil)
			}
			if v != nil {
				res.Violations = append(res.Violations, hres.Viol{Key: v.Key, What: v.What, Replay: r})
			}
			return res
		}

		viol := map[string]hres.Viol{}
		perCfg := map[string]any{}
		var samples []any
		var evals, distinct, discarded int
		var divergences int64
		exhaustive := true
		capHit := ""
		add := func(cfg config, st *explore.Stats, tr *tracker, memCapped bool) {
			d := int(tr.discarded.Load())
			nd := tr.distinct()
			discarded += d
			evals += int(st.Executions)
			distinct += nd
			divergences += st.Divergences
			if memCapped {
				st.Exhaustive = false
				if st.CapHit == "" {
					st.CapHit = "memory_ceiling"
				}
			}
			if !st.Exhaustive || d > 0 {
				exhaustive = false
			}
			if st.CapHit != "" {
				capHit = st.CapHit
			}
			perCfg[cfg.Name] = map[string]any{"executions": st.Executions, "distinct_outcomes": nd, "budget": cfg.Budget, "exhaustive": st.Exhaustive, "cap_hit": st.CapHit,
				"max_depth": st.MaxDepthSeen, "wall_s": st.WallS, "discarded": d, "divergences": st.Divergences}
			if tr.sample != "" && len(samples) < 40 {
				ch := ""
				if len(st.Samples) > 0 {
					ch = st.Samples[0].Choices
				}
				samples = append(samples, map[string]any{"config": cfg.Name, "choices": ch, "operations": tr.sample})
			}
			for _, v := range st.Violations {
				if _, ok := viol[v.Key]; !ok {
					viol[v.Key] = hres.Viol{Key: v.Key, What: "[" + cfg.Name + "] " + v.What, Replay: replay{Config: cfg, Choices: v.Choices}}
				}
			}
		}

		// Go-channel kinds run in bubbles (microseconds each, CPU bound), socket kinds in real time (they mostly wait for
		// timeouts and acknowledgements): the two lists are worked through side by side.  Within a list every configuration
		// may use four times its fair share of the time that is left, so that one large tree cannot starve those after it.
		end := env.Deadline.Add(-15 * time.Second)
		var addMu sync.Mutex
		// bounds on what one configuration may keep in memory: its set of distinct trace hashes (8 bytes each)
		const maxExec = 4_000_000
		stopWatchdog := startMemWatchdog()
		defer stopWatchdog()
		runList := func(all []config, sock bool) {
			for i := range all {
				cfg := all[i]
				if f := os.Getenv("C06_ONLY"); f != "" && !strings.Contains(cfg.Name, f) {
					continue
				}
				dl := time.Now().Add(4 * time.Until(end) / time.Duration(len(all)-i))
				if dl.After(end) {
					dl = end
				}
				var st *explore.Stats
				tr := newTracker()
				stopsBefore := memStopped.Load()
				if sock {
					sw := env.Workers * 3
					if sw < 12 {
						sw = 12
					}
					if sw > 32 {
						sw = 32
					}
					st = explore.Run(sockBody(&cfg, tr), explore.Options{Budget: cfg.Budget, Workers: sw, Deadline: dl, Samples: 1, MaxExec: maxExec,
						Setup: func(w int) any { return &worker{ip: procIP(w + 1), port: 20000 + (w*131)%1000} }})
				} else {
					st = explore.Run(bubbleBody(t, &cfg, tr), explore.Options{Budget: cfg.Budget, Workers: env.Workers, Deadline: dl, Samples: 1, MaxExec: maxExec})
				}
				addMu.Lock()
				add(cfg, st, tr, memStopped.Load() > stopsBefore)
				addMu.Unlock()
				n := st.Executions
				tr, st = nil, nil
				afterConfig(n)
			}
		}
		// socket configurations whose executions contain long real-time waits (write timeouts of a stopped receiver, held
		// acknowledgements, bulk transfers) form a third list
		var fast, slow []config
		for _, cfg := range sockConfigs(env.Thorough()) {
			if cfg.Bulk > 0 || cfg.Relay || cfg.WToMs < 1000 {
				slow = append(slow, cfg)
			} else {
				fast = append(fast, cfg)
			}
		}
		var wg sync.WaitGroup
		wg.Add(3)
		go func() { defer wg.Done(); runList(bubbleConfigs(env.Thorough()), false) }()
		go func() { defer wg.Done(); runList(fast, true) }()
		go func() { defer wg.Done(); runList(slow, true) }()
		wg.Wait()

		keys := make([]string, 0, len(viol))
		for k := range viol {
			keys = append(keys, k)
		}
		sort.Strings(keys)
		for _, k := range keys {
			res.Violations = append(res.Violations, viol[k])
		}
		res.Coverage = map[string]any{
			"evaluations":         evals,
			"distinct_nontrivial": distinct,
			"rule": "per configuration (kind, senders, sections, writes/reads per section, capacity) every sequence of participant operations allowed by the scripts' grammar " +
				"(sender section: write{1..2} then abort | precommit then commit | precommit then abort; receiver section: read/length{1..2} then commit | abort) in every interleaving " +
				"with at most <budget> deviations (a deviation = switching away from a participant in the middle of its section, or reading an empty mailbox: timeout or read left blocked while senders go on), " +
				"followed by a drain; distinct = distinct observed operation/answer traces",
			"samples":                          samples,
			"per_configuration":                perCfg,
			"exhaustive":                       exhaustive,
			"cap_hit":                          capHit,
			"divergences":                      divergences,
			"discarded_env_timeout":            discarded,
			"env_timeouts":                     envTimeouts.Load(),
			"spurious_aborts":                  spuriousAborts.Load(),
			"spurious_aborts_by_op":            spurious,
			"unconfirmed_candidates":           unconfirmed(viol),
			"expected_aborts":                  expectedAborts.Load(),
			"socket_operations":                sockOps.Load(),
			"overlapped_reads":                 overlappedReads.Load(),
			"commit_acks_held_past_timeout":    acksDelayed.Load(),
			"of_which_sender_redialed":         acksResent.Load(),
			"bulk_moves":                       bulkMoves.Load(),
			"commits_left_in_flight":           commitsInFlight.Load(),
			"stall_moves":                      stallMoves.Load(),
			"bubble_operations":                bubbleOps.Load(),
			"bubble_ticks":                     bubbleTicks.Load(),
			"bubble_parked_ops":                bubbleBlocks.Load(),
			"goroutines_at_end":                runtime.NumGoroutine(),
			"max_executions_per_configuration": maxExec,
			"memory": map[string]any{"max_heap_mib": memMax.Load() >> 20, "peak_rss_mib": peakRSSKiB() >> 10, "soft_limit_mib": memSoftLimit >> 20, "ceiling_mib": memCeiling >> 20,
				"executions_ended_by_ceiling": memStopped.Load()},
			"not_covered": "connection failure; goroutine interleavings inside handleConn; more than 2 senders / 1 receiver; more sections than the bounds",
		}
		return res
	})
}

// unconfirmed lists violation candidates that did not reproduce 5/5 (counted as divergences, never reported).
func unconfirmed(confirmed map[string]hres.Viol) map[string][]string {
	candMu.Lock()
	defer candMu.Unlock()
	out := map[string][]string{}
	for k, v := range candidates {
		if _, ok := confirmed[k]; !ok {
			out[k] = v
		}
	}
	return out
}

// procIP: a loopback address private to this worker of this process (concurrent runs of the check must never meet on an address).
func procIP(w int) string { return fmt.Sprintf("127.6.%d.%d", w, 1+os.Getpid()%250) }

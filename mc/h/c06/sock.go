package c06

import (
	"fmt"
	"strings"
	"sync"
	"sync/atomic"
	"time"

	"github.com/DistCompiler/pgo/distsys"
	"github.com/DistCompiler/pgo/distsys/resources"
	"github.com/DistCompiler/pgo/distsys/tla"
	"verif/mc/explore"
)

// config bounds one family of executions.
type config struct {
	Name    string `json:"name"`
	Kind    string `json:"kind"` // tcp | relaxed | out-in | single-in | out-custom | single-custom
	Senders int    `json:"senders"`
	NS      int    `json:"sender_sections"`   // sections per sender
	NR      int    `json:"receiver_sections"` // scripted receiver sections (a drain follows)
	MaxW    int    `json:"max_writes_per_section"`
	MaxR    int    `json:"max_reads_per_section"`
	Cap     int    `json:"receive_capacity"` // WithMailboxesReceiveChanSize / capacity of the Go channel
	SAbort  bool   `json:"sender_aborts"`    // abort after writes and abort after a successful pre-commit
	RAbort  bool   `json:"receiver_aborts"`
	Len     bool   `json:"length_reads"`  // MailboxesLength resource read inside receiver sections
	Late    bool   `json:"late_receiver"` // the receiver starts listening by a scripted move (dial failures before)
	// Relay: the senders reach the receiver through a harness byte relay; move "commit with the acknowledgement held
	// past the sender's timeout" (once per execution, costs a deviation)
	Relay bool `json:"ack_relay"`
	// Bulk > 0: one macro move "the sender commits one-message sections (PadKB KiB each) while nobody reads, until a
	// WriteValue times out on the full connection (at most Bulk sections), then retries that section"
	Bulk    int  `json:"bulk_sections"`
	PadKB   int  `json:"message_padding_kib"`
	Stall   bool `json:"stall_move"`    // one move "nobody reads for 2.5 write timeouts" while the receive channel is full (costs a deviation)
	Blocked bool `json:"blocked_reads"` // reading an empty mailbox = a read left in flight while senders go on (else: a read that times out)
	Budget  int  `json:"deviation_budget"`
	ToMs    int  `json:"read_timeout_ms"`  // read timeout of the mailboxes (real time; a spurious one only aborts a section)
	WToMs   int  `json:"write_timeout_ms"` // write / acknowledgement timeout (real time)
}

type discard struct{ why string }

var (
	envTimeouts     atomic.Int64
	spuriousAborts  atomic.Int64
	expectedAborts  atomic.Int64
	sockOps         atomic.Int64
	acksDelayed     atomic.Int64
	acksResent      atomic.Int64
	bulkMoves       atomic.Int64
	overlappedReads atomic.Int64
	commitsInFlight atomic.Int64
	stallMoves      atomic.Int64
	lostConfirmed   atomic.Int64
)

const envCap = 12 * time.Second

// every Fail call is remembered so that candidates that did not reproduce (divergences) can be shown in the evidence
var (
	candMu     sync.Mutex
	candidates = map[string][]string{}
	spurious   = map[string]int{}
)

func noteCandidate(key, what string) {
	candMu.Lock()
	if len(candidates[key]) < 3 {
		candidates[key] = append(candidates[key], what)
	}
	candMu.Unlock()
}

func noteSpurious(what string) {
	spuriousAborts.Add(1)
	candMu.Lock()
	spurious[what]++
	candMu.Unlock()
}

type worker struct {
	ip   string
	port int
}

type sphase struct {
	secs, writes int
	inSec, pre   bool
	commit       chan any // a Commit in flight that did not return within 3 write timeouts (receiver not reading)
	commitUnits  int
}

type rphase struct {
	secs, ops int
	inSec     bool
	usedLen   bool
	pending   chan readRes // a ReadValue in flight (blocked on an empty mailbox)
}

type readRes struct {
	v   tla.Value
	err error
	pan any
}

type sockSys struct {
	c            *explore.Ctx
	cfg          *config
	m            *model
	wk           *worker
	rid          tla.Value
	addr         string
	recvMB       *resources.Mailboxes
	lenRes       distsys.ArchetypeResource
	rleaf        distsys.ArchetypeResource
	send         []*resources.Mailboxes
	rIface       distsys.ArchetypeInterface
	sIface       []distsys.ArchetypeInterface
	up           bool
	stalled      bool
	everInFlight bool
	inBulk       bool
	relay        *relay
	ackDelayed   bool
	bulkDone     bool
	pad          tla.Value
	lateAck      map[int]string // message -> harness log of the commit whose acknowledgement was held, after which the sender redialed
	// write timeouts established from the harness's own log: sender -> serial of the first message written after a
	// WriteValue timed out while the receiver was listening and the sender had closed its connection
	redialSerial map[int]int
	redialLog    map[int]string
	Bmax         int // units whose Commit has been invoked (may legitimately be visible)
	B, P         int // units (tcp: batches, relaxed: messages) acknowledged to senders / pulled out of msgChannel by the receiver
	sp           []sphase
	rp           rphase
	trace        []string
	opts         []resources.MailboxesOption
}

func (s *sockSys) fail(v *viol) {
	noteCandidate(v.key, v.what+" | ops: "+strings.Join(s.trace, " "))
	s.c.Fail(v.key, v.what+" | ops: "+strings.Join(s.trace, " "), nil)
}

func (s *sockSys) discard(why string) {
	envTimeouts.Add(1)
	panic(discard{why})
}

// call runs one blocking operation of the code under test with a watchdog; a panic inside is a violation.
func (s *sockSys) call(what string, f func()) {
	done := make(chan any, 1)
	go func() {
		defer func() { done <- recover() }()
		f()
	}()
	sockOps.Add(1)
	select {
	case p := <-done:
		if p != nil {
			s.fail(&viol{s.cfg.Kind + "/panic/" + what, fmt.Sprintf("%s panicked: %v", what, p)})
		}
	case <-time.After(envCap):
		s.discard(what + " did not return")
	}
}

func (s *sockSys) mk(fn resources.MailboxesAddressMappingFn) *resources.Mailboxes {
	if s.cfg.Kind == "relaxed" {
		return resources.NewRelaxedMailboxes(fn, s.opts...)
	}
	return resources.NewTCPMailboxes(fn, s.opts...)
}

func (s *sockSys) listen() {
	for try := 0; ; try++ {
		addr := s.addr
		var pan any
		func() {
			defer func() { pan = recover() }()
			s.recvMB = s.mk(func(tla.Value) (resources.MailboxKind, string) { return resources.MailboxesLocal, addr })
			s.rleaf, _ = s.recvMB.Index(s.rIface, s.rid)
		}()
		if pan == nil {
			break
		}
		if s.cfg.Late || try > 20 {
			s.discard(fmt.Sprintf("cannot listen on %s: %v", addr, pan))
		}
	}
	d, ok := resources.VerifMboxLocal(s.rleaf)
	if !ok {
		panic("c06: not a local mailbox")
	}
	s.addr = d.Addr
	s.lenRes = resources.NewMailboxesLength(s.recvMB)
	s.up = true
}

func newSockSys(c *explore.Ctx, cfg *config, wk *worker) *sockSys {
	s := &sockSys{c: c, cfg: cfg, wk: wk, rid: tla.MakeNumber(1)}
	eager := make([]bool, cfg.Senders)
	for i := range eager {
		eager[i] = cfg.Kind == "relaxed"
	}
	s.m = newModel(eager, cfg.Kind == "tcp")
	to := time.Duration(cfg.ToMs) * time.Millisecond
	wto := time.Duration(cfg.WToMs) * time.Millisecond
	s.opts = []resources.MailboxesOption{resources.WithMailboxesReceiveChanSize(cfg.Cap), resources.WithMailboxesReadTimeout(to),
		resources.WithMailboxesWriteTimeout(wto), resources.WithMailboxesDialTimeout(2 * time.Second)}
	s.rIface = distsys.NewMPCalContextWithoutArchetype().IFace()
	s.sp = make([]sphase, cfg.Senders)
	if cfg.Late {
		s.addr = wk.freeAddr()
		if s.addr == "" {
			s.discard("no free port")
		}
	} else {
		s.addr = wk.ip + ":0"
		s.listen()
	}
	s.lateAck, s.redialSerial, s.redialLog = map[int]string{}, map[int]int{}, map[int]string{}
	if cfg.PadKB > 0 {
		s.pad = tla.MakeString(strings.Repeat("x", cfg.PadKB*1024))
	}
	target := func() string { return s.addr }
	if cfg.Relay {
		r, err := newRelay(wk.ip+":0", s.addr)
		if err != nil {
			s.discard("relay cannot listen: " + err.Error())
		}
		s.relay = r
		target = func() string { return r.addr }
	}
	for i := 0; i < cfg.Senders; i++ {
		s.sIface = append(s.sIface, distsys.NewMPCalContextWithoutArchetype().IFace())
		s.send = append(s.send, s.mk(func(tla.Value) (resources.MailboxKind, string) { return resources.MailboxesRemote, target() }))
	}
	return s
}

func (s *sockSys) cleanup() {
	if s.relay != nil {
		r := s.relay
		time.AfterFunc(20*time.Millisecond, r.close)
	}
	for _, mb := range s.send {
		mb := mb
		go func() { defer func() { recover() }(); _ = mb.Close() }()
	}
	if s.rleaf != nil {
		leaf := s.rleaf
		// the senders' connections are closed first so that every handleConn sees EOF and ends by itself
		time.AfterFunc(40*time.Millisecond, func() { defer func() { recover() }(); resources.VerifMboxShutdown(leaf) })
	}
}

// settle waits until everything acknowledged to a sender is visible at the receiver (or the receive channel is full).
func (s *sockSys) settle() {
	if !s.up {
		return
	}
	if s.rp.pending != nil {
		s.pollPending(false) // a read in flight takes the unit straight out of the channel
	}
	want := s.B - s.P
	if want > s.cfg.Cap {
		want = s.cfg.Cap
	}
	limit := envCap
	key := s.cfg.Kind + "/lost/acknowledged-send-never-visible"
	if lostConfirmed.Load() >= 6 {
		limit = 500 * time.Millisecond
	}
	t0 := time.Now()
	for n := 0; ; n++ {
		l := resources.VerifMboxChanLen(s.rleaf)
		if l > s.Bmax-s.P && !s.everInFlight {
			// (after a Commit was left in flight the surplus is left to the reads, which say what it is: duplicate, ...)
			s.fail(&viol{s.cfg.Kind + "/visible-before-commit", fmt.Sprintf("receive channel holds %d units but committed sections sent only %d that were not pulled yet (uncommitted or duplicated units are visible)", l, s.Bmax-s.P)})
		}
		if l >= want {
			return
		}
		if time.Since(t0) > limit {
			lostConfirmed.Add(1)
			s.fail(&viol{key, fmt.Sprintf("%d units were acknowledged to their senders, the receiver pulled %d, but only %d are in the receive channel %v later", s.B, s.P, l, limit)})
		}
		if n < 50 {
			time.Sleep(20 * time.Microsecond)
		} else {
			time.Sleep(500 * time.Microsecond)
		}
	}
}

// ---- sender operations (what MPCalContext does with the Mailboxes resource of a sender archetype)

func (s *sockSys) sWrite(i int) {
	v := s.m.newMsg(i)
	s.trace = append(s.trace, fmt.Sprintf("s%d.write(%d)", i, v))
	var err error
	s.call("remote.WriteValue", func() {
		leaf, e := s.send[i].Index(s.sIface[i], s.rid)
		if e != nil {
			err = e
			return
		}
		val := tla.MakeNumber(int32(v))
		if s.cfg.PadKB > 0 {
			val = tla.MakeTuple(val, s.pad)
		}
		err = leaf.WriteValue(s.sIface[i], val)
	})
	ph := &s.sp[i]
	if !ph.inSec {
		ph.inSec, ph.writes, ph.pre = true, 0, false
	}
	if err != nil {
		if err != distsys.ErrCriticalSectionAborted {
			s.fail(&viol{s.cfg.Kind + "/write-error", fmt.Sprintf("WriteValue returned %v", err)})
		}
		s.trace[len(s.trace)-1] += "=abort"
		if s.up && s.inBulk {
			expectedAborts.Add(1)
			// harness log for the cause "write timeout -> sender closed its connection -> redial"
			if leaf, e := s.send[i].Index(s.sIface[i], s.rid); e == nil {
				if open, _, _, ok := resources.VerifMboxRemote(leaf); ok && !open {
					s.redialSerial[i] = s.m.serial[i] + 1
					s.redialLog[i] = fmt.Sprintf("WriteValue(%d) timed out after %d ms with the receiver listening and not reading; the sender closed its connection (accessor: conn=nil); message %d and later go through a new connection", v, s.cfg.WToMs, senderMsg(i, s.m.serial[i]+1))
				}
			}
		} else if s.up {
			noteSpurious("write")
		} else {
			expectedAborts.Add(1)
		}
		s.m.writeRefused(i, v)
		s.sAbort(i)
		return
	}
	if !s.up {
		s.fail(&viol{s.cfg.Kind + "/write-without-listener", "WriteValue succeeded although the receiver does not listen yet"})
	}
	ph.writes++
	s.m.wrote(i, v)
	if s.cfg.Kind == "relaxed" {
		s.B++
		s.Bmax++
		s.settle()
	}
}

func (s *sockSys) sPreCommit(i int) bool {
	s.trace = append(s.trace, fmt.Sprintf("s%d.precommit", i))
	var err error
	s.call("Mailboxes.PreCommit", func() {
		if ch := s.send[i].PreCommit(s.sIface[i]); ch != nil {
			err = <-ch
		}
	})
	if err != nil {
		if err != distsys.ErrCriticalSectionAborted {
			s.fail(&viol{s.cfg.Kind + "/precommit-error", fmt.Sprintf("PreCommit returned %v", err)})
		}
		s.trace[len(s.trace)-1] += "=abort"
		if s.B-s.P > s.cfg.Cap {
			expectedAborts.Add(1) // the connection's handler is parked on the full receive channel
		} else {
			noteSpurious("precommit")
		}
		s.sAbort(i)
		return false
	}
	s.sp[i].pre = true
	return true
}

func (s *sockSys) sCommit(i int) {
	s.trace = append(s.trace, fmt.Sprintf("s%d.commit", i))
	n := len(s.m.cur[i])
	s.m.senderCommits(i)
	units := 0
	if s.cfg.Kind == "tcp" && n > 0 {
		units = 1
	}
	s.Bmax += units
	done := make(chan any, 1)
	sockOps.Add(1)
	go func() {
		defer func() { done <- recover() }()
		if ch := s.send[i].Commit(s.sIface[i]); ch != nil {
			<-ch
		}
	}()
	// Commit "must complete"; when it does not come back although nobody reads (full receive channel), the driver waits
	// three write timeouts - long enough for the sender's acknowledgement timeout and reconnect/resend path to run - and
	// then lets the receiver go on while the Commit stays in flight.
	wait := 3 * time.Duration(s.cfg.WToMs) * time.Millisecond
	select {
	case p := <-done:
		s.commitDone(i, units, p)
	case <-time.After(wait):
		s.trace[len(s.trace)-1] += "(in-flight)"
		commitsInFlight.Add(1)
		s.everInFlight = true
		s.sp[i].commit, s.sp[i].commitUnits = done, units
	}
}

// sCommitAckHeld: the sender commits while the relay keeps back whatever the receiver answers on the connection that is
// open now - i.e. exactly the commit acknowledgement - until the sender has given up on it (its read of the ack times out
// after WToMs, it closes the connection, redials through the relay and replays begin/values/commit) or, if it never
// redials, for three write timeouts.  Then the late acknowledgement is let go.  Nothing is dropped, no connection fails.
func (s *sockSys) sCommitAckHeld(i int) {
	s.ackDelayed = true
	s.everInFlight = true // any surplus at the receiver is left to the reads, which say what it is
	acksDelayed.Add(1)
	msgs := append([]int{}, s.m.cur[i]...)
	s.trace = append(s.trace, fmt.Sprintf("s%d.commit(ack-held)", i))
	s.m.senderCommits(i)
	s.Bmax++
	hs := s.relay.holdExisting()
	acc0, eof0 := s.relay.counts()
	done := make(chan any, 1)
	sockOps.Add(1)
	go func() {
		defer func() { done <- recover() }()
		if ch := s.send[i].Commit(s.sIface[i]); ch != nil {
			<-ch
		}
	}()
	wto := time.Duration(s.cfg.WToMs) * time.Millisecond
	t0 := time.Now()
	var p any
	returned := false
	for time.Since(t0) < 3*wto && !returned {
		if acc, _ := s.relay.counts(); acc > acc0 {
			break
		}
		select {
		case p = <-done:
			returned = true
		case <-time.After(time.Millisecond):
		}
	}
	heldFor := time.Since(t0).Round(time.Millisecond)
	acc, eof := s.relay.counts()
	if acc > acc0 {
		// the sender has redialed: it closed the old connection before (the relay notices the EOF concurrently), and the
		// acknowledgement it did not wait for is sitting in the relay; give the relay's bookkeeping a moment to show both
		for w := 0; w < 2000 && (eof <= eof0 || heldAnswers(hs, s.relay) == 0); w++ {
			time.Sleep(time.Millisecond)
			acc, eof = s.relay.counts()
		}
	}
	held := heldAnswers(hs, s.relay)
	s.relay.release()
	if !returned {
		select {
		case p = <-done:
		case <-time.After(envCap):
			s.discard("Commit did not return after the held acknowledgement was released")
		}
	}
	if acc > acc0 && eof > eof0 && held > 0 {
		// cause established from the relay's log: the acknowledgement was sent (held by the relay), the sender closed
		// its connection and opened a new one during this Commit
		lg := fmt.Sprintf("commit of %v: the receiver's acknowledgement was sent (%d answer chunk(s) held by the relay for %v), the sender's read of it timed out (timeout %d ms), the sender closed the connection, redialed (%d new connection(s)), replayed the section, and Commit returned", msgs, held, heldFor, s.cfg.WToMs, acc-acc0)
		for _, m := range msgs {
			s.lateAck[m] = lg
		}
		acksResent.Add(1)
		s.trace[len(s.trace)-1] += "(sender-timed-out-and-redialed)"
	}
	s.commitDone(i, 1, p)
}

// sBulk: one-message sections, each committed, while nobody reads, until a WriteValue times out; then the retry.
// The bulk sections do not count against the scripted number of sections.
func (s *sockSys) sBulk(i int) {
	s.bulkDone = true
	s.inBulk = true
	bulkMoves.Add(1)
	secs0 := s.sp[i].secs
	mark := len(s.trace)
	n := 0
	for ; n < s.cfg.Bulk; n++ {
		if _, timedOut := s.redialSerial[i]; timedOut {
			break
		}
		s.sWrite(i)
		if s.sp[i].inSec {
			s.sCommit(i)
		}
	}
	s.inBulk = false
	_, timedOut := s.redialSerial[i]
	if timedOut {
		s.sWrite(i) // the retry of the aborted section, through a new connection
		if s.sp[i].inSec {
			s.sCommit(i)
		}
	}
	// keep the trace short: first sections ... last operations
	if len(s.trace) > mark+12 {
		s.trace = append(append(append([]string{}, s.trace[:mark+4]...), fmt.Sprintf("...(%d one-message sections committed while nobody reads)...", n)), s.trace[len(s.trace)-6:]...)
	}
	if !timedOut {
		s.trace = append(s.trace, "(no write timeout)")
	}
	s.sp[i].secs = secs0
}

func senderMsg(i, serial int) int { return (i+1)*10000 + serial }

// msgOf decodes a message (a number, or <<number, padding>>).
func msgOf(v tla.Value) int {
	if v.IsTuple() {
		return int(v.AsTuple().Get(0).AsNumber())
	}
	return int(v.AsNumber())
}

// attribute gives a violation one of the cause-specific keys, only when the cause is established from the harness's own log.
func (s *sockSys) attribute(f *viol, v int) *viol {
	switch {
	case f.key == "tcp/duplicated" && s.lateAck[v] != "":
		return &viol{"tcp/duplicated-after-late-commit-ack", f.what + " | cause: " + s.lateAck[v]}
	case f.key == "relaxed/lost-or-reordered":
		i := senderOf(v)
		rs, ok := s.redialSerial[i]
		if !ok {
			return f
		}
		if g := s.classifyReorder(i, v, rs); g != nil {
			return g
		}
	}
	return f
}

// classifyReorder: message v arrived where an earlier message of sender i was due, after a write timeout of that sender.
// Everything else is read; the specific key applies only if nothing is lost or duplicated and every message that arrived
// early was written after the timeout (through the new connection) while everything it overtook was written before.
func (s *sockSys) classifyReorder(i, v, redial int) *viol {
	want := s.m.committed[i]
	got := []int{}
	for _, x := range s.m.first {
		if senderOf(x) == i {
			got = append(got, x)
		}
	}
	got = append(got, v)
	aborts := 0
	for len(got) < len(want)+2 && aborts < 60 {
		r := s.waitRead(s.startRead())
		if r.err != nil || r.pan != nil {
			aborts++
			continue
		}
		aborts = 0
		got = append(got, msgOf(r.v))
	}
	if len(got) != len(want) {
		return nil
	}
	seen := map[int]bool{}
	for _, x := range got {
		if seen[x] {
			return nil
		}
		seen[x] = true
	}
	for _, x := range want {
		if !seen[x] {
			return nil
		}
	}
	// every inversion must be "written after the redial" before "written before the redial"
	for a := 0; a < len(got); a++ {
		for b := a + 1; b < len(got); b++ {
			if got[a] > got[b] && !(serialOf(got[a]) >= redial && serialOf(got[b]) < redial) {
				return nil
			}
		}
	}
	pos := 0
	for k, x := range got {
		if x == v {
			pos = k
		}
	}
	head := got
	if len(head) > pos+4 {
		head = head[:pos+4]
	}
	return &viol{"relaxed/reordered-after-write-timeout", fmt.Sprintf("all %d messages of the sender's committed sections arrive exactly once, but %d (written after the write timeout, through the new connection) arrives at position %d, before %d messages written earlier: obtained %v ... | cause: %s",
		len(want), v, pos+1, len(want)-1-pos, head, s.redialLog[i])}
}

func (s *sockSys) commitDone(i, units int, p any) {
	if p != nil {
		s.fail(&viol{s.cfg.Kind + "/panic/Mailboxes.Commit", fmt.Sprintf("Commit panicked: %v", p)})
	}
	s.B += units
	s.sp[i].commit = nil
	s.sp[i].inSec = false
	s.sp[i].secs++
	s.settle()
}

// pollCommits collects Commits in flight that have returned; wait > 0: block up to that long for the first one.
func (s *sockSys) pollCommits(wait time.Duration) bool {
	any := false
	for i := range s.sp {
		ch := s.sp[i].commit
		if ch == nil {
			continue
		}
		any = true
		if wait > 0 {
			select {
			case p := <-ch:
				s.trace = append(s.trace, fmt.Sprintf("s%d.commit-returns", i))
				s.commitDone(i, s.sp[i].commitUnits, p)
			case <-time.After(wait):
			}
			wait = 0
			continue
		}
		select {
		case p := <-ch:
			s.trace = append(s.trace, fmt.Sprintf("s%d.commit-returns", i))
			s.commitDone(i, s.sp[i].commitUnits, p)
		default:
		}
	}
	return any
}

func (s *sockSys) sAbort(i int) {
	s.trace = append(s.trace, fmt.Sprintf("s%d.abort", i))
	s.m.senderAborts(i)
	s.call("Mailboxes.Abort", func() {
		if ch := s.send[i].Abort(s.sIface[i]); ch != nil {
			<-ch
		}
	})
	s.sp[i].inSec = false
	s.sp[i].secs++
	s.settle()
}

// ---- receiver operations

func (s *sockSys) beginR() {
	if !s.rp.inSec {
		s.rp.inSec, s.rp.ops, s.rp.usedLen = true, 0, false
	}
}

func (s *sockSys) backlogEmpty() bool {
	d, _ := resources.VerifMboxLocal(s.rleaf)
	return len(d.Backlog) == 0
}

func (s *sockSys) startRead() chan readRes {
	ch := make(chan readRes, 1)
	sockOps.Add(1)
	go func() {
		var r readRes
		defer func() {
			r.pan = recover()
			ch <- r
		}()
		leaf, e := s.recvMB.Index(s.rIface, s.rid)
		if e != nil {
			r.err = e
			return
		}
		r.v, r.err = leaf.ReadValue(s.rIface)
	}()
	return ch
}

// finishRead judges a completed ReadValue.  visible = the accessor showed a message at the receiver before the read started.
func (s *sockSys) finishRead(r readRes, wasBacklogEmpty, visible bool) {
	if r.pan != nil {
		s.fail(&viol{s.cfg.Kind + "/panic/local.ReadValue", fmt.Sprintf("ReadValue panicked: %v", r.pan)})
	}
	if r.err != nil {
		if r.err != distsys.ErrCriticalSectionAborted {
			s.fail(&viol{s.cfg.Kind + "/read-error", fmt.Sprintf("ReadValue returned %v", r.err)})
		}
		s.trace[len(s.trace)-1] += "=abort"
		if visible {
			noteSpurious("read") // the timer won although a message was there: allowed, the section just aborts
		} else {
			expectedAborts.Add(1)
		}
		s.rAbort()
		return
	}
	v := msgOf(r.v)
	s.trace[len(s.trace)-1] += fmt.Sprintf("=%d", v)
	if wasBacklogEmpty {
		s.P++
	}
	if f := s.m.got(v, s.cfg.Kind); f != nil {
		s.fail(s.attribute(f, v))
	}
	s.rp.ops++
	s.settle()
}

func (s *sockSys) waitRead(ch chan readRes) readRes {
	select {
	case r := <-ch:
		return r
	case <-time.After(envCap):
		s.discard("ReadValue did not return")
	}
	return readRes{}
}

// rRead: a read while the accessor shows something at the receiver (or mode=="timeout": wait for the outcome whatever it is).
func (s *sockSys) rRead() {
	s.beginR()
	s.trace = append(s.trace, "r.read")
	be := s.backlogEmpty()
	d, _ := resources.VerifMboxLocal(s.rleaf)
	visible := len(d.Backlog) > 0 || d.ChanLen > 0
	r := s.waitRead(s.startRead())
	s.finishRead(r, be, visible)
}

// rReadOverlapped starts a read on an empty mailbox and leaves it in flight while senders go on.
func (s *sockSys) rReadOverlapped() {
	s.beginR()
	s.trace = append(s.trace, "r.read(blocking)")
	overlappedReads.Add(1)
	s.rp.pending = s.startRead()
}

// pollPending is called after every sender operation while a read is in flight.
func (s *sockSys) pollPending(final bool) {
	if s.rp.pending == nil {
		return
	}
	if s.B-s.P > 0 || final {
		// something was acknowledged to a sender: the blocked read must end (message or timeout) by itself
		r := s.waitRead(s.rp.pending)
		s.rp.pending = nil
		s.trace = append(s.trace, "r.read-returns")
		s.finishRead(r, true, false)
		return
	}
	// nothing acknowledged yet: the read stays in flight (its own timer is not looked at: that would make the
	// execution depend on real time)
}

func (s *sockSys) rLen() {
	s.beginR()
	s.rp.usedLen = true
	s.trace = append(s.trace, "r.length")
	be := s.backlogEmpty()
	var v tla.Value
	var err error
	s.call("length.ReadValue", func() {
		leaf, e := s.lenRes.Index(s.rIface, s.rid)
		if e != nil {
			err = e
			return
		}
		v, err = leaf.ReadValue(s.rIface)
	})
	if err != nil {
		s.fail(&viol{s.cfg.Kind + "/length-error", fmt.Sprintf("length read returned %v", err)})
	}
	n := int(v.AsNumber())
	s.trace[len(s.trace)-1] += fmt.Sprintf("=%d", n)
	if n > s.m.pending() {
		s.fail(&viol{s.cfg.Kind + "/length-exceeds-pending", fmt.Sprintf("length reported %d but only %d messages of committed sections are pending for this section", n, s.m.pending())})
	}
	if n < 0 {
		s.fail(&viol{s.cfg.Kind + "/length-negative", fmt.Sprintf("length reported %d", n)})
	}
	if be && n > 0 {
		s.P++
	}
	s.rp.ops++
	s.settle()
}

func (s *sockSys) rEnd(commit bool) {
	s.beginR()
	if commit {
		s.trace = append(s.trace, "r.commit")
		s.m.receiverCommits()
	} else {
		s.trace = append(s.trace, "r.abort")
		s.m.receiverAborts()
	}
	for _, res := range []distsys.ArchetypeResource{s.recvMB, s.lenRes} {
		res := res
		if res == s.lenRes && !s.rp.usedLen {
			continue
		}
		s.call("local.Commit/Abort", func() {
			if commit {
				if ch := res.PreCommit(s.rIface); ch != nil {
					if err := <-ch; err != nil {
						panic(fmt.Sprintf("receiver PreCommit refused: %v", err))
					}
				}
				if ch := res.Commit(s.rIface); ch != nil {
					<-ch
				}
			} else if ch := res.Abort(s.rIface); ch != nil {
				<-ch
			}
		})
	}
	s.rp.inSec = false
	s.rp.secs++
}

func (s *sockSys) rAbort() { s.rEnd(false) }

// ---- the scheduler: every interleaving of the participants' operations within the bounds

type move struct {
	who  int // sender index, or -1 receiver
	op   string
	cost int
}

func (s *sockSys) run() {
	cfg := s.cfg
	cur := -2 // participant that moved last
	for {
		var moves []move
		midSection := func(p int) bool {
			if p == -1 {
				return s.rp.inSec && s.rp.pending == nil
			}
			if p >= 0 {
				return s.sp[p].inSec && s.sp[p].commit == nil
			}
			return false
		}
		pre := func(p int) int {
			if cur != p && midSection(cur) {
				return 1
			}
			return 0
		}
		sendersCanMove := false
		// while a read is in flight some sender section must still commit (the read is only left in flight when a
		// message is certain to arrive): a sender may abort only if a later section remains
		canAbort := func(i int) bool {
			if !cfg.SAbort {
				return false
			}
			if s.rp.pending == nil {
				return true
			}
			for j := range s.sp {
				if j != i && (s.sp[j].inSec || s.sp[j].secs < cfg.NS) {
					return true
				}
			}
			return s.sp[i].secs+1 < cfg.NS
		}
		s.pollCommits(0)
		for i := range s.sp {
			ph := s.sp[i]
			c := pre(i)
			switch {
			case ph.commit != nil:
				// parked in Commit: no move until it returns
			case !ph.inSec:
				if ph.secs < cfg.NS {
					moves = append(moves, move{i, "W", c})
					sendersCanMove = true
				}
				if cfg.Bulk > 0 && !s.bulkDone && s.up && s.rp.pending == nil {
					moves = append(moves, move{i, "bulk", c})
				}
			case !ph.pre:
				sendersCanMove = true
				if ph.writes < cfg.MaxW {
					moves = append(moves, move{i, "W", c})
				}
				if cfg.Kind == "relaxed" {
					moves = append(moves, move{i, "C", c})
				} else {
					moves = append(moves, move{i, "P", c})
					if canAbort(i) {
						moves = append(moves, move{i, "A", c})
					}
				}
			default:
				sendersCanMove = true
				moves = append(moves, move{i, "C", c})
				if cfg.Relay && !s.ackDelayed && cfg.Kind == "tcp" && len(s.m.cur[i]) > 0 {
					moves = append(moves, move{i, "Cdelay", 1})
				}
				if canAbort(i) {
					moves = append(moves, move{i, "A", c})
				}
			}
		}
		if s.rp.pending == nil {
			c := pre(-1)
			if !s.up {
				moves = append(moves, move{-1, "listen", c})
			} else {
				canOp := (!s.rp.inSec && s.rp.secs < cfg.NR) || (s.rp.inSec && s.rp.ops < cfg.MaxR)
				if canOp {
					d, _ := resources.VerifMboxLocal(s.rleaf)
					if len(d.Backlog) > 0 || d.ChanLen > 0 {
						moves = append(moves, move{-1, "R", c})
					} else {
						// reading an empty mailbox: a timeout (real time) or, in the blocked-read configurations,
						// a read that stays in flight while the senders go on
						if !cfg.Blocked {
							moves = append(moves, move{-1, "Rtimeout", 1})
						} else if sendersCanMove {
							moves = append(moves, move{-1, "Rblock", 1})
						}
					}
					if cfg.Len {
						moves = append(moves, move{-1, "L", c})
					}
				}
				if s.rp.inSec {
					moves = append(moves, move{-1, "C", c})
					if cfg.RAbort {
						moves = append(moves, move{-1, "A", c})
					}
				}
			}
		}
		if cfg.Stall && !s.stalled && s.up && s.rp.pending == nil && len(moves) > 0 && s.B-s.P >= cfg.Cap {
			// the receive channel is full: nobody reads for longer than the senders' write/acknowledgement timeout
			moves = append(moves, move{-4, "stall", 1})
		}
		if len(moves) == 0 {
			break
		}
		mv := pick(s.c, moves)
		if mv.who == -4 {
			s.stalled = true
			stallMoves.Add(1)
			s.trace = append(s.trace, "stall")
			time.Sleep(time.Duration(cfg.WToMs) * time.Millisecond * 5 / 2)
			continue
		}
		cur = mv.who
		if mv.who >= 0 {
			switch mv.op {
			case "W":
				s.sWrite(mv.who)
			case "P":
				s.sPreCommit(mv.who)
			case "C":
				s.sCommit(mv.who)
			case "Cdelay":
				s.sCommitAckHeld(mv.who)
			case "bulk":
				s.sBulk(mv.who)
			case "A":
				s.sAbort(mv.who)
			}
			s.pollPending(false)
		} else {
			switch mv.op {
			case "listen":
				s.trace = append(s.trace, "r.listen")
				s.listen()
			case "R", "Rtimeout":
				s.rRead()
			case "Rblock":
				s.rReadOverlapped()
			case "L":
				s.rLen()
			case "C":
				s.rEnd(true)
			case "A":
				s.rEnd(false)
			}
		}
	}
	s.pollPending(true)
	if s.rp.inSec {
		s.rEnd(true)
	}
	s.drain()
}

// pick chooses among moves; cost-1 moves consume one unit of the deviation budget unless no free move exists.
func pick(c *explore.Ctx, moves []move) move {
	var free, costly []move
	for _, m := range moves {
		if m.cost == 0 {
			free = append(free, m)
		} else {
			costly = append(costly, m)
		}
	}
	if len(free) == 0 {
		return costly[c.Choose(len(costly), "mv")]
	}
	if len(costly) > 0 && c.Deviate(2, "dev") == 1 {
		return costly[c.Choose(len(costly), "dmv")]
	}
	return free[c.Choose(len(free), "mv")]
}

// drain: committed single-read sections until the model has nothing pending; then nothing may be left.
func (s *sockSys) drain() {
	if !s.up {
		s.trace = append(s.trace, "r.listen")
		s.listen()
	}
	aborts := 0
	for {
		s.pollCommits(0)
		if s.m.pending() == 0 {
			break
		}
		if d, _ := resources.VerifMboxLocal(s.rleaf); d.ChanLen == 0 && len(d.Backlog) == 0 {
			// nothing to read yet: if a Commit is still in flight its batch may not have been handed over
			if s.pollCommits(envCap) {
				if s.commitsPending() {
					s.discard("Commit in flight never returned although the receiver has read everything visible")
				}
				continue
			}
		}
		before := len(s.m.inprog)
		s.rRead()
		if len(s.m.inprog) > before || s.rp.inSec {
			s.rEnd(true)
			aborts = 0
			continue
		}
		aborts++
		if aborts >= 3 {
			d, _ := resources.VerifMboxLocal(s.rleaf)
			s.fail(&viol{s.cfg.Kind + "/lost/committed-send-never-delivered", fmt.Sprintf("%d messages of committed sections are pending but three reads in a row timed out (receive channel %d, backlog %d)", s.m.pending(), d.ChanLen, len(d.Backlog))})
		}
	}
	d, _ := resources.VerifMboxLocal(s.rleaf)
	if d.ChanLen != 0 || len(d.Backlog) != 0 {
		// more than the committed sections sent: read it so that the model says what it is (duplicate, aborted send, ...)
		s.beginR()
		s.trace = append(s.trace, "r.read")
		r := s.waitRead(s.startRead())
		if r.err == nil && r.pan == nil {
			v := msgOf(r.v)
			s.trace[len(s.trace)-1] += fmt.Sprintf("=%d", v)
			if f := s.m.got(v, s.cfg.Kind); f != nil {
				s.fail(s.attribute(f, v))
			}
		}
	}
	if d.ChanLen != 0 || len(d.Backlog) != 0 || len(d.InProgress) != 0 {
		s.fail(&viol{s.cfg.Kind + "/extra-message-after-drain", fmt.Sprintf("every committed send was obtained, yet the mailbox still holds channel=%d backlog=%v in-progress=%v", d.ChanLen, d.Backlog, d.InProgress)})
	}
	// every Commit has to return once the receiver has taken everything ("Commit must complete")
	for s.commitsPending() {
		s.pollCommits(envCap)
		if s.commitsPending() {
			s.discard("Commit in flight never returned after the drain")
		}
	}
	if d, _ := resources.VerifMboxLocal(s.rleaf); d.ChanLen != 0 || len(d.Backlog) != 0 {
		s.fail(&viol{s.cfg.Kind + "/extra-message-after-drain", fmt.Sprintf("every committed send was obtained and every Commit returned, yet the mailbox holds channel=%d backlog=%v", d.ChanLen, d.Backlog)})
	}
	if f := s.m.final(s.cfg.Kind); f != nil {
		s.fail(f)
	}
}

func (s *sockSys) commitsPending() bool {
	for i := range s.sp {
		if s.sp[i].commit != nil {
			return true
		}
	}
	return false
}

func (w *worker) freeAddr() string {
	for try := 0; try < 200; try++ {
		w.port++
		if w.port >= 32000 {
			w.port = 20000
		}
		addr := fmt.Sprintf("%s:%d", w.ip, w.port)
		if portFree(addr) {
			return addr
		}
	}
	return ""
}

package c18tmp

import (
	"bytes"
	"encoding/gob"
	"fmt"
	"testing"

	"github.com/DistCompiler/pgo/distsys/tla"
)

func TestGob(t *testing.T) {
	var clk tla.VClock
	clk = clk.Inc("A", tla.MakeString("a"))
	v := tla.WrapCausal(tla.MakeString("hello"), clk)
	fmt.Println("clock on value:", v.GetVClock())
	var buf bytes.Buffer
	enc := gob.NewEncoder(&buf)
	dec := gob.NewDecoder(&buf)
	for i := 0; i < 2; i++ {
		if err := enc.Encode(1); err != nil {
			t.Fatal(err)
		}
		if err := enc.Encode(&v); err != nil {
			t.Fatal("encode value: ", err)
		}
		var tag int
		if err := dec.Decode(&tag); err != nil {
			t.Fatal("decode tag: ", err)
		}
		var out tla.Value
		if err := dec.Decode(&out); err != nil {
			t.Fatal("decode value: ", err)
		}
		fmt.Println(i, tag, out, out.GetVClock())
	}
}

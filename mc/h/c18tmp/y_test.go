package c18tmp

import (
	"fmt"
	"testing"
	"time"

	"github.com/DistCompiler/pgo/distsys"
	"github.com/DistCompiler/pgo/distsys/resources"
	"github.com/DistCompiler/pgo/distsys/tla"
	"verif/mc/gate2"
)

func one(i int) *int { return &i }

func TestTCP(t *testing.T) {
	addr := "127.0.0.1:18777"
	wr := resources.NewTCPMailboxes(func(tla.Value) (resources.MailboxKind, string) { return resources.MailboxesRemote, addr })
	rd := resources.NewTCPMailboxes(func(tla.Value) (resources.MailboxKind, string) { return resources.MailboxesLocal, addr })
	rd.Index(distsys.ArchetypeInterface{}, tla.MakeNumber(1))
	sa := &gate2.Script{Prog: gate2.Program{Arch: "A", Vars: []gate2.Var{{Name: "l", Ref: true}}, Sections: []gate2.Section{{Ops: []gate2.Op{{K: "w", R: "l", I: one(1), V: "m1"}}, Next: -1}}}}
	sb := &gate2.Script{Prog: gate2.Program{Arch: "B", Vars: []gate2.Var{{Name: "l", Ref: true}}, Sections: []gate2.Section{{Ops: []gate2.Op{{K: "r", R: "l", I: one(1)}}, Next: -1}}}}
	ga := gate2.New(tla.MakeString("a"), sa.Archetype(), gate2.Options{}, distsys.EnsureArchetypeRefParam("l", wr))
	gb := gate2.New(tla.MakeString("b"), sb.Archetype(), gate2.Options{}, distsys.EnsureArchetypeRefParam("l", rd))
	ga.Start()
	gb.Start()
	r := ga.Step()
	fmt.Printf("A: %+v obs=%+v\n", r.Events, sa.Obs)
	time.Sleep(100 * time.Millisecond)
	r = gb.Step()
	fmt.Printf("B: %+v obs=%+v\n", r.Events, sb.Obs)
}

// C14: generated primary-backup store: replicas agree whenever the primary answers; client history linearizable.
package c14

import (
	"encoding/json"
	"fmt"
	"os"
	"path/filepath"
	"strings"
	"sync"
	"testing"
	"time"

	"verif/mc/hres"
	ss "verif/mc/specstep"
	"verif/mc/sys/pbkvs"
)

type runCfg struct {
	pbkvs.Config
	MaxDev int
	Name   string
}

type replay struct {
	Cfg  runCfg    `json:"config"`
	Path []ss.Move `json:"path"`
}

var (
	histMu    sync.Mutex
	histCache = map[string]string{}
)

func histInv(s *ss.State) (string, string) {
	if s.Obs == "" || !strings.Contains(s.Obs, "r:") {
		return "", ""
	}
	histMu.Lock()
	w, ok := histCache[s.Obs]
	histMu.Unlock()
	if !ok {
		lin, class, why := pbkvs.CheckHistory(s.Obs)
		if !lin {
			w = why
			if class != "" {
				w = "\x00" + class + "\x00" + why
			}
		}
		histMu.Lock()
		histCache[s.Obs] = w
		histMu.Unlock()
	}
	if strings.HasPrefix(w, "\x00") {
		f := strings.SplitN(w, "\x00", 3)
		return "linearizability/" + f[1], f[2]
	}
	if w != "" {
		return "linearizability/" + shape(s.Obs), w
	}
	return "", ""
}

// shape abstracts a history to its operation pattern (clients/ops/results without step numbers)
// so that the same anomaly found through different schedules is one finding.
func shape(obs string) string {
	var parts []string
	for _, e := range strings.Split(strings.TrimSuffix(obs, ";"), ";") {
		f := strings.Split(e, ":")
		if f[0] == "s" {
			continue // (re)transmissions are not part of the client-visible shape
		}
		if f[0] == "i" {
			parts = append(parts, fmt.Sprintf("c%s.%s(%s,%s)", f[1], f[3], f[4], f[5]))
		} else {
			parts = append(parts, fmt.Sprintf("c%s.ret(%s)", f[1], strings.Join(f[3:], ":")))
		}
	}
	return strings.Join(parts, ">")
}

func TestCheck(t *testing.T) {
	hres.Main(t, func(env hres.Env) *hres.Result {
		res := &hres.Result{Property: "C14", Level: "model_checking"}
		if env.Replay != nil {
			var r replay
			if err := json.Unmarshal(env.Replay, &r); err != nil {
				t.Fatal(err)
			}
			sys := pbkvs.New(r.Cfg.Config)
			sys.Observe = pbkvs.ObserveHistory
			states, last, _ := sys.Replay(r.Path)
			res.Coverage = map[string]any{"states": len(states), "transitions": len(r.Path), "traces_validated_against_impl": 0, "samples": sys.Render(r.Path)}
			for _, s := range states {
				for _, inv := range []func(*ss.State) (string, string){histInv, r.Cfg.ConsistencyOK} {
					if k, w := inv(s); k != "" {
						res.Violations = append(res.Violations, hres.Viol{Key: k, What: w, Replay: r})
						return res
					}
				}
			}
			if last != nil && last.Kind == ss.Failed {
				res.Violations = append(res.Violations, hres.Viol{Key: "error-edge", What: last.Err, Replay: r})
			}
			return res
		}
		spec3 := []pbkvs.Req{{Type: "put", Key: "KEY1", Value: "VALUE1"}, {Type: "put", Key: "KEY1", Value: "VALUE2"}, {Type: "get", Key: "KEY1"}}
		cfgs := []runCfg{
			{pbkvs.Config{NumReplicas: 2, NumClients: 1, ExploreFail: true, Input: spec3}, 0, "2rep-1cli-fail"},
			// fail-over followed by a second put needs 3 replicas and the spec's put,put,get input
			{pbkvs.Config{NumReplicas: 3, NumClients: 1, ExploreFail: true, Input: spec3}, 0, "3rep-1cli-fail"},
			// primary crashing mid-replication needs 3 replicas; a second client's get racing with the retried put needs 2 clients
			{pbkvs.Config{NumReplicas: 3, NumClients: 2, ExploreFail: true, Input: spec3[1:]}, 0, "3rep-2cli-put-get-fail"},
		}
		if env.Thorough() {
			cfgs = append(cfgs,
				runCfg{pbkvs.Config{NumReplicas: 2, NumClients: 2, ExploreFail: true, Input: spec3}, 0, "2rep-2cli-fail"},
				runCfg{pbkvs.Config{NumReplicas: 3, NumClients: 2, ExploreFail: true, Input: spec3}, 0, "3rep-2cli-fail"},
				runCfg{pbkvs.Config{NumReplicas: 4, NumClients: 1, ExploreFail: true, Input: spec3}, 0, "4rep-1cli-fail"},
				// a get that pins the first put before the second one: makes a re-applied first put visible (known finding)
				runCfg{pbkvs.Config{NumReplicas: 2, NumClients: 2, ExploreFail: true, Input: []pbkvs.Req{spec3[0], spec3[2], spec3[1], spec3[2]}}, 0, "2rep-2cli-put-get-put-get-fail"},
				runCfg{pbkvs.Config{NumReplicas: 3, NumClients: 3, ExploreFail: true, Input: append(append([]pbkvs.Req{}, spec3...), pbkvs.Req{Type: "get", Key: "KEY1"})}, 0, "3rep-3cli-fail"})
		}
		if j := os.Getenv("VERIF_C14_CFGS"); j != "" {
			cfgs = nil
			if err := json.Unmarshal([]byte(j), &cfgs); err != nil {
				t.Fatal(err)
			}
		}
		seen := map[string]bool{}
		// committed witnesses of recorded findings are replayed first (deterministic, cheap): while the
		// defect is present the finding shows on every run, whatever depth the search reaches in its budget
		witnessReplayed := 0
		if files, _ := filepath.Glob(filepath.Join(os.Getenv("VERIF_DIR"), "replays", "C14", "known-*.json")); len(files) > 0 {
			for _, f := range files {
				b, err := os.ReadFile(f)
				if err != nil {
					continue
				}
				var w struct {
					Replay replay `json:"replay"`
				}
				if json.Unmarshal(b, &w) != nil {
					continue
				}
				func() {
					defer func() { recover() }() // a witness that no longer fits the code is simply stale
					sys := pbkvs.New(w.Replay.Cfg.Config)
					sys.Observe = pbkvs.ObserveHistory
					states, _, _ := sys.Replay(w.Replay.Path)
					witnessReplayed++
					for _, s := range states {
						if k, why := histInv(s); k != "" && !seen[k] {
							seen[k] = true
							res.Violations = append(res.Violations, hres.Viol{Key: k, What: why, Replay: w.Replay})
						}
					}
				}()
			}
		}
		var share time.Duration
		var states, trans, validated int64
		exhaustive := true
		per := []any{}
		var samples []any
		for ci, cfg := range cfgs {
			// every instance gets an equal share of what is left (early finishers leave their time to the rest)
			share = time.Until(env.Deadline) * 8 / 10 / time.Duration(len(cfgs)-ci)
			if share < 5*time.Second {
				share = 5 * time.Second
			}
			sys := pbkvs.New(cfg.Config)
			sys.Observe = pbkvs.ObserveHistory
			r := sys.BFS(ss.BFSOptions{Workers: env.Workers, Deadline: time.Now().Add(share), Constraint: cfg.Constraint, MaxDev: cfg.MaxDev,
				Invariants: []func(*ss.State) (string, string){histInv, cfg.ConsistencyOK}, FailedIsViolation: false /* assertion failures are outside this property's statement: counted in the evidence (error_edges), not judged */, MaxViol: 5})
			if r.MemoMismatch > 0 {
				t.Fatalf("transition memo disagrees with the real code: %s", r.MemoFirstMismatch)
			}
			states += r.States
			trans += r.Transitions
			exhaustive = exhaustive && r.Exhaustive
			nConf := 0
			confCap, confDeadline := 1000, time.Now().Add(share/5)
			if env.Thorough() {
				confCap *= 20
			}
			for _, leaf := range r.Leaves {
				if nConf >= confCap || time.Now().After(confDeadline) {
					break
				}
				path := r.PathTo(leaf)
				if d := sys.Conform(path); d != "" {
					if !seen["conformance"] {
						seen["conformance"] = true
						res.Violations = append(res.Violations, hres.Viol{Key: "conformance/injected-vs-live", What: d, Replay: replay{cfg, path}})
					}
					break
				}
				nConf++
			}
			validated += int64(nConf)
			histMu.Lock()
			nh := len(histCache)
			histMu.Unlock()
			per = append(per, map[string]any{"name": cfg.Name, "config": cfg, "states": r.States, "transitions": r.Transitions, "depth": r.Depth, "error_edges": r.ErrorEdges, "states_per_deviation_round": r.DevRounds,
				"distinct_histories_checked_so_far": nh, "leaf_paths_replayed_live": nConf, "exhaustive": r.Exhaustive, "cap": r.Cap, "wall_s": r.WallS,
				"memo_hits": r.MemoHits, "memo_misses_executed_on_real_code": r.MemoMisses, "memo_hits_rechecked_on_real_code": r.MemoChecks})
			for _, v := range r.Violations {
				if !seen[v.Key] {
					seen[v.Key] = true
					res.Violations = append(res.Violations, hres.Viol{Key: v.Key, What: v.What + " | " + strings.Join(v.Trace, " ; "), Replay: replay{cfg, v.Path}})
				}
			}
			if len(r.Leaves) > 0 && len(samples) < 2 {
				samples = append(samples, map[string]any{"config": cfg.Name, "trace": sys.Render(r.PathTo(r.Leaves[len(r.Leaves)/2]))})
			}
		}
		res.Assumptions = []string{"one label = one atomic step (state injection into a fresh real MPCalContext per step), which includes the environment resources: primary / fd do not change between two reads inside one section (a live leader-election resource re-evaluated on every read would let a backup promoted in the middle of rcvMsg skip the sync round; the repository's leaderelection.go is a constant)", "environment = the spec's mapping macros (FIFO links, perfect failure detector, LeaderElection as specified) written in Go, validated against TLC's graph by C02", "128-bit state hashing (collision probability negligible)"}
		res.Coverage = map[string]any{"states": states, "transitions": trans, "traces_validated_against_impl": validated, "samples": samples, "configs": per, "exhaustive": exhaustive,
			"distinct_histories_checked": len(histCache), "known_witness_paths_replayed": witnessReplayed}
		return res
	})
}

package c17

import (
	"encoding/json"
	"errors"
	"fmt"
	"math/rand"
	"os"
	"os/exec"
	"path/filepath"
	"sort"
	"strings"
	"sync"
	"sync/atomic"
	"testing"
	"testing/synctest"
	"time"

	"github.com/DistCompiler/pgo/distsys"
	"github.com/DistCompiler/pgo/distsys/resources"
	"github.com/DistCompiler/pgo/distsys/tla"

	"verif/mc/bubble"
	"verif/mc/explore"
	"verif/mc/hres"
)

const maxSteps = 300

const keyMutexDeadlock = "deadlock/concurrent-stops-block-run-finaliser"

// ---------------------------------------------------------------------------------------------
// the configuration family

func configs(thorough bool) []Config {
	var out []Config
	ends := []string{"done", "loop", "assert", "errorlabel", "reserr-body", "reserr-precommit", "body-panic"}
	mixes := []string{"plain", "closeerr", "incmap", "hashmap", "nested", "twopc", "incmap-closeerr", "hashmap-closeerr", "sendchan"}
	maxStops := 3
	if thorough {
		maxStops = 4
	}
	for _, end := range ends {
		for _, mix := range mixes {
			for stops := 0; stops <= maxStops; stops++ {
				if end == "loop" && stops == 0 {
					continue // never ends
				}
				out = append(out, Config{End: end, Mix: mix, Stops: stops})
				if !thorough && stops >= 2 && (mix == "twopc" || mix == "sendchan" || strings.HasSuffix(mix, "-closeerr")) {
					continue // quick: the second Run on these mixes with 0 or 1 Stop callers only
				}
				out = append(out, Config{End: end, Mix: mix, Stops: stops, SecondRun: true})
			}
		}
	}
	// a nested archetype that ends on its own while the outer archetype is still running
	for _, nested := range []string{"done0", "done1", "err0", "err1", "assert0", "assert1"} {
		for _, skip := range []bool{false, true} {
			for _, end := range []string{"done", "loop"} {
				for stops := 0; stops <= 2; stops++ {
					if end == "loop" && stops == 0 {
						continue
					}
					out = append(out, Config{End: end, Mix: "nested", Stops: stops, Nested: nested, Skip1: skip})
				}
			}
		}
	}
	// the nested archetype ends at every step of the request/ack protocol: instead of answering request n, or right
	// after answering it; requests of L.s0: read, write, precommit, commit (then write, precommit, commit of L.s1), or
	// with a first attempt that aborts: read, write, abort, read, write, precommit, commit
	for _, abortOnce := range []bool{false, true} {
		for n := 1; n <= 7; n++ {
			for _, on := range []bool{true, false} {
				for _, kind := range []string{"done", "err", "assert"} {
					for stops := 0; stops <= 1; stops++ {
						out = append(out, Config{End: "done", Mix: "nested", Stops: stops, NestedReq: n, NestedOn: on, NestedKind: kind, AbortOnce: abortOnce})
					}
				}
			}
		}
	}
	// a nested system of two archetypes: the register (slow: it takes each request, and looks at its store, at
	// scheduling points of its own) and an idle archetype that ends on its own at any point
	for _, kind := range []string{"done", "err", "assert"} {
		for stops := 0; stops <= 1; stops++ {
			out = append(out, Config{End: "done", Mix: "nested", Stops: stops, Nested2: kind, Skip1: true})
		}
	}
	// a nested system that works by itself (commits sections of its own), and an owner that is stopped before it runs
	for stops := 1; stops <= 2; stops++ {
		out = append(out, Config{End: "done", Mix: "nested", Stops: stops, Ticker: true})
	}
	out = append(out, Config{End: "done", Mix: "nested", Stops: 1, Ticker: true, NoRun: true})
	if strings.Contains(os.Getenv("C17_EXTRA"), "closepanic") {
		// not part of the check: a resource whose Close panics
		for stops := 0; stops <= 1; stops++ {
			out = append(out, Config{End: "done", Mix: "closepanic", Stops: stops})
		}
	}
	for stops := 1; stops <= 3; stops++ {
		out = append(out, Config{End: "done", Mix: "plain", Stops: stops, NoRun: true})
	}
	return out
}

// ---------------------------------------------------------------------------------------------
// one execution

type execOut struct {
	fail    *Failure // judged violation
	suspect *Failure // exploration mode only: predicted mutex deadlock, to be confirmed under the 60 s rule
	detail  any
	outcome string
	capped  bool
	discard string
}

func execute(t *testing.T, cfg Config, c bubble.Chooser, strict bool) execOut {
	var res execOut
	var w *world
	var evs []bubble.Event
	chanDeadlock, predicted := "", ""
	out := bubble.Run(t, bubble.Options{Strict: strict}, func(s *bubble.Sched) {
		w = build(cfg, s)
		s.OnDrain(func() {
			w.ctx.Stop() // first the outer context (its cleanup stops the nested one) ...
			for _, n := range w.nestedCtx {
				go n.Stop() // ... then the nested contexts, in case the outer run never started
			}
		})
		runs := 1
		if cfg.SecondRun {
			runs = 2
		}
		if cfg.NoRun {
			w.R.Start(func() {}) // the Run goroutine never exists
		} else {
			w.R.Start(func() {
				w.R.Park("start")
				for k := 0; k < runs; k++ {
					if k == 1 {
						w.R.Park("between")
					}
					w.log.Mark("R", "run-call", fmt.Sprint(k+1))
					w.runErr[k], w.runPanic[k] = safeRun(w.ctx)
					w.runRet[k] = true
					w.log.Mark("R", "run-ret", fmt.Sprint(k+1))
				}
			})
		}
		for i := 0; i < cfg.Stops; i++ {
			name := fmt.Sprintf("S%d", i+1)
			w.stop = append(w.stop, s.Go(name, func() {
				w.log.Mark(name, "stop-call", "")
				w.ctx.Stop()
				w.log.Mark(name, "stop-ret", "")
			}))
		}
		closesThisRun := func() int {
			n, from := 0, int64(0)
			for _, e := range w.log.Events() {
				if e.Op == "run-call" {
					from, n = e.Seq, 0
				}
				if e.Op == "close" && e.Who == "R" && e.Seq > from {
					for _, l := range w.regs {
						if l.Name == e.Res && l.ClosePark == w.R {
							n++
						}
					}
				}
			}
			return n
		}
		gates := func() int {
			n := 0
			for _, e := range w.log.Events() {
				if e.Op == "begin" {
					n++
				}
			}
			return n
		}
		var locked bool
		timeMoves := 0
		// the moves that would immediately block on runStateLock while a blocked goroutine holds it are
		// disabled: a goroutine waiting for a sync.Mutex is not durably blocked, and waiting has no effect
		// of its own, so delaying the move until the lock is free yields the same executions
		needsLock := func(th *bubble.Thread) bool {
			if th == w.R {
				switch th.Label() {
				case "start", "between":
					return true
				case "close":
					return cfg.Mix != "nested" && closesThisRun() >= w.rParking // the last parked Close: Run's finaliser takes the lock next
				case "closed":
					return true
				}
				return false
			}
			for _, st := range w.stop {
				if th == st {
					return true
				}
			}
			return false
		}
		enabled := func(th *bubble.Thread) bool {
			if w.nestedEnd != nil && w.nestedEnd.State() == bubble.Parked && th != w.nestedEnd {
				// the nested archetype has reached its end label: it ends now, before anything else moves.  (Letting
				// the outer archetype use the nested resource while the nested archetype lingers here leads into the
				// crash of the nested-abort probe, which would kill the worker process.)
				return false
			}
			if (th == w.regGate || th == w.ticker) && th != nil && w.R.State() != bubble.Running {
				// the register waiting for its next request, and the ticker, are only scheduled while Run is inside a
				// step that may need them (a request of the outer section, or the shutdown of the nested system in
				// Close); the ticker's life after the owner has stopped is examined at the end of the execution
				return false
			}
			for i, st := range w.stop {
				if th == st && i > 0 && w.stop[i-1].State() == bubble.Parked && w.stop[i-1].Label() == "start" {
					return false // Stop callers are interchangeable: they start in index order
				}
			}
			if locked && needsLock(th) {
				return false
			}
			if th == w.R && cfg.End == "loop" && strings.HasPrefix(th.Label(), "gate:") && gates() >= loopGateCap {
				for _, st := range w.stop {
					if st.State() == bubble.Parked && st.Label() == "start" {
						return false // bound on the length of a run that only a Stop can end
					}
				}
			}
			return true
		}
		for {
			s.Settle()
			if s.Steps > maxSteps {
				res.capped = true
				break
			}
			locked = w.ctx.VerifRunStateLockHeld()
			offer := false
			if w.R.State() == bubble.Running { // Run is inside a step that waits for virtual time (shutdown of the nested context)
				offer = true
				for _, th := range s.ParkedThreads() {
					if th.External() && !cfg.Late && cfg.Nested2 == "" {
						offer = false
					}
				}
				if cfg.Nested2 != "" && timeMoves >= 2 {
					offer = false // bound: virtual time is let pass at most twice while something else could move
				}
			}
			m, ok := s.Pick(c, bubble.PickOpt{Enabled: enabled, OfferTime: offer})
			if !ok {
				break
			}
			if m.Time && !m.Forced {
				timeMoves++
			}
			if m.Time {
				if m.Forced && locked && w.R.State() == bubble.Parked {
					// nothing can move: every remaining move needs runStateLock, which a goroutine holds while it is blocked
					predicted = fmt.Sprintf("runStateLock is held by a blocked Stop call; %s", s.Describe())
					if strict {
						s.Grant(w.R) // let Run really take the lock: the watchdog (60 s + goroutine dump) decides
						s.Settle()
						predicted = ""
						continue
					}
					for i := 0; i < 8 && w.ctx.VerifRunStateLockHeld(); i++ {
						w.ctx.VerifDrainRequestExit() // teardown seam, after the verdict of this execution
						s.Settle()
					}
					break
				}
				if !s.AdvanceTime() && m.Forced {
					chanDeadlock = s.Describe()
					break
				}
				continue
			}
			s.Grant(m.Th)
		}
		if w.ticker != nil && chanDeadlock == "" && predicted == "" && !res.capped {
			// everything the schedule contained has happened: is the nested system still working by itself?
			for i := 0; i < 3 && w.ticker.State() == bubble.Parked; i++ {
				s.Grant(w.ticker)
				s.Settle()
			}
		}
		evs = w.log.Events()
		// Teardown, after the verdict of this execution: stop the context and let every thread finish under
		// the driver's control.  Whenever a Stop call is stuck on the full requestExit channel while holding
		// runStateLock (the defect this check reports) it is let through with the teardown seam, so that the
		// bubble can drain instead of running into the mutex deadlock again.
		s.Go("teardown-stop", w.ctx.Stop)
		if w.ticker != nil {
			// an owner that never ran never closes its nested system: stop the nested contexts here, under the
			// driver's control (a ticker left running would spin for ever once scheduling points stop parking)
			for _, n := range w.nestedCtx {
				s.Go("teardown-stop-nested", n.Stop)
			}
		}
		for i := 0; i < 4*maxSteps; i++ {
			s.Settle()
			for j := 0; j < 4 && w.ctx.VerifRunStateLockHeld(); j++ {
				w.ctx.VerifDrainRequestExit()
				s.Settle()
			}
			ps := s.ParkedThreads()
			if len(ps) == 0 {
				if len(s.Blocked()) == 0 || !s.AdvanceTime() {
					break
				}
				continue
			}
			next := ps[len(ps)-1] // the teardown Stop first, then the most recently created threads
			s.Grant(next)
		}
	})
	if out.Hang != nil && !out.Hang.Draining {
		if out.Hang.Deadlock {
			key := "deadlock/channel-wait"
			if out.Hang.Mutex {
				key = keyMutexDeadlock
			}
			res.fail = &Failure{key, fmt.Sprintf("deadlock observed for %.0f s: %s", out.Hang.IdleS, out.Hang.Reason)}
			res.detail = out.Hang
			return res
		}
		res.discard = "hang:" + out.Hang.Reason
		return res
	}
	res.detail = renderEvents(evs)
	if f := w.judgeSecondRun(evs); f != nil {
		res.capped = false
		res.fail = f
		return res
	}
	if res.capped {
		return res
	}
	if predicted != "" {
		res.suspect = &Failure{keyMutexDeadlock, "Run's finaliser needs runStateLock while a Stop call holds it, blocked on the full requestExit channel: " + predicted}
		return res
	}
	if chanDeadlock != "" {
		var shape []string
		for _, part := range strings.Fields(chanDeadlock) {
			if !strings.HasSuffix(part, ":finished") && !strings.HasPrefix(part, "N:") && !strings.HasPrefix(part, "Nend:") { // (not the handles of the nested context's goroutine)
				shape = append(shape, strings.SplitN(part, "@", 2)[0])
			}
		}
		res.fail = &Failure{"deadlock/" + strings.Join(shape, ","), "no thread can move and 10 s of virtual time unblock nothing: " + chanDeadlock}
		return res
	}
	for _, th := range append([]*bubble.Thread{w.R}, w.stop...) {
		if p, stk := th.Panic(); p != nil {
			res.fail = &Failure{"panic", fmt.Sprintf("thread %s panicked: %v", th.Name, p)}
			res.detail = stk
			return res
		}
	}
	if f := w.judge(evs); f != nil {
		res.fail = f
		return res
	}
	res.outcome = outcomeOf(w, evs)
	return res
}

func outcomeOf(w *world, evs []bubble.Event) string {
	var b strings.Builder
	for _, e := range evs {
		switch e.Op {
		case "begin":
			b.WriteString("b" + strings.TrimPrefix(e.S, "L.") + " ")
		case "phase":
		case "commit":
			if e.Res == "a" {
				b.WriteString("c ")
			}
		case "close":
			if !(w.cfg.Mix == "nested" && e.Res == "a") {
				b.WriteString("x ")
			}
		case "stop-call":
			b.WriteString("S ")
		case "stop-ret":
			b.WriteString("s ")
		case "run-call":
			b.WriteString("R" + e.S + " ")
		case "run-ret":
			b.WriteString("r" + e.S + " ")
		}
	}
	cls := func(err error, p string) string {
		if p != "" {
			return "panic"
		}
		if err == nil {
			return "nil"
		}
		return "err"
	}
	fmt.Fprintf(&b, "=> %s", cls(w.runErr[0], w.runPanic[0]))
	if w.cfg.SecondRun {
		fmt.Fprintf(&b, ",%s", cls(w.runErr[1], w.runPanic[1]))
	}
	return b.String()
}

// ---------------------------------------------------------------------------------------------

type replayCase struct {
	Cfg     Config `json:"config"`
	Choices []int  `json:"choices"`
	Probe   string `json:"probe,omitempty"`  // crash probe (child process) instead of a schedule
	Crash   bool   `json:"crash,omitempty"`  // the witness of a process death: replayed in a child process
	Rounds  int    `json:"rounds,omitempty"` // late-answer schedule: repeated this many times (Go's select coin)
}

type suspectOut struct {
	Key     string `json:"key"`
	What    string `json:"what"`
	Choices []int  `json:"choices"`
	Detail  any    `json:"detail,omitempty"`
}

func body(t *testing.T, cfg Config, strict bool, sink func(execOut, []int)) func(c *explore.Ctx) {
	var failing atomic.Int32
	return func(c *explore.Ctx) {
		if failing.Load() > 12 {
			// this configuration already produced confirmed violations: do not enumerate the rest of its tree
			// (runConfig reports the configuration as not exhaustive)
			if sink != nil {
				sink(execOut{discard: "cut"}, nil)
			}
			c.Prune()
		}
		announce(cfg, c.Choices())
		r := execute(t, cfg, announcing{c, cfg}, strict)
		if r.fail != nil {
			failing.Add(1)
		}
		if sink != nil {
			sink(r, c.Choices())
		}
		switch {
		case r.discard != "":
			c.Outcome("DISCARDED")
		case r.capped:
			c.Outcome("STEP-CAP")
		case r.suspect != nil:
			c.Outcome("SUSPECTED-MUTEX-DEADLOCK")
		case r.fail != nil:
			c.Fail(r.fail.Key, r.fail.What+" [config "+cfg.Name()+"]", r.detail)
		default:
			c.Outcome(r.outcome)
		}
	}
}

// announcing tells the parent process, before and after every scheduling decision, which execution this shard
// worker is in: a panic in a goroutine spawned by the code under test kills the worker, and the parent then
// reports the death as a violation with exactly that execution as its witness.
type announcing struct {
	c   *explore.Ctx
	cfg Config
}

func announce(cfg Config, choices []int) {
	if bubble.IsChild() {
		b, _ := json.Marshal(replayCase{Cfg: cfg, Choices: choices, Crash: true})
		bubble.Announce(string(b))
	}
}

func (a announcing) Choose(n int, label string) int {
	k := a.c.Choose(n, label)
	announce(a.cfg, a.c.Choices())
	return k
}

func (a announcing) Deviate(n int, label string) int {
	k := a.c.Deviate(n, label)
	announce(a.cfg, a.c.Choices())
	return k
}

// crashKey derives the identity of a process death from the child's output: the function of the code under
// test in which the fatal panic was raised.
func crashKey(out string) (key, first string, ok bool) {
	i := strings.Index(out, "panic: ")
	if j := strings.Index(out, "fatal error: "); j >= 0 && (i < 0 || j < i) {
		i = j
	}
	if i < 0 {
		return "", "", false
	}
	lines := strings.Split(out[i:], "\n")
	first = lines[0]
	where := "unknown"
	for _, l := range lines[1:] {
		if strings.HasPrefix(l, "github.com/DistCompiler/pgo/distsys") {
			fn := l
			if k := strings.LastIndex(fn, "("); k > 0 {
				fn = fn[:k]
			}
			fn = fn[strings.LastIndex(fn, "/")+1:]
			fn = strings.NewReplacer("(*", "", ")", "").Replace(fn)
			for strings.HasSuffix(fn, ".func1") || strings.HasSuffix(fn, ".func2") || strings.HasSuffix(fn, ".1") {
				fn = fn[:strings.LastIndex(fn, ".")]
			}
			where = fn
			break
		}
	}
	return "crash/" + where, first, true
}

// TestOne (child process): one execution, given as a replayCase in C17_ONE; used to replay process deaths.
func TestOne(t *testing.T) {
	js := os.Getenv("C17_ONE")
	if js == "" {
		t.Skip("child of TestCheck")
	}
	var r replayCase
	if err := json.Unmarshal([]byte(js), &r); err != nil {
		t.Fatal(err)
	}
	v, outc, _ := explore.ReplayOnce(body(t, r.Cfg, true, nil), r.Choices, 1<<20, nil)
	if v != nil {
		fmt.Printf("ONE-RESULT fail %s: %s\n", v.Key, v.What)
	} else {
		fmt.Printf("ONE-RESULT ok %s\n", outc)
	}
}

// replayInChild re-runs one execution in a child process and judges its output.
func replayInChild(r replayCase) (*Failure, map[string]any) {
	self := os.Getenv("VERIF_SELF")
	if self == "" {
		self = os.Args[0]
	}
	r.Crash = false
	js, _ := json.Marshal(r)
	cmd := exec.Command(self, "-test.run", "^TestOne$", "-test.v", "-test.count", "1", "-test.timeout", "300s")
	cmd.Env = append(os.Environ(), "C17_ONE="+string(js), "VERIF_OUT=", "VERIF_REPLAY=", "GOMAXPROCS=1")
	b, err := cmd.CombinedOutput()
	txt := string(b)
	rep := map[string]any{"exit": fmt.Sprint(err)}
	for _, l := range strings.Split(txt, "\n") {
		if strings.HasPrefix(l, "ONE-RESULT ") {
			rep["result"] = l
			if strings.HasPrefix(l, "ONE-RESULT fail ") {
				kv := strings.SplitN(strings.TrimPrefix(l, "ONE-RESULT fail "), ": ", 2)
				return &Failure{kv[0], kv[len(kv)-1]}, rep
			}
			return nil, rep
		}
	}
	if key, first, ok := crashKey(txt); ok {
		rep["panic"] = first
		return &Failure{key, "the process dies: " + first + " [config " + r.Cfg.Name() + "]"}, rep
	}
	rep["output_tail"] = txt[max(0, len(txt)-600):]
	return nil, rep
}

type taskOut struct {
	Cfg         string               `json:"cfg"`
	Executions  int64                `json:"executions"`
	Points      int64                `json:"points"`
	Divergences int64                `json:"divergences"`
	Outcomes    int                  `json:"outcomes"`
	Exhaustive  bool                 `json:"exhaustive"`
	CapHit      string               `json:"cap_hit"`
	WallS       float64              `json:"wall_s"`
	Discards    int                  `json:"discards"`
	Capped      int                  `json:"capped"`
	Suspected   int                  `json:"suspected"`
	Leaked      int64                `json:"leaked"`
	Sample      *explore.Sample      `json:"sample,omitempty"`
	Suspect     *suspectOut          `json:"suspect,omitempty"`
	Violations  []*explore.Violation `json:"violations,omitempty"`
}

func runConfig(t *testing.T, cfg Config, deadline time.Time) taskOut {
	o := taskOut{Cfg: cfg.Name()}
	leakedBefore := bubble.Leaked()
	cut := false
	var mu sync.Mutex
	sink := func(r execOut, choices []int) {
		mu.Lock()
		defer mu.Unlock()
		if r.discard == "cut" {
			cut = true
			return
		}
		if r.discard != "" {
			o.Discards++
		}
		if r.capped {
			o.Capped++
		}
		if r.suspect != nil {
			o.Suspected++
			if o.Suspect == nil || len(choices) < len(o.Suspect.Choices) {
				o.Suspect = &suspectOut{Key: r.suspect.Key, What: r.suspect.What, Choices: append([]int(nil), choices...), Detail: r.detail}
			}
		}
	}
	st := explore.Run(body(t, cfg, false, sink), explore.Options{Workers: 1, Deadline: deadline, MaxDepth: 2000, PanicIsBug: true, Samples: 2, MaxViol: 6})
	o.Executions, o.Points, o.Divergences, o.Outcomes = st.Executions, st.Points, st.Divergences, st.Outcomes
	o.Exhaustive, o.CapHit, o.WallS = st.Exhaustive, st.CapHit, st.WallS
	if cut {
		o.Exhaustive, o.CapHit = false, "cut_after_violations"
	}
	o.Leaked = bubble.Leaked() - leakedBefore
	if len(st.Samples) > 0 {
		o.Sample = &st.Samples[len(st.Samples)-1]
	}
	for _, v := range st.Violations {
		v.Points = nil
		o.Violations = append(o.Violations, v)
	}
	return o
}

// TestWorker is the shard worker (GOMAXPROCS=1 child of TestCheck); it does nothing when run directly.
func TestWorker(t *testing.T) {
	if !bubble.IsChild() {
		t.Skip("shard worker: started by TestCheck")
	}
	cfgs := configs(os.Getenv("VERIF_TIER") == "thorough")
	bubble.ChildLoop(func(task int) any { return runConfig(t, cfgs[task], bubble.ChildDeadline()) })
}

func weight(c Config) int {
	w := (c.Stops + 1) * (c.Stops + 1)
	if c.SecondRun {
		w *= 2
	}
	if c.Mix == "hashmap" || c.Mix == "nested" {
		w *= 2
	}
	return w
}

func TestCheck(t *testing.T) {
	hres.Main(t, func(env hres.Env) *hres.Result {
		res := &hres.Result{Property: "C17", Level: "exploration"}
		res.Assumptions = []string{
			"threads are the real Run goroutine (parked before Run, at the start of every critical section through a gating FairnessCounter, inside every instrumented resource's Close, and between the two Run calls) and real goroutines calling Stop, scheduled inside a testing/synctest bubble; a Stop call runs without interruption until it returns or blocks",
			"moves that would at once block on runStateLock while a blocked goroutine holds it (observed with a TryLock accessor added by the build overlay) are delayed until the lock is free - waiting for a mutex has no effect of its own; when nothing but such moves is left the execution is a suspected deadlock, and it becomes a verdict only after it was re-run 5 times with the move really made and each time 60 s passed without progress and the goroutine dump showed every goroutine of the bubble in a channel or mutex wait",
			"Stop callers are interchangeable and start in index order; a run that only a Stop can end is not granted more than 4 sections while a Stop caller has not started",
			"the late-answer schedule depends on Go's random choice between two ready select cases inside nestedArchetype.Abort, which no scheduler controls: that one forced schedule is repeated 48 times per run with fresh contexts (a defect on one side of the coin is missed with probability 2^-48); it is sampled, not enumerated, and not covered by 'exhaustive'",
			"MPCalContext.abort/commit/cleanupResources walk Go maps; where the order matters for a verdict (the rollback of a section in flight that contains a resource whose Abort panics) the schedule is repeated 16 times per run with fresh contexts: a sampled map order, not covered by 'exhaustive'",
			"a panic in a goroutine spawned by the code under test kills the shard worker; the worker announces every scheduling decision, and the parent reports the death as a violation whose witness (replayed in a child process) is the announced execution",
			"the nested context runs on its own goroutine inside the bubble, driven by the request/ack protocol; virtual time advances only when nothing else can move, or as an explored alternative while Run waits for the nested context to shut down",
		}
		if env.Replay != nil {
			var r replayCase
			if err := json.Unmarshal(env.Replay, &r); err != nil {
				t.Fatal(err)
			}
			if r.Crash {
				f, rep := replayInChild(r)
				res.Coverage = map[string]any{"evaluations": 1, "distinct_nontrivial": 0, "rule": "replay of one execution in a child process", "samples": []any{rep}}
				if f != nil {
					res.Violations = append(res.Violations, hres.Viol{Key: f.Key, What: f.What, Replay: r})
				}
				return res
			}
			if r.Rounds > 0 {
				f, rep := lateRounds(t, r.Cfg, r.Rounds)
				res.Coverage = map[string]any{"evaluations": r.Rounds, "distinct_nontrivial": 0, "rule": "replay of the late-answer schedule, repeated (Go's select coin)", "samples": []any{rep}}
				if f != nil {
					res.Violations = append(res.Violations, hres.Viol{Key: f.Key, What: f.What, Replay: r})
				}
				return res
			}
			if r.Probe != "" {
				f, rep := crashProbe()
				res.Coverage = map[string]any{"evaluations": 1, "distinct_nontrivial": 0, "rule": "replay of the crash probe in a child process", "samples": []any{rep}}
				if f != nil {
					res.Violations = append(res.Violations, hres.Viol{Key: f.Key, What: f.What, Replay: r})
				}
				return res
			}
			v, outc, _ := explore.ReplayOnce(body(t, r.Cfg, true, nil), r.Choices, 1<<20, nil)
			res.Coverage = map[string]any{"evaluations": 1, "distinct_nontrivial": 0, "rule": "replay (strict: a deadlock is only reported after 60 s without progress and a goroutine dump with only channel/mutex waits)", "samples": []any{outc}}
			if v != nil {
				res.Violations = append(res.Violations, hres.Viol{Key: v.Key, What: v.What, Replay: r})
			}
			return res
		}
		cfgs := configs(env.Thorough())
		var tasks []int
		for i, cfg := range cfgs {
			if f := os.Getenv("C17_ONLY"); f != "" && !strings.Contains(cfg.Name(), f) {
				continue
			}
			tasks = append(tasks, i)
		}
		sort.SliceStable(tasks, func(a, b int) bool { return weight(cfgs[tasks[a]]) > weight(cfgs[tasks[b]]) })
		var evals, points, diverg, leakedB int64
		distinct, discards, capped, done, died, suspected, crashed := 0, 0, 0, 0, 0, 0, 0
		exhaustive := true
		caps := map[string]int{}
		viol := map[string]hres.Viol{}
		violCfg := map[string]int{}
		kinds := map[string]int{}
		var samples []any
		byEnd := map[string]int64{}
		byMix := map[string]int64{}
		suspects := map[string]replayCase{}
		suspectWhat := map[string]string{}
		suspectCfg := map[string]int{}
		err := bubble.RunSharded(os.Getenv("VERIF_SELF"), "TestWorker", env.Workers, tasks, env.Deadline, nil, func(r bubble.TaskResult) {
			cfg := cfgs[r.Task]
			if r.JSON == nil {
				if key, first, ok := crashKey(r.Died); ok {
					// a panic in a goroutine of the code under test killed the worker: a violation, witnessed by the
					// execution the worker had announced
					rc := replayCase{Cfg: cfg, Crash: true}
					json.Unmarshal([]byte(r.Cur), &rc)
					rc.Crash = true
					kinds[key]++
					old, have := violCfg[key]
					if !have || less(cfgs[r.Task], r.Task, cfgs[old], old) {
						violCfg[key] = r.Task
						viol[key] = hres.Viol{Key: key, What: "the process dies instead of Run reporting an error: " + first + " [config " + rc.Cfg.Name() + "]", Replay: rc}
					}
					crashed++
					exhaustive = false
					caps["process_died_in_code_under_test"]++
					return
				}
				died++
				exhaustive = false
				caps["worker_died:"+cfg.Name()]++
				if os.Getenv("C17_DEBUG") != "" {
					fmt.Println("WORKER DIED", cfg.Name(), r.Died)
				}
				return
			}
			var o taskOut
			if err := json.Unmarshal(r.JSON, &o); err != nil {
				died++
				exhaustive = false
				return
			}
			done++
			if os.Getenv("C17_DEBUG") != "" {
				fmt.Printf("%-50s exec=%d outcomes=%d suspected=%d capped=%d viol=%d wall=%.2fs\n", cfg.Name(), o.Executions, o.Outcomes, o.Suspected, o.Capped, len(o.Violations), o.WallS)
			}
			evals += o.Executions
			points += o.Points
			diverg += o.Divergences
			distinct += o.Outcomes
			discards += o.Discards
			capped += o.Capped
			suspected += o.Suspected
			leakedB += o.Leaked
			byEnd[cfg.End] += o.Executions
			byMix[cfg.Mix] += o.Executions
			if !o.Exhaustive {
				exhaustive = false
				caps[o.CapHit]++
			}
			if len(samples) < 4 && o.Sample != nil && cfg.Stops >= 2 && (cfg.Mix == "nested" || cfg.Mix == "incmap") {
				samples = append(samples, map[string]any{"config": cfg.Name(), "executions": o.Executions, "distinct_outcomes": o.Outcomes, "schedule": o.Sample.Choices, "outcome": o.Sample.Outcome})
			}
			if o.Suspect != nil {
				// keep the witness of the smallest configuration (fewest Stop callers, then enumeration order), shortest schedule
				old, have := suspectCfg[o.Suspect.Key]
				if !have || less(cfgs[r.Task], r.Task, cfgs[old], old) {
					suspectCfg[o.Suspect.Key] = r.Task
					suspects[o.Suspect.Key] = replayCase{Cfg: cfg, Choices: o.Suspect.Choices}
					suspectWhat[o.Suspect.Key] = o.Suspect.What + " [config " + cfg.Name() + "]"
				}
			}
			for _, v := range o.Violations {
				kinds[v.Key]++
				old, have := violCfg[v.Key]
				if have && !less(cfgs[r.Task], r.Task, cfgs[old], old) {
					continue
				}
				violCfg[v.Key] = r.Task
				viol[v.Key] = hres.Viol{Key: v.Key, What: v.What, Replay: replayCase{Cfg: cfg, Choices: v.Choices}}
			}
		})
		if err != nil {
			t.Fatalf("cannot start shard workers: %v", err)
		}
		// suspected mutex deadlocks: confirm under the strict rule, 5 replays in parallel per key
		confirm := map[string]any{}
		var cmu sync.Mutex
		var wg sync.WaitGroup
		for key, rc := range suspects {
			kinds[key+" (suspected)"] = suspected
			wg.Add(1)
			go func() {
				defer wg.Done()
				okN := 0
				var one sync.WaitGroup
				var omu sync.Mutex
				var firstWhat string
				start := time.Now()
				for i := 0; i < 5; i++ {
					one.Add(1)
					go func() {
						defer one.Done()
						v, _, _ := explore.ReplayOnce(body(t, rc.Cfg, true, nil), rc.Choices, 1<<20, nil)
						omu.Lock()
						defer omu.Unlock()
						if v != nil && v.Key == key {
							okN++
							if firstWhat == "" {
								firstWhat = v.What
							}
						}
					}()
				}
				one.Wait()
				cmu.Lock()
				defer cmu.Unlock()
				confirm[key] = map[string]any{"replays": 5, "confirmed": okN, "wall_s": time.Since(start).Seconds(), "witness": rc}
				if okN == 5 {
					viol[key] = hres.Viol{Key: key, What: suspectWhat[key] + "; confirmed 5/5: " + firstWhat, Replay: rc}
				} else {
					diverg++
					exhaustive = false
				}
			}()
		}
		wg.Wait()
		probeFail, probeReport := crashProbe()
		if probeFail != nil {
			viol[probeFail.Key] = hres.Viol{Key: probeFail.Key, What: probeFail.What, Replay: replayCase{Probe: crashProbeName}}
		}
		evals++
		// the late-answer schedule: its outcome depends on Go's select coin, so it is repeated, not enumerated
		lateReport := []any{}
		for _, lc := range lateConfigs() {
			f, rep := lateRounds(t, lc, lateN)
			evals += int64(lateN)
			lateReport = append(lateReport, rep)
			if f != nil {
				if _, dup := viol[f.Key]; !dup {
					viol[f.Key] = hres.Viol{Key: f.Key, What: f.What, Replay: replayCase{Cfg: lc, Rounds: lateN}}
				}
			}
		}
		// the rollback of a section in flight walks its resources in Go map order: the schedules in which a resource
		// whose Abort panics (SingleOutputChan after a send) has siblings are repeated, not enumerated
		mapOrderReport := []any{}
		for _, mc := range mapOrderConfigs() {
			f, rep := lateRounds(t, mc, mapOrderN)
			evals += int64(mapOrderN)
			mapOrderReport = append(mapOrderReport, rep)
			if f != nil {
				if _, dup := viol[f.Key]; !dup {
					viol[f.Key] = hres.Viol{Key: f.Key, What: f.What, Replay: replayCase{Cfg: mc, Rounds: mapOrderN}}
				}
			}
		}
		keys := make([]string, 0, len(viol))
		for k := range viol {
			keys = append(keys, k)
		}
		sort.Strings(keys)
		for _, k := range keys {
			res.Violations = append(res.Violations, viol[k])
		}
		if discards > 0 || capped > 0 || done < len(tasks) {
			exhaustive = false
		}
		cov := map[string]any{
			"evaluations":                evals,
			"distinct_nontrivial":        distinct,
			"rule":                       "one evaluation = one complete schedule (one synctest bubble) of one configuration; distinct = distinct (configuration, interleaving of section begins/commits, Close calls, Stop calls/returns and Run calls/returns, class of Run's results)",
			"samples":                    samples,
			"exhaustive":                 exhaustive,
			"configurations":             len(tasks),
			"configurations_done":        done,
			"executions_by_ending":       byEnd,
			"executions_by_resource_mix": byMix,
			"choice_points":              points,
			"divergences":                diverg,
			"discarded_runs":             discards,
			"step_capped_runs":           capped,
			"caps_hit":                   caps,
			"workers_died":               died,
			"process_deaths_attributed":  crashed,
			"violation_keys_seen":        kinds,
			"suspected_mutex_deadlocks":  suspected,
			"strict_confirmations":       confirm,
			"crash_probe":                probeReport,
			"late_answer_rounds":         lateReport,
			"map_order_rounds":           mapOrderReport,
			"leaked_bubbles":             leakedB + bubble.Leaked(),
			"shard_workers":              env.Workers,
			"bounds":                     "endings {Done, Stop only, assertion, Error label, resource error in body, resource error in PreCommit, panic in the body} x resource mixes {2 plain, plain with failing Close, IncMap with realised elements, HashMap with 3 configured elements, nested-archetype resource with an instrumented inner resource} plus the nested mix with a nested archetype that ends on its own (Done / error / assertion, after serving 0 or 1 outer sections; outer section 2 using or not using the nested resource; outer ending Done or Stop-only; 0-2 Stop callers) x 0-3 (thorough 0-4) Stop callers started at every scheduling point (before Run, at each section start, inside each Close, after Run, around a second Run) x with/without a second Run call, plus Stop callers on a context whose Run is never called; every interleaving, no preemption bound",
		}
		if len(samples) == 0 {
			cov["samples"] = []any{"(no sample of the selected shapes)"}
		}
		if env.Thorough() {
			cov["race_pass"] = racePass(env)
			cov["commit_ack_race_stress"] = stressAck(20000)
		}
		res.Coverage = cov
		return res
	})
}

func less(a Config, ai int, b Config, bi int) bool {
	if a.Stops != b.Stops {
		return a.Stops < b.Stops
	}
	if a.SecondRun != b.SecondRun {
		return !a.SecondRun
	}
	return ai < bi
}

// ---------------------------------------------------------------------------------------------
// free-running -race pass of the same bodies (thorough tier): reports unsynchronised access, never a verdict

func racePass(env hres.Env) map[string]any {
	out := map[string]any{"ran": false}
	verif := os.Getenv("VERIF_DIR")
	if verif == "" {
		verif = "/verif"
	}
	repo := os.Getenv("VERIF_REPO")
	if repo == "" {
		repo = "/repo"
	}
	scratch := os.Getenv("VERIF_SCRATCH")
	if scratch == "" {
		scratch = filepath.Join(verif, ".scratch", "c17-race")
		os.MkdirAll(scratch, 0755)
		defer os.RemoveAll(scratch)
	}
	overlay := os.Getenv("VERIF_OVERLAY")
	if overlay == "" {
		cand := filepath.Join(verif, ".scratch", fmt.Sprintf("overlay-C17-%d.json", os.Getppid()))
		if _, err := os.Stat(cand); err == nil {
			overlay = cand
		}
	}
	if overlay == "" {
		repl := map[string]string{}
		hooks := filepath.Join(verif, "hooks")
		filepath.Walk(hooks, func(p string, fi os.FileInfo, err error) error {
			if err == nil && !fi.IsDir() && strings.HasSuffix(p, ".go") {
				rel, _ := filepath.Rel(hooks, p)
				repl[filepath.Join(repo, rel)] = p
			}
			return nil
		})
		b, _ := json.Marshal(map[string]any{"Replace": repl})
		overlay = filepath.Join(scratch, "race-overlay.json")
		os.WriteFile(overlay, b, 0644)
	}
	cmd := exec.Command("go1.26.8", "test", "-race", "-vet=off", "-tags", "verif", "-overlay", overlay, "-count=1", "-v", "-timeout", "40m", "-run", "^TestRaceBodies$", "./h/c17")
	if raceBin := os.Getenv("VERIF_SELF_RACE"); raceBin != "" {
		// the driver built this harness with -race (same overlay): run that binary instead of building here
		cmd = exec.Command(raceBin, "-test.run", "^TestRaceBodies$", "-test.v", "-test.timeout", "40m", "-test.count", "1")
		out["race_binary"] = raceBin
	}
	cmd.Dir = filepath.Join(verif, "mc")
	cmd.Env = append(os.Environ(), "GOFLAGS=-mod=mod", "GOPROXY=off", "GOSUMDB=off", "GOTOOLCHAIN=local", "GOWORK=off",
		"GOCACHE="+filepath.Join(verif, ".gocache"), "CGO_ENABLED=1", "VERIF_RACE_ROUNDS=200", "VERIF_RACE_BUDGET_S=300")
	start := time.Now()
	b, err := cmd.CombinedOutput()
	txt := string(b)
	out["wall_s"] = time.Since(start).Seconds()
	out["overlay"] = overlay
	if strings.Contains(txt, "RACE-PASS-DONE") {
		out["ran"] = true
	}
	out["races_reported"] = strings.Count(txt, "WARNING: DATA RACE")
	if i := strings.Index(txt, "WARNING: DATA RACE"); i >= 0 {
		e := i + 1800
		if e > len(txt) {
			e = len(txt)
		}
		out["first_report"] = txt[i:e]
	}
	for _, l := range strings.Split(txt, "\n") {
		if strings.HasPrefix(l, "RACE-PASS-DONE") {
			out["summary"] = l
		}
	}
	if err != nil && out["ran"] == false {
		s := txt
		if len(s) > 800 {
			s = s[len(s)-800:]
		}
		out["error"] = err.Error() + ": " + s
	}
	return out
}

// ---------------------------------------------------------------------------------------------
// crash probe: a panic in a goroutine of the code under test cannot be caught inside a bubble, so the one
// scenario of this class that ends that way is a fixed script run in a child process.
//
// nested-ends-while-outer-aborts: the nested archetype reaches Done before serving anything and its cleanup
// (Close of its inner resource) takes a while; the outer archetype's first request to the nested resource
// therefore times out (100 ms, virtual) and the section aborts; while MPCalContext.abort waits for the nested
// resource's Abort, the nested cleanup finishes.  Expected: the aborted section is retried and Run returns
// resources.ErrNestedArchetypeStopped.

type slowClose struct {
	distsys.ArchetypeResource
	release chan struct{}
	closes  atomic.Int32
}

func (s *slowClose) Close() error {
	s.closes.Add(1)
	<-s.release
	return s.ArchetypeResource.Close()
}

const crashProbeName = "nested-ends-while-outer-aborts"

func TestCrashProbe(t *testing.T) {
	if os.Getenv("C17_CRASH_PROBE") == "" {
		t.Skip("child of TestCheck")
	}
	synctest.Test(t, func(t *testing.T) {
		store := &slowClose{ArchetypeResource: distsys.NewLocalArchetypeResource(num(4)), release: make(chan struct{})}
		nested := resources.NewNested(func(sendCh chan<- tla.Value, receiveCh <-chan tla.Value) []*distsys.MPCalContext {
			return []*distsys.MPCalContext{distsys.NewMPCalContext(tla.MakeString("reg"), registerArchetype("done", 0, 0, false, nil),
				distsys.EnsureArchetypeRefParam("in", resources.NewInputChan(receiveCh)),
				distsys.EnsureArchetypeRefParam("out", resources.NewOutputChan(sendCh)),
				distsys.EnsureArchetypeRefParam("store", store))}
		})
		s0 := distsys.MPCalCriticalSection{Name: "L.s0", Body: func(iface distsys.ArchetypeInterface) error {
			r, err := iface.RequireArchetypeResourceRef("L.r")
			if err != nil {
				return err
			}
			if err := iface.Write(r, nil, num(1)); err != nil {
				return err
			}
			return iface.Goto("L.Done")
		}}
		done := distsys.MPCalCriticalSection{Name: "L.Done", Body: func(distsys.ArchetypeInterface) error { return distsys.ErrDone }}
		outer := distsys.NewMPCalContext(tla.MakeString("self"), distsys.MPCalArchetype{Name: "L", Label: "L.s0", RequiredRefParams: []string{"L.r"},
			JumpTable: distsys.MakeMPCalJumpTable(s0, done), ProcTable: distsys.MakeMPCalProcTable(), PreAmble: func(distsys.ArchetypeInterface) {}},
			distsys.EnsureArchetypeRefParam("r", nested))
		res := make(chan error, 1)
		go func() { res <- outer.Run() }()
		time.Sleep(150 * time.Millisecond) // virtual: the request to the nested resource has timed out, the section is aborting
		synctest.Wait()
		fmt.Printf("PROBE-STATE nested cleanup entered=%d\n", store.closes.Load())
		close(store.release) // the nested cleanup finishes now
		time.Sleep(2 * time.Second)
		synctest.Wait()
		select {
		case err := <-res:
			fmt.Printf("PROBE-RESULT stopped=%v err=%v\n", errors.Is(err, resources.ErrNestedArchetypeStopped), err)
		default:
			fmt.Println("PROBE-RESULT Run has not returned after 2 virtual seconds")
			go outer.Stop()
		}
	})
}

// ---------------------------------------------------------------------------------------------
// The late-answer schedule (one forced schedule, repeated).  The outer read of the nested resource is
// delivered, the nested handler is held, the read times out (100 ms, virtual); while the outer body has
// not yet given up, the nested system answers (the answer stays buffered) and reaches Done; then the outer
// section aborts.  nestedArchetype.Abort's select then has the buffered answer AND ctxHasStopped ready and
// Go picks at random - a coin the scheduler cannot control.  The schedule is therefore repeated lateN times
// per run with fresh contexts: a defect that shows on one side of the coin is missed with probability
// 2^-lateN.  This is sampling of that one coin, not enumeration; everything else in the schedule is forced.

const lateN = 48

const mapOrderN = 16

func mapOrderConfigs() []Config {
	return []Config{
		{End: "assert", Mix: "sendchan", Stops: 0},
		{End: "body-panic", Mix: "sendchan", Stops: 0},
		{End: "reserr-precommit", Mix: "sendchan", Stops: 1},
	}
}

func lateConfigs() []Config {
	out := []Config{
		{End: "done", Mix: "nested", Stops: 0, Late: true, Skip1: true},
		{End: "done", Mix: "nested", Stops: 1, Late: true, Skip1: true},
	}
	// the same schedule with a nested system that stays alive (Abort's other coin: abort request first, or the late answer first)
	out = append(out, Config{End: "done", Mix: "nested", Stops: 0, Late: true, Skip1: true, NestedKind: "alive"})
	return out
}

// lateScript forces the schedule: let virtual time pass when it is first offered (the read times out), then
// always prefer the nested context's own threads (held handler, end label), else the default.
type lateScript struct{ timed bool }

func (l *lateScript) pick(n int, label string) int {
	f := strings.Fields(label) // "sched" then one field per alternative
	if len(f) < 2 {
		return 0
	}
	alts := f[1:]
	if !l.timed && alts[len(alts)-1] == "time" {
		l.timed = true
		return len(alts) - 1
	}
	for i, a := range alts {
		if strings.HasPrefix(a, "N@") || strings.HasPrefix(a, "Nend@") {
			return i
		}
	}
	return 0
}
func (l *lateScript) Choose(n int, label string) int  { return l.pick(n, label) }
func (l *lateScript) Deviate(n int, label string) int { return l.pick(n, label) }

// TestLate (child process): the repeated late-answer schedule; a process death stays in the child.
func TestLate(t *testing.T) {
	js := os.Getenv("C17_LATE")
	if js == "" {
		t.Skip("child of TestCheck")
	}
	var r replayCase
	if err := json.Unmarshal([]byte(js), &r); err != nil {
		t.Fatal(err)
	}
	f, rep := lateRoundsHere(t, r.Cfg, r.Rounds)
	b, _ := json.Marshal(map[string]any{"fail": f, "report": rep})
	fmt.Printf("LATE-RESULT %s\n", b)
}

func lateRounds(t *testing.T, cfg Config, rounds int) (*Failure, map[string]any) {
	self := os.Getenv("VERIF_SELF")
	if self == "" {
		self = os.Args[0]
	}
	js, _ := json.Marshal(replayCase{Cfg: cfg, Rounds: rounds})
	cmd := exec.Command(self, "-test.run", "^TestLate$", "-test.v", "-test.count", "1", "-test.timeout", "600s")
	cmd.Env = append(os.Environ(), "C17_LATE="+string(js), "VERIF_OUT=", "VERIF_REPLAY=", "GOMAXPROCS=1")
	b, err := cmd.CombinedOutput()
	txt := string(b)
	for _, l := range strings.Split(txt, "\n") {
		if strings.HasPrefix(l, "LATE-RESULT ") {
			var o struct {
				Fail   *Failure       `json:"fail"`
				Report map[string]any `json:"report"`
			}
			if json.Unmarshal([]byte(strings.TrimPrefix(l, "LATE-RESULT ")), &o) == nil {
				return o.Fail, o.Report
			}
		}
	}
	rep := map[string]any{"config": cfg.Name(), "rounds": rounds, "exit": fmt.Sprint(err)}
	if key, first, ok := crashKey(txt); ok {
		rep["panic"] = first
		return &Failure{"late-answer/" + key, "the process dies during the late-answer schedule: " + first + " [config " + cfg.Name() + "]"}, rep
	}
	rep["output_tail"] = txt[max(0, len(txt)-600):]
	return nil, rep // the child did not work: not a verdict
}

func lateRoundsHere(t *testing.T, cfg Config, rounds int) (*Failure, map[string]any) {
	rep := map[string]any{"config": cfg.Name(), "rounds": rounds}
	reached, failed := 0, 0
	var first *Failure
	for i := 0; i < rounds; i++ {
		r := execute(t, cfg, &lateScript{}, false)
		if det, ok := r.detail.([]string); ok {
			// ground truth that the forced point was reached: the read timed out, the nested system answered and
			// ended before the outer section aborted
			txt := strings.Join(det, "\n")
			if cfg.Late && strings.Contains(txt, "R:read(r)!"+distsys.ErrCriticalSectionAborted.Error()) && strings.Contains(txt, "R:abort(r)") {
				reached++
			}
			if !cfg.Late && strings.Contains(txt, "R:abort(r)") { // the rollback of the section in flight reached the SingleOutputChan
				reached++
			}
		}
		if r.fail != nil {
			failed++
			if first == nil {
				prefix, what := "late-answer/", "the late-answer schedule"
				if !cfg.Late {
					prefix, what = "map-order/", "the rollback schedule (sampled Go map order)"
				}
				first = &Failure{prefix + r.fail.Key, fmt.Sprintf("round %d of %s: %s [config %s]", i+1, what, r.fail.What, cfg.Name())}
				rep["first_failure_detail"] = r.detail
			}
		}
	}
	rep["reached_the_coin"] = reached
	rep["failed_rounds"] = failed
	rep["note"] = fmt.Sprintf("sampled coin (Go's select between the buffered late answer and ctxHasStopped): a defect on one side is missed with probability 2^-%d", rounds)
	if !cfg.Late {
		rep["note"] = fmt.Sprintf("sampled Go map order: MPCalContext walks the resources of the section in flight in map order when it rolls back; %d repetitions of the same schedule with fresh contexts, a defect that needs one resource to come before another is missed with probability about 2^-%d", rounds, rounds)
	}
	return first, rep
}

// crashProbe runs TestCrashProbe in a child process and judges its output.
func crashProbe() (fail *Failure, report map[string]any) {
	self := os.Getenv("VERIF_SELF")
	if self == "" {
		self = os.Args[0]
	}
	cmd := exec.Command(self, "-test.run", "^TestCrashProbe$", "-test.v", "-test.count", "1", "-test.timeout", "120s")
	cmd.Env = append(os.Environ(), "C17_CRASH_PROBE="+crashProbeName, "VERIF_OUT=", "VERIF_REPLAY=")
	b, err := cmd.CombinedOutput()
	txt := string(b)
	report = map[string]any{"probe": crashProbeName, "exit": fmt.Sprint(err)}
	var line string
	for _, l := range strings.Split(txt, "\n") {
		if strings.HasPrefix(l, "PROBE-RESULT") {
			line = l
		}
	}
	report["result"] = line
	switch {
	case strings.Contains(line, "stopped=true"):
		return nil, report
	case strings.Contains(txt, "panic: "):
		i := strings.Index(txt, "panic: ")
		e := i + 700
		if e > len(txt) {
			e = len(txt)
		}
		report["panic"] = txt[i:e]
		first := strings.SplitN(txt[i:], "\n", 2)[0]
		return &Failure{"crash/" + crashProbeName, "the process dies instead of Run reporting the resource error: the nested archetype reached Done (slow cleanup) before serving anything, the outer archetype's request timed out and its section was aborting when the nested cleanup finished: " + first}, report
	case line != "":
		return &Failure{"run-result/" + crashProbeName, "the outer Run did not report ErrNestedArchetypeStopped: " + line}, report
	}
	report["output_tail"] = txt[max(0, len(txt)-600):]
	return nil, report // the probe itself did not work: not a verdict
}

// TestStressAck (child process, informational, never a verdict): the nested archetype ends right after it
// acknowledged the Commit of the outer section; in nestedArchetype.performRequest the buffered acknowledgement
// then races the close of ctxHasStopped (Go picks a ready select case at random) and the losing case panics in
// a bare goroutine.  Free-running, real goroutines, many rounds.
func TestStressAck(t *testing.T) {
	if os.Getenv("C17_STRESS_ACK") == "" {
		t.Skip("child of TestCheck")
	}
	rounds := 2000
	fmt.Sscan(os.Getenv("C17_STRESS_ACK"), &rounds)
	bad := 0
	for i := 0; i < rounds; i++ {
		nested := resources.NewNested(func(sendCh chan<- tla.Value, receiveCh <-chan tla.Value) []*distsys.MPCalContext {
			return []*distsys.MPCalContext{distsys.NewMPCalContext(tla.MakeString("reg"), registerArchetype("done", 1, 0, false, nil),
				distsys.EnsureArchetypeRefParam("in", resources.NewInputChan(receiveCh)),
				distsys.EnsureArchetypeRefParam("out", resources.NewOutputChan(sendCh)),
				distsys.EnsureArchetypeRefParam("store", distsys.NewLocalArchetypeResource(num(4))))}
		})
		s0 := distsys.MPCalCriticalSection{Name: "L.s0", Body: func(iface distsys.ArchetypeInterface) error {
			r, err := iface.RequireArchetypeResourceRef("L.r")
			if err != nil {
				return err
			}
			if err := iface.Write(r, nil, num(1)); err != nil {
				return err
			}
			return iface.Goto("L.Done")
		}}
		done := distsys.MPCalCriticalSection{Name: "L.Done", Body: func(distsys.ArchetypeInterface) error { return distsys.ErrDone }}
		outer := distsys.NewMPCalContext(tla.MakeString("self"), distsys.MPCalArchetype{Name: "L", Label: "L.s0", RequiredRefParams: []string{"L.r"},
			JumpTable: distsys.MakeMPCalJumpTable(s0, done), ProcTable: distsys.MakeMPCalProcTable(), PreAmble: func(distsys.ArchetypeInterface) {}},
			distsys.EnsureArchetypeRefParam("r", nested))
		if err := outer.Run(); err != nil {
			bad++
		}
		if i%100 == 0 {
			fmt.Printf("STRESS-PROGRESS %d\n", i)
		}
	}
	fmt.Printf("STRESS-DONE rounds=%d runs_with_error=%d\n", rounds, bad)
}

func stressAck(rounds int) map[string]any {
	self := os.Getenv("VERIF_SELF")
	if self == "" {
		self = os.Args[0]
	}
	cmd := exec.Command(self, "-test.run", "^TestStressAck$", "-test.v", "-test.count", "1", "-test.timeout", "300s")
	cmd.Env = append(os.Environ(), fmt.Sprintf("C17_STRESS_ACK=%d", rounds), "VERIF_OUT=", "VERIF_REPLAY=")
	b, err := cmd.CombinedOutput()
	txt := string(b)
	out := map[string]any{"rounds": rounds, "exit": fmt.Sprint(err), "note": "informational (sampling), never a verdict"}
	last := ""
	for _, l := range strings.Split(txt, "\n") {
		if strings.HasPrefix(l, "STRESS-") {
			last = l
		}
	}
	out["last"] = last
	if i := strings.Index(txt, "panic: "); i >= 0 {
		out["crashed"] = true
		out["panic"] = txt[i:min(len(txt), i+500)]
	} else {
		out["crashed"] = false
	}
	return out
}

// TestRaceBodies runs the same contexts free-running in real time (no scheduler, no parking):
// Run, 0-3 Stop callers at random small delays, an optional second Run; meant for `go test -race`.
func TestRaceBodies(t *testing.T) {
	rounds := 20
	fmt.Sscan(os.Getenv("VERIF_RACE_ROUNDS"), &rounds)
	rng := rand.New(rand.NewSource(1))
	n, stuck := 0, 0
	stuckBy := map[string]int{}
	cfgs := configs(false)
	budget := 120
	fmt.Sscan(os.Getenv("VERIF_RACE_BUDGET_S"), &budget)
	deadline := time.Now().Add(time.Duration(budget) * time.Second)
	for r := 0; r < rounds && time.Now().Before(deadline); r++ {
		for _, cfg := range cfgs {
			// (self-ending nested archetypes are left out here: with real 100 ms timeouts a starved machine reaches the
			// crash window of the nested-abort probe and the panic would end the whole race pass)
			if cfg.NoRun || cfg.Nested != "" || cfg.proto() || cfg.Late || (r%4 != 0 && cfg.Stops < 2) || (cfg.SecondRun && cfg.End == "loop") {
				continue
			}
			w := build(cfg, nil)
			var wg sync.WaitGroup
			wg.Add(1)
			go func() {
				defer wg.Done()
				safeRun(w.ctx)
				if cfg.SecondRun {
					safeRun(w.ctx)
				}
			}()
			for i := 0; i < cfg.Stops; i++ {
				d := time.Duration(rng.Intn(60)) * time.Microsecond
				wg.Add(1)
				go func() {
					defer wg.Done()
					time.Sleep(d)
					w.ctx.Stop()
				}()
			}
			fin := make(chan struct{})
			go func() { wg.Wait(); close(fin) }()
			select {
			case <-fin:
				n++
			case <-time.After(2 * time.Second):
				stuck++ // a lifecycle deadlock: judged by TestCheck, not here; the goroutines of this round are abandoned
				stuckBy[cfg.Name()]++
			}
			for _, nc := range w.nestedCtx {
				go nc.Stop()
			}
		}
	}
	fmt.Printf("RACE-PASS-DONE rounds=%d stuck=%d stuck_by_config=%v\n", n, stuck, stuckBy)
}

// Package c17: Run/Stop/Close lifecycle of an MPCalContext (property C17).  This file holds the
// configurations, the hand-built archetypes and resource mixes, and the oracle; c17_test.go holds
// the exploration.
package c17

import (
	"errors"
	"fmt"
	"strings"

	"github.com/DistCompiler/pgo/distsys"
	"github.com/DistCompiler/pgo/distsys/hashmap"
	"github.com/DistCompiler/pgo/distsys/resources"
	"github.com/DistCompiler/pgo/distsys/tla"
	"verif/mc/bubble"
)

// Config is one model-checked configuration.
type Config struct {
	End       string `json:"end"`        // done | loop | assert | errorlabel | reserr-body | reserr-precommit | body-panic
	Mix       string `json:"mix"`        // plain | closeerr | incmap | hashmap | nested | twopc | incmap-closeerr | hashmap-closeerr | sendchan
	Stops     int    `json:"stops"`      // number of concurrent Stop callers
	SecondRun bool   `json:"second_run"` // Run is called a second time after the first call returned
	NoRun     bool   `json:"no_run"`     // Run is never called
	// Mix = nested only: the nested archetype ends ON ITS OWN - "done0"/"done1" (reaches Done), "err0"/"err1"
	// (a section returns an error), "assert0"/"assert1" (assertion failure) - after serving 0 or 1 critical sections
	// of the outer archetype; "" = it serves until the outer context closes it
	Nested string `json:"nested,omitempty"`
	Skip1  bool   `json:"skip1,omitempty"` // the outer section L.s1 does not use the nested resource
	// Protocol end points (Mix = nested): the nested archetype ends (NestedKind: done | err | assert) at request
	// number NestedReq of the request/ack protocol - with NestedOn instead of answering it (after X_req, before
	// X_ack), otherwise right after answering it (after X_ack, before the next request).  The outer section L.s0
	// then reads and writes the nested resource (requests read, write, precommit, commit); with AbortOnce its
	// first attempt aborts after the write (requests read, write, abort, then read, write, precommit, commit).
	NestedReq  int    `json:"nested_req,omitempty"`
	NestedOn   bool   `json:"nested_on,omitempty"`
	NestedKind string `json:"nested_kind,omitempty"`
	AbortOnce  bool   `json:"abort_once,omitempty"`
	// Late: the late-answer schedule (run N times, not enumerated): the outer read of the nested resource times out
	// while the nested handler is held; the nested system then answers late and reaches Done; then the outer aborts.
	Late bool `json:"late,omitempty"`
	// Nested2 (Mix = nested): the nested system has TWO archetypes: the register, which takes every request at a
	// scheduling point of its own and is held while it looks at its store (it can be slow), and an idle archetype
	// that ends on its own (done | err | assert) at any point the scheduler chooses.
	Nested2 string `json:"nested2,omitempty"`
	// Ticker (Mix = nested): the nested system also has an archetype that commits a critical section of its own
	// whenever it is scheduled (a nested system that works by itself, like a CRDT that broadcasts periodically).
	Ticker bool `json:"ticker,omitempty"`
}

func (c Config) proto() bool { return c.NestedReq > 0 }

func (c Config) Name() string {
	n := fmt.Sprintf("%s/%s/stops=%d", c.End, c.Mix, c.Stops)
	if c.SecondRun {
		n += "/run2"
	}
	if c.NoRun {
		n += "/norun"
	}
	if c.Nested != "" {
		n += "/nested-ends=" + c.Nested
	}
	if c.Skip1 {
		n += "/s1-skips-r"
	}
	if c.proto() {
		at := "after-ack"
		if c.NestedOn {
			at = "instead-of-ack"
		}
		n += fmt.Sprintf("/nested-%s-%s-of-req%d", c.NestedKind, at, c.NestedReq)
	}
	if c.AbortOnce {
		n += "/s0-aborts-once"
	}
	if c.Nested2 != "" {
		n += "/two-nested-archetypes-idle-ends=" + c.Nested2
	}
	if c.Ticker {
		n += "/nested-ticker"
	}
	if c.Late {
		n += "/late-answer"
		if c.NestedKind == "alive" {
			n += "-nested-stays-alive"
		}
	}
	return n
}

var errBoom = errors.New("verif: injected resource error")
var errClose = errors.New("verif: injected Close error")
var errNested = errors.New("verif: the nested archetype failed")

const bodyPanicMsg = "verif: panic raised in the body of L.s1"

const keyNestedLeftRunning = "nested/stopped-before-run-leaves-nested-archetypes-running"

const loopGateCap = 4 // End=loop: Run is not granted a further section while a Stop caller has not started yet and this many sections were begun

// ---------------------------------------------------------------------------------------------

type world struct {
	cfg  Config
	s    *bubble.Sched
	log  *bubble.Log
	ctx  *distsys.MPCalContext
	R    *bubble.Thread
	stop []*bubble.Thread
	gate *bubble.Gate

	regs        []*bubble.Logging // every instrumented resource that must be closed exactly once when the started run ends
	rParking    int               // how many of them park the Run goroutine in Close
	nestedCtx   []*distsys.MPCalContext
	nestedEnd   *bubble.Thread // the nested archetype parked at its end label (self-ending nested configurations)
	nestedHold  *bubble.Thread // Late: the nested handler parked at its store
	nestedEnded string         // how the nested archetype really ended on its own ("" = it did not)
	idleEnd     *bubble.Thread // Nested2: the idle nested archetype parked at its end
	regGate     *bubble.Thread // Nested2: the register parked before it takes its next request
	ticker      *bubble.Thread // Ticker: the self-working nested archetype parked before its next section

	fault      *bubble.Faulty
	faultFired string // which failing construct really executed ("assert", "errorlabel")

	runErr    [2]error
	runPanic  [2]string
	runRet    [2]bool
	preambles int
}

func (w *world) logging(name string, park *bubble.Thread, inner distsys.ArchetypeResource) *bubble.Logging {
	l := &bubble.Logging{Inner: inner, Name: name, Who: "R", Log: w.log, ClosePark: park}
	w.regs = append(w.regs, l)
	if park == w.R && park != nil {
		w.rParking++
	}
	return l
}

func num(i int) tla.Value { return tla.MakeNumber(int32(i)) }

// registerArchetype is the tiny nested archetype: one register speaking the request/ack protocol
// of resources.NewNested over its `in` and `out` channels.
//
// ends = "" : it serves forever.  Otherwise it ends on its own after having served `after` commit
// requests (= critical sections of the outer archetype): "done" reaches its Done label (Run returns
// nil), "err" returns an error, "assert" fails an assertion.
//
// endReq > 0 (protocol end points): it ends at its endReq-th request instead - with endOn without
// answering that request, otherwise right after answering it.
func registerArchetype(ends string, after int, endReq int, endOn bool, onEnd func()) distsys.MPCalArchetype {
	served, reqs := 0, 0
	next := func() string {
		if endReq > 0 {
			if reqs >= endReq {
				return "Reg.end"
			}
			return "Reg.loop"
		}
		if ends != "" && served >= after {
			return "Reg.end"
		}
		return "Reg.loop"
	}
	tpe, value := tla.MakeString("tpe"), tla.MakeString("value")
	ack := func(s string, extra ...tla.RecordField) tla.Value {
		return tla.MakeRecord(append(extra, tla.RecordField{Key: tpe, Value: tla.MakeString(s)}))
	}
	loop := distsys.MPCalCriticalSection{Name: "Reg.loop", Body: func(iface distsys.ArchetypeInterface) error {
		in, err := iface.RequireArchetypeResourceRef("Reg.in")
		if err != nil {
			return err
		}
		out, err := iface.RequireArchetypeResourceRef("Reg.out")
		if err != nil {
			return err
		}
		store, err := iface.RequireArchetypeResourceRef("Reg.store")
		if err != nil {
			return err
		}
		msg, err := iface.Read(in, nil)
		if err != nil {
			return err
		}
		if endReq > 0 && endOn && reqs+1 == endReq {
			reqs++ // the request is consumed (this section commits), it is never answered
			return iface.Goto("Reg.end")
		}
		var resp tla.Value
		switch msg.ApplyFunction(tpe).AsString() {
		case "read_req":
			v, err := iface.Read(store, nil)
			if err != nil {
				return err
			}
			resp = ack("read_ack", tla.RecordField{Key: value, Value: v})
		case "write_req":
			if err := iface.Write(store, nil, msg.ApplyFunction(value)); err != nil {
				return err
			}
			resp = ack("write_ack")
		case "precommit_req":
			resp = ack("precommit_ack")
		case "commit_req":
			resp = ack("commit_ack")
			served++
		case "abort_req":
			resp = ack("abort_ack")
		default:
			return fmt.Errorf("register: unexpected request %v", msg)
		}
		if err := iface.Write(out, nil, resp); err != nil {
			return err
		}
		reqs++
		return iface.Goto(next())
	}}
	end := distsys.MPCalCriticalSection{Name: "Reg.end", Body: func(iface distsys.ArchetypeInterface) error {
		if onEnd != nil {
			onEnd() // ground truth: the nested archetype really ended on its own
		}
		switch ends {
		case "err":
			return errNested
		case "assert":
			return fmt.Errorf("%w: the nested archetype's own assertion", distsys.ErrAssertionFailed)
		}
		return distsys.ErrDone
	}}
	return distsys.MPCalArchetype{Name: "Reg", Label: next(), RequiredRefParams: []string{"Reg.in", "Reg.out", "Reg.store"},
		JumpTable: distsys.MakeMPCalJumpTable(loop, end), ProcTable: distsys.MakeMPCalProcTable(), PreAmble: func(distsys.ArchetypeInterface) {}}
}

// mainArchetype: sections L.s0 and L.s1 over the resources `a` and `r` (r is a plain variable,
// a map, or a nested-archetype resource, depending on the mix).
func (w *world) mainArchetype() distsys.MPCalArchetype {
	cfg := w.cfg
	isMap := strings.HasPrefix(cfg.Mix, "incmap") || strings.HasPrefix(cfg.Mix, "hashmap")
	touch := func(iface distsys.ArchetypeInterface, sec int) error {
		a, err := iface.RequireArchetypeResourceRef("L.a")
		if err != nil {
			return err
		}
		r, err := iface.RequireArchetypeResourceRef("L.r")
		if err != nil {
			return err
		}
		if _, err := iface.Read(a, nil); err != nil {
			return err
		}
		if err := iface.Write(a, nil, num(100+10*w.gate.Attempts+sec)); err != nil {
			return err
		}
		if sec == 1 && cfg.Skip1 {
			return nil
		}
		if sec == 0 && (cfg.proto() || cfg.Late || cfg.Nested2 != "") {
			if _, err := iface.Read(r, nil); err != nil {
				if cfg.Late && err == distsys.ErrCriticalSectionAborted {
					// the read timed out; the body takes a while before it gives up (a scheduling point): the
					// late answer of the nested system and its end fall between the timeout and the abort
					w.R.Park("after-timeout")
				}
				return err
			}
			if cfg.Late {
				return nil
			}
		}
		var idx []tla.Value
		if isMap {
			idx = []tla.Value{num(sec + 1)} // section 0 touches r[1], section 1 touches r[2]
		}
		return iface.Write(r, idx, num(200+10*w.gate.Attempts+sec))
	}
	s0Attempts := 0
	s0 := distsys.MPCalCriticalSection{Name: "L.s0", Body: func(iface distsys.ArchetypeInterface) error {
		s0Attempts++
		if err := touch(iface, 0); err != nil {
			return err
		}
		if cfg.AbortOnce && s0Attempts == 1 {
			return distsys.ErrCriticalSectionAborted // await FALSE after the write, once
		}
		return iface.Goto("L.s1")
	}}
	s1 := distsys.MPCalCriticalSection{Name: "L.s1", Body: func(iface distsys.ArchetypeInterface) error {
		if err := touch(iface, 1); err != nil {
			return err
		}
		switch cfg.End {
		case "loop":
			return iface.Goto("L.s0")
		case "assert":
			w.faultFired = "assert"
			return fmt.Errorf("%w: the harness's assertion in L.s1", distsys.ErrAssertionFailed)
		case "errorlabel":
			return iface.Goto("L.Error")
		case "body-panic":
			w.faultFired = "body-panic"
			panic(bodyPanicMsg) // as a TLA+ type error or an arithmetic overflow in generated code would
		}
		return iface.Goto("L.Done")
	}}
	errL := distsys.MPCalCriticalSection{Name: "L.Error", Body: func(distsys.ArchetypeInterface) error {
		w.faultFired = "errorlabel"
		return distsys.ErrProcedureFallthrough
	}}
	done := distsys.MPCalCriticalSection{Name: "L.Done", Body: func(distsys.ArchetypeInterface) error { return distsys.ErrDone }}
	return distsys.MPCalArchetype{Name: "L", Label: "L.s0", RequiredRefParams: []string{"L.a", "L.r"},
		JumpTable: distsys.MakeMPCalJumpTable(s0, s1, errL, done), ProcTable: distsys.MakeMPCalProcTable(),
		PreAmble: func(distsys.ArchetypeInterface) {
			w.preambles++
			w.log.Mark("R", "preamble", "")
		}}
}

// build creates the context and its resources.  With a scheduler: Run is thread R, gated, and every
// instrumented resource parks R in Close; without (race pass): everything free-running.
func build(cfg Config, s *bubble.Sched) *world {
	w := &world{cfg: cfg, s: s, log: &bubble.Log{}}
	var park *bubble.Thread
	if s != nil {
		w.R = s.NewThread("R")
		park = w.R
		w.gate = bubble.NewGate(w.R)
		w.gate.OnGrant = func(pc string, _ int) { w.log.Mark("R", "begin", pc) }
	} else {
		w.gate = &bubble.Gate{Inner: distsys.MakeRoundRobinFairnessCounter()}
	}
	local := func(v int) distsys.ArchetypeResource { return distsys.NewLocalArchetypeResource(num(v)) }

	// resource a: plain variable; in the failing-resource endings it refuses an operation of section 1
	var a distsys.ArchetypeResource = local(1)
	switch cfg.End {
	case "reserr-body":
		w.fault = &bubble.Faulty{Inner: a, FailOp: 3, Err: errBoom} // ops 1,2 = read+write of L.s0; op 3 = the read of L.s1
		a = w.fault
	case "reserr-precommit":
		w.fault = &bubble.Faulty{Inner: a, FailPreCommit: 2, Err: errBoom} // the PreCommit of L.s1
		a = w.fault
	}
	aPark := park
	if cfg.Mix == "nested" {
		// the order in which cleanupResources closes a and r is Go map order; only one of the two may differ
		// from a plain pause, so with the nested mix a's Close is instantaneous and only r's is a scheduling point
		aPark = nil
	}
	la := w.logging("a", aPark, a)
	if cfg.Mix == "closeerr" {
		la.CloseErr = errClose
	}
	if cfg.Mix == "closepanic" {
		la.Inner = panicClose{la.Inner}
	}
	mapElem := func(name string) *bubble.Logging {
		l := w.logging(name, park, local(3))
		if strings.HasSuffix(cfg.Mix, "-closeerr") && name == "r[1]" {
			l.CloseErr = errClose // the Close of the first (not the last) element reports an error
		}
		return l
	}

	var r distsys.ArchetypeResource
	switch cfg.Mix {
	case "sendchan":
		// a channel resource that cannot be rolled back once the section in flight has sent a value
		r = w.logging("r", park, resources.NewSingleOutputChan(make(chan tla.Value, 64)))
	case "plain", "closeerr", "closepanic":
		r = w.logging("r", park, local(2))
	case "twopc":
		// a 2PC resource without replicas (its pre-commit succeeds locally); its Close asserts that it is not
		// in the middle of a critical section
		r = w.logging("r", park, resources.VerifNewUnreplicatedTwoPC(num(2), "node"))
	case "incmap", "incmap-closeerr":
		m := resources.NewIncMap(func(index tla.Value) distsys.ArchetypeResource {
			return mapElem("r[" + index.String() + "]")
		})
		r = w.logging("r", nil, m) // the map itself: counted, its Close is not a parking point (its elements' are)
	case "hashmap", "hashmap-closeerr":
		hm := hashmap.New[distsys.ArchetypeResource]()
		for i := 1; i <= 3; i++ { // element 3 is configured but never touched
			hm.Set(num(i), mapElem(fmt.Sprintf("r[%d]", i)))
		}
		r = w.logging("r", nil, resources.NewHashMap(hm))
	case "nested":
		var ext *bubble.Thread
		selfEnding := cfg.Nested != "" || cfg.proto() || cfg.Late
		two := cfg.Nested2 != ""
		if s != nil && !selfEnding && !two {
			ext = s.External("N") // the inner resource's Close is a scheduling point only when the outer context closes the nested one
		}
		ends, after, endReq := "", 0, cfg.NestedReq
		var nestedOpts []distsys.MPCalContextConfigFn
		if two && s != nil {
			w.regGate = s.External("B") // the register takes every request at a scheduling point of its own
			nestedOpts = append(nestedOpts, distsys.SetFairnessCounter(bubble.NewGate(w.regGate)))
		}
		if selfEnding {
			switch {
			case cfg.Late && cfg.NestedKind == "alive":
				ends, endReq = "", 0 // it answers the (late) read and goes on serving
			case cfg.Late:
				ends, endReq = "done", 1 // it answers the (late) read and reaches Done
			case cfg.proto():
				ends = cfg.NestedKind
			default:
				ends, after = cfg.Nested[:len(cfg.Nested)-1], int(cfg.Nested[len(cfg.Nested)-1]-'0')
			}
			if s != nil {
				// The nested archetype's last step (its end label) is a scheduling point of its own, granted as
				// soon as it is reached (see execute): it ends at a quiescent point, after its last acknowledgement
				// has been consumed.  Without this the acknowledgement of the outer Commit races the close of
				// ctxHasStopped inside nestedArchetype.performRequest (a finding of its own, not explorable here).
				w.nestedEnd = s.External("Nend")
				g := bubble.NewGate(w.nestedEnd)
				g.ParkIf = func(pc string) bool { return pc == "Reg.end" }
				nestedOpts = append(nestedOpts, distsys.SetFairnessCounter(g))
			}
		}
		nested := resources.NewNested(func(sendCh chan<- tla.Value, receiveCh <-chan tla.Value) []*distsys.MPCalContext {
			store := &bubble.Logging{Inner: local(4), Name: "nested.store", Who: "N", Log: w.log, ClosePark: ext}
			w.regs = append(w.regs, store)
			var storeRes distsys.ArchetypeResource = store
			if (cfg.Late || two) && s != nil {
				// the nested handler is held (a scheduling point of its own) while it looks at its store
				w.nestedHold = s.External("N")
				storeRes = &bubble.Yielding{Inner: store, Th: w.nestedHold, Name: "nested.store"}
			}
			nctx := distsys.NewMPCalContext(tla.MakeString("reg"), registerArchetype(ends, after, endReq, cfg.NestedOn, func() { w.nestedEnded = ends }),
				distsys.EnsureArchetypeRefParam("in", resources.NewInputChan(receiveCh)),
				distsys.EnsureArchetypeRefParam("out", resources.NewOutputChan(sendCh)),
				distsys.EnsureArchetypeRefParam("store", storeRes),
				distsys.EnsureMPCalContextConfigs(nestedOpts...))
			w.nestedCtx = append(w.nestedCtx, nctx)
			if two {
				// the idle archetype: nothing but its end, at a scheduling point of its own
				kind := cfg.Nested2
				var idleOpts []distsys.MPCalContextConfigFn
				if s != nil {
					w.idleEnd = s.External("Aend")
					idleOpts = append(idleOpts, distsys.SetFairnessCounter(bubble.NewGate(w.idleEnd)))
				}
				idle := distsys.MPCalCriticalSection{Name: "Idle.end", Body: func(distsys.ArchetypeInterface) error {
					w.nestedEnded = kind
					switch kind {
					case "err":
						return errNested
					case "assert":
						return fmt.Errorf("%w: the idle nested archetype's own assertion", distsys.ErrAssertionFailed)
					}
					return distsys.ErrDone
				}}
				w.nestedCtx = append(w.nestedCtx, distsys.NewMPCalContext(tla.MakeString("idle"),
					distsys.MPCalArchetype{Name: "Idle", Label: "Idle.end", JumpTable: distsys.MakeMPCalJumpTable(idle),
						ProcTable: distsys.MakeMPCalProcTable(), PreAmble: func(distsys.ArchetypeInterface) {}},
					distsys.EnsureMPCalContextConfigs(idleOpts...)))
			}
			if cfg.Ticker {
				tstore := &bubble.Logging{Inner: local(5), Name: "ticker.store", Who: "T", Log: w.log}
				w.regs = append(w.regs, tstore)
				var tOpts []distsys.MPCalContextConfigFn
				if s != nil {
					w.ticker = s.External("T")
					tOpts = append(tOpts, distsys.SetFairnessCounter(bubble.NewGate(w.ticker)))
				}
				ticks := 0
				tick := distsys.MPCalCriticalSection{Name: "Tick.loop", Body: func(iface distsys.ArchetypeInterface) error {
					st, err := iface.RequireArchetypeResourceRef("Tick.store")
					if err != nil {
						return err
					}
					ticks++
					if err := iface.Write(st, nil, num(ticks)); err != nil {
						return err
					}
					return iface.Goto("Tick.loop")
				}}
				w.nestedCtx = append(w.nestedCtx, distsys.NewMPCalContext(tla.MakeString("tick"),
					distsys.MPCalArchetype{Name: "Tick", Label: "Tick.loop", RequiredRefParams: []string{"Tick.store"}, JumpTable: distsys.MakeMPCalJumpTable(tick),
						ProcTable: distsys.MakeMPCalProcTable(), PreAmble: func(distsys.ArchetypeInterface) {}},
					distsys.EnsureArchetypeRefParam("store", tstore),
					distsys.EnsureMPCalContextConfigs(tOpts...)))
			}
			return append([]*distsys.MPCalContext(nil), w.nestedCtx...)
		})
		lr := w.logging("r", park, nested)
		lr.ParkAfter = true // Run is parked again after the nested shutdown, i.e. right before its finaliser
		r = lr
	default:
		panic("unknown mix " + cfg.Mix)
	}
	w.ctx = distsys.NewMPCalContext(tla.MakeString("self"), w.mainArchetype(),
		distsys.SetFairnessCounter(w.gate),
		distsys.EnsureArchetypeRefParam("a", la),
		distsys.EnsureArchetypeRefParam("r", r))
	return w
}

// panicClose is a resource whose Close panics (extra configurations only, see C17_EXTRA).
type panicClose struct{ distsys.ArchetypeResource }

func (panicClose) Close() error { panic("verif: this resource's Close panics") }

// safeRun calls Run and turns a panic into a message.
func safeRun(ctx *distsys.MPCalContext) (err error, panicked string) {
	defer func() {
		if x := recover(); x != nil {
			panicked = fmt.Sprint(x)
		}
	}()
	return ctx.Run(), ""
}

// ---------------------------------------------------------------------------------------------
// oracle

// Failure is a property violation.
type Failure struct {
	Key  string
	What string
}

func (w *world) closesOf() map[string]int {
	out := map[string]int{}
	for _, l := range w.regs {
		out[l.Name] = l.Closes()
	}
	return out
}

// judgeSecondRun: a second Run call on a context whose run has ended must not run anything again.
// It is evaluated before everything else (also before deadlock verdicts): whatever a re-run causes
// is attributed to it.
func (w *world) judgeSecondRun(evs []bubble.Event) *Failure {
	var run2Call int64
	for _, e := range evs {
		if e.Op == "run-call" && e.S == "2" {
			run2Call = e.Seq
		}
	}
	if run2Call != 0 {
		var did []string
		seen := map[string]bool{}
		for _, e := range evs {
			if e.Seq < run2Call {
				continue
			}
			var d string
			switch e.Op {
			case "preamble":
				d = "the preamble ran again"
			case "begin":
				d = "critical section " + e.S + " was entered"
			case "commit":
				d = "a critical section committed"
			case "close":
				d = "resources were closed again"
			}
			if d != "" && !seen[d] {
				seen[d] = true
				did = append(did, d)
			}
		}
		p := w.runPanic[1]
		okPanic := p == "" || strings.Contains(p, "already been run")
		if len(did) > 0 || !okPanic {
			what := "a second Run call on a context whose run has ended runs again: " + strings.Join(did, ", ")
			if p != "" {
				what += "; it ends in panic: " + p
			}
			return &Failure{"second-run-runs-again", what}
		}
	}
	return nil
}

// judge checks one finished execution (no deadlock) against the property.
func (w *world) judge(evs []bubble.Event) *Failure {
	cfg := w.cfg
	seqOf := func(op, detail string) int64 {
		for _, e := range evs {
			if e.Op == op && (detail == "" || e.S == detail) {
				return e.Seq
			}
		}
		return 0
	}
	run1Call, run1Ret := seqOf("run-call", "1"), seqOf("run-ret", "1")
	run2Call := seqOf("run-call", "2")
	var firstStopRet int64
	stopCalls, stopRets := 0, 0
	for _, e := range evs {
		switch e.Op {
		case "stop-call":
			stopCalls++
		case "stop-ret":
			stopRets++
			if firstStopRet == 0 {
				firstStopRet = e.Seq
			}
		}
	}
	// (1) the second Run must not run anything (evaluated first: everything it causes is attributed to it)
	if f := w.judgeSecondRun(evs); f != nil {
		return f
	}
	// (2) every Stop call returned
	if stopRets != stopCalls {
		return &Failure{"stop-never-returns", fmt.Sprintf("%d Stop calls were made, %d returned although nothing is running any more", stopCalls, stopRets)}
	}
	// (3) no commit after a Stop returned
	if firstStopRet != 0 {
		for _, e := range evs {
			if e.Op == "commit" && e.Seq > firstStopRet && e.Who == "R" {
				return &Failure{"commit-after-stop-returned", fmt.Sprintf("a critical section committed (%s) after a Stop call had returned", e)}
			}
		}
	}
	// (3b) archetypes the stopped context owns: once the outer Stop calls and Run (if it was called) have returned,
	// no nested archetype commits critical sections any more (the one that was in flight is allowed)
	if cfg.Ticker && stopCalls > 0 && (cfg.NoRun || w.runRet[0]) {
		var quiet int64
		for _, e := range evs {
			if e.Op == "stop-ret" || (e.Op == "run-ret" && e.S == "1") {
				quiet = e.Seq
			}
		}
		n := 0
		for _, e := range evs {
			if e.Who == "T" && e.Op == "commit" && e.Seq > quiet {
				n++
			}
		}
		if n >= 2 {
			how := "Run returned without starting"
			if cfg.NoRun {
				how = "Run was never called"
			}
			return &Failure{keyNestedLeftRunning, fmt.Sprintf("the context was stopped before it ran (%s): Stop returned, and afterwards its nested archetype committed %d more critical sections; nothing is left that could stop it (Close is never called)", how, n)}
		}
	}
	if cfg.NoRun || run1Call == 0 {
		return nil
	}
	if !w.runRet[0] {
		return &Failure{"run-never-returns", "Run did not return"}
	}
	bodyPanicked := w.faultFired == "body-panic"
	if bodyPanicked && !strings.Contains(w.runPanic[0], bodyPanicMsg) {
		return &Failure{"run-result", fmt.Sprintf("the body of a section panicked but Run did not let that panic out: it returned %v / panicked with %q", w.runErr[0], w.runPanic[0])}
	}
	if w.runPanic[0] != "" && !bodyPanicked {
		return &Failure{"run-panics", "Run panicked: " + w.runPanic[0]}
	}
	started := false
	for _, e := range evs {
		if e.Op == "preamble" && e.Seq > run1Call && e.Seq < run1Ret {
			started = true
		}
	}
	err := w.runErr[0]
	if !started {
		if err != nil {
			return &Failure{"run-result", fmt.Sprintf("Run was stopped before it started but returned %v", err)}
		}
		return nil
	}
	// (4) every configured resource and every realised element closed exactly once by the time Run returned, and never again
	for _, pass := range []string{"when Run returned", "at the end of the execution"} {
		for _, l := range w.regs {
			n := 0
			if pass == "when Run returned" {
				for _, e := range evs {
					if e.Op == "closed" && e.Res == l.Name && e.Seq < run1Ret {
						n++
					}
				}
			} else {
				n = l.Closes()
			}
			if n != 1 && !(run2Call != 0 && pass != "when Run returned") {
				key := "not-closed"
				if n > 1 {
					key = "closed-twice"
				}
				return &Failure{key, fmt.Sprintf("resource %s was closed %d times %s (the run had started; all resources: %v)", l.Name, n, pass, w.closesOf())}
			}
		}
	}
	// (5) whatever ended the run - a Stop (label boundary) or an error (the section in flight is rolled back first) -
	// no resource is closed with operations of an unfinished attempt ("Close will be called when the archetype stops
	// running (as a result, it's not in the middle of a critical section)")
	endedByStop := err == nil && seqOf("begin", "L.Done") == 0 && !bodyPanicked
	{
		pending := map[string]int{}
		for _, e := range evs {
			if e.Who != "R" || e.Seq > run1Ret {
				continue
			}
			switch e.Op {
			case "read", "write":
				if e.Err == "" {
					pending[e.Res]++
				}
			case "commit", "abort":
				pending[e.Res] = 0
			case "close":
				if pending[e.Res] > 0 && endedByStop {
					return &Failure{"stop-not-at-label-boundary", fmt.Sprintf("Run returned nil after a Stop but resource %s was closed in the middle of a critical section (%d operations neither committed nor aborted)", e.Res, pending[e.Res])}
				}
				if pending[e.Res] > 0 {
					return &Failure{"closed-mid-section", fmt.Sprintf("the run ended with %v and resource %s was closed in the middle of the critical section in flight (%d operations neither committed nor aborted)", err, e.Res, pending[e.Res])}
				}
			}
		}
	}
	if bodyPanicked {
		return nil // the panic went out of Run (checked above); there is no returned error to classify
	}
	// (6) Run's result tells the ways of ending apart
	isA, isF, isB, isC := errors.Is(err, distsys.ErrAssertionFailed), errors.Is(err, distsys.ErrProcedureFallthrough), errors.Is(err, errBoom), errors.Is(err, errClose)
	wantA, wantF := w.faultFired == "assert", w.faultFired == "errorlabel"
	wantB := w.fault != nil && w.fault.Fired > 0
	wantC := false // some resource whose Close reports an error was closed
	for _, l := range w.regs {
		if l.CloseErr != nil && l.Closes() > 0 {
			wantC = true
		}
	}
	if cfg.Nested != "" || cfg.proto() || cfg.Late || cfg.Nested2 != "" {
		// the outer archetype used the nested resource after the nested archetype had ended: Run must report that
		// resource error (resources.ErrNestedArchetypeStopped), whatever else it reports
		touchedStopped := false
		for _, e := range evs {
			if e.Who == "R" && e.Res == "r" && e.Seq < run1Ret && strings.Contains(e.Err, resources.ErrNestedArchetypeStopped.Error()) {
				touchedStopped = true // (a body operation or the pre-commit of the section)
			}
		}
		nestedFailed := w.nestedEnded == "err" || w.nestedEnded == "assert" // (what really happened, not what was configured)
		switch {
		case touchedStopped && !errors.Is(err, resources.ErrNestedArchetypeStopped):
			return &Failure{"run-result", fmt.Sprintf("the outer archetype used the nested resource after the nested archetype had ended, but Run returned %v instead of reporting ErrNestedArchetypeStopped", err)}
		case nestedFailed && err == nil:
			return &Failure{"run-result", "the nested archetype failed but the outer Run, which had started, returned nil"}
		case !nestedFailed && !touchedStopped && err != nil:
			return &Failure{"run-result", fmt.Sprintf("nothing failed in this run but Run returned %v", err)}
		}
		return nil
	}
	if isA != wantA || isF != wantF || isB != wantB || isC != wantC || (err != nil && !(wantA || wantF || wantB || wantC)) {
		return &Failure{"run-result", fmt.Sprintf("Run returned %v; expected assertion=%v fallthrough=%v resource-error=%v close-error=%v (what really happened in the run)", err, wantA, wantF, wantB, wantC)}
	}
	return nil
}

func renderEvents(evs []bubble.Event) []string {
	var out []string
	for _, e := range evs {
		out = append(out, e.String())
	}
	return out
}

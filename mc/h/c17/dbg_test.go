package c17

import (
	"fmt"
	"os"
	"strings"
	"testing"

	"verif/mc/explore"
)

type zero struct{}

func (zero) Choose(int, string) int  { return 0 }
func (zero) Deviate(int, string) int { return 0 }

func TestDbgOne(t *testing.T) {
	want := os.Getenv("C17_ONLY")
	for _, cfg := range configs(false) {
		if cfg.Name() != want {
			continue
		}
		var ch []int
		for _, f := range strings.Fields(os.Getenv("C17_CHOICES")) {
			var n int
			fmt.Sscan(f, &n)
			ch = append(ch, n)
		}
		v, out, pts := explore.ReplayOnce(func(c *explore.Ctx) {
			r := execute(t, cfg, c, os.Getenv("C17_STRICT") != "")
			fmt.Printf("fail=%v suspect=%v discard=%q capped=%v outcome=%q\n", r.fail, r.suspect, r.discard, r.capped, r.outcome)
			if l, ok := r.detail.([]string); ok {
				for _, e := range l {
					fmt.Println("   ", e)
				}
			} else {
				fmt.Printf("detail: %+v\n", r.detail)
			}
		}, ch, 1<<20, nil)
		fmt.Println(v, out, explore.RenderPoints(pts))
	}
}

func TestDbgCfg(t *testing.T) {
	want := os.Getenv("C17_ONLY")
	for _, cfg := range configs(false) {
		if !strings.Contains(cfg.Name(), want) {
			continue
		}
		shown := 0
		st := explore.Run(func(c *explore.Ctx) {
			r := execute(t, cfg, c, false)
			if (r.capped || r.discard != "") && shown < 1 {
				shown++
				fmt.Printf("choices=%v fail=%v discard=%q capped=%v\n", c.Choices(), r.fail, r.discard, r.capped)
				if l, ok := r.detail.([]string); ok {
					for _, e := range l {
						fmt.Println("   ", e)
					}
				}
			}
			c.Outcome(r.outcome)
		}, explore.Options{Workers: 1, MaxExec: 5000})
		fmt.Println(cfg.Name(), st.Executions, st.Outcomes)
	}
}

//go:debug randseednop=0

// C10: nondeterministic choices are in range and no enabled alternative is starved.
// Exhaustive, direct drive of distsys.MakeRoundRobinFairnessCounter().
package c10

import (
	"encoding/json"
	"errors"
	"fmt"
	"math/rand"
	"sort"
	"strings"
	"testing"
	"time"

	"github.com/DistCompiler/pgo/distsys"
	"github.com/DistCompiler/pgo/distsys/tla"
	nde "github.com/DistCompiler/pgo/test/files/general/NonDetExploration.tla.gotests"
	"verif/mc/hres"
)

// A script decides, per attempt, which choice points the section consults.
// kind:
//
//	stable  - the same points (ids p0..pd-1, Bounds) on every attempt
//	nested  - point j+1 is consulted only if the answer at point j is in On[j] (same ids every time it is consulted)
//	change  - stable with Bounds for the first K attempts, then stable with Bounds2 / ids suffixed from level J
//	pc      - stable, but the label changes after K attempts (to pc2) and the counter must restart cleanly
//	reshape - stable with Bounds for the first K attempts; from then on the first J points are consulted
//	          unchanged and are followed by a tail of *different* points (new ids, bounds Bounds2[J:]) that may
//	          be shorter or longer than the old tail (a non-prefix-stable change of the consulted choice points),
//	          or by no tail at all (the deeper points are simply not reached any more)
//	churn   - the first J points (Bounds[:J]) are consulted unchanged on every attempt; the tail below them
//	          alternates every Every attempts between Bounds[J:] and Tail2 (other bounds, or the same bounds under
//	          other ids): a prefix-stable change that keeps re-creating the nested records
//	skip    - stable, but every Every-th attempt is rolled back before it consults any choice point
//	tree    - an either at point 0 whose alternatives consult *different* chains of points (ids per arm, bounds
//	          Arms[a]): every switch of alternative replaces the consulted tail
type script struct {
	Kind    string   `json:"kind"`
	Bounds  []uint   `json:"bounds"`
	On      [][]int  `json:"on,omitempty"`
	K       int      `json:"k,omitempty"`
	J       int      `json:"j,omitempty"`
	Bounds2 []uint   `json:"bounds2,omitempty"`
	NewID   bool     `json:"new_id,omitempty"`
	Tail2   []uint   `json:"tail2,omitempty"` // churn: the alternative tail
	Every   int      `json:"every,omitempty"` // churn: the tail is swapped every Every attempts; skip: every Every-th attempt consults nothing
	Arms    [][]uint `json:"arms,omitempty"`  // tree: one chain of choice points (own ids) per alternative of the either at point 0
	Seed    int64    `json:"seed"`
}

func prod(b []uint) int {
	p := 1
	for _, x := range b {
		p *= int(x)
	}
	return p
}

type failure struct{ key, what string }

// runScript drives a fresh real counter and checks the oracle; returns the start tuple observed.
func runScript(s script) (start string, f *failure) {
	defer func() {
		if x := recover(); x != nil {
			f = &failure{"panic/" + s.Kind, fmt.Sprintf("counter panicked: %v", x)}
		}
	}()
	if s.Kind == "tree" {
		return runTree(s)
	}
	if s.Kind == "churn" {
		return runChurn(s)
	}
	if s.Kind == "skip" {
		return runSkip(s)
	}
	rand.Seed(s.Seed)
	cnt := distsys.MakeRoundRobinFairnessCounter()
	P := prod(s.Bounds)
	attempts := 3*P + 1
	if s.Kind == "nested" {
		attempts = 5*P + 1
	}
	var hist []string // leaf reached per attempt
	phase2 := -1
	P2 := 0
	pc := "A.l"
	for a := 0; a < attempts+extra(s); a++ {
		bounds := s.Bounds
		ids := make([]string, len(bounds))
		for i := range ids {
			ids[i] = fmt.Sprintf("A.l.%d", i)
		}
		if s.Kind == "reshape" && a >= s.K {
			if phase2 < 0 {
				phase2 = a
			}
			bounds = s.Bounds2
			ids = make([]string, len(bounds))
			for i := range ids {
				ids[i] = fmt.Sprintf("A.l.%d", i)
				if i >= s.J {
					ids[i] = fmt.Sprintf("A.l.new%d", i)
				}
			}
			P2 = prod(bounds)
		}
		if (s.Kind == "change" || s.Kind == "pc") && a >= s.K {
			if phase2 < 0 {
				phase2 = a
			}
			if s.Kind == "pc" {
				pc = "A.l2"
			}
			bounds = s.Bounds2
			ids = make([]string, len(bounds))
			for i := range ids {
				ids[i] = fmt.Sprintf("A.l.%d", i)
				if s.NewID && i >= s.J {
					ids[i] += "'"
				}
			}
			P2 = prod(bounds)
		}
		cnt.BeginCriticalSection(pc)
		var leaf []string
		for i := range bounds {
			v := cnt.NextFairnessCounter(ids[i], bounds[i])
			if v >= bounds[i] {
				return start, &failure{"range/" + s.Kind, fmt.Sprintf("attempt %d point %s: answer %d not below bound %d", a, ids[i], v, bounds[i])}
			}
			leaf = append(leaf, fmt.Sprint(v))
			if s.Kind == "nested" && i < len(s.On) {
				in := false
				for _, x := range s.On[i] {
					if uint(x) == v {
						in = true
					}
				}
				if !in {
					break
				}
			}
		}
		l := strings.Join(leaf, ",")
		if a == 0 {
			start = l
		}
		hist = append(hist, l)
	}
	// oracle
	switch s.Kind {
	case "stable":
		if f := windows(hist, 0, P, allCombos(s.Bounds), true, s.Kind); f != nil {
			return start, f
		}
	case "nested":
		// the inner digits only exist once their point was consulted for the first time, so the
		// stated bound for nested points is 2*prod(bounds) attempts (one period to build, one to cover)
		if f := windows(hist, 0, 2*P, leaves(s), false, s.Kind); f != nil {
			return start, f
		}
	case "change", "pc", "reshape":
		if s.K >= P {
			if f := windows(hist[:s.K], 0, P, allCombos(s.Bounds), true, s.Kind+"/before"); f != nil {
				return start, f
			}
		}
		if f := windows(hist, phase2, P2, allCombos(s.Bounds2), true, s.Kind+"/after"); f != nil {
			return start, f
		}
	}
	return start, nil
}

// runTree: point 0 is an either over len(Arms) alternatives; alternative a then consults the chain of points
// A.l.arm<a>.<i> with bounds Arms[a].  One full exploration takes period = sum over arms of prod(Arms[a])
// attempts; a window may start in the middle of an arm's block, so the stated bound is 2*period: every leaf
// (alternative, combination) must be reached in every window of 2*period consecutive attempts.
func runTree(s script) (start string, f *failure) {
	rand.Seed(s.Seed)
	cnt := distsys.MakeRoundRobinFairnessCounter()
	period := 0
	var want []string
	for a, b := range s.Arms {
		period += prod(b)
		for _, c := range allCombos(b) {
			want = append(want, fmt.Sprintf("%d|%s", a, c))
		}
	}
	var hist []string
	for at := 0; at < 6*period+1; at++ {
		cnt.BeginCriticalSection("A.l")
		n := uint(len(s.Arms))
		arm := cnt.NextFairnessCounter("A.l.0", n)
		if arm >= n {
			return start, &failure{"range/tree", fmt.Sprintf("attempt %d: either answered %d of %d", at, arm, n)}
		}
		var leaf []string
		for i, b := range s.Arms[arm] {
			id := fmt.Sprintf("A.l.arm%d.%d", arm, i)
			v := cnt.NextFairnessCounter(id, b)
			if v >= b {
				return start, &failure{"range/tree", fmt.Sprintf("attempt %d point %s: answer %d not below bound %d", at, id, v, b)}
			}
			leaf = append(leaf, fmt.Sprint(v))
		}
		l := fmt.Sprintf("%d|%s", arm, strings.Join(leaf, ","))
		if at == 0 {
			start = l
		}
		hist = append(hist, l)
	}
	return start, windows(hist, 0, 2*period, want, false, "tree")
}

// runChurn: see the script kinds.  The stable prefix must not be starved by the churn below it: every combination
// of the prefix points has to be returned in every window of 2 * prod(prefix) * max(prod(tail), prod(tail2)) attempts.
func runChurn(s script) (start string, f *failure) {
	rand.Seed(s.Seed)
	cnt := distsys.MakeRoundRobinFairnessCounter()
	pre, tailA, tailB := s.Bounds[:s.J], s.Bounds[s.J:], s.Tail2
	mt := prod(tailA)
	if prod(tailB) > mt {
		mt = prod(tailB)
	}
	W := 2 * prod(pre) * mt
	var hist []string
	for at := 0; at < 4*W+1; at++ {
		cnt.BeginCriticalSection("A.l")
		var leaf []string
		for i, b := range pre {
			v := cnt.NextFairnessCounter(fmt.Sprintf("A.l.%d", i), b)
			if v >= b {
				return start, &failure{"range/churn", fmt.Sprintf("attempt %d point %d: answer %d not below bound %d", at, i, v, b)}
			}
			leaf = append(leaf, fmt.Sprint(v))
		}
		tail, tag := tailA, "a"
		if (at/s.Every)%2 == 1 {
			tail, tag = tailB, "b"
			if s.NewID {
				tag = "a" // same ids, only the bounds differ
			}
		}
		for i, b := range tail {
			id := fmt.Sprintf("A.l.%d", s.J+i)
			if tag == "b" {
				id += "'"
			}
			if v := cnt.NextFairnessCounter(id, b); v >= b {
				return start, &failure{"range/churn", fmt.Sprintf("attempt %d point %s: answer %d not below bound %d", at, id, v, b)}
			}
		}
		l := strings.Join(leaf, ",")
		if at == 0 {
			start = l
		}
		hist = append(hist, l)
	}
	return start, windows(hist, 0, W, allCombos(pre), false, "churn")
}

// runSkip: every Every-th attempt is rolled back before it consults anything; the other attempts must still see
// every combination exactly once in every window of prod(bounds) consulting attempts.
func runSkip(s script) (start string, f *failure) {
	rand.Seed(s.Seed)
	cnt := distsys.MakeRoundRobinFairnessCounter()
	P := prod(s.Bounds)
	var hist []string
	for at := 0; len(hist) < 3*P+1; at++ {
		cnt.BeginCriticalSection("A.l")
		if at%s.Every == s.Every-1 {
			continue // e.g. the section's first read was not ready
		}
		var leaf []string
		for i, b := range s.Bounds {
			v := cnt.NextFairnessCounter(fmt.Sprintf("A.l.%d", i), b)
			if v >= b {
				return start, &failure{"range/skip", fmt.Sprintf("attempt %d point %d: answer %d not below bound %d", at, i, v, b)}
			}
			leaf = append(leaf, fmt.Sprint(v))
		}
		l := strings.Join(leaf, ",")
		if len(hist) == 0 {
			start = l
		}
		hist = append(hist, l)
	}
	return start, windows(hist, 0, P, allCombos(s.Bounds), true, "skip")
}

func extra(s script) int {
	if s.Kind == "change" || s.Kind == "pc" || s.Kind == "reshape" {
		return 3 * prod(s.Bounds2)
	}
	return 0
}

func allCombos(b []uint) []string {
	out := []string{""}
	for _, n := range b {
		var nx []string
		for _, p := range out {
			for v := uint(0); v < n; v++ {
				if p == "" {
					nx = append(nx, fmt.Sprint(v))
				} else {
					nx = append(nx, p+","+fmt.Sprint(v))
				}
			}
		}
		out = nx
	}
	return out
}

func leaves(s script) []string {
	var out []string
	var rec func(i int, pre []string)
	rec = func(i int, pre []string) {
		if i == len(s.Bounds) {
			out = append(out, strings.Join(pre, ","))
			return
		}
		for v := uint(0); v < s.Bounds[i]; v++ {
			p := append(append([]string{}, pre...), fmt.Sprint(v))
			cont := true
			if i < len(s.On) {
				cont = false
				for _, x := range s.On[i] {
					if uint(x) == v {
						cont = true
					}
				}
			}
			if cont {
				rec(i+1, p)
			} else {
				out = append(out, strings.Join(p, ","))
			}
		}
	}
	rec(0, nil)
	return out
}

// windows checks every window of w consecutive attempts starting at or after from:
// it must contain every wanted leaf (exactly once if exact).
func windows(hist []string, from, w int, want []string, exact bool, kind string) *failure {
	for s := from; s+w <= len(hist); s++ {
		cnt := map[string]int{}
		for _, l := range hist[s : s+w] {
			cnt[l]++
		}
		for _, l := range want {
			if cnt[l] == 0 {
				return &failure{"starved/" + kind, fmt.Sprintf("attempts %d..%d never take alternative (%s); taken: %v", s, s+w-1, l, hist[s:s+w])}
			}
			if exact && cnt[l] != 1 {
				return &failure{"repeat/" + kind, fmt.Sprintf("attempts %d..%d take combination (%s) %d times; taken: %v", s, s+w-1, l, cnt[l], hist[s:s+w])}
			}
		}
	}
	return nil
}

func tuples(vals []uint, d int) [][]uint {
	out := [][]uint{{}}
	for i := 0; i < d; i++ {
		var nx [][]uint
		for _, p := range out {
			for _, v := range vals {
				nx = append(nx, append(append([]uint{}, p...), v))
			}
		}
		out = nx
	}
	return out
}

func subsets(n int) [][]int { // non-empty proper subsets of 0..n-1
	var out [][]int
	for m := 1; m < (1<<n)-1; m++ {
		var s []int
		for i := 0; i < n; i++ {
			if m&(1<<i) != 0 {
				s = append(s, i)
			}
		}
		out = append(out, s)
	}
	return out
}

func genScripts(thorough bool) []script {
	vals := []uint{1, 2, 3}
	maxD := 3
	if thorough {
		vals = []uint{1, 2, 3, 4}
		maxD = 4
	}
	var out []script
	for d := 1; d <= maxD; d++ {
		for _, b := range tuples(vals, d) {
			out = append(out, script{Kind: "stable", Bounds: b})
		}
	}
	// nested: depth 2 and 3
	for d := 2; d <= 3; d++ {
		for _, b := range tuples(vals[:3], d) {
			if b[0] < 2 {
				continue
			}
			for _, on0 := range subsets(int(b[0])) {
				if d == 2 {
					out = append(out, script{Kind: "nested", Bounds: b, On: [][]int{on0}})
					continue
				}
				if b[1] < 2 {
					continue
				}
				for _, on1 := range subsets(int(b[1])) {
					out = append(out, script{Kind: "nested", Bounds: b, On: [][]int{on0, on1}})
				}
			}
		}
	}
	// change of bound or id at level J after K attempts; pc change after K attempts
	dmax := 2
	if thorough {
		dmax = 3
	}
	for d := 1; d <= dmax; d++ {
		for _, b := range tuples(vals[:3], d) {
			P := prod(b)
			for k := 1; k <= P+1; k++ {
				for j := 0; j < d; j++ {
					for _, nb := range vals[:3] {
						b2 := append([]uint{}, b...)
						if nb != b[j] {
							b2[j] = nb
							out = append(out, script{Kind: "change", Bounds: b, Bounds2: b2, K: k, J: j})
						} else {
							out = append(out, script{Kind: "change", Bounds: b, Bounds2: b2, K: k, J: j, NewID: true})
						}
					}
				}
				for _, b2 := range tuples(vals[:3], d) {
					out = append(out, script{Kind: "pc", Bounds: b, Bounds2: b2, K: k})
				}
				// reshape: keep the first j points, replace the rest by 1..2 new points (shorter, equal or longer)
				for j := 0; j < d; j++ {
					for tl := 1; tl <= 2; tl++ {
						for _, tail := range tuples(vals[:3], tl) {
							b2 := append(append([]uint{}, b[:j]...), tail...)
							out = append(out, script{Kind: "reshape", Bounds: b, Bounds2: b2, K: k, J: j})
						}
					}
					if j >= 1 {
						// pure truncation: the points from level j on are not reached any more
						out = append(out, script{Kind: "reshape", Bounds: b, Bounds2: append([]uint{}, b[:j]...), K: k, J: j})
					}
				}
			}
		}
	}
	// churn: a stable prefix over a tail that keeps changing (bounds or ids), swapped every 1..3 attempts
	for d := 2; d <= 3; d++ {
		for _, b := range tuples(vals[:3], d) {
			for j := 1; j < d; j++ {
				if prod(b[:j]) < 2 {
					continue
				}
				for every := 1; every <= 3; every++ {
					for _, t2 := range tuples(vals[:3], d-j) {
						same := true
						for i := range t2 {
							if t2[i] != b[j+i] {
								same = false
							}
						}
						if same {
							out = append(out, script{Kind: "churn", Bounds: b, J: j, Tail2: t2, Every: every}) // same bounds, other ids
						} else {
							out = append(out, script{Kind: "churn", Bounds: b, J: j, Tail2: t2, Every: every, NewID: true})
							out = append(out, script{Kind: "churn", Bounds: b, J: j, Tail2: t2, Every: every})
						}
					}
				}
			}
		}
	}
	// skip: every 2nd / 3rd attempt consults nothing
	for d := 1; d <= 2; d++ {
		for _, b := range tuples(vals[:3], d) {
			if prod(b) < 2 {
				continue
			}
			for every := 2; every <= 3; every++ {
				out = append(out, script{Kind: "skip", Bounds: b, Every: every})
			}
		}
	}
	// tree: an either over 2 (thorough: also 3) alternatives with their own chains of 1..2 points
	var chains [][]uint
	for tl := 1; tl <= 2; tl++ {
		chains = append(chains, tuples(vals[:3], tl)...)
	}
	for _, a0 := range chains {
		for _, a1 := range chains {
			out = append(out, script{Kind: "tree", Arms: [][]uint{a0, a1}})
			if thorough && prod(a0) > 1 {
				for _, a2 := range chains[:3] {
					out = append(out, script{Kind: "tree", Arms: [][]uint{a0, a1, a2}})
				}
			}
		}
	}
	return out
}

// countingCounter wraps the real counter and counts attempts per label.
type countingCounter struct {
	inner    distsys.FairnessCounter
	attempts map[string]int
	order    []string
	bad      string
}

func (c *countingCounter) BeginCriticalSection(pc string) {
	if c.attempts[pc] == 0 {
		c.order = append(c.order, pc)
	}
	c.attempts[pc]++
	c.inner.BeginCriticalSection(pc)
}
func (c *countingCounter) NextFairnessCounter(id string, ceiling uint) uint {
	v := c.inner.NextFairnessCounter(id, ceiling)
	if v >= ceiling && c.bad == "" {
		c.bad = fmt.Sprintf("%s: %d >= %d", id, v, ceiling)
	}
	return v
}

// generated archetypes: each label must commit within the product of its bounds.
func runGenerated(seed int64) (string, *failure) {
	rand.Seed(seed)
	var sig []string
	for _, a := range []struct {
		arch  distsys.MPCalArchetype
		bound int
	}{{nde.ACoverage, 4}, {nde.ACoincidence, 16}} {
		cc := &countingCounter{inner: distsys.MakeRoundRobinFairnessCounter(), attempts: map[string]int{}}
		ctx := distsys.NewMPCalContext(tla.MakeString("self"), a.arch, distsys.SetFairnessCounter(cc))
		done := make(chan error, 1)
		go func() {
			defer func() {
				if x := recover(); x != nil {
					done <- fmt.Errorf("panic: %v", x)
				}
			}()
			done <- ctx.Run()
		}()
		select {
		case err := <-done:
			if err != nil {
				return "", &failure{"generated/" + a.arch.Name + "/error", fmt.Sprintf("Run returned %v", err)}
			}
		case <-time.After(60 * time.Second):
			return "", &failure{"generated/" + a.arch.Name + "/hang", "archetype did not terminate within 60 s (starved alternative)"}
		}
		if cc.bad != "" {
			return "", &failure{"generated/" + a.arch.Name + "/range", cc.bad}
		}
		for _, pc := range cc.order {
			if strings.HasSuffix(pc, ".Done") {
				continue
			}
			if cc.attempts[pc] > a.bound {
				return "", &failure{"generated/" + a.arch.Name + "/starved", fmt.Sprintf("label %s needed %d attempts, more than the product of its bounds (%d)", pc, cc.attempts[pc], a.bound)}
			}
			sig = append(sig, fmt.Sprintf("%s:%d", pc, cc.attempts[pc]))
		}
	}
	return strings.Join(sig, " "), nil
}

type replay struct {
	Script *script `json:"script,omitempty"`
	Gen    *int64  `json:"generated_seed,omitempty"`
}

func TestCheck(t *testing.T) {
	hres.Main(t, func(env hres.Env) *hres.Result {
		res := &hres.Result{Property: "C10", Level: "exploration"}
		if env.Replay != nil {
			var r replay
			if err := json.Unmarshal(env.Replay, &r); err != nil {
				t.Fatal(err)
			}
			var f *failure
			if r.Script != nil {
				_, f = runScript(*r.Script)
			} else if r.Gen != nil {
				_, f = runGenerated(*r.Gen)
			} else {
				t.Fatal(errors.New("empty replay"))
			}
			res.Coverage = map[string]any{"evaluations": 1, "distinct_nontrivial": 0, "rule": "replay", "samples": []any{r}}
			if f != nil {
				res.Violations = append(res.Violations, hres.Viol{Key: f.key, What: f.what, Replay: r})
			}
			return res
		}
		scripts := genScripts(env.Thorough())
		evals, startsSeen, incomplete := 0, 0, 0
		outcomes := map[string]bool{}
		viol := map[string]hres.Viol{}
		byKind := map[string]int{}
		var samples []any
		for _, s := range scripts {
			need := prod(s.Bounds) // every start tuple of the first attempt
			if s.Kind == "nested" {
				need = len(leaves(s))
			}
			maxSeed := int64(4000)
			if s.Kind == "tree" || s.Kind == "churn" {
				// the counters of an arm are re-created (at fresh random values) on every switch of alternative:
				// the whole run depends on the seed, not only on the first attempt; a fixed set of seeds is explored
				need, maxSeed = 1<<30, 48
				if env.Thorough() {
					maxSeed = 400
				}
			}
			seen := map[string]bool{}
			for seed := int64(0); seed < maxSeed && len(seen) < need; seed++ {
				s.Seed = seed
				start, f := runScript(s)
				if f != nil {
					if _, ok := viol[f.key]; !ok {
						sc := s
						viol[f.key] = hres.Viol{Key: f.key, What: f.what, Replay: replay{Script: &sc}}
					}
					seen[start] = true
					continue
				}
				if !seen[start] || s.Kind == "tree" || s.Kind == "churn" {
					seen[start] = true
					evals++
					byKind[s.Kind]++
					outcomes[fmt.Sprintf("%s|%v|%v|%v|%v|%v|%d|%d|%d|%s", s.Kind, s.Bounds, s.On, s.Bounds2, s.Arms, s.Tail2, s.Every, s.K, s.J, start)] = true
					if len(samples) < 4 && prod(s.Bounds) > 3 && seed > 0 {
						sc := s
						samples = append(samples, map[string]any{"script": sc, "first_attempt": start})
					}
				}
			}
			if len(seen) < need && s.Kind != "tree" && s.Kind != "churn" {
				incomplete++
			}
			startsSeen += len(seen)
		}
		// generated archetypes under the real counter
		genOutcomes := map[string]bool{}
		nGen := 200
		if env.Thorough() {
			nGen = 3000
		}
		for seed := int64(0); seed < int64(nGen); seed++ {
			sig, f := runGenerated(seed)
			evals++
			if f != nil {
				if _, ok := viol[f.key]; !ok {
					sd := seed
					viol[f.key] = hres.Viol{Key: f.key, What: f.what, Replay: replay{Gen: &sd}}
				}
				continue
			}
			genOutcomes[sig] = true
		}
		keys := make([]string, 0, len(viol))
		for k := range viol {
			keys = append(keys, k)
		}
		sort.Strings(keys)
		for _, k := range keys {
			res.Violations = append(res.Violations, viol[k])
		}
		samples = append(samples, map[string]any{"generated": "NonDetExploration.ACoverage+ACoincidence", "attempts_per_label_signatures": len(genOutcomes)})
		res.Coverage = map[string]any{
			"evaluations":                         evals,
			"distinct_nontrivial":                 len(outcomes) + len(genOutcomes),
			"rule":                                "every script (stable / nested / bound-or-id change at level J after K attempts / label change after K attempts) over bounds {1,2,3}^d (thorough {1..4}^d, d<=4) x every start tuple of the real counter (found by enumerating math/rand seeds until all were produced); each evaluation is 3*prod(bounds)+1 attempts with every window of prod(bounds) attempts checked (nested: every leaf within every window of 2*prod(bounds)); distinct = distinct (script,start tuple) pairs plus distinct attempts-per-label signatures of the generated NonDetExploration archetypes",
			"samples":                             samples,
			"scripts":                             len(scripts),
			"scripts_by_kind":                     byKind,
			"start_tuples_covered":                startsSeen,
			"scripts_with_uncovered_start_tuples": incomplete,
			"generated_archetype_runs":            nGen,
			"exhaustive":                          incomplete == 0,
			"not_asserted":                        "nesting where the inner choice point has a different id per outer answer (the counter re-randomises the inner digit on every switch, so only probabilistic fairness holds); AComplex (its own comment says the assertion holds with high probability only)",
		}
		res.Assumptions = []string{"math/rand top-level generator is reseeded per run (go:debug randseednop=0) so each (script,seed) is reproducible", "the counter is driven through the public FairnessCounter interface exactly as MPCalContext.Run and generated code do"}
		return res
	})
}

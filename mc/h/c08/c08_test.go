// C08: the generated Raft KV store keeps the Raft safety invariants.
package c08

import (
	"encoding/json"
	"fmt"
	"os"
	"strings"
	"testing"
	"time"

	"verif/mc/hres"
	ss "verif/mc/specstep"
	"verif/mc/sys/raftkvs"
)

type runCfg struct {
	raftkvs.Config
	MaxDev int
	// Seed: "" = search from the initial state; "elect" = from the state after server 1 won the
	// first election; "commit-lagging" = additionally one client request committed on a bare
	// majority that excludes the highest-numbered server (whose AppendEntries is still in flight).
	Seed string
	// Delays > 0: a delay-bounded phase (specstep/delay.go) follows the breadth-first phase
	Delays int
}

func build(cfg runCfg) (*ss.System, error) { return raftkvs.Build(cfg.Config, cfg.Seed, nil) }

type replay struct {
	Cfg  runCfg    `json:"config"`
	Path []ss.Move `json:"path"`
}

func TestCheck(t *testing.T) {
	hres.Main(t, func(env hres.Env) *hres.Result {
		res := &hres.Result{Property: "C08", Level: "model_checking"}
		if env.Replay != nil {
			var r replay
			if err := json.Unmarshal(env.Replay, &r); err != nil {
				t.Fatal(err)
			}
			sys, err := build(r.Cfg)
			if err != nil {
				t.Fatal(err)
			}
			states, last, _ := sys.Replay(r.Path)
			res.Coverage = map[string]any{"states": len(states), "transitions": len(r.Path), "traces_validated_against_impl": 0, "samples": sys.Render(r.Path)}
			for i, s := range states {
				for _, inv := range r.Cfg.Invariants() {
					if k, w := inv(s); k != "" {
						res.Violations = append(res.Violations, hres.Viol{Key: k, What: w, Replay: r})
						return res
					}
				}
				if i+1 < len(states) {
					a := ss.Attempt{Kind: ss.Commit, Next: states[i+1]}
					if k, w := r.Cfg.LeaderAppendOnly(s, r.Path[i].P, &a); k != "" {
						res.Violations = append(res.Violations, hres.Viol{Key: k, What: w, Replay: r})
						return res
					}
				}
			}
			if last != nil && last.Kind == ss.Failed {
				res.Violations = append(res.Violations, hres.Viol{Key: "error-edge", What: last.Err, Replay: r})
			}
			return res
		}
		put := [][]raftkvs.Req{{{Type: "put", Key: "k", Value: "v"}}}
		put2 := [][]raftkvs.Req{{{Type: "put", Key: "k", Value: "v1"}, {Type: "put", Key: "k", Value: "v2"}}}
		cfgs := []runCfg{
			{raftkvs.Config{NumServers: 2, NumClients: 1, MaxTerm: 3, MaxCommitIndex: 3, FIFO: true, Budgeted: true, Requests: put}, 1, "", 0},
			{raftkvs.Config{NumServers: 2, NumClients: 1, MaxTerm: 4, MaxCommitIndex: 3, FIFO: true, Budgeted: true, Requests: put, ExploreFail: true, MaxNodeFail: 1}, 1, "elect", 2},
			{raftkvs.Config{NumServers: 3, NumClients: 1, MaxTerm: 4, MaxCommitIndex: 3, FIFO: true, Budgeted: true, Requests: put}, 1, "commit-lagging", 3},
			{raftkvs.Config{NumServers: 3, NumClients: 1, MaxTerm: 4, MaxCommitIndex: 4, FIFO: true, Budgeted: true, Requests: put2}, 1, "commit2-lagging", 3},
			// Figure 8 of the Raft paper: an old-term entry sits on a majority under a newer-term leader
			{raftkvs.Config{NumServers: 3, NumClients: 2, MaxTerm: 7, MaxCommitIndex: 4, FIFO: true, Budgeted: true, DevKinds: []string{"election"},
				Requests: [][]raftkvs.Req{{{Type: "put", Key: "k", Value: "x"}}, {{Type: "put", Key: "k", Value: "y"}}}}, 1, "figure8", 2},
		}
		if env.Thorough() {
			cfgs = append(cfgs,
				runCfg{raftkvs.Config{NumServers: 3, NumClients: 1, MaxTerm: 3, MaxCommitIndex: 3, FIFO: true, Budgeted: true, Requests: put, ExploreFail: true, MaxNodeFail: 1}, 1, "", 3},
				runCfg{raftkvs.Config{NumServers: 3, NumClients: 1, MaxTerm: 4, MaxCommitIndex: 3, FIFO: true, Budgeted: true, Requests: put, ExploreFail: true, MaxNodeFail: 1}, 2, "commit-lagging", 4},
				runCfg{raftkvs.Config{NumServers: 2, NumClients: 1, MaxTerm: 4, MaxCommitIndex: 3, FIFO: true, Budgeted: true, Requests: put, ExploreFail: true, MaxNodeFail: 1}, 2, "", 3})
		}
		// each instance gets an equal share of the time budget; a capped instance reports the depth it completed
		var share time.Duration
		if j := os.Getenv("VERIF_C08_CFGS"); j != "" { // exploration aid: override the instance list
			cfgs = nil
			if err := json.Unmarshal([]byte(j), &cfgs); err != nil {
				t.Fatal(err)
			}
		}
		var states, trans, validated int64
		exhaustive := true
		per := []any{}
		seen := map[string]bool{}
		var samples []any
		for ci, cfg := range cfgs {
			// every instance gets an equal share of what is left (early finishers leave their time to the rest)
			share = time.Until(env.Deadline) * 8 / 10 / time.Duration(len(cfgs)-ci)
			if share < 5*time.Second {
				share = 5 * time.Second
			}
			sys, err := build(cfg)
			if err != nil {
				// the scripted prefix is not an execution of this tree: the scenario does not apply
				per = append(per, map[string]any{"config": cfg, "seed_not_applicable": err.Error()})
				exhaustive = false
				continue
			}
			r := sys.BFS(ss.BFSOptions{Workers: env.Workers, Deadline: time.Now().Add(map[bool]time.Duration{true: share / 2, false: share}[cfg.Delays > 0]), Constraint: cfg.Constraint, MaxDev: cfg.MaxDev, Invariants: cfg.Invariants(),
				EdgeInvs: []func(*ss.State, int, *ss.Attempt) (string, string){cfg.LeaderAppendOnly}, FailedIsViolation: false /* assertion failures are outside this property's statement: counted in the evidence (error_edges), not judged */})
			if r.MemoMismatch > 0 {
				t.Fatalf("transition memo disagrees with the real code (harness bug or nondeterministic step): %s", r.MemoFirstMismatch)
			}
			var dstat any
			if cfg.Delays > 0 {
				agg := map[string]any{}
				var nodes, dist, steps int64
				depth, exh := 0, true
				orders := sys.Orders()
				for oi, ord := range orders {
					d := sys.DelayBounded(ss.DelayOptions{MaxDelays: cfg.Delays, MaxDev: cfg.MaxDev, MaxDepth: 400, Order: ord, Workers: env.Workers,
						Deadline: time.Now().Add(share / 2 / time.Duration(len(orders)-oi)), Constraint: cfg.Constraint, Invariants: cfg.Invariants(),
						EdgeInvs: []func(*ss.State, int, *ss.Attempt) (string, string){cfg.LeaderAppendOnly}, FailedIsViolation: false /* assertion failures are outside this property's statement: counted in the evidence (error_edges), not judged */})
					if d.MemoMismatch > 0 {
						t.Fatalf("transition memo disagrees with the real code: %s", d.MemoFirstMismatch)
					}
					nodes, dist, steps = nodes+d.States, dist+d.DistinctStates, steps+d.Transitions
					depth, exh = max(depth, d.Depth), exh && d.Exhaustive
					r.Violations = append(r.Violations, d.Violations...)
				}
				trans += steps
				agg["delays"], agg["nodes"], agg["distinct_states"], agg["steps"], agg["depth"], agg["exhaustive_within_bounds"] = cfg.Delays, nodes, dist, steps, depth, exh
				dstat = agg
			}
			states += r.States
			trans += r.Transitions
			exhaustive = exhaustive && r.Exhaustive
			nConf := 0
			confCap, confDeadline := 2000, time.Now().Add(share/5)
			if env.Thorough() {
				confCap *= 20
			}
			for _, leaf := range r.Leaves {
				if nConf >= confCap || time.Now().After(confDeadline) {
					break
				}
				path := r.PathTo(leaf)
				if d := sys.Conform(path); d != "" {
					if !seen["conformance"] {
						seen["conformance"] = true
						res.Violations = append(res.Violations, hres.Viol{Key: "conformance/injected-vs-live", What: d, Replay: replay{cfg, path}})
					}
					break
				}
				nConf++
			}
			validated += int64(nConf)
			per = append(per, map[string]any{"config": cfg, "states": r.States, "transitions": r.Transitions, "depth": r.Depth, "disabled_attempts": r.Disabled, "error_edges": r.ErrorEdges, "delay_bounded": dstat, "outside_constraint": r.NotExpanded, "states_per_deviation_round": r.DevRounds, "over_budget_transitions": r.OverBudget, "memo_hits": r.MemoHits, "memo_misses_executed_on_real_code": r.MemoMisses, "memo_hits_rechecked_on_real_code": r.MemoChecks, "memo_mismatches": r.MemoMismatch, "unconfirmed_violations_dropped": r.Unconfirmed, "tree_leaves": len(r.Leaves), "leaf_paths_replayed_live": nConf, "exhaustive": r.Exhaustive, "cap": r.Cap, "wall_s": r.WallS})
			for _, v := range r.Violations {
				if !seen[v.Key] {
					seen[v.Key] = true
					res.Violations = append(res.Violations, hres.Viol{Key: v.Key, What: v.What + " | " + strings.Join(v.Trace, " ; "), Replay: replay{cfg, v.Path}})
				}
			}
			if len(r.Leaves) > 0 && len(samples) < 2 {
				samples = append(samples, map[string]any{"config": fmt.Sprint(cfg), "trace": sys.Render(r.PathTo(r.Leaves[len(r.Leaves)/2]))})
			}
		}
		res.Assumptions = []string{"one label = one atomic step (state injection into a fresh real MPCalContext per step): the runtime gives this isolation only while no section combines a shared variable with an asynchronous mailbox commit (see the C16 known finding replicatedkv/assertion/get-overtaken-by-disconnect; raftkvs bootstrap has the same combination)", "links are FIFO per sender (the spec's ReliableFIFOLink written in Go, validated against TLC by C02): the relaxed mailboxes provide this only while no write timeout fires (see the C06 known finding relaxed/reordered-after-write-timeout)", "environment deviations (failure-detector answers, timeouts, netLen) are budgeted as described in DESIGN 8.5/8.9", "128-bit state hashing (collision probability negligible)"}
		res.Coverage = map[string]any{"states": states, "transitions": trans, "traces_validated_against_impl": validated, "samples": samples, "configs": per, "exhaustive": exhaustive}
		return res
	})
}
